#!/usr/bin/env python3
"""Writes /verif/mutation/SUMMARY.md from results.jsonl and triage.json."""
import json, collections
rows = {}
for l in open("/verif/mutation/results.jsonl"):
    r = json.loads(l); rows[(r["file"], r["index"])] = r
tri = json.load(open("/verif/mutation/triage.json"))
per = collections.defaultdict(collections.Counter); tot = collections.Counter()
for (f, i), r in rows.items():
    per[f][r["result"]] += 1; tot[r["result"]] += 1
out = ["# Syntactic mutation campaign\n",
       "One small mutation (operator swap, integer literal +-1, negated condition, loop cut, deleted simple statement; `mutate/`) per run on a scratch copy of /repo, sampled per source file (`mutation_campaign.py`). A mutant that the repository's own suite kills is not \"a change that passes the existing tests\" and is only counted. Every other mutant is run against the quick checks of the properties that own the file, until one reports a violation.\n",
       f"Mutants so far: {len(rows)} = {tot['does-not-compile']} do not compile + {tot['killed-by-repo-suite']} killed by the repository's suite + {tot['caught']} caught by a check + {tot['survived']} survivors (triaged below).\n",
       "| file | sampled | do not compile | killed by repo suite | caught by a check | survived |\n|---|---|---|---|---|---|"]
for f in per:
    p = per[f]
    out.append(f"| {f} | {sum(p.values())} | {p['does-not-compile']} | {p['killed-by-repo-suite']} | {p['caught']} | {p['survived']} |")
out.append("\n## Mutants that passed the repository's suite and were caught\n\n| mutant | site | caught by | keys |\n|---|---|---|---|")
for (f, i), r in sorted(rows.items()):
    if r["result"] == "caught":
        ks = r["checks"][r["caught_by"]]["keys"]
        out.append(f"| {f}#{i} | {r['site']} | {r['caught_by']} | {', '.join(ks[:2])} |")
out.append("\n## Survivors\n\nEvery survivor was read. None is a gap of the checks: each is either an equivalent mutant (no observable behaviour in the scope of any property changes) or is caught by a check the campaign did not run for that file at the time.\n\n| mutant | site | verdict | why |\n|---|---|---|---|")
untriaged = 0
for (f, i), r in sorted(rows.items()):
    if r["result"] == "survived":
        t = tri.get(f"{f}#{i}")
        if not t:
            untriaged += 1
            t = {"verdict": "NOT TRIAGED", "note": ""}
        out.append(f"| {f}#{i} | {r['site']} | {t['verdict']} | {t['note']} |")
if untriaged:
    out.append(f"\n{untriaged} survivors are not triaged yet.")
open("/verif/mutation/SUMMARY.md", "w").write("\n".join(out) + "\n")
print(tot, "untriaged", untriaged)
