#!/usr/bin/env python3
"""Regenerates /verif/MANIFEST.json from the table below (single source of truth)."""
import json, subprocess

COMMON_NOTE = ("Held-on-what-was-observed only: the oracle saw the executions listed in the evidence file, nothing more. "
               "Trusted base: Go runtime/compiler, crypto/sha256, crypto/sha512, crypto/hmac, x/crypto/ripemd160, math/big, math/bits, "
               "the harness's reference implementations (self-tested against published vectors at the start of every run).")

# id -> (technique, level text, level note extra, design section)
CHECKS = {
 "C01": ("reference-model monitor over seeded+directed address constructions (independent CashAddr/Base58Check encoders), panic monitor",
         "Every hash kind x net x rendering is pushed through the real constructors, EncodeAddress and DecodeAddress and compared with an independent specification encoder; "
         "directed hashes cover every single-bit pattern and every leading-zero length, random hashes the rest. Exploration, not proof: 2^160 hashes cannot be enumerated, "
         "but the code has no data-dependent branches beyond the bit packing that the directed cases cover.",
         "", "3 C01"),
 "C03": ("hook-observed syndrome map of the implementation's own polyMod/bech32Polymod + meet-in-the-middle enumeration of all low-weight patterns on the measured map, confirmed through the real decoders; black-box exhaustive weight 1-2 and seeded weight<=5 substitution monitors; near-miss (partial-mask) patterns",
         "The space of substitution patterns (about 1e14 per length) collapses through GF(2)-affinity of the remainder function, which the monitor validates at run time on the implementation itself, to a syndrome space that is enumerated completely (every pattern of weight <=5 on a 112-symbol window, which contains all eight standard lengths; bech32: weight <=4 on 88 symbols). "
         "The acceptance comparison, which the hook does not see, is exercised black-box with exhaustive weight-1/2 substitutions, seeded heavier ones and patterns chosen to pass weakened comparisons.",
         "Affinity of the remainder function is validated by sampling, not proven; every candidate the enumeration finds is re-decided by the real decoder before it is reported.", "3 C03"),
}

NOT_YET = "check not built yet in this revision (work in progress; will be claimed once its monitor is silent on the unchanged tree)"

ALL = ["C%02d" % i for i in range(1, 21)]

def main():
    hooks_commit = "ad2749b"
    checks = []
    for pid in ALL:
        if pid not in CHECKS:
            continue
        tech, text, note, ref = CHECKS[pid]
        checks.append({
            "property_id": pid,
            "quick_cmd": f"./check {pid} quick",
            "thorough_cmd": f"./check {pid} thorough",
            "evidence_file": f"/verif/evidence/{pid}.json",
            "replay_cmd_template": f"./check {pid} --replay {{path}}",
            "engine": "vcheck",
            "level_claimed": {"category": "exploration", "text": text, "design_ref": "DESIGN.md section " + ref},
            "level_note": (note + " " if note else "") + COMMON_NOTE,
            "technique": "runtime monitoring: " + tech,
        })
    na = [{"property_id": p, "reason": NOT_YET} for p in ALL if p not in CHECKS]
    m = {
        "version": 1,
        "setup_cmd": "./check --build",
        "hooks": {
            "guard": "verif (Go build tag)",
            "enable": "go build -tags verif (the harness module in /verif/harness replaces github.com/gcash/bchutil with /repo, so every check compiles /repo's working tree)",
            "baseline_off_cmd": "cd /repo && GOFLAGS=-mod=mod GOPROXY=off GOSUMDB=off GOTOOLCHAIN=local go test -json -vet=off -count=1 -timeout 25m ./...",
            "source_commits": [hooks_commit],
            "add_only": True,
        },
        "engines": [{
            "name": "vcheck",
            "path": "/verif/harness",
            "serves_properties": [c["property_id"] for c in checks],
            "kind_free_text": "Go driver (supervisor + crash-isolated child processes) running deterministic case streams against /repo's working tree; oracles are independent reference models, history checkers (porcupine), the Go race detector and resource monitors",
        }],
        "checks": checks,
        "not_applicable": na,
        "notes": "Exit codes: 0 held on everything explored, 1 violation (VIOLATION line), 2 harness/build error (never a verdict). VERIF_SEED selects the seed of the random streams. Known findings: /verif/known_findings.json.",
    }
    if not na:
        del m["not_applicable"]
    json.dump(m, open("/verif/MANIFEST.json", "w"), indent=1)
    print("wrote MANIFEST.json:", len(checks), "checks,", len(na), "not claimed")

main()
