#!/usr/bin/env python3
"""Regenerates /verif/MANIFEST.json from the table below (single source of truth)."""
import json, os

COMMON_NOTE = ("Held-on-what-was-observed only: the oracle saw the executions listed in the evidence file, nothing more. "
               "Trusted base: Go runtime/compiler, crypto/sha256, crypto/sha512, crypto/hmac, x/crypto/ripemd160, math/big, math/bits, "
               "the harness's reference implementations (self-tested against published vectors at the start of every run). "
               "Streams named *-386 run the same monitors in the GOARCH=386 build of driver and library (32-bit int).")

# id -> (technique, level text, level note extra, design section)
CHECKS = {
 "C01": ("reference-model monitor over seeded+directed address constructions (independent CashAddr/Base58Check encoders), panic monitor",
         "Every hash kind x net x rendering is pushed through the real constructors, EncodeAddress and DecodeAddress and compared with an independent specification encoder; "
         "directed hashes cover every single-bit pattern and every leading-zero length, random hashes the rest. Exploration, not proof: 2^160 hashes cannot be enumerated, "
         "but the code has no data-dependent branches beyond the bit packing that the directed cases cover.",
         "", "3 C01"),
 "C02": ("canonical-form oracle over generated strings (valid reference checksums over all 256 version bytes x lengths 0..65 x paddings x prefixes x case renderings; Unicode confusables; Base58Check over all versions/lengths; public-key hex over every format byte)",
         "Every string the real decoder accepts is re-encoded and compared with the input modulo the documented normalisations, and network membership is checked over all six nets; the generator builds strings that pass the checksum layer so the inner validation is what is exercised. "
         "The version-byte x length x padding grid is enumerated completely, the rest is seeded.",
         "The chaincfg.Register collision clause (ErrAddressCollision) is not exercised; membership is asserted over the six built-in nets.", "3 C02"),
 "C03": ("hook-observed syndrome map of the implementation's own polyMod/bech32Polymod + meet-in-the-middle enumeration of all low-weight patterns on the measured map, confirmed through the real decoders; black-box exhaustive weight 1-2 and seeded weight<=5 substitution monitors; near-miss (partial-mask) patterns",
         "The space of substitution patterns (about 1e14 per length) collapses through GF(2)-affinity of the remainder function, which the monitor validates at run time on the implementation itself, to a syndrome space that is enumerated completely (every pattern of weight <=5 on a 112-symbol window, which contains all eight standard lengths; bech32: weight <=4 on 88 symbols). "
         "The acceptance comparison, which the hook does not see, is exercised black-box with exhaustive weight-1/2 substitutions, seeded heavier ones and patterns chosen to pass weakened comparisons.",
         "Affinity of the remainder function is validated by sampling, not proven; every candidate the enumeration finds is re-decided by the real decoder before it is reported.", "3 C03"),
 "C04": ("reference-model monitor: independent BIP32 (own secp256k1 on math/big, HMAC-SHA512) compared after every derivation step (paths, derivation trees with re-read and neutered keys, precomputed derivations whose IL has an all-zero/all-one 32-bit limb); error-clause monitor",
         "Each derivation step of seeded and directed paths (all seed lengths 16..64, boundary indices, chains to depth 255, all nets) is compared field by field with an independent BIP32 implementation that is self-tested on the BIP's vectors; the rare leading-zero-scalar class that hid the historic bug is counted and the clause is inconclusive if too few were seen.",
         "ErrInvalidChild / ErrUnusableSeed (probability 2^-127) cannot be reached by any constructible input.", "3 C04"),
 "C05": ("accept-iff-reference monitor: strict reference extended-key validator vs NewKeyFromString over single-bit/byte corruptions and recomputed-checksum families; round-trip monitor over derived keys",
         "Every generated string is classified by an independent validator (82 bytes, sha256d checksum, scalar in [1,n-1] or compressed point on the curve); the parser must accept exactly those and re-serialise them identically. All 656 single-bit flips and the boundary scalars/points are directed, the rest seeded.",
         "", "3 C05"),
 "C06": ("accept-iff-reference monitor for WIF strings + round-trip monitor over scalars x nets x compression flags with independent public-key computation",
         "Validity is decided by an independent Base58Check decoder and the 37/38-byte rule; accepted strings must re-encode to themselves; for scalars incl. 1..31 leading zero bytes the decoded key, flag, network identity and public-key serialisation are compared with the reference curve arithmetic.",
         "", "3 C06"),
 "C07": ("reference-model monitors (own Base58/Base58Check, BIP173 reference) incl. exhaustive small strings; before/after canary over argument memory with spare capacity; Go race detector as purity probe (same argument memory handed to concurrent calls)",
         "Byte strings of length <=2 and strings of length <=3 over alphabet plus foreign bytes are enumerated completely, the rest is seeded up to 512 bytes; acceptance is compared with independent references; side effects on argument memory are observed value-based (canary over every capacity) and value-independently (race detector).",
         "For (fromBits,toBits) other than 8<->5 only the regrouping rule stated in the property is asserted.", "3 C07"),
 "C08": ("panic monitor, crash-isolated child processes with RLIMIT_AS (process-fatal errors), hang watchdog with isolated confirmation, per-call heap-allocation monitor with MemProfile attribution, CPU-time growth ladders; structure-aware hostile input generators",
         "Every parser entry point is driven with inputs that pass its outer validation layer (valid checksums solved for, valid framing) and carry degenerate inner content, one monitored call at a time in child processes, so panics, fatal errors, hangs and allocation by claimed counts are each observed and attributed to a call site.",
         "Known finding (not alarmed): bchd's wire decoder allocates by declared counts (dependency). 'Proportional' and 'quadratic' are decided by the stated numeric bounds.", "3 C08"),
 "C09": ("history checker against a bit-exact BIP37 model (independent MurmurHash3) after every step; sizing-limit monitor over hostile (elements, fprate)",
         "Seeded operation histories on filters of every size class, hash count and tweak are compared byte for byte with the model after every step, and every item inserted since the last reload is required to match (own counter); MurmurHash3 is compared for every length 0..64.",
         "Filter size 0 belongs to C08.", "3 C09"),
 "C10": ("exact per-transaction model of MatchTxAndUpdate (result and filter bytes) + block-level sandwich oracle E <= reported <= matches(final filter) over permutations of generated spend graphs; three scanner APIs compared; event monitor on hooked insertions (bloom.VerifSetAddHook): every item a scan inserts is an outpoint the flag prescribes, and every in-block spender of an inserted outpoint is reported",
         "The per-transaction oracle is bit exact (bloom false positives are reproduced, not excluded); the block-level oracle is sound under any false-positive rate because the lower bound uses exact sets and the upper bound the final real filter; the insertion-event monitor covers relevance that arises through bloom false positives during the scan. txscript.PushedData / GetScriptClass define 'data push' and script class.",
         "", "3 C10"),
 "C11": ("reference-model monitor: independent BIP37 partial-merkle-tree builder and extractor vs both proof builders and the decoder; all 2^n subsets for n<=12; sibling ids constructed to agree in 32 or 64 bits",
         "For n<=12 every subset is enumerated; every n<=65 with structured subsets; seeded n up to 3000; filter-induced subsets must give identical messages from both builders.",
         "", "3 C11"),
 "C12": ("accept-iff-reference monitor: independent extractor with exactly the statement's rejection rules vs ExtractMatches over a small-scope enumeration and mutations of honest proofs",
         "Small scopes (count, hash list over a 3-hash alphabet, all flag strings up to 2 bytes) are enumerated by index arithmetic; honest proofs are mutated in every way the statement lists (incl. CVE-2012-2459).",
         "", "3 C12"),
 "C13": ("differential monitor of the four query strategies against each other and against membership, with hostile queries constructed from an independent SipHash/GCS value reference (low-32-bit collisions, neighbours, boundaries, clustered members, digest-colliding filter pairs, 140000-call histories)",
         "Agreement needs no reference (the right-hand side is the real single-item query); the reference is used to construct queries that collide with members in 32 bits once N*M >= 2^32, which random queries would not find.",
         "", "3 C13"),
 "C14": ("reference-model monitor: independent SipHash-2-4 + Golomb-Rice encoder vs filter bytes; serialisation round trips; hook-observed fastReduction vs math/bits.Mul64; reference block-filter entry set",
         "Filter bytes are compared bit for bit with an independent encoder over all P in 0..32 and N*M on both sides of 2^32; the 128-bit reduction is observed directly through the verif hook on directed carry cases.",
         "", "3 C14"),
 "C15": ("history + executable model (reference BIP32) observing every live key after every step; reflection-read erasure monitor; Go race detector as cross-key aliasing probe",
         "Seeded histories over a pool of keys apply every operation of the quantifier; after each step every live key's serialisation and derivation behaviour is compared with the model; zeroing is observed on the captured backing arrays; aliasing between different key objects is also observed value-independently by the race detector.",
         "", "3 C15"),
 "C16": ("history + model monitor: accessor call sequences on blocks/txs from four constructors vs fresh computation from the wire message (own sha256d), pointer identity, index and range clauses",
         "Seeded blocks (0..256 txs, with token data) x four constructors x seeded accessor histories with hostile indices; every result is recomputed independently; only blocks that wire alone round-trips are in the domain.",
         "", "3 C16"),
 "C17": ("exact-arithmetic oracle (math/big) for rounding, symmetry, monotonicity, round trip, unit conversion and decimal text over directed boundary values and stratified random samples, on amd64 and in the GOARCH=386 build; concurrent first use in fresh processes under the race detector",
         "The floating-point clauses are decided exactly with big.Float/big.Rat; directed values sit on every rounding boundary (k+0.5 neighbours, 2^52..2^53, powers of two and ten, the cap).",
         "Exhaustive coverage of 2.1e15 amounts is out of reach; the check is directed + stratified sampling.", "3 C17"),
 "C18": ("reference BIP69 comparators + permutation/multiset monitor, exhaustive over all sequences of <=6 inputs / <=4 outputs on small key alphabets with ties; seeded up to 300",
         "The small-scope stream enumerates every ordering incl. ties in hash, index, amount and script-prefix relations; order among key-equal elements is not asserted against the reference, but Sort and InPlaceSort must serialise identically.",
         "", "3 C18"),
 "C19": ("clause-by-clause oracle over every successful selection (exhaustive small scope + seeded lists) and a model-based history checker for CoinSet totals",
         "All lists of <=3 coins over small value/confirmation alphabets with all parameter combinations are enumerated; seeded lists up to 12 coins; every tie order the unstable sort may produce is accepted.",
         "", "3 C19"),
 "C20": ("Go race detector over concurrent workloads (reports read from the GORACE log, harness control race required to fire) + porcupine linearizability checking of recorded histories against a bit-exact sequential BIP37 model, final filter bytes observed at quiescence; conservation monitor on add-only runs; concurrent GCS query monitor",
         "k in {2..8} goroutines x GOMAXPROCS in {1,2,4,16} with seeded perturbation produce tens of thousands of short histories on one tiny shared filter (so every pair of operations conflicts); each history is decided by porcupine; 16-32 goroutine stress runs are decided by the race detector alone.",
         "'All interleavings' and the static all-paths clause are out of reach: schedules are observed, not enumerated.", "3 C20"),
}

NOT_YET = "check not built yet in this revision (work in progress; will be claimed once its monitor is silent on the unchanged tree)"

ALL = ["C%02d" % i for i in range(1, 21)]

def implemented():
    ids = set()
    for f in os.listdir("/verif/harness/props"):
        if f.startswith("c") and f[1:3].isdigit() and f.endswith(".go") and len(f) == 6:
            ids.add("C" + f[1:3])
    return ids

def main():
    hooks_commits = ["ad2749b", "fbe1eff"]
    have = implemented()
    checks = []
    for pid in ALL:
        if pid not in CHECKS or pid not in have:
            continue
        tech, text, note, ref = CHECKS[pid]
        checks.append({
            "property_id": pid,
            "quick_cmd": f"./check {pid} quick",
            "thorough_cmd": f"./check {pid} thorough",
            "evidence_file": f"/verif/evidence/{pid}.json",
            "replay_cmd_template": f"./check {pid} --replay {{path}}",
            "engine": "vcheck",
            "level_claimed": {"category": "exploration", "text": text, "design_ref": "DESIGN.md section " + ref},
            "level_note": (note + " " if note else "") + COMMON_NOTE,
            "technique": "runtime monitoring: " + tech,
        })
    claimed = {c["property_id"] for c in checks}
    na = [{"property_id": p, "reason": NOT_YET} for p in ALL if p not in claimed]
    m = {
        "version": 1,
        "setup_cmd": "./check --build",
        "hooks": {
            "guard": "verif (Go build tag)",
            "enable": "go build -tags verif (the harness module in /verif/harness replaces github.com/gcash/bchutil with /repo, so every check compiles /repo's working tree)",
            "baseline_off_cmd": "cd /repo && GOFLAGS=-mod=mod GOPROXY=off GOSUMDB=off GOTOOLCHAIN=local go test -json -vet=off -count=1 -timeout 25m ./...",
            "source_commits": hooks_commits,
            "add_only": True,
        },
        "engines": [{
            "name": "vcheck",
            "path": "/verif/harness",
            "serves_properties": [c["property_id"] for c in checks],
            "kind_free_text": "Go driver (supervisor + crash-isolated child processes) running deterministic case streams against /repo's working tree; oracles are independent reference models, history checkers (porcupine), the Go race detector and resource monitors",
        }],
        "checks": checks,
        "not_applicable": na,
        "notes": "Exit codes: 0 held on everything explored, 1 violation (VIOLATION line), 2 harness/build error (never a verdict). VERIF_SEED selects the seed of the random streams. Known findings: /verif/known_findings.json.",
    }
    if not na:
        del m["not_applicable"]
    json.dump(m, open("/verif/MANIFEST.json", "w"), indent=1)
    print("wrote MANIFEST.json:", len(checks), "checks,", len(na), "not claimed")

main()
