package bchutil_test

import (
	"testing"

	"github.com/gcash/bchutil"
)

func TestZZSeedDemo(t *testing.T) {
	b := bchutil.NewBlock(&Block100000)
	if _, err := b.Bytes(); err != nil {
		t.Fatal(err)
	}
	if _, err := b.Tx(0); err != nil {
		t.Fatal(err)
	}
	for i, tx := range b.Transactions() {
		want := Block100000.Transactions[i].TxHash()
		if !tx.Hash().IsEqual(&want) {
			t.Errorf("tx %d: hash %v, want %v", i, tx.Hash(), want)
		}
	}
}
