// Command mutate lists and applies small syntactic mutations to one Go file
// (operator swaps, integer literals +-1, negated conditions, deleted simple
// statements).  It is a development aid of /verif: the mutation campaign in
// DESIGN.md section 10 runs the registered checks against scratch copies of
// /repo carrying one such mutation each.
//
//	mutate -file f.go -list            # number of mutation sites, one line each
//	mutate -file f.go -apply N > out   # the file with mutation N applied
package main

import (
	"bytes"
	"flag"
	"fmt"
	"go/ast"
	"go/parser"
	"go/printer"
	"go/token"
	"os"
	"strconv"
)

type site struct {
	desc  string
	apply func()
}

var swaps = map[token.Token][]token.Token{
	token.LSS: {token.LEQ}, token.LEQ: {token.LSS}, token.GTR: {token.GEQ}, token.GEQ: {token.GTR},
	token.EQL: {token.NEQ}, token.NEQ: {token.EQL},
	token.ADD: {token.SUB}, token.SUB: {token.ADD}, token.MUL: {token.QUO}, token.QUO: {token.MUL}, token.REM: {token.QUO},
	token.LAND: {token.LOR}, token.LOR: {token.LAND},
	token.SHL: {token.SHR}, token.SHR: {token.SHL}, token.AND: {token.OR}, token.OR: {token.AND, token.XOR}, token.XOR: {token.OR},
	token.AND_NOT: {token.AND},
}

func main() {
	file := flag.String("file", "", "Go source file")
	list := flag.Bool("list", false, "list mutation sites")
	apply := flag.Int("apply", -1, "apply mutation N and print the file")
	flag.Parse()
	fset := token.NewFileSet()
	f, err := parser.ParseFile(fset, *file, nil, parser.ParseComments)
	if err != nil {
		fmt.Fprintln(os.Stderr, err)
		os.Exit(2)
	}
	var sites []site
	pos := func(n ast.Node) string { p := fset.Position(n.Pos()); return fmt.Sprintf("%d:%d", p.Line, p.Column) }
	var fn string
	add := func(n ast.Node, d string, a func()) {
		sites = append(sites, site{fmt.Sprintf("%s %s %s", pos(n), fn, d), a})
	}
	var walkBlock func(list *[]ast.Stmt)
	walkBlock = func(list *[]ast.Stmt) {
		for i := range *list {
			i := i
			st := (*list)[i]
			del := func(kind string) {
				add(st, "delete "+kind, func() { (*list)[i] = &ast.EmptyStmt{Semicolon: st.Pos()} })
			}
			switch s := st.(type) {
			case *ast.ExprStmt:
				if _, ok := s.X.(*ast.CallExpr); ok {
					del("call")
				}
			case *ast.AssignStmt:
				if s.Tok != token.DEFINE {
					del("assignment")
				}
			case *ast.IncDecStmt:
				del("incdec")
			case *ast.BranchStmt:
				if s.Tok == token.CONTINUE || s.Tok == token.BREAK {
					del(s.Tok.String())
				}
			}
		}
	}
	ast.Inspect(f, func(n ast.Node) bool {
		switch x := n.(type) {
		case *ast.FuncDecl:
			fn = x.Name.Name
		case *ast.BlockStmt:
			walkBlock(&x.List)
		case *ast.CaseClause:
			walkBlock(&x.Body)
		case *ast.BinaryExpr:
			for _, t := range swaps[x.Op] {
				t, old := t, x.Op
				if old == token.ADD {
					// string concatenation cannot become subtraction; skip literals
					if l, ok := x.X.(*ast.BasicLit); ok && l.Kind == token.STRING {
						continue
					}
					if l, ok := x.Y.(*ast.BasicLit); ok && l.Kind == token.STRING {
						continue
					}
				}
				add(x, fmt.Sprintf("%s -> %s", old, t), func() { x.Op = t })
			}
		case *ast.BasicLit:
			if x.Kind == token.INT {
				v, err := strconv.ParseInt(x.Value, 0, 64)
				if err == nil {
					old := x.Value
					add(x, fmt.Sprintf("%s -> %d", old, v+1), func() { x.Value = strconv.FormatInt(v+1, 10) })
					if v > 0 {
						add(x, fmt.Sprintf("%s -> %d", old, v-1), func() { x.Value = strconv.FormatInt(v-1, 10) })
					}
				}
			}
		case *ast.IfStmt:
			add(x, "negate condition", func() { x.Cond = &ast.UnaryExpr{Op: token.NOT, X: &ast.ParenExpr{X: x.Cond}} })
		case *ast.ForStmt:
			if x.Cond != nil {
				add(x, "loop condition false", func() { x.Cond = ast.NewIdent("false") })
			}
		}
		return true
	})
	if *list {
		for i, s := range sites {
			fmt.Printf("%d %s\n", i, s.desc)
		}
		return
	}
	if *apply < 0 || *apply >= len(sites) {
		fmt.Fprintln(os.Stderr, "no such mutation")
		os.Exit(2)
	}
	sites[*apply].apply()
	var buf bytes.Buffer
	if err := (&printer.Config{Mode: printer.UseSpaces | printer.TabIndent, Tabwidth: 8}).Fprint(&buf, fset, f); err != nil {
		fmt.Fprintln(os.Stderr, err)
		os.Exit(2)
	}
	os.Stdout.Write(buf.Bytes())
}
