#!/bin/bash
# usage: selftest_mut.sh <prop> <name> <sed-expr or patch file> <file-relative-to-repo> [streams]
# Applies one seeded break to a scratch copy of /repo, runs the quick check against it, prints the verdict, removes the copy.
set -u
PROP=$1; NAME=$2; EXPR=$3; FILE=$4; STREAMS=${5:-}
D=/tmp/mut-$PROP-$NAME
rm -rf $D $D-out; cp -r /repo $D
if [ -f "$EXPR" ]; then (cd $D && git apply "$EXPR") || { echo "patch failed"; exit 2; }
else sed -i "$EXPR" $D/$FILE; fi
if (cd $D && git diff --quiet); then echo "MUTANT $PROP/$NAME: no change applied"; rm -rf $D; exit 2; fi
export GOFLAGS=-mod=mod GOPROXY=off GOSUMDB=off GOTOOLCHAIN=local
if ! (cd $D && go build ./... && go test -vet=off -count=1 ./... >/tmp/mut-$PROP-$NAME.test 2>&1); then echo "MUTANT $PROP/$NAME: does not pass the repo suite:"; grep -v "^ok" /tmp/mut-$PROP-$NAME.test | head -5; fi
VERIF_STREAMS="$STREAMS" VERIF_REPO=$D VERIF_OUT=$D-out /verif/check $PROP quick > /tmp/mut-$PROP-$NAME.out 2>&1; rc=$?
echo "MUTANT $PROP/$NAME: exit=$rc  $(grep -c '^VIOLATION' /tmp/mut-$PROP-$NAME.out) violation keys: $(grep '  key=' /tmp/mut-$PROP-$NAME.out | sed 's/ count.*//' | tr '\n' ' ' | cut -c1-300)"
rm -rf $D $D-out /tmp/mut-$PROP-$NAME.test
