#!/bin/bash
# usage: sweep.sh "<seeds>" [tier] [props...]   — stability sweep: every check must exit 0 at every seed
SEEDS=${1:-"2 3 4"}; TIER=${2:-quick}; shift; shift
PROPS=${@:-$(./.build/vcheck -list 2>/dev/null | awk '{print $1}' | grep -v T00)}
[ -x ./.build/vcheck ] || ./check --build
PROPS=${PROPS:-$(./.build/vcheck -list | awk '{print $1}')}
fail=0
for s in $SEEDS; do for p in $PROPS; do
  VERIF_SEED=$s ./check $p $TIER > /tmp/sweep.$p.$s.out 2>&1; rc=$?
  echo "seed=$s $p exit=$rc $(grep -c '^VIOLATION' /tmp/sweep.$p.$s.out) violations; $(grep "^$p $TIER" /tmp/sweep.$p.$s.out | sed 's/.*wall=/wall=/')"
  if [ $rc -ne 0 ]; then fail=1; grep "VIOLATION\|  key=\|HARNESS" /tmp/sweep.$p.$s.out | head -10; fi
done; done
exit $fail
