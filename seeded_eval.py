#!/usr/bin/env python3
"""Evaluate one seeded change: confirm it (suite passes, demo fails with / passes without), run checks against it,
and store it as /verif/seeded/<name>/.

usage: seeded_eval.py <src-dir> <name> <property> [--tier quick|thorough] [--also C01,C02] [--keep-only-confirmed]
  <src-dir> holds patch.diff, demo_path.txt, demo_cmd.txt, the demo file(s) and notes.md (as written by a seeding agent)
All work happens in a scratch git worktree of /repo under /tmp which is removed afterwards; /repo itself is never modified.
"""
import json, os, shutil, subprocess, sys, time, re

ENV = dict(os.environ, GOFLAGS="-mod=mod", GOPROXY="off", GOSUMDB="off", GOTOOLCHAIN="local")

def sh(cmd, cwd=None, timeout=3600, env=None):
    p = subprocess.run(cmd, shell=True, cwd=cwd, env=env or ENV, stdout=subprocess.PIPE, stderr=subprocess.STDOUT, text=True, errors="replace", timeout=timeout)
    return p.returncode, p.stdout

def main():
    src, name, prop = sys.argv[1], sys.argv[2], sys.argv[3]
    tier = "quick"
    also = []
    args = sys.argv[4:]
    for i, a in enumerate(args):
        if a == "--tier": tier = args[i+1]
        if a == "--also": also = args[i+1].split(",")
    wt = f"/tmp/ev-{name}-{os.getpid()}"
    out = wt + "-out"
    meta = {"property": prop, "name": name, "source": "fresh sub-agent given only the property text and a scratch worktree", "repo_head": sh("git -C /repo rev-parse --short HEAD")[1].strip()}
    rc, o = sh(f"git -C /repo worktree add --detach {wt} HEAD -q")
    if rc != 0:
        print("cannot create worktree:", o); sys.exit(2)
    try:
        demo_path = open(os.path.join(src, "demo_path.txt")).read().strip()
        demo_cmd = open(os.path.join(src, "demo_cmd.txt")).read().strip()
        demo_file = os.path.join(src, os.path.basename(demo_path))
        if not os.path.exists(demo_file):
            cands = [f for f in os.listdir(src) if f.endswith(".go")]
            demo_file = os.path.join(src, cands[0])
        # 1. suite with the change, without the demo
        rc, o = sh(f"git apply {os.path.abspath(src)}/patch.diff", cwd=wt)
        if rc != 0:
            # the patch was written against an older /repo head: three-way merge
            rc, o = sh(f"git apply -3 {os.path.abspath(src)}/patch.diff && git reset -q", cwd=wt)
            meta["patch_applied_with_3way_merge"] = (rc == 0)
            if rc == 0:
                sh(f"git diff > {wt}-rebased.diff", cwd=wt)
        if rc != 0:
            print("patch does not apply:", o); meta["confirmed"] = False; meta["why"] = "patch does not apply"; return finish(meta, src, name, None)
        rc, o = sh("go build ./... && go test -vet=off -count=1 ./...", cwd=wt, timeout=1800)
        meta["suite_passes_with_change"] = (rc == 0)
        if rc != 0:
            meta["suite_output_tail"] = o[-1500:]
        # 2. demo with the change
        os.makedirs(os.path.dirname(os.path.join(wt, demo_path)) or wt, exist_ok=True)
        shutil.copy(demo_file, os.path.join(wt, demo_path))
        rc, o = sh(demo_cmd, cwd=wt, timeout=1800)
        meta["demo_fails_with_change"] = (rc != 0)
        meta["demo_output_with_change_tail"] = o[-800:]
        # 3. demo without the change
        sh("git checkout -- .", cwd=wt)
        rc, o = sh(demo_cmd, cwd=wt, timeout=1800)
        meta["demo_passes_without_change"] = (rc == 0)
        os.remove(os.path.join(wt, demo_path))
        meta["confirmed"] = bool(meta["suite_passes_with_change"] and meta["demo_fails_with_change"] and meta["demo_passes_without_change"])
        # 4. checks against the changed tree
        if meta.get("patch_applied_with_3way_merge"):
            sh(f"git apply {wt}-rebased.diff", cwd=wt)
        else:
            sh(f"git apply {os.path.abspath(src)}/patch.diff", cwd=wt)
        results = {}
        for p in [prop] + also:
            t0 = time.time()
            env = dict(ENV, VERIF_REPO=wt, VERIF_OUT=out)
            rc, o = sh(f"/verif/check {p} {tier}", cwd="/verif", env=env, timeout=7200)
            keys = [k for k in re.findall(r"^  key=(\S+)", o, re.M) if re.match(r"^[CT]\d\d/", k)]
            results[p] = {"tier": tier, "exit": rc, "violation_keys": keys[:12], "wall_s": round(time.time() - t0, 1),
                          "harness_errors": len(re.findall(r"^HARNESS-ERROR", o, re.M)), "build_failed": "BUILD-FAILED" in o}
            print(f"  {name}: check {p} {tier} exit={rc} keys={keys[:4]}")
        meta["checks"] = results
        meta["caught"] = results[prop]["exit"] == 1
        meta["ran"] = [f"git -C /repo worktree add --detach <scratch> HEAD; git apply patch.diff; go test -vet=off -count=1 ./...; {demo_cmd} (with and without the change); VERIF_REPO=<scratch> /verif/check {prop} {tier}"]
    finally:
        sh(f"git -C /repo worktree remove --force {wt}")
        shutil.rmtree(out, ignore_errors=True)
        shutil.rmtree(wt, ignore_errors=True)
        sh("git -C /repo worktree prune")
    finish(meta, src, name, demo_path)

def finish(meta, src, name, demo_path):
    print(json.dumps({k: v for k, v in meta.items() if not k.endswith("_tail")}, indent=1))
    if not meta.get("confirmed"):
        print(f"NOT CONFIRMED: {name} (not stored)")
        return
    dst = f"/verif/seeded/{name}"
    os.makedirs(dst, exist_ok=True)
    for f in os.listdir(src):
        if f.endswith((".diff", ".go", ".txt", ".md")):
            shutil.copy(os.path.join(src, f), os.path.join(dst, f))
    notes = ""
    if os.path.exists(os.path.join(src, "notes.md")):
        notes = open(os.path.join(src, "notes.md")).read()
    meta["needs_to_manifest"] = notes[:1500]
    meta.pop("demo_output_with_change_tail", None)
    reb = None
    for f in os.listdir("/tmp"):
        if f.startswith(f"ev-{name}-") and f.endswith("-rebased.diff"):
            reb = os.path.join("/tmp", f)
    if reb and meta.get("patch_applied_with_3way_merge"):
        shutil.copy(reb, os.path.join(dst, f"patch.rebased-on-{meta['repo_head']}.diff"))
        os.remove(reb)
    json.dump(meta, open(os.path.join(dst, "meta.json"), "w"), indent=1)
    print(f"stored {dst}; caught={meta.get('caught')}")

main()
