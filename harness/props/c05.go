package props

import (
	"crypto/hmac"
	"crypto/sha512"
	"encoding/binary"
	"fmt"
	"math/big"

	"github.com/gcash/bchd/chaincfg"
	"github.com/gcash/bchutil/hdkeychain"

	"verif/internal/ref"
	"verif/internal/vf"
)

// C05 — extended-key strings round-trip and are strictly validated.
//
// Validity oracle: ref.ParseXKey (own Base58 gives 82 bytes, last four are the
// sha256d prefix of the first 78, key data is 0x00 || scalar in [1,n-1] or a
// compressed point (0x02/0x03, x < p, on the curve)).
//
// Asserted, per the statement:
//   * a string the parser accepts is valid and String() of the result is the
//     same string;
//   * an invalid string is rejected;
//   * a string produced by the library (stream roundtrip) is accepted and the
//     parsed key has the same string, flag, depth, parent fingerprint and the
//     same children as the key it came from.
// A valid string that no derivation produces (unregistered version bytes,
// version / key-type mismatch, depth 0 with a parent fingerprint or index) may
// be rejected by a conforming parser (BIP32 test vector 5 asks for that); such
// rejections are counted, not reported.

type c05net struct {
	netInfo
	priv, pub [4]byte
}

var c05netList = func() []c05net {
	var out []c05net
	for _, n := range allNets {
		pub, err := chaincfg.HDPrivateKeyToPublicKeyID(n.P.HDPrivateKeyID[:])
		if err != nil || !eqBytes(pub, n.P.HDPublicKeyID[:]) {
			continue
		}
		out = append(out, c05net{n, n.P.HDPrivateKeyID, n.P.HDPublicKeyID})
	}
	return out
}()

const c05H = uint32(ref.HardenedStart)

func c05pad32(x *big.Int) []byte {
	b := x.Bytes()
	out := make([]byte, 32)
	copy(out[32-len(b):], b)
	return out
}

func c05reason(err error) string {
	switch err.Error() {
	case "ref: not base58":
		return "not-base58"
	case "ref: length":
		return "length"
	case "ref: checksum":
		return "checksum"
	case "ref: scalar out of range":
		return "scalar-range"
	case "ref: key prefix":
		return "key-prefix"
	case "x out of range":
		return "x-out-of-range"
	case "not on curve":
		return "off-curve"
	}
	return "other"
}

// c05producible reports whether a valid key has the shape of a key the
// library can produce by derivation on a registered network.
func c05producible(k *ref.XKey) bool {
	okv := false
	for _, n := range c05netList {
		if (k.IsPrivate() && k.Version == n.priv) || (!k.IsPrivate() && k.Version == n.pub) {
			okv = true
		}
	}
	if !okv {
		return false
	}
	if k.Depth == 0 && (k.ParentFP != [4]byte{} || k.ChildNum != 0) {
		return false
	}
	return true
}

// c05check evaluates one string against the validity oracle.
func c05check(c *vf.Ctx, family, s string) (k *hdkeychain.ExtendedKey, rk *ref.XKey) {
	rk, rerr := ref.ParseXKey(s)
	valid := rerr == nil
	in := func() string {
		return fmt.Sprintf("family=%s string=%s payload=%s", family, q(short(s)), c05payload(s))
	}
	var err error
	if !c.Call("NewKeyFromString", in, func() { k, err = hdkeychain.NewKeyFromString(s) }) {
		return nil, rk
	}
	c.Evals(1)
	accepted := err == nil
	switch {
	case accepted && k == nil:
		c.Failf("NewKeyFromString/nil-key", "%s: returned neither a key nor an error", in())
		return nil, rk
	case accepted && !valid:
		c.Inc("invalid_accepted")
		c.Failf("NewKeyFromString/accepts-invalid/"+c05reason(rerr), "%s: accepted, but the string is not a valid extended key (%v)", in(), rerr)
		return nil, rk
	case !accepted && valid:
		if c05producible(rk) {
			c.Failf("NewKeyFromString/rejects-valid", "%s: rejected with %q, but the string is a valid extended key of a registered network", in(), err)
		} else {
			c.Inc("valid_unproducible_rejected")
		}
		return nil, rk
	case !accepted:
		c.Inc("rejected_" + c05reason(rerr))
		return nil, rk
	}
	c.Inc("accepted_valid")
	var re string
	if c.Call("String", in, func() { re = k.String() }) {
		c.Evals(1)
		if re != s {
			c.Failf("String/reencode", "%s: accepted, but String()=%q (payload %s)", in(), re, c05payload(re))
		}
	}
	return k, rk
}

func c05payload(s string) string {
	b, ok := ref.B58Decode(s)
	if !ok {
		return "(not base58)"
	}
	if len(b) > 200 {
		return fmt.Sprintf("%x…(%d bytes)", b[:200], len(b))
	}
	return hx(b)
}

func c05sum(b []byte) []byte {
	s := ref.Sha256d(b)
	return append(append([]byte{}, b...), s[:4]...)
}

func c05scalar(r *vf.Rand) *big.Int {
	nm1 := new(big.Int).Sub(ref.SecN, big.NewInt(1))
	k := new(big.Int).SetBytes(r.Bytes(32))
	k.Mod(k, nm1)
	return k.Add(k, big.NewInt(1))
}

// c05synthetic builds a valid 78-byte payload with random fields.  kind 0:
// private, 1: public.  lz leading zero bytes are forced into a private scalar.
func c05synthetic(r *vf.Rand, private bool, lz int) []byte {
	n := c05netList[r.Intn(len(c05netList))]
	p := make([]byte, 0, 78)
	if private {
		p = append(p, n.priv[:]...)
	} else {
		p = append(p, n.pub[:]...)
	}
	depth := byte(r.Intn(256))
	if r.Intn(4) == 0 {
		depth = []byte{1, 2, 255}[r.Intn(3)]
	}
	if depth == 0 {
		depth = 1
	}
	p = append(p, depth)
	p = append(p, r.Bytes(4)...)
	p = append(p, r.Bytes(4)...)
	p = append(p, r.Bytes(32)...)
	k := c05scalar(r)
	if private {
		kb := c05pad32(k)
		for j := 0; j < lz && j < 31; j++ {
			kb[j] = 0
		}
		if new(big.Int).SetBytes(kb).Sign() == 0 {
			kb[31] = 1
		}
		p = append(p, 0)
		p = append(p, kb...)
	} else {
		p = append(p, ref.BaseMul(k).Compressed()...)
	}
	return p
}

// ---------------------------------------------------------------- roundtrip

func c05siblingLZ(r *ref.XKey, base uint32, hard bool, limit int) (uint32, bool) {
	comp := r.Pub.Compressed()
	for j := 0; j < limit; j++ {
		idx := (base + uint32(j)) & 0x7fffffff
		var data [37]byte
		if hard {
			idx |= c05H
			copy(data[1:33], c05pad32(r.Priv))
		} else {
			copy(data[:33], comp)
		}
		binary.BigEndian.PutUint32(data[33:], idx)
		m := hmac.New(sha512.New, r.ChainCode[:])
		m.Write(data[:])
		I := m.Sum(nil)
		il := new(big.Int).SetBytes(I[:32])
		if il.Cmp(ref.SecN) >= 0 {
			continue
		}
		il.Add(il, r.Priv)
		il.Mod(il, ref.SecN)
		if il.Sign() != 0 && il.BitLen() <= 248 {
			return idx, true
		}
	}
	return 0, false
}

func c05childIdx(r *vf.Rand, hard bool) uint32 {
	v := []uint32{0, 1, c05H - 1, r.Uint32() & 0x7fffffff, r.Uint32() & 0x7fffffff}[r.Intn(5)]
	if hard {
		v |= c05H
	}
	return v
}

// c05rt checks the round trip of one library-produced key.
func c05rt(c *vf.Ctx, k *hdkeychain.ExtendedKey, where func() string) *ref.XKey {
	var s string
	var isPriv bool
	var depth uint8
	var pfp uint32
	if !c.Call("String", where, func() {
		s, isPriv, depth, pfp = k.String(), k.IsPrivate(), k.Depth(), k.ParentFingerprint()
	}) {
		return nil
	}
	c.Nontrivial(vf.Mix(0x05, vf.HashString(s)))
	in := func() string { return where() + " string=" + s }
	rk, rerr := ref.ParseXKey(s)
	var k2 *hdkeychain.ExtendedKey
	var err error
	if !c.Call("NewKeyFromString", in, func() { k2, err = hdkeychain.NewKeyFromString(s) }) {
		return rk
	}
	c.Evals(1)
	if err != nil || k2 == nil {
		c.Failf("NewKeyFromString/rejects-own-string", "%s: the library's own String() output is rejected: %v", in(), err)
		return rk
	}
	if rerr != nil {
		// produced and accepted by the library, but not a valid string
		c.Failf("NewKeyFromString/accepts-invalid/"+c05reason(rerr), "%s: library-produced string accepted, but it is not a valid extended key (%v)", in(), rerr)
		return nil
	}
	if isPriv {
		c.Inc("roundtrip_private")
		if rk.Priv.BitLen() <= 248 {
			c.Inc("roundtrip_private_leading_zero_scalar")
		}
	} else {
		c.Inc("roundtrip_public")
	}
	var s2 string
	var isPriv2 bool
	var depth2 uint8
	var pfp2 uint32
	if !c.Call("String", in, func() {
		s2, isPriv2, depth2, pfp2 = k2.String(), k2.IsPrivate(), k2.Depth(), k2.ParentFingerprint()
	}) {
		return rk
	}
	c.Evals(1)
	if s2 != s {
		c.Failf("roundtrip/string", "%s: parsed key serialises to %q", in(), s2)
	}
	if isPriv2 != isPriv {
		c.Failf("roundtrip/isprivate", "%s: IsPrivate %v became %v", in(), isPriv, isPriv2)
	}
	if depth2 != depth {
		c.Failf("roundtrip/depth", "%s: Depth %d became %d", in(), depth, depth2)
	}
	if pfp2 != pfp {
		c.Failf("roundtrip/parentfp", "%s: ParentFingerprint %08x became %08x", in(), pfp, pfp2)
	}
	// derivation behaviour: same children (or same refusal) from both keys
	for _, idx := range []uint32{c05childIdx(c.R, false), c05childIdx(c.R, true)} {
		var a, b *hdkeychain.ExtendedKey
		var ea, eb error
		var sa, sb string
		if !c.Call("Child", func() string { return fmt.Sprintf("%s child=%d", in(), idx) }, func() {
			a, ea = k.Child(idx)
			b, eb = k2.Child(idx)
			if ea == nil && a != nil {
				sa = a.String()
			}
			if eb == nil && b != nil {
				sb = b.String()
			}
		}) {
			continue
		}
		c.Evals(1)
		switch {
		case (ea == nil) != (eb == nil):
			c.Failf("roundtrip/child-error", "%s: Child(%d) of the original: %v (%s); of the parsed key: %v (%s)", in(), idx, ea, sa, eb, sb)
		case ea != nil && ea.Error() != eb.Error():
			c.Failf("roundtrip/child-error", "%s: Child(%d) refused with %q by the original and %q by the parsed key", in(), idx, ea, eb)
		case ea == nil && sa != sb:
			c.Failf("roundtrip/child", "%s: Child(%d) of the original is %s, of the parsed key %s", in(), idx, sa, sb)
		}
	}
	return rk
}

func c05roundtripCase(c *vf.Ctx, i int) {
	net := c05netList[i%len(c05netList)]
	if i%6 == 5 {
		// a caller-defined network: NewMaster takes any *chaincfg.Params; its
		// version bytes shape the leading characters and the LENGTH of the
		// string (all-zero version bytes give the shortest encodings)
		var v [4]byte
		switch (i / 6) % 4 {
		case 0: // all zero
		case 1:
			v = [4]byte{0xff, 0xff, 0xff, 0xff}
		case 2:
			v = [4]byte{0, 0, 0, byte(1 + c.R.Intn(255))}
		default:
			copy(v[:], c.R.Bytes(4))
		}
		net = c05net{netInfo{fmt.Sprintf("custom-%x", v), &chaincfg.Params{HDPrivateKeyID: v}}, v, v}
		c.Inc("roundtrip_on_caller_defined_hd_version")
	}
	n := 16 + i%49
	if i >= 49 {
		n = c.R.Range(16, 64)
	}
	seed := c.R.Bytes(n)
	var path []uint32
	where := func() string { return fmt.Sprintf("seed=%x net=%s path=%s", seed, net.Name, c05pathStr(path)) }
	var k *hdkeychain.ExtendedKey
	var err error
	if !c.Call("NewMaster", where, func() { k, err = hdkeychain.NewMaster(seed, net.P) }) {
		return
	}
	if err != nil || k == nil {
		// C04's business (probability 2^-127 on correct code)
		c.Inconclusive("newmaster-failed")
		return
	}
	depth := c.R.Intn(6)
	for d := 0; ; d++ {
		rk := c05rt(c, k, where)
		var kn *hdkeychain.ExtendedKey
		if c.Call("Neuter", where, func() { kn, err = k.Neuter() }) && err == nil && kn != nil {
			c05rt(c, kn, func() string { return where() + " (neutered)" })
		}
		if d >= depth {
			break
		}
		idx := c05childIdx(c.R, c.R.Bool())
		if i%4 == 0 && rk != nil && rk.IsPrivate() {
			// steer towards a child whose scalar has a leading zero byte
			if j, ok := c05siblingLZ(rk, c.R.Uint32(), c.R.Bool(), 1<<13); ok {
				idx = j
				c.Inc("searched_leading_zero_children")
			}
		}
		var kc *hdkeychain.ExtendedKey
		if !c.Call("Child", where, func() { kc, err = k.Child(idx) }) {
			return
		}
		if err != nil || kc == nil {
			c.Inconclusive("child-failed")
			return
		}
		path = append(path, idx)
		k = kc
	}
	if c.WantSample() {
		var s string
		c.Call("String", where, func() { s = k.String() })
		c.Sample(map[string]string{"seed": hx(seed), "net": net.Name, "path": c05pathStr(path), "string": s})
	}
}

func c05pathStr(p []uint32) string {
	s := "m"
	for _, i := range p {
		if i >= c05H {
			s += fmt.Sprintf("/%d'", i-c05H)
		} else {
			s += fmt.Sprintf("/%d", i)
		}
	}
	return s
}

// ------------------------------------------------------------------ corrupt

// c05corruptCase: one valid payload, every single-bit flip of its 82 bytes
// and every other value at 4 of the 82 positions, checksum NOT recomputed.
func c05corruptCase(c *vf.Ctx, i int) {
	private := i%2 == 0
	lz := 0
	if private && i%8 == 0 {
		lz = 1 + (i/8)%31
	}
	full := c05sum(c05synthetic(c.R, private, lz))
	base := ref.B58Encode(full)
	c.Nontrivial(vf.Mix(0x15, vf.HashBytes(full)))
	if k, _ := c05check(c, "valid-base", base); k == nil {
		c.Inc("base_not_accepted")
	}
	m := make([]byte, len(full))
	for bit := 0; bit < 8*len(full); bit++ {
		copy(m, full)
		m[bit/8] ^= 0x80 >> uint(bit%8)
		c05check(c, fmt.Sprintf("bitflip/byte%02d", bit/8), ref.B58Encode(m))
	}
	c.Count("bitflips", int64(8*len(full)))
	for j := 0; j < 4; j++ {
		pos := (i*4 + j) % len(full)
		for v := 0; v < 256; v++ {
			if byte(v) == full[pos] {
				continue
			}
			copy(m, full)
			m[pos] = byte(v)
			c05check(c, fmt.Sprintf("bytesub/byte%02d", pos), ref.B58Encode(m))
		}
		c.Count("byte_substitutions", 255)
		c.Inc(fmt.Sprintf("bytesub_position_%02d", pos))
	}
	if c.WantSample() {
		c.Sample(map[string]string{"valid_base": base, "payload": hx(full)})
	}
}

// ------------------------------------------------------------------- forged

var c05foreign = []string{"0", "O", "I", "l", " ", "\n", "\t", "\x00", "+", "/", "-", "_", "=", "\x7f", "\x80", "\xff", "é", "１", "Ａ"}

const c05families = 14

func c05forgedCase(c *vf.Ctx, i int) {
	fam, v := i%c05families, i/c05families
	r := c.R
	c.Nontrivial(vf.Mix(0x25, uint64(i), r.Uint64()))
	setKey := func(p []byte, prefix byte, body []byte) []byte {
		q := append([]byte{}, p[:45]...)
		q = append(q, prefix)
		return append(q, body...)
	}
	two256m1 := new(big.Int).Sub(new(big.Int).Lsh(big.NewInt(1), 256), big.NewInt(1))
	switch fam {
	case 0: // special scalars behind the 0x00 prefix, checksum recomputed
		specials := []*big.Int{big.NewInt(0), big.NewInt(1), new(big.Int).Sub(ref.SecN, big.NewInt(1)), ref.SecN,
			new(big.Int).Add(ref.SecN, big.NewInt(1)), two256m1, big.NewInt(2), new(big.Int).Sub(ref.SecN, big.NewInt(2)),
			new(big.Int).Add(ref.SecN, big.NewInt(2)), new(big.Int).Lsh(big.NewInt(1), 255)}
		d := specials[v%len(specials)]
		p := setKey(c05synthetic(r, true, 0), 0, c05pad32(d))
		c.Inc("forged_special_scalar")
		c05check(c, fmt.Sprintf("scalar=%x", d), ref.B58Encode(c05sum(p)))
	case 1: // every key prefix byte over a body that is both a scalar and an on-curve x
		pt := ref.BaseMul(c05scalar(r))
		body := c05pad32(pt.X)
		base := c05synthetic(r, v%2 == 0, 0)
		for pb := 0; pb < 256; pb++ {
			c05check(c, fmt.Sprintf("key-prefix=%02x", pb), ref.B58Encode(c05sum(setKey(base, byte(pb), body))))
		}
		c.Count("forged_key_prefix", 256)
	case 2: // x not on the curve, both parities
		var x *big.Int
		for {
			x = new(big.Int).SetBytes(r.Bytes(32))
			if x.Cmp(ref.SecP) >= 0 {
				continue
			}
			if _, err := ref.LiftX(x, false); err != nil {
				break
			}
		}
		base := c05synthetic(r, false, 0)
		for _, pb := range []byte{2, 3} {
			c05check(c, "off-curve-x", ref.B58Encode(c05sum(setKey(base, pb, c05pad32(x)))))
		}
		c.Count("forged_off_curve", 2)
	case 3: // x >= p (some of them congruent to an on-curve x)
		var d *big.Int
		switch v % 4 {
		case 0:
			d = big.NewInt(int64(v / 4 % 8))
		case 1: // p + x0 with x0 on the curve
			for x0 := int64(r.Intn(1 << 20)); ; x0++ {
				if _, err := ref.LiftX(big.NewInt(x0), false); err == nil {
					d = big.NewInt(x0)
					c.Inc("forged_x_ge_p_congruent_to_curve_point")
					break
				}
			}
		case 2:
			d = new(big.Int).Sub(two256m1, ref.SecP)
		default:
			d = new(big.Int).SetUint64(r.Uint64n(1<<32 + 977))
		}
		x := new(big.Int).Add(ref.SecP, d)
		base := c05synthetic(r, false, 0)
		for _, pb := range []byte{2, 3} {
			c05check(c, "x>=p", ref.B58Encode(c05sum(setKey(base, pb, c05pad32(x)))))
		}
		c.Count("forged_x_ge_p", 2)
	case 4: // wrong payload length with a good checksum
		lens := []int{77, 79, 81, 83, 76, 80, 82 + 1 + v%40, v % 77}
		L := lens[v%len(lens)] // length of the part covered by the checksum is L-4 ... see below
		valid := c05synthetic(r, v%2 == 0, 0)
		// total decoded length L: body of L-4 bytes (valid payload cut or
		// extended) followed by its checksum; below 4 bytes: raw bytes
		var raw []byte
		if L >= 4 {
			body := append([]byte{}, valid...)
			for len(body) < L-4 {
				body = append(body, byte(r.Intn(256)))
			}
			raw = c05sum(body[:L-4])
		} else {
			raw = r.Bytes(L)
		}
		c.Inc(fmt.Sprintf("forged_length_%s", map[bool]string{true: "short", false: "long"}[L < 82]))
		c05check(c, fmt.Sprintf("length=%d", len(raw)), ref.B58Encode(raw))
		// 78-byte payload with the checksum of only its first 77 bytes etc.
		s77 := ref.Sha256d(valid[:77])
		w := append(append([]byte{}, valid...), s77[:4]...)
		c05check(c, "checksum-over-77", ref.B58Encode(w))
	case 5: // extra leading '1' characters (zero bytes) before a valid string
		s := ref.B58Encode(c05sum(c05synthetic(r, v%2 == 0, 0)))
		for n := 1; n <= 4; n++ {
			c05check(c, fmt.Sprintf("extra-leading-1x%d", n), "1111"[:n]+s)
		}
		c.Count("forged_extra_leading_ones", 4)
	case 6: // version bytes with leading zero bytes: valid, string starts with '1'
		p := c05synthetic(r, v%2 == 0, 0)
		z := 1 + v%4
		for j := 0; j < z; j++ {
			p[j] = 0
		}
		s := ref.B58Encode(c05sum(p))
		c.Inc("forged_zero_version_bytes")
		c05check(c, fmt.Sprintf("version-with-%d-zero-bytes", z), s)
		c05check(c, fmt.Sprintf("version-with-%d-zero-bytes+extra-1", z), "1"+s)
		if len(s) > 1 {
			c05check(c, fmt.Sprintf("version-with-%d-zero-bytes-minus-1", z), s[1:])
		}
	case 7: // foreign characters
		s := ref.B58Encode(c05sum(c05synthetic(r, v%2 == 0, 0)))
		f := c05foreign[v%len(c05foreign)]
		pos := r.Intn(len(s) + 1)
		c05check(c, "foreign-inserted", s[:pos]+f+s[pos:])
		if pos < len(s) {
			c05check(c, "foreign-substituted", s[:pos]+f+s[pos+1:])
		}
		c05check(c, "foreign-appended", s+f)
		c05check(c, "foreign-prepended", f+s)
		if pos < len(s) {
			// a multi-byte rune whose code point's low byte is the replaced character
			cp := rune(1+r.Intn(0x10ff))<<8 | rune(s[pos])
			if cp < 0xd800 || cp > 0xdfff {
				c05check(c, "foreign-rune-aliasing-low-byte", s[:pos]+string(cp)+s[pos+1:])
			}
		}
		c05check(c, "foreign-dotless-i-for-1", "\u0131"+s)
		c.Count("forged_foreign_characters", 6)
	case 8: // degenerate strings
		for _, s := range []string{"", "1", " ", "11111111111111111111111111111111111111111111111111111111111111111111111111111111111",
			ref.B58Encode(make([]byte, 82)), ref.B58Encode(c05sum(make([]byte, 78))), "xprv", "xpub", "zeroed extended key"} {
			c05check(c, "degenerate", s)
		}
		c.Inc("forged_degenerate")
	case 9: // private scalars with 1..31 leading zero bytes: valid
		p := c05synthetic(r, true, 1+v%31)
		c.Inc("forged_valid_leading_zero_scalar")
		c05check(c, fmt.Sprintf("valid-scalar-%d-leading-zero-bytes", 1+v%31), ref.B58Encode(c05sum(p)))
	case 10: // parity byte swapped: the other square root, still valid
		p := c05synthetic(r, false, 0)
		p[45] ^= 1
		c.Inc("forged_valid_swapped_parity")
		c05check(c, "valid-swapped-parity", ref.B58Encode(c05sum(p)))
	case 11: // valid keys with arbitrary version bytes / depth 0 / mismatching version
		p := c05synthetic(r, v%2 == 0, 0)
		switch v % 3 {
		case 0:
			copy(p[:4], r.Bytes(4))
		case 1:
			p[4] = 0
		default: // private version on a public key and vice versa
			n := c05netList[r.Intn(len(c05netList))]
			if v%2 == 0 {
				copy(p[:4], n.pub[:])
			} else {
				copy(p[:4], n.priv[:])
			}
		}
		c.Inc("forged_valid_unproducible")
		c05check(c, "valid-unproducible", ref.B58Encode(c05sum(p)))
	case 12: // checksum bytes individually wrong (recomputed then one byte changed)
		full := c05sum(c05synthetic(r, v%2 == 0, 0))
		for j := 78; j < 82; j++ {
			m := append([]byte{}, full...)
			m[j] += byte(1 + r.Intn(255))
			c05check(c, fmt.Sprintf("checksum-byte-%d-wrong", j-78), ref.B58Encode(m))
		}
		c.Count("forged_checksum_byte", 4)
	case 13: // a complete valid 82-byte serialisation as the TAIL of a longer byte string:
		// junk || zero bytes || valid: decodes to more than 82 bytes, so it is no
		// extended key, although every fixed-width decoder that drops high-order
		// overflow sees the valid tail
		full := c05sum(c05synthetic(r, v%2 == 0, 0))
		for _, zeros := range []int{0, 1, 2, 3, 6} {
			j := r.Bytes(1 + r.Intn(8))
			if j[0] == 0 {
				j[0] = 1
			}
			long := append(append(append([]byte{}, j...), make([]byte, zeros)...), full...)
			c05check(c, fmt.Sprintf("valid-tail-after-%d-junk-and-%d-zero-bytes", len(j), zeros), ref.B58Encode(long))
		}
		c.Count("forged_valid_tail_of_longer_string", 5)
	}
}

// c05zeroRunCase: valid private extended-key strings constructed so that the
// Base58 number has ten zero digits ('1') in its middle.
func c05zeroRunCase(c *vf.Ctx, i int) {
	n := c05netList[i%len(c05netList)]
	fixed := append([]byte{}, n.priv[:]...)
	fixed = append(fixed, byte(c.R.Intn(4))) // depth
	fixed = append(fixed, c.R.Bytes(4)...)   // parent fingerprint
	fixed = append(fixed, c.R.Bytes(4)...)   // child number
	fixed = append(fixed, c.R.Bytes(32)...)  // chain code
	fixed = append(fixed, 0x00)              // private key marker
	if fixed[4] == 0 {
		for j := 5; j < 13; j++ {
			fixed[j] = 0 // a master key has no parent and index 0
		}
	}
	var body []byte
	for try := 0; try < 8 && body == nil; try++ {
		b, ok := b58ZeroRunBody(c.R, fixed, 78, 7+c.R.Intn(28), -1)
		if !ok {
			continue
		}
		d := new(big.Int).SetBytes(b[46:78])
		if d.Sign() > 0 && d.Cmp(ref.SecN) < 0 {
			body = b
		}
	}
	if body == nil {
		c.Inc("zero_run_construction_failed")
		return
	}
	s := ref.B58Encode(c05sum(body))
	c.Inc("xkey_strings_with_run_of_ten_zero_digits")
	c.Nontrivial(vf.Mix(0x50, vf.HashString(s)))
	c05check(c, "zero-digit-run", s)
	if c.WantSample() {
		c.Sample(map[string]string{"xprv_with_zero_digit_run": s})
	}
}

func c05selfTest() error {
	for _, f := range []func() error{ref.SelfTestSecp, ref.SelfTestBase58, ref.SelfTestBIP32} {
		if err := f(); err != nil {
			return err
		}
	}
	if len(c05netList) == 0 {
		return fmt.Errorf("c05: no network with a registered HD key id")
	}
	// hand-built negatives and positives for the reference validator
	r := vf.NewRand(0xc05)
	priv, pub := c05synthetic(r, true, 0), c05synthetic(r, false, 0)
	mk := func(p []byte, prefix byte, body []byte) string {
		q := append(append(append([]byte{}, p[:45]...), prefix), body...)
		return ref.B58Encode(c05sum(q))
	}
	type tc struct {
		s, want string
	}
	bad := append([]byte{}, c05sum(priv)...)
	bad[81] ^= 1
	g := ref.SecG()
	tests := []tc{
		{ref.B58Encode(c05sum(priv)), ""},
		{ref.B58Encode(c05sum(pub)), ""},
		{mk(priv, 0, c05pad32(big.NewInt(1))), ""},
		{mk(priv, 0, c05pad32(new(big.Int).Sub(ref.SecN, big.NewInt(1)))), ""},
		{mk(priv, 0, c05pad32(big.NewInt(0))), "scalar-range"},
		{mk(priv, 0, c05pad32(ref.SecN)), "scalar-range"},
		{mk(pub, 2, c05pad32(g.X)), ""},
		{mk(pub, 3, c05pad32(g.X)), ""},
		{mk(pub, 4, c05pad32(g.X)), "key-prefix"},
		{mk(pub, 1, c05pad32(g.X)), "key-prefix"},
		{mk(pub, 2, c05pad32(big.NewInt(5))), "off-curve"}, // 5^3+7 = 132 is not a square mod p
		{mk(pub, 2, c05pad32(ref.SecP)), "x-out-of-range"},
		{ref.B58Encode(bad), "checksum"},
		{ref.B58Encode(c05sum(priv[:77])), "length"},
		{"1" + ref.B58Encode(c05sum(priv)), "length"},
		{ref.B58Encode(c05sum(priv)) + "0", "not-base58"},
		{"", "length"},
	}
	for _, t := range tests {
		_, err := ref.ParseXKey(t.s)
		got := ""
		if err != nil {
			got = c05reason(err)
		}
		if got != t.want {
			return fmt.Errorf("c05: reference validator on %q: got %q want %q", t.s, got, t.want)
		}
	}
	return nil
}

func init() {
	register(&vf.Property{
		ID:    "C05",
		Title: "Extended-key strings round-trip and are strictly validated",
		Rule: "stream roundtrip: master and every node of random paths (depth 0..5, boundary and random indices, a quarter of the cases steered by an HMAC-only sibling search to children whose scalar has a leading zero byte), private and neutered, on every registered network: parse(String()) must give the same string, flag, depth, fingerprint and children; " +
			"stream corrupt: valid 82-byte payloads (private / public, forced leading-zero scalars), every single-bit flip (656) and all 255 other values at 4 positions (positions rotate with the case index, all 82 covered), checksum not recomputed; " +
			"stream zero-digit-runs: valid private keys constructed so that the Base58 number has ten zero digits in its middle; " +
			"stream forged: recomputed-checksum families (scalars 0,1,2,n-2..n+2,2^255,2^256-1; every key prefix byte 0..255; off-curve x; x>=p incl. p+x0 with x0 on the curve; decoded lengths 0..122 other than 82; 1..4 extra leading '1'; zero version bytes; foreign characters; degenerate strings; leading-zero scalars; swapped parity; unproducible but valid keys; single wrong checksum bytes). " +
			"Every string is judged by the reference validator; a case is distinct per payload.",
		Assumptions: []string{
			"reference Base58 / BIP32 parser / secp256k1 written from the specifications, self-tested on BIP32 vectors 1-3 and hand-built negatives on every run",
			"valid = 82 decoded bytes, matching 4-byte sha256d checksum, key data 0x00||scalar in [1,n-1] or 0x02/0x03||x with x<p on the curve (the statement's definition; version bytes, depth and fingerprint are unconstrained)",
			"rejection of a valid string is reported only for strings shaped like library output (registered version matching the key type, depth 0 only with zero fingerprint and index); other rejections are counted as valid_unproducible_rejected",
			"which error value a rejection carries is not part of the statement",
		},
		SelfTest: c05selfTest,
		Streams: []*vf.Stream{
			{Name: "roundtrip", N: func(t vf.Tier) int { return t.Sz(6000, 100000) }, Run: c05roundtripCase},
			{Name: "corrupt", N: func(t vf.Tier) int { return t.Sz(3000, 40000) }, Run: c05corruptCase},
			{Name: "forged", N: func(t vf.Tier) int { return t.Sz(14*600, 14*10000) }, Run: c05forgedCase},
			{Name: "zero-digit-runs", N: func(t vf.Tier) int { return t.Sz(1000, 20000) }, Run: c05zeroRunCase},
		},
	})
}
