package props

import (
	"fmt"
	"math"
	"strings"

	"github.com/gcash/bchd/chaincfg/chainhash"
	"github.com/gcash/bchutil"
	"github.com/gcash/bchutil/coinset"

	"verif/internal/vf"
)

// C19 — coin selection returns only valid selections and coin-set totals
// never drift.
//
// Choices the statement leaves open and that the oracle therefore accepts:
//   - which of several key-equal coins a sorting selector picks, and in which
//     order it returns key-equal coins;
//   - the empty selection: "no shorter prefix qualifies" ranges over the
//     non-empty proper prefixes only, so for target 0 both an empty selection
//     and a one-coin selection are accepted;
//   - a selector that returns an error asserts nothing;
//   - what PopCoin/ShiftCoin return on an empty set (only "no panic" and the
//     totals are checked there).

// c19coin is the harness's Coin: a plain value record.  Its fields are not
// reachable from package coinset, so a selector cannot alter it.
type c19coin struct {
	hash  chainhash.Hash
	index uint32
	value bchutil.Amount
	confs int64
	pos   int // position in the offered list
}

func (c *c19coin) Hash() *chainhash.Hash { return &c.hash }
func (c *c19coin) Index() uint32         { return c.index }
func (c *c19coin) Value() bchutil.Amount { return c.value }
func (c *c19coin) PkScript() []byte      { return nil }
func (c *c19coin) NumConfs() int64       { return c.confs }
func (c *c19coin) ValueAge() int64       { return int64(c.value) * c.confs }

var _ coinset.Coin = (*c19coin)(nil)

func c19mkcoin(pos int, value, confs int64, salt uint64) *c19coin {
	k := &c19coin{index: uint32(vf.Mix(salt, uint64(pos), 7) % 5), value: bchutil.Amount(value), confs: confs, pos: pos}
	r := vf.NewRand(vf.Mix(salt, uint64(pos), uint64(value), uint64(confs)))
	r.Fill(k.hash[:])
	return k
}

type c19params struct {
	target    int64
	maxInputs int
	minChange int64
	minAvg    int64 // MinPriorityCoinSelector only
}

func c19sat(target, minChange, total int64) bool {
	return total == target || total >= target+minChange
}

func c19listString(list []*c19coin) string {
	var sb strings.Builder
	sb.WriteString("[")
	for i, k := range list {
		if i > 0 {
			sb.WriteString(" ")
		}
		fmt.Fprintf(&sb, "#%d(value=%d,confs=%d,valueAge=%d)", i, int64(k.value), k.confs, k.ValueAge())
	}
	sb.WriteString("]")
	return sb.String()
}

func c19describe(sel string, p c19params, list []*c19coin) string {
	s := fmt.Sprintf("%s{MaxInputs:%d MinChangeAmount:%d", sel, p.maxInputs, p.minChange)
	if sel == "MinPriorityCoinSelector" {
		s += fmt.Sprintf(" MinAvgValueAgePerInput:%d", p.minAvg)
	}
	return s + fmt.Sprintf("}.CoinSelect(target=%d, coins=%s)", p.target, c19listString(list))
}

const (
	c19MinIndex = iota
	c19MinNumber
	c19MaxValueAge
	c19MinPriority
)

var c19selNames = [4]string{"MinIndexCoinSelector", "MinNumberCoinSelector", "MaxValueAgeCoinSelector", "MinPriorityCoinSelector"}

// c19stats are per-case tallies flushed into the coverage counters once.
type c19stats struct {
	calls, succ, errs, empty, exact, change, maxedOut, ties [4]int64
	lowMixed                                                int64 // MinPriority successes containing a coin below the threshold
	resultSets                                              int64 // results that are *CoinSet, totals compared with contents
	offered                                                 []coinset.Coin
	ids                                                     []int

	cur struct {
		name    string
		p       c19params
		list    []*c19coin
		sel     coinset.CoinSelector
		target  bchutil.Amount
		offered []coinset.Coin
		res     coinset.Coins
		err     error
	}
	inFn   func() string
	lin    lazyStr
	callFn func()
}

func (s *c19stats) prepare() {
	if s.callFn != nil {
		return
	}
	s.inFn = func() string { return c19describe(s.cur.name, s.cur.p, s.cur.list) }
	s.lin = lazyStr(s.inFn)
	s.callFn = func() { s.cur.res, s.cur.err = s.cur.sel.CoinSelect(s.cur.target, s.cur.offered) }
}

// lazyStr defers building the (long) input description until fmt needs it.
type lazyStr func() string

func (l lazyStr) String() string { return l() }

func (s *c19stats) flush(c *vf.Ctx) {
	for k, n := range c19selNames {
		c.Count(n+"/calls", s.calls[k])
		c.Count(n+"/successes", s.succ[k])
		c.Count(n+"/errors", s.errs[k])
		c.Count(n+"/empty_selection", s.empty[k])
		c.Count(n+"/total_equals_target", s.exact[k])
		c.Count(n+"/total_with_change", s.change[k])
		c.Count(n+"/count_equals_max_inputs", s.maxedOut[k])
		c.Count(n+"/selection_with_key_ties", s.ties[k])
	}
	c.Count("MinPriorityCoinSelector/selection_mixes_below_threshold_coin", s.lowMixed)
	c.Count("selector_results_checked_as_CoinSet(totals==contents)", s.resultSets)
}

// c19select runs one selector on a private copy of the offered list and
// evaluates every clause of the statement on a successful result.
func c19select(c *vf.Ctx, st *c19stats, which int, p c19params, list []*c19coin) {
	name := c19selNames[which]
	// a fresh copy of the offered slice for every call (a selector may reorder
	// its argument; the harness judges against its own list)
	offered := st.offered[:0]
	for _, k := range list {
		offered = append(offered, k)
	}
	st.offered = offered
	var sel coinset.CoinSelector
	switch which {
	case c19MinIndex:
		sel = coinset.MinIndexCoinSelector{MaxInputs: p.maxInputs, MinChangeAmount: bchutil.Amount(p.minChange)}
	case c19MinNumber:
		sel = coinset.MinNumberCoinSelector{MaxInputs: p.maxInputs, MinChangeAmount: bchutil.Amount(p.minChange)}
	case c19MaxValueAge:
		sel = coinset.MaxValueAgeCoinSelector{MaxInputs: p.maxInputs, MinChangeAmount: bchutil.Amount(p.minChange)}
	default:
		sel = coinset.MinPriorityCoinSelector{MaxInputs: p.maxInputs, MinChangeAmount: bchutil.Amount(p.minChange), MinAvgValueAgePerInput: p.minAvg}
	}
	// the closures handed to c.Call are built once per case (see prepare) and
	// read their arguments from st, so the hot loop does not allocate them anew
	st.prepare()
	st.cur.name, st.cur.p, st.cur.list, st.cur.sel, st.cur.target, st.cur.offered = name, p, list, sel, bchutil.Amount(p.target), offered
	st.cur.res, st.cur.err = nil, nil
	in, lin := st.inFn, st.lin
	st.calls[which]++
	if !c.Call(name, in, st.callFn) {
		return
	}
	res, err := st.cur.res, st.cur.err
	if err != nil {
		st.errs[which]++
		return // the interface documents that a selector may fail; nothing is asserted
	}
	st.succ[which]++
	c.Evals(1)
	if res == nil {
		c.Failf(name+"/nil-result", "%s: err == nil but the returned Coins is nil", lin)
		return
	}
	var got []coinset.Coin
	if !c.Call(name+"/Coins", in, func() { got = res.Coins() }) {
		return
	}
	// a selection handed out as a *CoinSet is a coin set like any other: its
	// count and totals equal the sums over its contents, now and after the
	// caller goes on using it
	if cs, isSet := res.(*coinset.CoinSet); isSet && cs != nil {
		var num int
		var tv bchutil.Amount
		var tva int64
		if c.Call(name+"/CoinSet-totals", in, func() { num, tv, tva = cs.Num(), cs.TotalValue(), cs.TotalValueAge() }) {
			var sv, sva int64
			for _, g := range got {
				sv += int64(g.Value())
				sva += g.ValueAge()
			}
			if num != len(got) || int64(tv) != sv || tva != sva {
				c.Failf(name+"/result-set-totals", "%s: the returned *CoinSet reports Num()=%d TotalValue()=%d TotalValueAge()=%d but holds %d coins summing to value %d, value-age %d", lin, num, int64(tv), tva, len(got), sv, sva)
			}
			st.resultSets++
		}
	}

	// distinct coins taken from the offered list
	ids := st.ids[:0]
	for range got {
		ids = append(ids, 0)
	}
	st.ids = ids
	var seen uint64
	okMembers := true
	for j, g := range got {
		k, isOurs := g.(*c19coin)
		if !isOurs || k == nil || k.pos < 0 || k.pos >= len(list) || list[k.pos] != k {
			c.Failf(name+"/from-list", "%s: selected coin %d (%T %v) is not one of the offered coins", lin, j, g, g)
			okMembers = false
			continue
		}
		ids[j] = k.pos
		if seen&(1<<uint(k.pos)) != 0 {
			c.Failf(name+"/distinct", "%s: offered coin #%d selected more than once; selection %v", lin, k.pos, c19ids(got))
			okMembers = false
		}
		seen |= 1 << uint(k.pos)
	}
	if !okMembers {
		return
	}
	var total, totalVA int64
	for _, id := range ids {
		total += int64(list[id].value)
		totalVA += list[id].ValueAge()
	}
	if len(ids) == 0 {
		st.empty[which]++
	}
	if len(ids) == p.maxInputs {
		st.maxedOut[which]++
	}
	if total == p.target {
		st.exact[which]++
	} else {
		st.change[which]++
	}

	// generic clauses
	if len(ids) > p.maxInputs && len(ids) > 0 { // an empty selection has no inputs to limit, whatever the (possibly negative) limit
		c.Failf(name+"/max-inputs", "%s: selected %d coins %v, MaxInputs is %d", lin, len(ids), ids, p.maxInputs)
	}
	if !c19sat(p.target, p.minChange, total) {
		c.Failf(name+"/change-rule", "%s: selection %v totals %d: neither == target %d nor >= target+MinChangeAmount = %d", lin, ids, total, p.target, p.target+p.minChange)
	}

	switch which {
	case c19MinIndex:
		for j, id := range ids {
			if id != j {
				c.Failf(name+"/prefix", "%s: selection %v is not a prefix of the offered list", lin, ids)
				return
			}
		}
		var run int64
		for j := 0; j+1 < len(ids); j++ { // non-empty proper prefixes
			run += int64(list[j].value)
			if j+1 <= p.maxInputs && c19sat(p.target, p.minChange, run) {
				c.Failf(name+"/shortest-prefix", "%s: returned the %d-coin prefix (total %d) although the %d-coin prefix (total %d) already qualifies", lin, len(ids), total, j+1, run)
				break
			}
		}
	case c19MinNumber, c19MaxValueAge:
		key := func(id int) int64 {
			if which == c19MinNumber {
				return int64(list[id].value)
			}
			return list[id].ValueAge()
		}
		keyName := "value"
		if which == c19MaxValueAge {
			keyName = "value-age"
		}
		if len(ids) == 0 {
			return
		}
		tie := false
		for j := 0; j+1 < len(ids); j++ {
			if key(ids[j]) < key(ids[j+1]) {
				c.Failf(name+"/descending-order", "%s: selection %v is not non-increasing in %s (position %d: %d < %d)", lin, ids, keyName, j, key(ids[j]), key(ids[j+1]))
				return
			}
			if key(ids[j]) == key(ids[j+1]) {
				tie = true
			}
		}
		smallest := key(ids[len(ids)-1])
		for id := range list {
			if seen&(1<<uint(id)) != 0 {
				continue
			}
			if key(id) > smallest {
				c.Failf(name+"/largest-first", "%s: selection %v (smallest selected %s %d) skips offered coin #%d with larger %s %d: not a prefix of the descending order", lin, ids, keyName, smallest, id, keyName, key(id))
				return
			}
			if key(id) == smallest {
				tie = true
			}
		}
		if tie {
			st.ties[which]++
		}
		var run int64
		for j := 0; j+1 < len(ids); j++ {
			run += int64(list[ids[j]].value)
			if j+1 <= p.maxInputs && c19sat(p.target, p.minChange, run) {
				c.Failf(name+"/shortest-prefix", "%s: returned %d coins %v (total %d) although its first %d (total %d) already qualify", lin, len(ids), ids, total, j+1, run)
				break
			}
		}
	case c19MinPriority:
		if len(ids) > 0 && totalVA/int64(len(ids)) < p.minAvg { // floor(avg) >= min <=> avg >= min; no product that could wrap
			c.Failf(name+"/avg-value-age", "%s: selection %v has total value-age %d over %d inputs (average %.4f) < MinAvgValueAgePerInput %d", lin, ids, totalVA, len(ids), float64(totalVA)/float64(len(ids)), p.minAvg)
		}
		for _, id := range ids {
			if list[id].ValueAge() < p.minAvg {
				st.lowMixed++
				break
			}
		}
	}
}

func c19ids(got []coinset.Coin) []int {
	ids := make([]int, len(got))
	for i, g := range got {
		if k, ok := g.(*c19coin); ok && k != nil {
			ids[i] = k.pos
		} else {
			ids[i] = -1
		}
	}
	return ids
}

// ---- exhaustive small scope -------------------------------------------------

var (
	c19smallValues = []int64{0, 1, 2, 3, 5, 10}
	c19smallConfs  = []int64{0, 1, 2, 10}
	c19smallAvgs   = []int64{0, 1, 2, 3, 5, 8, 15, 40}
)

const (
	c19coinKinds  = 24 // 6 values x 4 confirmations
	c19smallLists = 1 + c19coinKinds + c19coinKinds*c19coinKinds + c19coinKinds*c19coinKinds*c19coinKinds
	c19maxTarget  = 25
	c19maxMaxIn   = 4
	c19maxChange  = 6
)

// c19smallList decodes list number li (ordered sequences of <= 3 coin kinds).
func c19smallList(li int) []*c19coin {
	n := 0
	switch {
	case li < 1:
		n = 0
	case li < 1+c19coinKinds:
		n, li = 1, li-1
	case li < 1+c19coinKinds+c19coinKinds*c19coinKinds:
		n, li = 2, li-1-c19coinKinds
	default:
		n, li = 3, li-1-c19coinKinds-c19coinKinds*c19coinKinds
	}
	list := make([]*c19coin, n)
	for j := 0; j < n; j++ {
		kind := li % c19coinKinds
		li /= c19coinKinds
		list[j] = c19mkcoin(j, c19smallValues[kind%6], c19smallConfs[kind/6], 0x5ca1e)
	}
	return list
}

// one case = one (list, target); it sweeps MaxInputs x MinChange (x MinAvg).
func c19smallCase(c *vf.Ctx, i int) {
	list := c19smallList(i / (c19maxTarget + 1))
	target := int64(i % (c19maxTarget + 1))
	var st c19stats
	for mi := 0; mi <= c19maxMaxIn; mi++ {
		for mc := int64(0); mc <= c19maxChange; mc++ {
			p := c19params{target: target, maxInputs: mi, minChange: mc}
			c19select(c, &st, c19MinIndex, p, list)
			c19select(c, &st, c19MinNumber, p, list)
			c19select(c, &st, c19MaxValueAge, p, list)
			for _, avg := range c19smallAvgs {
				p.minAvg = avg
				c19select(c, &st, c19MinPriority, p, list)
			}
		}
	}
	st.flush(c)
	c.Nontrivial(vf.Mix(19, uint64(i)))
	if c.WantSample() {
		c.Sample(map[string]any{"coins": c19listString(list), "target": target, "swept": "MaxInputs 0..4 x MinChangeAmount 0..6 x MinAvgValueAgePerInput {0,1,2,3,5,8,15,40}", "successes_per_selector": st.succ})
	}
}

// ---- seeded lists of <= 12 coins -------------------------------------------

func c19randList(r *vf.Rand) []*c19coin {
	n := r.SkewLen(12)
	list := make([]*c19coin, n)
	vmode := r.Intn(5)
	cmode := r.Intn(4)
	if r.Chance(1, 8) {
		// large magnitudes: value-ages beyond 2^53 (sums stay far below 2^63),
		// where a detour through float64 loses the low bits
		vmode, cmode = 5, 4
	}
	salt := r.Uint64()
	for j := 0; j < n; j++ {
		var v, cf int64
		switch vmode {
		case 0:
			v = c19smallValues[r.Intn(6)]
		case 1:
			v = int64(r.Intn(101))
		case 2:
			v = int64(r.Uint64n(1_000_000_001))
		case 3: // few distinct values: many ties
			v = []int64{0, 7, 7, 50, 1000}[r.Intn(5)]
		case 5:
			v = 1_000_000_000 + int64(r.Uint64n(100_000_000_000))
		default: // mixed magnitudes
			v = int64(r.Uint64n(uint64(1) << uint(r.Intn(31))))
		}
		switch cmode {
		case 0:
			cf = c19smallConfs[r.Intn(4)]
		case 1:
			cf = int64(r.Intn(7))
		case 2:
			cf = int64(r.Intn(1001))
		case 4:
			cf = 100_000 + int64(r.Intn(900_000))
		default:
			cf = []int64{0, 1, 1, 6, 144}[r.Intn(5)]
		}
		if j > 0 && r.Chance(1, 6) { // exact duplicate of an earlier coin's value/confs
			o := list[r.Intn(j)]
			v, cf = int64(o.value), o.confs
		}
		list[j] = c19mkcoin(j, v, cf, salt)
	}
	if n > 0 && r.Chance(1, 10) {
		// one coin whose value-age is close to the top of the int64 range
		// (2^61 .. 2^63; the sum over the whole list still fits an int64):
		// products such as MinAvgValueAgePerInput x count no longer fit
		j := r.Intn(n)
		var others int64
		for i, k := range list {
			if i != j {
				others += k.ValueAge()
			}
		}
		if others < 1<<60 {
			room := uint64(math.MaxInt64-others) - 1<<61
			want := 1<<61 + r.Uint64n(room)
			if r.Chance(1, 4) {
				want = 1 << 62
			}
			v := int64(1)<<30 + int64(r.Uint64n(3<<30))
			if r.Chance(1, 4) {
				v = 1 << 31
			}
			list[j] = c19mkcoin(j, v, int64(want/uint64(v)), salt)
		}
	}
	return list
}

func c19randParams(r *vf.Rand, list []*c19coin) c19params {
	n := len(list)
	var sum, maxV, maxVA int64
	for _, k := range list {
		sum += int64(k.value)
		if int64(k.value) > maxV {
			maxV = int64(k.value)
		}
		if k.ValueAge() > maxVA {
			maxVA = k.ValueAge()
		}
	}
	var p c19params
	// MinChangeAmount
	switch r.Intn(6) {
	case 0:
		p.minChange = 0
	case 1:
		p.minChange = 1
	case 2:
		p.minChange = int64(r.Intn(7))
	case 3:
		p.minChange = int64(r.Uint64n(uint64(maxV) + 2))
	case 4:
		if n > 0 {
			p.minChange = int64(list[r.Intn(n)].value) + int64(r.Intn(3)) - 1
		}
	default:
		p.minChange = int64(r.Uint64n(uint64(sum) + 2))
	}
	if p.minChange < 0 {
		p.minChange = 0
	}
	// target
	switch r.Intn(6) {
	case 0:
		p.target = int64(r.Uint64n(uint64(sum) + 6))
	case 1, 2: // total of a random subset, possibly moved by the change amount
		var t int64
		for _, k := range list {
			if r.Bool() {
				t += int64(k.value)
			}
		}
		p.target = c19nudge(r, t, p.minChange)
	case 3: // total of a prefix of the list
		var t int64
		if n > 0 {
			for _, k := range list[:r.Intn(n+1)] {
				t += int64(k.value)
			}
		}
		p.target = c19nudge(r, t, p.minChange)
	case 4:
		p.target = int64(r.Intn(26))
	default:
		p.target = int64(r.Uint64n(uint64(maxV) + 2))
	}
	if p.target < 0 {
		p.target = 0
	}
	// MaxInputs
	switch r.Intn(4) {
	case 0:
		p.maxInputs = r.Intn(5)
	case 1:
		p.maxInputs = n
	default:
		p.maxInputs = r.Intn(n + 2)
	}
	if r.Chance(1, 16) {
		// limits at the ends of the int range: no arithmetic on the limit may wrap
		p.maxInputs = []int{-1, math.MinInt, math.MinInt + 1, math.MinInt + 2, math.MinInt + 12, math.MaxInt, math.MaxInt - 1, -12}[r.Intn(8)]
	}
	// MinAvgValueAgePerInput
	switch r.Intn(6) {
	case 0:
		p.minAvg = 0
	case 1:
		p.minAvg = int64(r.Intn(12))
	case 2, 3:
		if n > 0 {
			p.minAvg = list[r.Intn(n)].ValueAge() + int64(r.Intn(3)) - 1
		}
	case 4: // average of a random subset (not always an integer: rounded either way)
		var t, cnt int64
		for _, k := range list {
			if r.Bool() {
				t += k.ValueAge()
				cnt++
			}
		}
		if cnt > 0 {
			p.minAvg = t/cnt + int64(r.Intn(2))
		}
	default:
		p.minAvg = int64(r.Uint64n(uint64(maxVA) + 2))
	}
	if p.minAvg < 0 {
		p.minAvg = 0
	}
	return p
}

func c19nudge(r *vf.Rand, t, minChange int64) int64 {
	switch r.Intn(6) {
	case 0:
		return t - 1
	case 1:
		return t - minChange
	case 2:
		return t - minChange + 1
	case 3:
		return t - minChange - 1
	case 4:
		return t + 1
	}
	return t
}

const c19paramSetsPerList = 32

func c19seededCase(c *vf.Ctx, i int) {
	list := c19randList(c.R)
	var st c19stats
	for k := 0; k < c19paramSetsPerList; k++ {
		p := c19randParams(c.R, list)
		for which := 0; which < 4; which++ {
			c19select(c, &st, which, p, list)
		}
	}
	st.flush(c)
	c.Count(fmt.Sprintf("lists_of_%02d_coins", len(list)), 1)
	h := vf.Mix(20, uint64(len(list)))
	for _, k := range list {
		h = vf.Mix(h, uint64(k.value), uint64(k.confs))
	}
	c.Nontrivial(h)
	if c.WantSample() {
		c.Sample(map[string]any{"coins": c19listString(list), "parameter_sets": c19paramSetsPerList, "successes_per_selector": st.succ})
	}
}

// ---- CoinSet against a model list ------------------------------------------

func c19checkSet(c *vf.Ctx, cs *coinset.CoinSet, model []*c19coin, history *[]string) bool {
	in := func() string { return "ops: " + strings.Join(*history, " ") }
	var num int
	var tv bchutil.Amount
	var tva int64
	var got []coinset.Coin
	if !c.Call("CoinSet/observe", in, func() { num = cs.Num(); tv = cs.TotalValue(); tva = cs.TotalValueAge(); got = cs.Coins() }) {
		return false
	}
	c.Evals(1)
	ok := true
	// the statement's literal clause: count and totals equal the sums over the current contents
	var sv, sva int64
	for _, g := range got {
		sv += int64(g.Value())
		sva += g.ValueAge()
	}
	if num != len(got) || int64(tv) != sv || tva != sva {
		c.Failf("CoinSet/totals", "%s: Num()=%d TotalValue()=%d TotalValueAge()=%d, but Coins() holds %d coins summing to value %d, value-age %d", in(), num, int64(tv), tva, len(got), sv, sva)
		ok = false
	}
	// contents follow the push-back / pop-back / shift-front model
	same := len(got) == len(model)
	if same {
		for j := range got {
			if k, isOurs := got[j].(*c19coin); !isOurs || k != model[j] {
				same = false
				break
			}
		}
	}
	if !same {
		want := make([]int, len(model))
		for j, k := range model {
			want[j] = k.pos
		}
		c.Failf("CoinSet/contents", "%s: Coins() = %v (coin ids), model list = %v", in(), c19ids(got), want)
		ok = false
	}
	// Coins() is documented to return a new slice: the caller reorders and
	// overwrites what it was handed; the set must not follow
	for a, b := 0, len(got)-1; a < b; a, b = a+1, b-1 {
		got[a], got[b] = got[b], got[a]
	}
	if len(got) > 0 {
		got[0] = c19junkCoin
		got[len(got)/2] = c19junkCoin
	}
	return ok
}

var c19junkCoin = c19mkcoin(999999, 123456789, 987, 0x19)

func c19coinSetCase(c *vf.Ctx, i int) {
	r := c.R
	salt := r.Uint64()
	nextID := 0
	big := r.Chance(1, 4)
	newCoin := func() *c19coin {
		var v, cf int64
		if big {
			v, cf = int64(r.Uint64n(1_000_000_000_001)), int64(r.Intn(100_001))
		} else {
			v, cf = int64(r.Intn(50)), int64(r.Intn(12))
		}
		if r.Chance(1, 8) {
			v = 0
		}
		if r.Chance(1, 8) {
			cf = 0
		}
		k := c19mkcoin(nextID, v, cf, salt)
		nextID++
		return k
	}
	var model []*c19coin
	var history []string
	var cs *coinset.CoinSet
	in := func() string { return "ops: " + strings.Join(history, " ") }
	// initial contents: nil, empty slice or a few coins
	switch r.Intn(3) {
	case 0:
		history = append(history, "NewCoinSet(nil)")
		if !c.Call("NewCoinSet", in, func() { cs = coinset.NewCoinSet(nil) }) {
			return
		}
	default:
		n := r.Intn(5)
		initial := make([]coinset.Coin, n)
		for j := range initial {
			k := newCoin()
			initial[j] = k
			model = append(model, k)
		}
		history = append(history, fmt.Sprintf("NewCoinSet(%d coins)", n))
		if !c.Call("NewCoinSet", in, func() { cs = coinset.NewCoinSet(initial) }) {
			return
		}
		// the caller reuses its slice afterwards: the set must not follow it
		for j := range initial {
			initial[j] = newCoin()
		}
		if n > 1 {
			initial[0], initial[n-1] = initial[n-1], initial[0]
		}
		c.Inc("CoinSet/source_slice_overwritten_after_NewCoinSet")
	}
	if cs == nil {
		c.Failf("NewCoinSet/nil", "%s: returned nil", in())
		return
	}
	if !c19checkSet(c, cs, model, &history) {
		return
	}
	nops := r.Range(1, 48)
	if i%300 == 298 {
		nops = 4000 // a long-lived set: drift only shows after many operations
		c.Inc("CoinSet/long_histories_4000_ops")
	}
	pushBias := r.Range(1, 5) // of 6
	var onEmpty, pushes, removes, dupPush int64
	for op := 0; op < nops; op++ {
		switch {
		case r.Chance(1, 10):
			// no operation on the set: a second observation right after the
			// caller edited the slice the previous Coins() call returned
			history = append(history, "(observe-again)")
			c.Inc("CoinSet/observed_again_after_caller_edited_returned_slice")
		case r.Chance(pushBias, 6):
			var k *c19coin
			if len(model) > 0 && r.Chance(1, 10) { // the same coin once more: sums must count it twice
				k = model[r.Intn(len(model))]
				dupPush++
			} else {
				k = newCoin()
			}
			history = append(history, fmt.Sprintf("Push(id=%d,value=%d,confs=%d)", k.pos, int64(k.value), k.confs))
			if !c.Call("CoinSet.PushCoin", in, func() { cs.PushCoin(k) }) {
				return
			}
			model = append(model, k)
			pushes++
		case r.Bool():
			history = append(history, "Pop")
			var ret coinset.Coin
			if !c.Call("CoinSet.PopCoin", in, func() { ret = cs.PopCoin() }) {
				return
			}
			if len(model) == 0 {
				onEmpty++
			} else {
				want := model[len(model)-1]
				model = model[:len(model)-1]
				if k, isOurs := ret.(*c19coin); !isOurs || k != want {
					c.Failf("CoinSet.PopCoin/removed-coin", "%s: returned %v, the last coin is id=%d", in(), ret, want.pos)
				}
				removes++
			}
		default:
			history = append(history, "Shift")
			var ret coinset.Coin
			if !c.Call("CoinSet.ShiftCoin", in, func() { ret = cs.ShiftCoin() }) {
				return
			}
			if len(model) == 0 {
				onEmpty++
			} else {
				want := model[0]
				model = model[1:]
				if k, isOurs := ret.(*c19coin); !isOurs || k != want {
					c.Failf("CoinSet.ShiftCoin/removed-coin", "%s: returned %v, the first coin is id=%d", in(), ret, want.pos)
				}
				removes++
			}
		}
		if !c19checkSet(c, cs, model, &history) {
			return
		}
	}
	c.Count("coinset/pushes", pushes)
	c.Count("coinset/pops_and_shifts", removes)
	c.Count("coinset/pop_or_shift_on_empty", onEmpty)
	c.Count("coinset/same_coin_pushed_again", dupPush)
	c19checkTx(c, "NewMsgTxWithInputCoins", cs, model, in)
	h := vf.Mix(21, uint64(len(history)))
	for _, s := range history {
		h = vf.Mix(h, vf.HashString(s))
	}
	c.Nontrivial(h)
	if c.WantSample() {
		c.Sample(map[string]any{"ops": short(strings.Join(history, " ")), "final_num": len(model)})
	}
}

// c19checkTx: a transaction built from a coin set spends exactly its
// outpoints, in order.
func c19checkTx(c *vf.Ctx, site string, coins coinset.Coins, model []*c19coin, in func() string) {
	ver := int32(c.R.Intn(3))
	var outs []struct {
		h chainhash.Hash
		i uint32
	}
	var nOut int
	ok := c.Call(site, in, func() {
		tx := coinset.NewMsgTxWithInputCoins(ver, coins)
		if tx == nil {
			nOut = -1
			return
		}
		nOut = len(tx.TxOut)
		for _, ti := range tx.TxIn {
			if ti == nil {
				outs = append(outs, struct {
					h chainhash.Hash
					i uint32
				}{})
				continue
			}
			outs = append(outs, struct {
				h chainhash.Hash
				i uint32
			}{ti.PreviousOutPoint.Hash, ti.PreviousOutPoint.Index})
		}
	})
	if !ok {
		return
	}
	c.Evals(1)
	c.Inc("transactions_built")
	if nOut < 0 {
		c.Failf(site+"/nil", "%s: returned nil", in())
		return
	}
	bad := len(outs) != len(model)
	for j := 0; !bad && j < len(model); j++ {
		if outs[j].h != model[j].hash || outs[j].i != model[j].index {
			bad = true
		}
	}
	if bad {
		var want, got []string
		for _, k := range model {
			want = append(want, fmt.Sprintf("%s:%d", hx(k.hash[:4]), k.index))
		}
		for _, o := range outs {
			got = append(got, fmt.Sprintf("%s:%d", hx(o.h[:4]), o.i))
		}
		c.Failf(site+"/outpoints", "%s: transaction inputs spend %v, the set holds %v (hash prefix:index, in order)", in(), got, want)
	}
}

// c19txCase builds transactions from selector results (a Coins that is not
// necessarily a *CoinSet the harness filled itself).
func c19txFromSelection(c *vf.Ctx, list []*c19coin, p c19params) {
	offered := make([]coinset.Coin, len(list))
	for i, k := range list {
		offered[i] = k
	}
	var res coinset.Coins
	var err error
	in := func() string { return c19describe("MinNumberCoinSelector", p, list) + " -> NewMsgTxWithInputCoins" }
	if !c.Call("MinNumberCoinSelector", in, func() {
		res, err = coinset.MinNumberCoinSelector{MaxInputs: p.maxInputs, MinChangeAmount: bchutil.Amount(p.minChange)}.CoinSelect(bchutil.Amount(p.target), offered)
	}) || err != nil || res == nil {
		return
	}
	var got []coinset.Coin
	if !c.Call("MinNumberCoinSelector/Coins", in, func() { got = res.Coins() }) {
		return
	}
	model := make([]*c19coin, 0, len(got))
	for _, g := range got {
		k, isOurs := g.(*c19coin)
		if !isOurs {
			return // reported by the selector streams
		}
		model = append(model, k)
	}
	c19checkTx(c, "NewMsgTxWithInputCoins", res, model, in)
}

func init() {
	register(&vf.Property{
		ID:    "C19",
		Title: "Coin selection returns only valid selections and coin-set totals never drift",
		Rule: "stream small-scope (exhaustive): every ordered list of <= 3 coins over values {0,1,2,3,5,10} x confirmations {0,1,2,10} (14425 lists) x target 0..25, one case per (list, target) sweeping MaxInputs 0..4 x MinChangeAmount 0..6 for the three prefix selectors and additionally MinAvgValueAgePerInput in {0,1,2,3,5,8,15,40} for the priority selector; " +
			"stream seeded: lists of 0..12 coins (five value profiles incl. zeros, ties, duplicates; four confirmation profiles), 32 parameter sets per list (targets at subset / prefix totals +-1 and +-MinChangeAmount, MaxInputs 0..n+1, thresholds at coin value-ages +-1 and subset averages), all four selectors on each; " +
			"stream coinset: NewCoinSet(nil | 0..4 coins) followed by 1..48 random PushCoin/PopCoin/ShiftCoin (incl. on the empty set and re-pushing a held coin), model compared after every operation, then NewMsgTxWithInputCoins; also transactions from selector results. " +
			"Every err == nil selection is one oracle evaluation; a selector error asserts nothing. A distinct non-trivial case is one (list, target) resp. one list resp. one operation history.",
		Assumptions: []string{
			"coins are harness-owned records with constant Value/NumConfs/ValueAge = value*confs; identity = pointer identity",
			"'prefix qualifies' = at most MaxInputs coins and total == target or total >= target + MinChangeAmount; only non-empty proper prefixes are compared, so for target 0 an empty or a one-coin selection are both accepted",
			"order and choice among coins of equal value / value-age is not asserted",
			"all values, confirmations, targets and thresholds are non-negative and small enough that no int64 sum overflows",
		},
		SelfTest: c19selfTest,
		Streams: []*vf.Stream{
			{Name: "small-scope", Exhaustive: true, N: func(t vf.Tier) int { return c19smallLists * (c19maxTarget + 1) }, Run: c19smallCase},
			{Name: "seeded", N: func(t vf.Tier) int { return t.Sz(62500, 3_125_000) }, Run: c19seededCase},
			{Name: "coinset", N: func(t vf.Tier) int { return t.Sz(100_000, 2_000_000) }, Run: func(c *vf.Ctx, i int) {
				if i%4 == 3 {
					list := c19randList(c.R)
					for k := 0; k < 8; k++ {
						c19txFromSelection(c, list, c19randParams(c.R, list))
					}
					return
				}
				c19coinSetCase(c, i)
			}},
		},
	})
}

// c19selfTest checks the harness's own predicate and list decoder on
// hand-computed values.
func c19selfTest() error {
	type tc struct {
		t, m, tot int64
		want      bool
	}
	for _, x := range []tc{{100, 10, 100, true}, {100, 10, 101, false}, {100, 10, 109, false}, {100, 10, 110, true}, {100, 10, 99, false}, {0, 0, 0, true}, {0, 3, 2, false}, {5, 0, 6, true}} {
		if c19sat(x.t, x.m, x.tot) != x.want {
			return fmt.Errorf("c19sat(%d,%d,%d) != %v", x.t, x.m, x.tot, x.want)
		}
	}
	if c19smallLists != 14425 {
		return fmt.Errorf("small-scope list count %d", c19smallLists)
	}
	seen := map[string]bool{}
	for li := 0; li < c19smallLists; li++ {
		l := c19smallList(li)
		s := ""
		for _, k := range l {
			s += fmt.Sprintf("%d/%d,", int64(k.value), k.confs)
			if k.ValueAge() != int64(k.value)*k.confs {
				return fmt.Errorf("coin value-age")
			}
		}
		if seen[s] {
			return fmt.Errorf("small-scope list %d (%s) enumerated twice", li, s)
		}
		seen[s] = true
	}
	if l := c19smallList(c19smallLists - 1); len(l) != 3 || l[0].value != 10 || l[2].confs != 10 {
		return fmt.Errorf("last small-scope list decoded wrongly")
	}
	return nil
}
