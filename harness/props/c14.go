package props

import (
	"bytes"
	"encoding/binary"
	"fmt"
	"math/bits"
	"time"

	"github.com/gcash/bchd/chaincfg/chainhash"
	"github.com/gcash/bchd/wire"
	"github.com/gcash/bchutil/gcs"
	"github.com/gcash/bchutil/gcs/builder"

	"verif/internal/ref"
	"verif/internal/vf"
)

// C14 — GCS filters are bit-exact Golomb-Rice encodings and serialise
// losslessly.
//
// Oracle (nothing beyond the statement):
//   - Bytes() of a built filter == reference encoding (own SipHash-2-4,
//     bits.Mul64 reduction, own bit writer); N() == len(data), P() == P;
//   - NBytes == CompactSize(N) || bytes, PBytes == [P] || bytes,
//     NPBytes == CompactSize(N) || [P] || bytes (built by the harness);
//   - FromBytes / FromNBytes of those serialisations (the P-prefixed forms are
//     stripped by the harness, the API has no FromPBytes / FromNPBytes) give
//     the same N, P, bytes and the same answers as the original filter;
//   - the hook gcs.VerifFastReduction == high word of bits.Mul64;
//   - BuildBasicFilter == reference encoding of {outpoints spent by inputs of
//     non-first transactions} U {non-empty output scripts}, de-duplicated,
//     key = first 16 bytes of the block hash, P = 19, M = 784931;
//     GetFilterHash == sha256d(NBytes), MakeHeaderForFilter ==
//     sha256d(hash || prev); the With*/Set*/Add* chain builds the reference
//     encoding of its de-duplicated entries.
//
// Generated blocks always start with a coinbase-shaped transaction and no
// later transaction is coinbase-shaped (the code decides "coinbase" by
// position, the statement by kind: the two coincide on these blocks).

func c14concat(parts ...[]byte) []byte {
	var out []byte
	for _, p := range parts {
		out = append(out, p...)
	}
	return out
}

// c14ser calls one of the four serialisers.
func c14ser(c *vf.Ctx, site string, f *gcs.Filter, desc func() string, fn func() ([]byte, error)) ([]byte, bool) {
	var b []byte
	var err error
	if !c.Call(site, desc, func() { b, err = fn() }) {
		return nil, false
	}
	if err != nil {
		c.Failf(site+"/error", "%s: %s failed: %v", desc(), site, err)
		return nil, false
	}
	return b, true
}

// c14checkFilter compares a library filter with the reference encoding
// (want, n, p) and checks the serialisations.  It returns false when the
// filter itself is wrong (then derived checks are skipped).
func c14checkFilter(c *vf.Ctx, site string, f *gcs.Filter, want []byte, n int, p uint8, desc func() string) bool {
	good := true
	var gotN uint32
	var gotP uint8
	c.Call(site+"/N,P", desc, func() { gotN, gotP = f.N(), f.P() })
	c.Evals(1)
	if uint64(gotN) != uint64(n) || gotP != p {
		c.Failf(site+"/N,P", "%s: N()=%d P()=%d want N=%d P=%d", desc(), gotN, gotP, n, p)
		good = false
	}
	b, ok := c14ser(c, "Bytes", f, desc, f.Bytes)
	if !ok {
		return false
	}
	c.Evals(1)
	if !eqBytes(b, want) {
		c.Failf(site+"/bytes", "%s: filter bytes (%d) differ from the reference Golomb-Rice encoding (%d):\n got  %s\n want %s%s",
			desc(), len(b), len(want), short(hx(b)), short(hx(want)), c14firstDiff(b, want, p))
		good = false
	}
	// the concatenation clauses are relative to the filter's own N, P and
	// bytes (each compared with the reference above), so one wrong encoding
	// is reported once
	cs := ref.CompactSize(uint64(gotN))
	p = gotP
	for _, s := range []struct {
		name string
		fn   func() ([]byte, error)
		want []byte
	}{
		// b is the filter's own Bytes(), compared with the reference above:
		// a wrong encoding is reported once, not four times
		{"NBytes", f.NBytes, c14concat(cs, b)},
		{"PBytes", f.PBytes, c14concat([]byte{p}, b)},
		{"NPBytes", f.NPBytes, c14concat(cs, []byte{p}, b)},
	} {
		got, ok := c14ser(c, s.name, f, desc, s.fn)
		if !ok {
			continue
		}
		c.Evals(1)
		if !eqBytes(got, s.want) {
			c.Failf(s.name+"/concatenation", "%s: %s = %s, want CompactSize(N)/P/bytes concatenation %s", desc(), s.name, short(hx(got)), short(hx(s.want)))
		}
	}
	return good
}

// c14firstDiff decodes both byte strings with the reference reader and names
// the first differing value.
func c14firstDiff(got, want []byte, p uint8) string {
	g := ref.GCSDecodeValues(got, p, 1<<20)
	w := ref.GCSDecodeValues(want, p, 1<<20)
	for i := 0; i < len(g) && i < len(w); i++ {
		if g[i] != w[i] {
			return fmt.Sprintf("\n first differing decoded value: index %d got %#x want %#x", i, g[i], w[i])
		}
	}
	return fmt.Sprintf("\n decoded value counts: got %d want %d", len(g), len(w))
}

type c14answer struct {
	res bool
	err bool
}

// c14rebuilt checks that a filter rebuilt from a serialisation equals the
// original and answers the queries identically.
func c14rebuilt(c *vf.Ctx, w *gcsWorld, how string, g *gcs.Filter, err error, qs []int, sets [][]int, orig []c14answer) {
	site := how
	c.Evals(1)
	if err != nil || g == nil {
		c.Failf(site+"/error", "%s: %s failed: %v", w.describe(), how, err)
		return
	}
	var n uint32
	var p uint8
	var b []byte
	c.Call(site+"/accessors", w.describe, func() { n, p = g.N(), g.P(); b, _ = g.Bytes() })
	var ob []byte
	c.Call("Bytes", w.describe, func() { ob, _ = w.f.Bytes() })
	if int(n) != w.cfg.N || p != w.cfg.P || !eqBytes(b, ob) {
		c.Failf(site+"/roundtrip", "%s: %s gives N=%d P=%d bytes=%s, original N=%d P=%d bytes=%s", w.describe(), how, n, p, short(hx(b)), w.cfg.N, w.cfg.P, short(hx(ob)))
		return
	}
	ans := c14answers(c, w, g, how, qs, sets)
	if ans == nil {
		return
	}
	for j := range ans {
		c.Evals(1)
		if ans[j] != orig[j] {
			what := ""
			if j < len(qs) {
				what = fmt.Sprintf("Match(%x)", w.items[qs[j]])
			} else {
				k := j - len(qs)
				what = fmt.Sprintf("%s(%s)", c13fns[k%3].name, w.descQ(sets[k/3]))
			}
			c.Failf(site+"/answers-differ", "%s: rebuilt by %s: %s = (%v, err=%v), original filter (%v, err=%v)", w.describe(), how, what, ans[j].res, ans[j].err, orig[j].res, orig[j].err)
			return
		}
	}
}

// c14answers evaluates Match on every q and the three any-of queries on
// every set.
func c14answers(c *vf.Ctx, w *gcsWorld, f *gcs.Filter, who string, qs []int, sets [][]int) []c14answer {
	out := make([]c14answer, 0, len(qs)+3*len(sets))
	for _, i := range qs {
		var r bool
		var err error
		if !c.Call("Match", func() string { return fmt.Sprintf("%s (%s) item=%x", w.describe(), who, w.items[i]) }, func() { r, err = f.Match(w.key, w.items[i]) }) {
			return nil
		}
		out = append(out, c14answer{r, err != nil})
	}
	for _, q := range sets {
		d := make([][]byte, len(q))
		for j, i := range q {
			d[j] = w.items[i]
		}
		for fn := range c13fns {
			var r bool
			var err error
			if !c.Call(c13fns[fn].name, func() string { return fmt.Sprintf("%s (%s) %s", w.describe(), who, w.descQ(q)) }, func() { r, err = c13fns[fn].call(f, w.key, d) }) {
				return nil
			}
			out = append(out, c14answer{r, err != nil})
		}
	}
	return out
}

// c14parseCompact is the reference CompactSize reader.
func c14parseCompact(b []byte) (uint64, int, bool) {
	if len(b) == 0 {
		return 0, 0, false
	}
	switch {
	case b[0] < 0xfd:
		return uint64(b[0]), 1, true
	case b[0] == 0xfd && len(b) >= 3:
		return uint64(binary.LittleEndian.Uint16(b[1:])), 3, true
	case b[0] == 0xfe && len(b) >= 5:
		return uint64(binary.LittleEndian.Uint32(b[1:])), 5, true
	case b[0] == 0xff && len(b) >= 9:
		return binary.LittleEndian.Uint64(b[1:]), 9, true
	}
	return 0, 0, false
}

func c14encodeWorld(c *vf.Ctx, cfg gcsCfg) {
	w := gcsBuildWorld(c, cfg, min(max(2*cfg.N, 64), 400), "BuildGCSFilter")
	if w == nil {
		return
	}
	N := cfg.N
	c.Nontrivial(vf.Mix(14, vf.HashBytes(w.key[:]), uint64(cfg.P), cfg.M, uint64(N), vf.HashBytes(w.items[0]), vf.HashBytes(w.items[len(w.items)-1])))
	c.Inc(fmt.Sprintf("filters_P=%02d", cfg.P))
	switch {
	case N == 0:
		c.Inc("filters_empty")
	case w.nm < 1<<32:
		c.Inc("filters_NM_below_2^32")
	default:
		c.Inc("filters_NM_at_or_above_2^32")
	}
	data := make([][]byte, N)
	for j, i := range w.members {
		data[j] = w.items[i]
	}
	want := ref.GCSEncode(w.key, cfg.P, cfg.M, data)
	c.Count("reference_filter_bytes", int64(len(want)))
	if N > 0 && N <= 1000 {
		if pad := c14padBits(want, cfg.P, N); pad == 0 {
			c.Inc("filters_ending_on_a_byte_boundary")
		} else if pad > 0 {
			c.Inc("filters_with_padding_bits")
		}
	}
	if !c14checkFilter(c, "BuildGCSFilter", w.f, want, N, cfg.P, w.describe) {
		return
	}

	// queries: members, hostile and plain non-members
	nq := 200
	if N > 5000 {
		nq = 40
	}
	var qs []int
	dm := uniqInts(w.members)
	for j := 0; j < nq/2 && j < len(dm); j++ {
		qs = append(qs, dm[c.R.Intn(len(dm))])
	}
	for _, cl := range gcsHostileClasses {
		qs = append(qs, w.hostile[cl]...)
	}
	for _, i := range w.plain {
		if len(qs) >= nq {
			break
		}
		qs = append(qs, i)
	}
	qs = uniqInts(qs)
	var sets [][]int
	nsets := 6
	if N > 5000 {
		nsets = 2
	}
	for j := 0; j < nsets && len(qs) > 0; j++ {
		sz := 1 + c.R.Intn(min(len(qs), N+2))
		q := make([]int, sz)
		for t := range q {
			q[t] = qs[c.R.Intn(len(qs))]
		}
		if j%2 == 1 { // non-members only
			q = q[:0]
			for _, i := range qs {
				if !w.member[i] && len(q) < sz {
					q = append(q, i)
				}
			}
		}
		if len(q) > 0 {
			sets = append(sets, q)
		}
	}
	orig := c14answers(c, w, w.f, "original", qs, sets)
	if orig == nil {
		return
	}
	c.Count("roundtrip_queries", int64(len(orig)))

	cs := ref.CompactSize(uint64(N))
	var g *gcs.Filter
	var err error
	// FromBytes(Bytes)
	// The source buffers are the harness's own copies and are overwritten
	// right after the call (a caller reusing its read buffer): the rebuilt
	// filter must keep its bytes and answers.
	src := append([]byte{}, want...)
	if c.Call("FromBytes", w.describe, func() { g, err = gcs.FromBytes(uint32(N), cfg.P, cfg.M, src) }) {
		for j := range src {
			src[j] ^= 0xa5
		}
		c14rebuilt(c, w, "FromBytes", g, err, qs, sets, orig)
	}
	// FromNBytes(NBytes)
	nb := c14concat(cs, want)
	if c.Call("FromNBytes", w.describe, func() { g, err = gcs.FromNBytes(cfg.P, cfg.M, nb) }) {
		for j := range nb {
			nb[j] ^= 0xa5
		}
		c14rebuilt(c, w, "FromNBytes", g, err, qs, sets, orig)
	}
	// PBytes: strip P in the harness
	if pb, ok := c14ser(c, "PBytes", w.f, w.describe, w.f.PBytes); ok && len(pb) >= 1 {
		if c.Call("FromBytes", w.describe, func() { g, err = gcs.FromBytes(uint32(N), pb[0], cfg.M, pb[1:]) }) {
			c14rebuilt(c, w, "FromBytes(PBytes stripped)", g, err, qs, sets, orig)
		}
	}
	// NPBytes: parse N with the reference reader, take P, hand the rest on
	if npb, ok := c14ser(c, "NPBytes", w.f, w.describe, w.f.NPBytes); ok {
		if n, k, ok := c14parseCompact(npb); ok && len(npb) > k && n < 1<<32 {
			rest := c14concat(npb[:k], npb[k+1:])
			if c.Call("FromNBytes", w.describe, func() { g, err = gcs.FromNBytes(npb[k], cfg.M, rest) }) {
				c14rebuilt(c, w, "FromNBytes(NPBytes stripped)", g, err, qs, sets, orig)
			}
		}
	}
	if c.WantSample() {
		c.Sample(map[string]any{"filter": w.describe(), "bytes": short(hx(want)), "queries_compared_per_rebuilt_filter": len(orig)})
	}
}

// c14padBits returns the number of padding bits of an encoding (reference
// decode), or -1.
func c14padBits(enc []byte, p uint8, n int) int {
	vals := ref.GCSDecodeValues(enc, p, uint64(n))
	if len(vals) != n {
		return -1
	}
	bitsUsed := 0
	last := uint64(0)
	for _, v := range vals {
		d := v - last
		last = v
		bitsUsed += int(d>>p) + 1 + int(p)
	}
	return len(enc)*8 - bitsUsed
}

// c14hugeSpan (thorough tier only): N*M above 2^63, so that two member values
// differ by 2^63 or more - the range in which a comparison written as a signed
// difference, or any arithmetic that assumes values fit 63 bits, goes wrong.
// The specified encoding of such a set has at least 2^31 unary bits (256 MiB),
// which is why there is a single case.
func c14hugeSpan(c *vf.Ctx, i int) {
	r := c.R
	key := gcsKey(r)
	const P = 32
	M := uint64(1)<<63 - 1
	nm := 2 * M
	var a, b []byte
	for tries := 0; tries < 1000; tries++ {
		x, y := r.Bytes(8), r.Bytes(8)
		vx, vy := ref.GCSValue(key, x, nm), ref.GCSValue(key, y, nm)
		if vx > vy {
			vx, vy = vy, vx
		}
		if vy-vx >= 1<<63 && vy>>P < 1<<32 {
			a, b = x, y
			break
		}
	}
	if a == nil {
		c.Inconclusive("huge-span-items-not-found")
		return
	}
	data := [][]byte{a, b}
	if i%2 == 1 {
		data = [][]byte{b, a}
	}
	desc := func() string { return fmt.Sprintf("key=%x P=%d M=%d items %x %x", key, P, M, data[0], data[1]) }
	var f *gcs.Filter
	var err error
	if !c.Call("BuildGCSFilter", desc, func() { f, err = gcs.BuildGCSFilter(P, M, key, data) }) {
		return
	}
	if err != nil || f == nil {
		c.Failf("BuildGCSFilter/error", "%s: BuildGCSFilter failed: %v", desc(), err)
		return
	}
	want := ref.GCSEncode(key, P, M, data)
	var got []byte
	if !c.Call("Filter.Bytes", desc, func() { got, _ = f.Bytes() }) {
		return
	}
	c.Evals(1)
	c.Count("huge_span_filter_bytes", int64(len(want)))
	if !bytes.Equal(got, want) {
		c.Failf("BuildGCSFilter/bytes", "%s: filter bytes (%d) differ from the reference Golomb-Rice encoding (%d bytes) %s", desc(), len(got), len(want), c14firstDiff(got, want, P))
		return
	}
	for _, it := range data {
		var m bool
		if c.Call("Filter.Match", desc, func() { m, _ = f.Match(key, it) }) {
			c.Evals(1)
			if !m {
				c.Failf("Filter.Match/member-missed", "%s: member %x is not reported by the filter built from it", desc(), it)
			}
		}
	}
	c.Nontrivial(vf.Mix(0x14e, vf.HashBytes(key[:])))
}

func c14grid(c *vf.Ctx, i int) { c14encodeWorld(c, gcsGridCfg(c.R, i)) }

// c14largeQuick: the directed large configurations the quick tier encodes
// (N = 10^5, N*M on both sides of 2^32, clustered members with one very long
// unary run, more than 2^17 members with N not a multiple of 8).
var c14largeQuick = []int{0, 1, 3, 4, 10, 14}

func c14random(c *vf.Ctx, i int) {
	nl := len(gcsLargeCfgs)
	if c.Tier != vf.Thorough && i < len(c14largeQuick) {
		c14encodeWorld(c, gcsLargeCfgs[c14largeQuick[i]])
		return
	}
	if c.Tier == vf.Thorough && i < nl {
		c14encodeWorld(c, gcsLargeCfgs[i])
		return
	}
	if c.Tier == vf.Thorough && i < nl+24 {
		c14encodeWorld(c, gcsLargeCfg(c.R, i))
		return
	}
	if c.R.Chance(1, 15) {
		// N*M whose low 32-bit word lies within a few thousand of 2^32 (or of 0)
		// and whose high word is large: the partial products of the 64x64 -> 128
		// bit reduction then come within a hair of carrying, for the few per cent
		// of items whose hash has its top bits set
		r := c.R
		N := 200 + r.Intn(20000)
		hi := uint64(1) << uint(8+r.Intn(12))
		hi += r.Uint64n(hi)
		target := hi<<32 + 1<<32 - 1 - r.Uint64n(16)
		if r.Chance(1, 3) {
			target = hi<<32 + r.Uint64n(16)
		}
		M := target / uint64(N)
		c.Inc("filters_with_N*M_low_word_near_2^32")
		c14encodeWorld(c, gcsCfg{P: 32, M: M, N: N, MKind: "N*M low word near 2^32"})
		return
	}
	c14encodeWorld(c, gcsRandomCfg(c.R, c.Tier.Sz(20000, 40000)))
}

// ---------------------------------------------------------------------------
// fastReduction hook

var c14words = []uint64{0, 1, 2, 3, 0x7fffffff, 0x80000000, 0x80000001, 0xfffffffe, 0xffffffff,
	0x100000000, 0x100000001, 0x1ffffffff, 0xfffffffeffffffff, 0xffffffff00000000, 0xffffffff00000001,
	0xfffffffffffffffe, 0xffffffffffffffff, 0x8000000000000000, 0x7fffffffffffffff, 0xffffffff80000000,
	0x00000000ffff0001, 0xfffefffffffeffff, 0x0000000100000000 - 0x10000, 784931, 784931 * 100000, 0xaaaaaaaaaaaaaaaa, 0x5555555555555555}

var c14halves = []uint64{0, 1, 2, 0x7fffffff, 0x80000000, 0x80000001, 0xfffffffe, 0xffffffff, 0xffff, 0x10000, 0x10001}

func c14red(c *vf.Ctx, v, n uint64) {
	var got uint64
	if !c.Call("fastReduction", func() string { return fmt.Sprintf("v=%#x n=%#x", v, n) }, func() {
		got = gcs.VerifFastReduction(v, n>>32, uint64(uint32(n)))
	}) {
		return
	}
	hi, _ := bits.Mul64(v, n)
	c.Evals(1)
	if got != hi {
		c.Failf("fastReduction/high-word", "fastReduction(v=%#x, nHi=%#x, nLo=%#x)=%#x, floor(v*n/2^64)=%#x", v, n>>32, uint64(uint32(n)), got, hi)
	}
	// classes: does the middle column carry?
	vhi, vlo, nhi, nlo := v>>32, v&0xffffffff, n>>32, n&0xffffffff
	mid := (vhi*nlo)&0xffffffff + (nhi*vlo)&0xffffffff + (vlo*nlo)>>32
	switch mid >> 32 {
	case 0:
		c.Inc("reduction_middle_carry_0")
	case 1:
		c.Inc("reduction_middle_carry_1")
	default:
		c.Inc("reduction_middle_carry_2")
	}
}

const c14redBatch = 4096

func c14reduction(c *vf.Ctx, i int) {
	if i == 0 { // directed: every pair of the word list
		for _, v := range c14words {
			for _, n := range c14words {
				c14red(c, v, n)
				c.Nontrivial(vf.Mix(141, v, n))
			}
		}
		return
	}
	if i == 1 { // directed: every combination of the interesting halves
		for _, a := range c14halves {
			for _, b := range c14halves {
				for _, d := range c14halves {
					for _, e := range c14halves {
						v, n := a<<32|b, d<<32|e
						c14red(c, v, n)
						c.Nontrivial(vf.Mix(141, v, n))
					}
				}
			}
		}
		return
	}
	r := c.R
	half := func() uint64 {
		if r.Chance(1, 3) {
			return c14halves[r.Intn(len(c14halves))]
		}
		return uint64(r.Uint32())
	}
	for k := 0; k < c14redBatch; k++ {
		var v, n uint64
		switch r.Intn(4) {
		case 0:
			v, n = r.Uint64(), r.Uint64()
		case 1: // siphash output against a realistic modulus
			v, n = r.Uint64(), uint64(1+r.Intn(100000))*(1+r.Uint64n(1<<36))
		case 2:
			v, n = half()<<32|half(), half()<<32|half()
		default: // v*n close to a multiple of 2^64: long carry chains
			n = r.Uint64() | 1
			hi := r.Uint64n(n)
			// v = floor(hi*2^64 / n): v*n <= hi*2^64 < (v+1)*n
			v, _ = bits.Div64(hi, 0, n)
			if r.Bool() && v+1 != 0 {
				v++
			}
		}
		c14red(c, v, n)
		if k < 8 {
			c.Nontrivial(vf.Mix(141, v, n))
		}
	}
	if c.WantSample() {
		v, n := r.Uint64(), r.Uint64()
		hi, _ := bits.Mul64(v, n)
		c.Sample(map[string]string{"v": fmt.Sprintf("%#x", v), "n": fmt.Sprintf("%#x", n), "high_word": fmt.Sprintf("%#x", hi)})
	}
}

// ---------------------------------------------------------------------------
// block-filter builder

func c14script(r *vf.Rand) []byte {
	switch r.Intn(10) {
	case 0:
		return []byte{} // empty: must be excluded
	case 1: // P2PKH shape
		return c14concat([]byte{0x76, 0xa9, 0x14}, r.Bytes(20), []byte{0x88, 0xac})
	case 2: // P2SH shape
		return c14concat([]byte{0xa9, 0x14}, r.Bytes(20), []byte{0x87})
	case 3: // OP_RETURN with pushes
		n := r.Intn(60)
		return c14concat([]byte{0x6a, byte(n)}, r.Bytes(n))
	case 4:
		return []byte{0x6a} // bare OP_RETURN
	case 5:
		return []byte{byte(r.Intn(256))}
	case 6: // P2PK shape
		return c14concat([]byte{0x21, 0x02}, r.Bytes(32), []byte{0xac})
	case 7:
		return r.Bytes(36) // as long as an outpoint
	}
	return r.Bytes(1 + r.Intn(80))
}

type c14blockGen struct {
	r       *vf.Rand
	scripts [][]byte
	txids   []chainhash.Hash
}

func newC14blockGen(r *vf.Rand) *c14blockGen {
	g := &c14blockGen{r: r}
	for i := 0; i < 1+r.Intn(12); i++ {
		g.scripts = append(g.scripts, c14script(r))
	}
	for i := 0; i < 1+r.Intn(6); i++ {
		var h chainhash.Hash
		r.Fill(h[:])
		if r.Chance(1, 8) {
			h = chainhash.Hash{}
			h[r.Intn(32)] = 1 // nearly null, but not the coinbase outpoint
		}
		g.txids = append(g.txids, h)
	}
	return g
}

func (g *c14blockGen) script() []byte {
	if g.r.Chance(1, 2) {
		return g.scripts[g.r.Intn(len(g.scripts))] // duplicates
	}
	return c14script(g.r)
}

func (g *c14blockGen) outputs(tx *wire.MsgTx, n int) {
	for j := 0; j < n; j++ {
		tx.AddTxOut(&wire.TxOut{Value: int64(g.r.Intn(1e9)), PkScript: g.script()})
	}
}

func (g *c14blockGen) coinbase() *wire.MsgTx {
	tx := wire.NewMsgTx(1)
	tx.AddTxIn(wire.NewTxIn(wire.NewOutPoint(&chainhash.Hash{}, 0xffffffff), g.r.Bytes(2+g.r.Intn(30))))
	g.outputs(tx, g.r.Intn(4))
	return tx
}

func (g *c14blockGen) spend() *wire.MsgTx {
	r := g.r
	tx := wire.NewMsgTx(int32(1 + r.Intn(2)))
	nin := 1 + r.Intn(4)
	if r.Chance(1, 20) {
		nin = 0
	}
	for j := 0; j < nin; j++ {
		var h chainhash.Hash
		var idx uint32
		if r.Chance(2, 3) {
			h = g.txids[r.Intn(len(g.txids))]
			idx = uint32(r.Intn(3)) // duplicate outpoints are likely
		} else {
			r.Fill(h[:])
			// incl. index 0xffffffff on a NON-zero hash: not a null outpoint under any reading
			idx = []uint32{0, 1, 0xff, 0x100, 0xffff, 0x10000, 0xfffffffe, 0xffffffff, r.Uint32()}[r.Intn(9)]
			if idx == 0xffffffff {
				h[0] |= 1
			}
		}
		if h == (chainhash.Hash{}) && idx == 0xffffffff {
			idx = 0 // never coinbase-shaped
		}
		tx.AddTxIn(wire.NewTxIn(wire.NewOutPoint(&h, idx), r.Bytes(r.Intn(20))))
	}
	g.outputs(tx, r.Intn(5))
	if len(tx.TxIn) > 0 && r.Chance(1, 12) {
		// an output script that is byte-identical to the serialisation of an
		// outpoint spent in this block: the entry set is a set of byte
		// strings, so it is one entry, not two
		in := tx.TxIn[r.Intn(len(tx.TxIn))]
		op := make([]byte, 36)
		copy(op, in.PreviousOutPoint.Hash[:])
		binary.LittleEndian.PutUint32(op[32:], in.PreviousOutPoint.Index)
		tx.AddTxOut(&wire.TxOut{Value: 1, PkScript: op})
	}
	return tx
}

// c14entries is the reference entry set of a transaction list: outpoints of
// the inputs of txs[skipInputsOf:] and every non-empty output script.
func c14entries(txs []*wire.MsgTx, firstSpending int) (entries [][]byte, st map[string]int) {
	seen := map[string]struct{}{}
	st = map[string]int{}
	add := func(b []byte, kind string) {
		if _, dup := seen[string(b)]; dup {
			st["duplicate_"+kind]++
			return
		}
		seen[string(b)] = struct{}{}
		entries = append(entries, b)
		st[kind]++
	}
	for i, tx := range txs {
		if i >= firstSpending {
			for _, in := range tx.TxIn {
				op := make([]byte, 36)
				copy(op, in.PreviousOutPoint.Hash[:])
				binary.LittleEndian.PutUint32(op[32:], in.PreviousOutPoint.Index)
				add(op, "outpoints")
			}
		} else {
			st["coinbase_inputs_skipped"] += len(tx.TxIn)
		}
		for _, out := range tx.TxOut {
			if len(out.PkScript) == 0 {
				st["empty_scripts_skipped"]++
				continue
			}
			if out.PkScript[0] == 0x6a {
				st["op_return_scripts"]++
			}
			add(append([]byte(nil), out.PkScript...), "scripts")
		}
	}
	return entries, st
}

// c14headerHash is sha256d of the 80-byte header serialisation, written by
// hand.
func c14headerHash(h *wire.BlockHeader) [32]byte {
	b := make([]byte, 80)
	binary.LittleEndian.PutUint32(b[0:], uint32(h.Version))
	copy(b[4:], h.PrevBlock[:])
	copy(b[36:], h.MerkleRoot[:])
	binary.LittleEndian.PutUint32(b[68:], uint32(h.Timestamp.Unix()))
	binary.LittleEndian.PutUint32(b[72:], h.Bits)
	binary.LittleEndian.PutUint32(b[76:], h.Nonce)
	return ref.Sha256d(b)
}

func c14hashAndHeader(c *vf.Ctx, f *gcs.Filter, desc func() string) {
	nb, ok := c14ser(c, "NBytes", f, desc, f.NBytes)
	if !ok {
		return
	}
	wantHash := ref.Sha256d(nb)
	var got chainhash.Hash
	var err error
	if c.Call("GetFilterHash", desc, func() { got, err = builder.GetFilterHash(f) }) {
		c.Evals(1)
		if err != nil || got != chainhash.Hash(wantHash) {
			c.Failf("GetFilterHash/value", "%s: GetFilterHash=%x err=%v, sha256d(NBytes=%s)=%x", desc(), got[:], err, short(hx(nb)), wantHash[:])
		}
	}
	var prev chainhash.Hash
	switch c.R.Intn(4) {
	case 0:
	case 1:
		for i := range prev {
			prev[i] = 0xff
		}
	default:
		c.R.Fill(prev[:])
	}
	wantHdr := ref.Sha256d(c14concat(wantHash[:], prev[:]))
	if c.Call("MakeHeaderForFilter", desc, func() { got, err = builder.MakeHeaderForFilter(f, prev) }) {
		c.Evals(1)
		if err != nil || got != chainhash.Hash(wantHdr) {
			c.Failf("MakeHeaderForFilter/value", "%s: MakeHeaderForFilter(prev=%x)=%x err=%v, sha256d(filterhash||prev)=%x", desc(), prev[:], got[:], err, wantHdr[:])
		}
	}
}

func c14txsDesc(txs []*wire.MsgTx) string {
	s := fmt.Sprintf("%d txs", len(txs))
	if len(txs) > 6 {
		return s + " (replay the case for the full list)"
	}
	for i, tx := range txs {
		s += fmt.Sprintf(" tx%d{in:", i)
		for _, in := range tx.TxIn {
			s += fmt.Sprintf(" %x:%d", in.PreviousOutPoint.Hash[:], in.PreviousOutPoint.Index)
		}
		s += " out:"
		for _, out := range tx.TxOut {
			s += fmt.Sprintf(" [%x]", out.PkScript)
		}
		s += "}"
	}
	return s
}

func c14block(c *vf.Ctx, i int) {
	r := c.R
	g := newC14blockGen(r)
	var ntx int
	switch {
	case i < 8:
		ntx = 1 + i%4
	case r.Chance(1, 10):
		ntx = 100 + r.Intn(101)
	default:
		ntx = 1 + r.Intn(30)
	}
	blk := wire.NewMsgBlock(&wire.BlockHeader{
		Version: int32(r.Uint32()), Timestamp: time.Unix(int64(r.Uint32()), 0), Bits: r.Uint32(), Nonce: r.Uint32(),
	})
	r.Fill(blk.Header.PrevBlock[:])
	r.Fill(blk.Header.MerkleRoot[:])
	colliding := i%500 == 9
	if colliding {
		// the header for which cmd/sipcollide found two scripts with the same full
		// 64-bit SipHash under the block's own filter key
		blk.Header = wire.BlockHeader{Version: 1, Timestamp: time.Unix(1600000000, 0), Bits: 0x1d00ffff, Nonce: 12345}
	}
	cb := g.coinbase()
	if i == 0 { // coinbase with empty scripts only: empty entry set
		cb.TxOut = nil
		g.scripts = [][]byte{{}}
		cb.AddTxOut(&wire.TxOut{Value: 0, PkScript: []byte{}})
	}
	blk.AddTransaction(cb)
	for j := 1; j < ntx; j++ {
		blk.AddTransaction(g.spend())
	}
	bh := c14headerHash(&blk.Header)
	var key [16]byte
	copy(key[:], bh[:16])
	if colliding {
		var sa, sb [8]byte
		binary.LittleEndian.PutUint64(sa[:], sipCollide.A)
		binary.LittleEndian.PutUint64(sb[:], sipCollide.B)
		if sipCollide.A != sipCollide.B && ref.SipHash24(key, sa[:]) == ref.SipHash24(key, sb[:]) {
			tx := blk.Transactions[len(blk.Transactions)-1]
			tx.AddTxOut(&wire.TxOut{Value: 1, PkScript: sa[:]})
			blk.Transactions[0].AddTxOut(&wire.TxOut{Value: 2, PkScript: sb[:]})
			c.Inc("blocks_with_two_scripts_of_equal_siphash_under_the_block_key")
		} else {
			c.Inc("siphash_collision_table_not_confirmed")
		}
	}
	entries, st := c14entries(blk.Transactions, 1)
	for k, v := range st {
		c.Count("block_"+k, int64(v))
	}
	if len(entries) == 0 {
		c.Inc("blocks_with_empty_entry_set")
	}
	c.Inc("blocks")
	c.Count("block_txs", int64(ntx))
	want := ref.GCSEncode(key, 19, gcsDefaultM, entries)
	desc := func() string {
		return fmt.Sprintf("block hash=%x (key=%x) %s; reference entry set has %d entries", bh[:], key, c14txsDesc(blk.Transactions), len(entries))
	}
	c.Nontrivial(vf.Mix(142, vf.HashBytes(bh[:]), vf.HashBytes(want), uint64(len(entries))))
	var f *gcs.Filter
	var err error
	if c.Call("BuildBasicFilter", desc, func() { f, err = builder.BuildBasicFilter(blk) }) {
		c.Evals(1)
		if err != nil || f == nil {
			c.Failf("BuildBasicFilter/error", "%s: %v", desc(), err)
		} else if c14checkFilter(c, "BuildBasicFilter", f, want, len(entries), 19, desc) {
			c14hashAndHeader(c, f, desc)
			if len(entries) > 0 { // every entry is a member under the derived key (C13 clause, cheap here)
				e := entries[r.Intn(len(entries))]
				var m bool
				c.Call("Match", desc, func() { m, _ = f.Match(key, e) })
				c.Evals(1)
				if !m {
					c.Failf("BuildBasicFilter/entry-not-matched", "%s: entry %x does not match under key %x", desc(), e, key)
				}
			}
		}
	}

	// mempool filter: zero key, inputs of every transaction count
	txs := blk.Transactions[1:]
	if len(txs) > 0 {
		mentries, _ := c14entries(txs, 0)
		mwant := ref.GCSEncode([16]byte{}, 19, gcsDefaultM, mentries)
		mdesc := func() string {
			return fmt.Sprintf("mempool %s; reference entry set has %d entries, key = 16 zero bytes", c14txsDesc(txs), len(mentries))
		}
		if c.Call("BuildMempoolFilter", mdesc, func() { f, err = builder.BuildMempoolFilter(txs) }) {
			c.Evals(1)
			c.Inc("mempool_filters")
			if err != nil || f == nil {
				c.Failf("BuildMempoolFilter/error", "%s: %v", mdesc(), err)
			} else if c14checkFilter(c, "BuildMempoolFilter", f, mwant, len(mentries), 19, mdesc) {
				c14hashAndHeader(c, f, mdesc)
			}
		}
	}
	if c.WantSample() {
		c.Sample(map[string]any{"block_hash": hx(bh[:]), "key": hx(key[:]), "txs": ntx, "entries": len(entries), "filter": short(hx(want)), "stats": st})
	}
}

// c14chain drives the With*/Set*/Add* chain with valid parameters
// (P in 1..32, M in 1..2^32-1: Build refuses P = 0 and SetM refuses more).
func c14chain(c *vf.Ctx, i int) {
	r := c.R
	P := uint8(1 + r.Intn(32))
	M, _ := gcsM(r, P, r.Intn(gcsMKinds))
	if M > 0xffffffff {
		M = 0xffffffff
	}
	key := gcsKey(r)
	var hash chainhash.Hash
	r.Fill(hash[:])
	var hkey [16]byte
	copy(hkey[:], hash[:16])
	n := r.SkewLen(300)
	pool := gcsItems(r, n+1)
	pre := uint32(r.Intn(1000))

	type ctor struct {
		name string
		mk   func() *builder.GCSBuilder
		key  [16]byte
		p    uint8
		m    uint64
	}
	ctors := []ctor{
		{"WithKeyPNM", func() *builder.GCSBuilder { return builder.WithKeyPNM(key, P, pre, M) }, key, P, M},
		{"WithKeyPM", func() *builder.GCSBuilder { return builder.WithKeyPM(key, P, M) }, key, P, M},
		{"WithKey", func() *builder.GCSBuilder { return builder.WithKey(key) }, key, 19, gcsDefaultM},
		{"WithKeyHashPNM", func() *builder.GCSBuilder { return builder.WithKeyHashPNM(&hash, P, pre, M) }, hkey, P, M},
		{"WithKeyHashPM", func() *builder.GCSBuilder { return builder.WithKeyHashPM(&hash, P, M) }, hkey, P, M},
		{"WithKeyHash", func() *builder.GCSBuilder { return builder.WithKeyHash(&hash) }, hkey, 19, gcsDefaultM},
		{"WithRandomKeyPNM", func() *builder.GCSBuilder { return builder.WithRandomKeyPNM(P, pre, M) }, [16]byte{}, P, M},
		{"WithRandomKeyPM", func() *builder.GCSBuilder { return builder.WithRandomKeyPM(P, M) }, [16]byte{}, P, M},
		{"WithRandomKey", func() *builder.GCSBuilder { return builder.WithRandomKey() }, [16]byte{}, 19, gcsDefaultM},
	}
	ct := ctors[i%len(ctors)]
	random := i%len(ctors) >= 6
	var trace []string
	desc := func() string { return fmt.Sprintf("chain %v", trace) }
	var b *builder.GCSBuilder
	trace = append(trace, fmt.Sprintf("%s(…) with key=%x P=%d M=%d (hash=%x n=%d where the constructor takes them)", ct.name, ct.key, ct.p, ct.m, hash[:], pre))
	if !c.Call(ct.name, desc, func() { b = ct.mk() }) || b == nil {
		return
	}
	wantKey, wantP, wantM := ct.key, ct.p, ct.m
	if random {
		var err error
		if !c.Call("Key", desc, func() { wantKey, err = b.Key() }) {
			return
		}
		if err != nil {
			c.Inconclusive("random_key_unavailable")
			return
		}
	}
	// setters: the last one wins
	for s := r.Intn(4); s > 0; s-- {
		switch r.Intn(4) {
		case 0:
			k := gcsKey(r)
			trace = append(trace, fmt.Sprintf("SetKey(%x)", k))
			c.Call("SetKey", desc, func() { b = b.SetKey(k) })
			wantKey = k
		case 1:
			var h chainhash.Hash
			r.Fill(h[:])
			trace = append(trace, fmt.Sprintf("SetKeyFromHash(%x)", h[:]))
			c.Call("SetKeyFromHash", desc, func() { b = b.SetKeyFromHash(&h) })
			copy(wantKey[:], h[:16])
		case 2:
			p := uint8(1 + r.Intn(32))
			m := wantM
			if m > uint64(1)<<(p+4) {
				m = uint64(1) << (p + 4)
				if m > 0xffffffff {
					m = 0xffffffff
				}
			}
			trace = append(trace, fmt.Sprintf("SetP(%d).SetM(%d)", p, m))
			c.Call("SetP", desc, func() { b = b.SetP(p).SetM(m) })
			wantP, wantM = p, m
		case 3:
			m := 1 + r.Uint64n(min(uint64(1)<<(wantP+4), 0xffffffff))
			trace = append(trace, fmt.Sprintf("SetM(%d)", m))
			c.Call("SetM", desc, func() { b = b.SetM(m) })
			wantM = m
		}
	}
	// entries with duplicates through AddEntry / AddEntries / AddHash
	seen := map[string]struct{}{}
	var entries [][]byte
	note := func(e []byte) {
		if _, dup := seen[string(e)]; !dup {
			seen[string(e)] = struct{}{}
			entries = append(entries, append([]byte(nil), e...))
		} else {
			c.Inc("chain_duplicate_entries")
		}
	}
	for added := 0; added < n; {
		switch r.Intn(3) {
		case 0:
			e := pool[r.Intn(len(pool))]
			trace = append(trace, fmt.Sprintf("AddEntry(%x)", e))
			c.Call("AddEntry", desc, func() { b = b.AddEntry(e) })
			note(e)
			added++
		case 1:
			k := 1 + r.Intn(8)
			var es [][]byte
			for j := 0; j < k; j++ {
				es = append(es, pool[r.Intn(len(pool))])
			}
			trace = append(trace, fmt.Sprintf("AddEntries(%x)", es))
			c.Call("AddEntries", desc, func() { b = b.AddEntries(es) })
			for _, e := range es {
				note(e)
			}
			added += k
		case 2:
			var h chainhash.Hash
			copy(h[:], pool[r.Intn(len(pool))])
			if r.Bool() {
				r.Fill(h[:])
			}
			trace = append(trace, fmt.Sprintf("AddHash(%x)", h[:]))
			c.Call("AddHash", desc, func() { b = b.AddHash(&h) })
			note(h[:])
			added++
		}
	}
	if len(trace) > 14 {
		trace = append(trace[:12], fmt.Sprintf("… %d more calls (replay for all)", len(trace)-12))
	}
	var gotKey [16]byte
	var err error
	if c.Call("Key", desc, func() { gotKey, err = b.Key() }) {
		c.Evals(1)
		if err != nil || gotKey != wantKey {
			c.Failf("Key/value", "%s: Key()=%x err=%v want %x", desc(), gotKey, err, wantKey)
			return
		}
	}
	var f *gcs.Filter
	if !c.Call("Build", desc, func() { f, err = b.Build() }) {
		return
	}
	c.Evals(1)
	c.Inc("chains_" + ct.name)
	if err != nil || f == nil {
		c.Failf("Build/error", "%s: Build() failed with valid parameters P=%d M=%d: %v", desc(), wantP, wantM, err)
		return
	}
	want := ref.GCSEncode(wantKey, wantP, wantM, entries)
	if random { // crypto/rand key: keep the distinct-case hash a function of the seed only
		c.Nontrivial(vf.Mix(143, uint64(i), uint64(wantP), wantM, uint64(len(entries))))
	} else {
		c.Nontrivial(vf.Mix(143, vf.HashBytes(wantKey[:]), uint64(wantP), wantM, vf.HashBytes(want)))
	}
	fdesc := func() string {
		return fmt.Sprintf("%s -> Build(); expected key=%x P=%d M=%d, %d distinct entries", desc(), wantKey, wantP, wantM, len(entries))
	}
	if c14checkFilter(c, "Build", f, want, len(entries), wantP, fdesc) {
		c14hashAndHeader(c, f, fdesc)
	}

	// observation only (the statement is silent on errors): after an invalid
	// SetP / SetM the chain is latched and Build reports the error
	if i%8 == 0 {
		var b2 *builder.GCSBuilder
		var f2 *gcs.Filter
		var err2 error
		ok := c.Call("latch", desc, func() {
			if r.Bool() {
				b2 = builder.WithKeyPM(key, 33+uint8(r.Intn(200)), M)
			} else {
				b2 = builder.WithKeyPM(key, P, 1<<32+r.Uint64n(1<<20))
			}
			b2 = b2.SetP(P).SetM(M).SetKey(key).AddEntry([]byte{1}).AddEntries([][]byte{{2}})
			f2, err2 = b2.Build()
		})
		if ok {
			if err2 != nil && f2 == nil {
				c.Inc("observed_error_latch_holds")
			} else {
				c.Inconclusive("builder_error_latch_not_observed")
			}
		}
		ok = c.Call("latch", desc, func() { f2, err2 = builder.WithKeyPM(key, 0, M).AddEntry([]byte{1}).Build() })
		if ok && err2 != nil {
			c.Inc("observed_Build_refuses_P=0")
		}
	}
	if c.WantSample() {
		c.Sample(map[string]any{"chain": trace, "entries": len(entries), "filter": short(hx(want))})
	}
}

func init() {
	register(&vf.Property{
		ID:    "C14",
		Title: "GCS filters are bit-exact Golomb-Rice encodings and serialise losslessly",
		Rule: "stream grid: one filter per (P in 0..32) x 6 modulus kinds x N in {0,1,2,3,4,5,7,8,9,15,16,17,31,33,64,100,255,256,1000}; stream random: the directed large configurations (N*M on both sides of 2^32, N*M = 2^32, N = 10^5) then seeded (P, M, N); " +
			"each filter: bytes vs the reference encoder, N/P, NBytes/PBytes/NPBytes vs harness-built concatenations, FromBytes / FromNBytes / stripped P-prefixed forms vs the original on up to 200 single queries and 6 any-of sets x 3 strategies. " +
			"stream reduction: the fastReduction hook vs bits.Mul64 on every pair of 27 directed words, every combination of 11 directed 32-bit halves, then batches of 4096 seeded operand pairs (uniform, realistic moduli, directed halves, products next to a multiple of 2^64). " +
			"stream blocks: seeded blocks of 1..200 transactions (coinbase-shaped first transaction, duplicate / empty / OP_RETURN scripts, duplicate outpoints) through BuildBasicFilter, and their non-coinbase transactions through BuildMempoolFilter; GetFilterHash and MakeHeaderForFilter on each. " +
			"stream chain: With* constructors x Set* x AddEntry/AddEntries/AddHash with duplicate entries, P in 1..32, M in 1..2^32-1. Distinct non-trivial case = (key, P, M, N, items) / operand pair / block / chain.",
		Assumptions: []string{
			"reference SipHash-2-4 (paper vectors, cross-checked against github.com/aead/siphash), Golomb-Rice writer/reader and CompactSize are self-tested on every run, including the BIP158 testnet genesis filter 019dfca8 and its header",
			"crypto/sha256 and math/bits.Mul64 are correct",
			"the API has no FromPBytes/FromNPBytes: the harness strips P (and parses N with its own CompactSize reader) and uses FromBytes/FromNBytes",
			"generated blocks start with a coinbase-shaped transaction and contain no other coinbase-shaped transaction, so 'non-coinbase' and 'not the first transaction' coincide",
			"BuildMempoolFilter is checked with the all-zero key its documentation states and with the inputs of every transaction counted",
			"the builder's error latch and its refusal of P = 0 are recorded as observations only: the statement does not speak about errors",
		},
		SelfTest: gcsSelfTest,
		Streams: []*vf.Stream{
			{Name: "random", N: func(t vf.Tier) int { return t.Sz(3000, 30000) }, Run: c14random, RlimitAS: gcsRlimit, MaxCaseSec: 120},
			{Name: "grid", N: func(t vf.Tier) int { return gcsGridCount() * t.Sz(1, 2) }, Run: c14grid, RlimitAS: gcsRlimit},
			{Name: "huge-span", Workers: 1, N: func(t vf.Tier) int { return t.Sz(0, 1) }, Run: c14hugeSpan, RlimitAS: gcsRlimit, MaxCaseSec: 600},
			{Name: "reduction", N: func(t vf.Tier) int { return 2 + t.Sz(2500, 25000) }, Run: c14reduction},
			{Name: "blocks", N: func(t vf.Tier) int { return t.Sz(40000, 150000) }, Run: c14block, RlimitAS: gcsRlimit},
			{Name: "chain", N: func(t vf.Tier) int { return t.Sz(30000, 100000) }, Run: c14chain, RlimitAS: gcsRlimit},
		},
	})
}
