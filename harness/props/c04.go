package props

import (
	"crypto/hmac"
	"crypto/sha512"
	"encoding/binary"
	"encoding/hex"
	"errors"
	"fmt"
	"math/big"
	"strconv"
	"strings"
	"sync/atomic"

	"github.com/gcash/bchd/chaincfg"
	"github.com/gcash/bchutil/hdkeychain"

	"verif/internal/ref"
	"verif/internal/vf"
)

// C04 — HD key derivation conforms to BIP32 on every seed and path.
//
// Oracle: the independent BIP32 of internal/ref (HMAC-SHA512 from the standard
// library, affine secp256k1 on math/big, own Base58), compared after every
// derivation step.  The P2PKH address is the CashAddr reference encoding of
// hash160(compressed public key).

type c04net struct {
	netInfo
	priv, pub [4]byte
}

// c04netList holds the networks of the quantifier whose HD private key id is
// registered in chaincfg (Neuter needs the registration) and maps to the
// network's own public key id.
var c04netList = func() []c04net {
	var out []c04net
	for _, n := range allNets {
		pub, err := chaincfg.HDPrivateKeyToPublicKeyID(n.P.HDPrivateKeyID[:])
		if err != nil || !eqBytes(pub, n.P.HDPublicKeyID[:]) {
			continue
		}
		out = append(out, c04net{n, n.P.HDPrivateKeyID, n.P.HDPublicKeyID})
	}
	return out
}()

const c04H = uint32(ref.HardenedStart)

func c04pad32(x *big.Int) []byte {
	b := x.Bytes()
	out := make([]byte, 32)
	copy(out[32-len(b):], b)
	return out
}

// c04lz is the number of leading zero bytes of the 32-byte encoding of x.
func c04lz(x *big.Int) int { return 32 - (x.BitLen()+7)/8 }

func c04pathStr(p []uint32) string {
	var sb strings.Builder
	sb.WriteString("m")
	for _, i := range p {
		if i >= c04H {
			fmt.Fprintf(&sb, "/%d'", i-c04H)
		} else {
			fmt.Fprintf(&sb, "/%d", i)
		}
	}
	return sb.String()
}

// c04index draws a child index from the boundary / random mix.
func c04index(r *vf.Rand) uint32 {
	switch r.Intn(10) {
	case 0:
		return 0
	case 1:
		return 1
	case 2:
		return c04H - 1
	case 3:
		return c04H
	case 4:
		return c04H + 1
	case 5:
		return 0xffffffff
	case 6, 7:
		return r.Uint32() & 0x7fffffff
	}
	return r.Uint32() | c04H
}

func c04seed(c *vf.Ctx, i int) []byte {
	n := 16 + i%49 // every legal length 16..64
	if i >= 49*4 {
		n = c.R.Range(16, 64)
	}
	s := c.R.Bytes(n)
	switch {
	case i < 49: // random content
	case i < 98: // all zero
		for j := range s {
			s[j] = 0
		}
	case i < 147: // all ones
		for j := range s {
			s[j] = 0xff
		}
	}
	return s
}

// c04w walks one derivation path in the library and the reference in lockstep.
type c04w struct {
	c        *vf.Ctx
	seed     []byte
	net      c04net
	path     []uint32
	h        uint64
	lz1, lz2 int64
	steps    int64
	scribble bool // the caller overwrites the key objects returned by ECPrivKey / ECPubKey
}

func (w *c04w) where() string {
	return fmt.Sprintf("seed=%x net=%s path=%s", w.seed, w.net.Name, c04pathStr(w.path))
}

func c04payload(s string) string {
	b, ok := ref.B58Decode(s)
	if !ok {
		return "(not base58)"
	}
	return hx(b)
}

// compare checks every observable of the library key k against the reference
// key r.  site names the call that produced k.
func (w *c04w) compare(site string, k *hdkeychain.ExtendedKey, r *ref.XKey, note string) bool {
	c := w.c
	ok := true
	fail := func(clause, f string, a ...any) {
		ok = false
		c.Failf(site+"/"+clause, "%s %s: %s", w.where(), note, fmt.Sprintf(f, a...))
	}
	var (
		s      string
		isPriv bool
		depth  uint8
		pfp    uint32
		scrib  []*big.Int
	)
	if !c.Call(site+"/accessors", w.where, func() {
		s = k.String()
		isPriv = k.IsPrivate()
		depth = k.Depth()
		pfp = k.ParentFingerprint()
	}) {
		return false
	}
	c.Evals(1)
	if want := r.String(); s != want {
		fail("string", "String()=%q, BIP32 prescribes %q (payload %s vs %x)", s, want, c04payload(s), r.Serialize78())
	}
	if isPriv != r.IsPrivate() {
		fail("isprivate", "IsPrivate()=%v want %v", isPriv, r.IsPrivate())
	}
	if depth != r.Depth {
		fail("depth", "Depth()=%d want %d", depth, r.Depth)
	}
	if want := binary.BigEndian.Uint32(r.ParentFP[:]); pfp != want {
		fail("parentfp", "ParentFingerprint()=%08x want %08x", pfp, want)
	}
	if r.IsPrivate() {
		var (
			ser    []byte
			d      *big.Int
			px, py *big.Int
			err    error
		)
		if c.Call(site+"/ECPrivKey", w.where, func() {
			p, e := k.ECPrivKey()
			err = e
			if e == nil && p != nil {
				ser, d, px, py = p.Serialize(), p.D, p.PublicKey.X, p.PublicKey.Y
				scrib = append(scrib, d, px, py)
			}
		}) {
			c.Evals(1)
			want := c04pad32(r.Priv)
			switch {
			case err != nil || d == nil:
				fail("ecprivkey", "ECPrivKey() failed: %v", err)
			case !eqBytes(ser, want) || d.Cmp(r.Priv) != 0:
				fail("ecprivkey", "ECPrivKey() scalar %x (D=%x), BIP32 gives %x", ser, d, want)
			case px == nil || py == nil || px.Cmp(r.Pub.X) != 0 || py.Cmp(r.Pub.Y) != 0:
				fail("ecprivkey-point", "ECPrivKey() public point (%x,%x), reference (%x,%x)", px, py, r.Pub.X, r.Pub.Y)
			}
		}
	}
	comp := r.Pub.Compressed()
	{
		var (
			ser    []byte
			px, py *big.Int
			err    error
		)
		if c.Call(site+"/ECPubKey", w.where, func() {
			p, e := k.ECPubKey()
			err = e
			if e == nil && p != nil {
				ser, px, py = p.SerializeCompressed(), p.X, p.Y
				scrib = append(scrib, px, py)
			}
		}) {
			c.Evals(1)
			switch {
			case err != nil || px == nil:
				fail("ecpubkey", "ECPubKey() failed: %v", err)
			case !eqBytes(ser, comp) || px.Cmp(r.Pub.X) != 0 || py.Cmp(r.Pub.Y) != 0:
				fail("ecpubkey", "ECPubKey() = %x, BIP32 gives %x", ser, comp)
			}
		}
	}
	if w.scribble {
		// the caller tweaks / wipes the key objects it was handed (in place);
		// the extended key must not be affected
		defer func() {
			for _, z := range scrib {
				if z != nil {
					z.SetInt64(0)
				}
			}
		}()
	}
	h160 := ref.Hash160(comp)
	for _, n := range c04netList {
		var (
			enc string
			sa  []byte
			err error
		)
		if !c.Call(site+"/Address", w.where, func() {
			a, e := k.Address(n.P)
			err = e
			if e == nil && a != nil {
				enc, sa = a.EncodeAddress(), a.ScriptAddress()
			}
		}) {
			continue
		}
		c.Evals(1)
		want := ref.CashEncode(n.P.CashAddressPrefix, ref.CashTypeP2KH, h160)
		switch {
		case err != nil:
			fail("address", "Address(%s) failed: %v", n.Name, err)
		case !eqBytes(sa, h160):
			fail("address-hash", "Address(%s) hash %x, hash160(compressed pubkey %x)=%x", n.Name, sa, comp, h160)
		case enc != want:
			fail("address-string", "Address(%s)=%q, P2PKH CashAddr of %x is %q", n.Name, enc, h160, want)
		}
	}
	return ok
}

func (w *c04w) countChild(rc *ref.XKey) {
	w.steps++
	w.c.Inc("derivations")
	w.c.Nontrivial(w.h)
	if rc.IsPrivate() {
		switch z := c04lz(rc.Priv); {
		case z >= 2:
			w.lz2++
			w.c.Inc("leading_zero_children_ge2")
			fallthrough
		case z >= 1:
			w.lz1++
			w.c.Inc("leading_zero_children")
		}
	}
	if c04lz(rc.Pub.X) >= 1 {
		w.c.Inc("children_with_leading_zero_pubkey_x")
	}
}

func (w *c04w) push(i uint32) {
	w.path = append(w.path, i)
	w.h = vf.Mix(w.h, uint64(i)+1)
}

// master creates the master key pair.
func (w *c04w) master() (*hdkeychain.ExtendedKey, *ref.XKey) {
	c := w.c
	w.h = vf.Mix(vf.HashBytes(w.seed), vf.HashString(w.net.Name))
	var k *hdkeychain.ExtendedKey
	var err error
	if !c.Call("NewMaster", w.where, func() { k, err = hdkeychain.NewMaster(w.seed, w.net.P) }) {
		return nil, nil
	}
	r, rerr := ref.NewMasterRef(w.seed, w.net.priv)
	if rerr != nil { // probability 2^-127
		c.Inconclusive("reference-unusable-seed")
		return nil, nil
	}
	c.Evals(1)
	if err != nil || k == nil {
		c.Failf("NewMaster/error", "%s: NewMaster failed on a %d-byte seed: %v", w.where(), len(w.seed), err)
		return nil, nil
	}
	c.Inc(fmt.Sprintf("seed_len_%02d", len(w.seed)))
	c.Nontrivial(w.h)
	if !w.compare("NewMaster", k, r, "") {
		return nil, nil
	}
	w.neuter(k, r)
	return k, r
}

// neuter checks Neuter() of a private key and returns the public pair.
func (w *c04w) neuter(k *hdkeychain.ExtendedKey, r *ref.XKey) (*hdkeychain.ExtendedKey, *ref.XKey) {
	c := w.c
	var kn *hdkeychain.ExtendedKey
	var err error
	if !c.Call("Neuter", w.where, func() { kn, err = k.Neuter() }) {
		return nil, nil
	}
	c.Evals(1)
	if err != nil || kn == nil {
		c.Failf("Neuter/error", "%s: Neuter failed: %v", w.where(), err)
		return nil, nil
	}
	rn := r.Neuter(w.net.pub)
	w.compare("Neuter", kn, rn, "(neutered)")
	return kn, rn
}

func (w *c04w) expectErr(site string, k *hdkeychain.ExtendedKey, i uint32, note string, allowed ...error) {
	c := w.c
	var kc *hdkeychain.ExtendedKey
	var err error
	in := func() string { return fmt.Sprintf("%s child=%d %s", w.where(), i, note) }
	if !c.Call(site, in, func() { kc, err = k.Child(i) }) {
		return
	}
	c.Evals(1)
	if err == nil {
		s := ""
		if kc != nil {
			c.Call(site, in, func() { s = kc.String() })
		}
		c.Failf(site+"/not-refused", "%s: Child(%d) succeeded (%s), want refusal with %q", in(), i, s, allowed[0])
		return
	}
	for _, a := range allowed {
		if errors.Is(err, a) {
			return
		}
	}
	c.Failf(site+"/wrong-error", "%s: Child(%d) failed with %q, documented error is %q", in(), i, err, allowed[0])
}

// step derives private child i of (k, r) and checks it; with full it also
// checks Neuter of the child and derivation from the neutered parent.
func (w *c04w) step(k *hdkeychain.ExtendedKey, r *ref.XKey, i uint32, full bool) (*hdkeychain.ExtendedKey, *ref.XKey) {
	c := w.c
	hard := i >= c04H
	site := "Child/priv-normal"
	if hard {
		site = "Child/priv-hardened"
	}
	if z := c04lz(r.Priv); z >= 1 {
		if hard {
			c.Inc("hardened_steps_from_leading_zero_parent")
		} else {
			c.Inc("normal_steps_from_leading_zero_parent")
		}
	}
	var pn *hdkeychain.ExtendedKey
	if full {
		// neuter the parent before the step so that both orders of
		// memoisation (public key computed before / after Child) occur
		var err error
		if c.Call("Neuter", w.where, func() { pn, err = k.Neuter() }) && (err != nil || pn == nil) {
			c.Failf("Neuter/error", "%s: Neuter failed: %v", w.where(), err)
			pn = nil
		}
	}
	rc, rerr := r.Child(i)
	w.push(i)
	var kc *hdkeychain.ExtendedKey
	var err error
	if !c.Call(site, w.where, func() { kc, err = k.Child(i) }) {
		return nil, nil
	}
	if rerr != nil { // probability 2^-127
		c.Inconclusive("reference-invalid-child")
		return nil, nil
	}
	c.Evals(1)
	if err != nil || kc == nil {
		c.Failf(site+"/error", "%s: Child(%d) failed: %v; BIP32 gives %s", w.where(), i, err, rc.String())
		return nil, nil
	}
	w.countChild(rc)
	if !w.compare(site, kc, rc, "") {
		return nil, nil // everything below this key would differ as well
	}
	if !full {
		return kc, rc
	}
	kn, rn := w.neuter(kc, rc)
	if pn == nil {
		return kc, rc
	}
	if hard {
		w.path = w.path[:len(w.path)-1]
		w.expectErr("Child/pub-hardened", pn, i, "(from neutered parent)", hdkeychain.ErrDeriveHardFromPublic)
		w.path = append(w.path, i)
		c.Inc("hardened_from_public_refusals")
		return kc, rc
	}
	var pc *hdkeychain.ExtendedKey
	if !c.Call("Child/pub-normal", w.where, func() { pc, err = pn.Child(i) }) {
		return kc, rc
	}
	c.Evals(1)
	if err != nil || pc == nil {
		c.Failf("Child/pub-normal/error", "%s: Neuter().Child(%d) failed: %v", w.where(), i, err)
		return kc, rc
	}
	c.Inc("neuter_commutation_checks")
	w.compare("Child/pub-normal", pc, rn, "(child of the neutered parent)")
	if kn != nil {
		var a, b string
		c.Call("Child/pub-normal", w.where, func() { a, b = pc.String(), kn.String() })
		if a != b {
			c.Failf("Child/pub-normal/neuter-commutes", "%s: Neuter().Child(%d)=%s but Child(%d).Neuter()=%s", w.where(), i, a, i, b)
		}
	}
	return kc, rc
}

// pubStep derives public child i of the public pair (pk, pr) (CKDpub in the
// reference).  The path is not extended; note describes the position.
func (w *c04w) pubStep(pk *hdkeychain.ExtendedKey, pr *ref.XKey, i uint32, note string) (*hdkeychain.ExtendedKey, *ref.XKey) {
	c := w.c
	rc, rerr := pr.Child(i)
	in := func() string { return fmt.Sprintf("%s %s public child=%d of %s", w.where(), note, i, pr.String()) }
	var kc *hdkeychain.ExtendedKey
	var err error
	if !c.Call("Child/pub-normal", in, func() { kc, err = pk.Child(i) }) {
		return nil, nil
	}
	if rerr != nil {
		c.Inconclusive("reference-invalid-child")
		return nil, nil
	}
	c.Evals(1)
	if err != nil || kc == nil {
		c.Failf("Child/pub-normal/error", "%s: failed: %v; BIP32 gives %s", in(), err, rc.String())
		return nil, nil
	}
	c.Inc("public_derivations")
	w.h = vf.Mix(w.h, uint64(i)+1, 0x9b)
	w.countChild(rc)
	if !w.compare("Child/pub-normal", kc, rc, fmt.Sprintf("%s public child=%d of %s", note, i, pr.String())) {
		return nil, nil
	}
	return kc, rc
}

type c04shared struct {
	done, lz atomic.Int64
}

func c04pathsCase(c *vf.Ctx, i int) {
	w := &c04w{c: c, seed: c04seed(c, i), net: c04netList[i%len(c04netList)]}
	defer func() {
		sh, _ := c.Shared.(*c04shared)
		if sh == nil || c.Replay {
			return
		}
		sh.lz.Add(w.lz1)
		if sh.done.Add(1) == int64(c.N) && sh.lz.Load() < 20 {
			// the padding clause was not exercised often enough by
			// naturally occurring keys in this run
			c.Inconclusive("leading_zero_children_below_20")
		}
	}()
	k, r := w.master()
	if r == nil {
		return
	}
	n := c.R.Range(1, 10)
	for d := 0; d < n && r != nil; d++ {
		k, r = w.step(k, r, c04index(c.R), true)
	}
	if r == nil {
		return
	}
	if c.WantSample() {
		var xprv, xpub string
		c.Call("String", w.where, func() {
			xprv = k.String()
			if n, err := k.Neuter(); err == nil {
				xpub = n.String()
			}
		})
		c.Sample(map[string]string{"seed": hx(w.seed), "net": w.net.Name, "path": c04pathStr(w.path), "library_xprv": xprv, "library_xpub": xpub, "reference_xprv": r.String()})
	}
	// public tail: continue from the neutered key with CKDpub
	if c.R.Bool() {
		pk, pr := w.neuter(k, r)
		m := c.R.Range(1, 3)
		for d := 0; d < m && pr != nil; d++ {
			if int(pr.Depth) == 255 {
				break
			}
			idx := c04index(c.R) & 0x7fffffff
			w.expectErr("Child/pub-hardened", pk, c04index(c.R)|c04H, fmt.Sprintf("(public tail step %d)", d), hdkeychain.ErrDeriveHardFromPublic)
			pk, pr = w.pubStep(pk, pr, idx, fmt.Sprintf("(public tail step %d)", d))
		}
	}
}

// c04siblingScalar returns the private scalar of child i of the reference
// key r without any curve arithmetic (workload search only; every key found
// this way is re-derived and checked through ref.XKey.Child).
func c04siblingScalar(r *ref.XKey, pubComp []byte, i uint32) *big.Int {
	var data [37]byte
	if i >= c04H {
		copy(data[1:33], c04pad32(r.Priv))
	} else {
		copy(data[:33], pubComp)
	}
	binary.BigEndian.PutUint32(data[33:], i)
	m := hmac.New(sha512.New, r.ChainCode[:])
	m.Write(data[:])
	I := m.Sum(nil)
	il := new(big.Int).SetBytes(I[:32])
	if il.Cmp(ref.SecN) >= 0 {
		return nil
	}
	il.Add(il, r.Priv)
	il.Mod(il, ref.SecN)
	if il.Sign() == 0 {
		return nil
	}
	return il
}

// c04findLZ searches siblings base, base+1, ... (hardened or not) of r for a
// child scalar with at least z leading zero bytes.
func c04findLZ(r *ref.XKey, base uint32, hard bool, z, limit int) (uint32, int, bool) {
	comp := r.Pub.Compressed()
	for j := 0; j < limit; j++ {
		idx := (base + uint32(j)) & 0x7fffffff
		if hard {
			idx |= c04H
		}
		if s := c04siblingScalar(r, comp, idx); s != nil && c04lz(s) >= z {
			return idx, j + 1, true
		}
	}
	return 0, limit, false
}

func c04leadzeroCase(c *vf.Ctx, i int) {
	w := &c04w{c: c, seed: c04seed(c, 49*4+i), net: c04netList[i%len(c04netList)]}
	k, r := w.master()
	for d, n := 0, c.R.Intn(3); d < n && r != nil; d++ {
		k, r = w.step(k, r, c04index(c.R), false)
	}
	if r == nil {
		return
	}
	z, limit := 1, 1<<14
	if i%8 == 7 {
		z, limit = 2, 1<<21
	}
	idx, tried, found := c04findLZ(r, c.R.Uint32(), i%2 == 0, z, limit)
	c.Count("sibling_search_hmacs", int64(tried))
	if !found {
		c.Inconclusive("leading-zero-sibling-not-found")
		return
	}
	kz, rz := w.step(k, r, idx, true)
	if rz == nil {
		return
	}
	if c04lz(rz.Priv) < z {
		c.Inconclusive("sibling-search-disagrees-with-reference")
		return
	}
	c.Inc(fmt.Sprintf("searched_parents_with_ge%d_leading_zero_bytes", z))
	base := len(w.path)
	for _, idx2 := range []uint32{c.R.Uint32() | c04H, c.R.Uint32() & 0x7fffffff, c04index(c.R)} {
		kc, rc := w.step(kz, rz, idx2, true)
		if rc != nil {
			w.step(kc, rc, c04index(c.R), true)
		}
		w.path = w.path[:base]
	}
	if c.WantSample() {
		c.Sample(map[string]string{"seed": hx(w.seed), "net": w.net.Name, "path": c04pathStr(w.path), "leading_zero_scalar": hx(c04pad32(rz.Priv)), "reference_xprv": rz.String()})
	}
}

func c04deepCase(c *vf.Ctx, i int) {
	w := &c04w{c: c, seed: c04seed(c, 49*4+i), net: c04netList[i%len(c04netList)]}
	k, r := w.master()
	if r == nil {
		return
	}
	mode := i % 4
	pubchain := i%8 == 1
	var pk *hdkeychain.ExtendedKey
	var pr *ref.XKey
	if pubchain {
		pk, pr = w.neuter(k, r)
	}
	for d := 1; d <= 255; d++ {
		var idx uint32
		switch mode {
		case 0:
			idx = c.R.Uint32() | c04H
		case 1:
			idx = c.R.Uint32() & 0x7fffffff
		case 2:
			idx = []uint32{0, 1, c04H - 1, c04H, c04H + 1, 0xffffffff}[c.R.Intn(6)]
		default:
			idx = c04index(c.R)
		}
		k, r = w.step(k, r, idx, d%32 == 0 || d >= 254)
		if r == nil {
			return
		}
		if pr != nil {
			pk, pr = w.pubStep(pk, pr, idx, fmt.Sprintf("(public chain, depth %d)", d))
		}
	}
	c.Inc("chains_reaching_depth_255")
	for _, idx := range []uint32{0, 1, c04H - 1, c04H, 0xffffffff, c.R.Uint32()} {
		w.expectErr("Child/max-depth", k, idx, "(private key at depth 255)", hdkeychain.ErrDeriveBeyondMaxDepth)
	}
	kn, _ := w.neuter(k, r)
	keys := []*hdkeychain.ExtendedKey{kn}
	if pr != nil {
		keys = append(keys, pk)
		c.Inc("public_chains_reaching_depth_255")
	}
	for _, p := range keys {
		if p == nil {
			continue
		}
		for _, idx := range []uint32{0, c04H - 1, c.R.Uint32() & 0x7fffffff} {
			w.expectErr("Child/max-depth", p, idx, "(public key at depth 255)", hdkeychain.ErrDeriveBeyondMaxDepth)
		}
		// both refusals apply; the statement does not rank them
		w.expectErr("Child/max-depth", p, c04H, "(public key at depth 255, hardened)", hdkeychain.ErrDeriveBeyondMaxDepth, hdkeychain.ErrDeriveHardFromPublic)
	}
	if c.WantSample() {
		c.Sample(map[string]string{"seed": hx(w.seed), "net": w.net.Name, "depth": "255", "reference_xprv": r.String()})
	}
}

// c04treeCase walks a derivation TREE instead of a single path: several
// children of the same parent, keys re-read from their own serialisation
// (NewKeyFromString), neutered copies, and - between the steps - old nodes are
// compared with the reference again.  Every key obtained at any step must
// still equal the BIP32 key of its path after other keys were derived from
// it, serialised or neutered.
func c04treeCase(c *vf.Ctx, i int) {
	w := &c04w{c: c, seed: c04seed(c, i), net: c04netList[i%len(c04netList)], scribble: i%2 == 1}
	type node struct {
		k    *hdkeychain.ExtendedKey
		r    *ref.XKey
		path []uint32
		h    uint64
		note string
	}
	k, r := w.master()
	if r == nil {
		return
	}
	nodes := []*node{{k: k, r: r, h: w.h}}
	at := func(n *node) {
		w.path = append([]uint32(nil), n.path...)
		w.h = n.h
	}
	add := func(k *hdkeychain.ExtendedKey, r *ref.XKey, note string) {
		if r != nil && k != nil {
			nodes = append(nodes, &node{k: k, r: r, path: append([]uint32(nil), w.path...), h: w.h, note: note})
		}
	}
	steps := c.R.Range(8, 24)
	for s := 0; s < steps; s++ {
		n := nodes[c.R.Intn(len(nodes))]
		if c.R.Chance(1, 2) {
			n = nodes[len(nodes)-1-c.R.Intn(min(3, len(nodes)))]
		}
		at(n)
		switch op := c.R.Intn(10); {
		case op < 4: // child
			if n.r.Depth == 255 {
				continue
			}
			if n.r.IsPrivate() {
				kc, rc := w.step(n.k, n.r, c04index(c.R), c.R.Chance(3, 10))
				add(kc, rc, "")
			} else {
				idx := c04index(c.R) & 0x7fffffff
				kc, rc := w.pubStep(n.k, n.r, idx, "(tree)")
				if rc != nil {
					w.path = append(w.path, idx)
					add(kc, rc, "(public)")
				}
			}
		case op < 6: // re-read the key from its own serialisation
			var s string
			var k2 *hdkeychain.ExtendedKey
			var err error
			if !c.Call("NewKeyFromString", w.where, func() {
				s = n.k.String()
				k2, err = hdkeychain.NewKeyFromString(s)
			}) {
				continue
			}
			c.Evals(1)
			if err != nil || k2 == nil {
				// parsing is C05's subject; a refusal here is only not usable
				c.Inc("tree_reload_refused")
				continue
			}
			c.Inc("tree_nodes_reloaded_from_string")
			w.h = vf.Mix(w.h, 0x7ee1)
			if w.compare("NewKeyFromString", k2, n.r, "(re-read from "+s+")") {
				add(k2, n.r, "(re-read)")
			}
		case op < 7: // neuter
			if n.r.IsPrivate() {
				kn, rn := w.neuter(n.k, n.r)
				w.h = vf.Mix(w.h, 0x7ee2)
				add(kn, rn, "(neutered)")
			}
		default: // an old node must still be the key of its path
			c.Inc("tree_nodes_revisited")
			w.compare("revisit", n.k, n.r, "(revisited after "+fmt.Sprint(s)+" tree steps) "+n.note)
		}
	}
	for _, n := range nodes {
		at(n)
		c.Inc("tree_nodes_revisited")
		if !w.compare("revisit", n.k, n.r, "(at the end of the tree walk) "+n.note) {
			break
		}
	}
	c.Inc("tree_walks")
}

// c04ilCase: derivations whose HMAC-SHA512 left half IL has an aligned 32-bit
// word that is all zero or all one (listed by cmd/ilscan after scanning all
// 2^32 child indices of two master keys; about 2^-29 per derivation).  These
// are the values at which fixed-width limb arithmetic for (IL + k_par) mod n
// loses a carry or a leading word.  The reference recomputes everything; a
// wrong table entry only makes the case an ordinary derivation.
func c04ilCase(c *vf.Ctx, i int) {
	e := c04ilWords[i%len(c04ilWords)]
	seed, err := hex.DecodeString(e.Seed)
	if err != nil {
		c.Inconclusive("il-table-entry-unusable")
		return
	}
	w := &c04w{c: c, seed: seed, net: c04netList[(i/len(c04ilWords))%len(c04netList)]}
	k, r := w.master()
	if r == nil {
		return
	}
	// check the table entry against the reference HMAC
	{
		var data [37]byte
		if e.Index >= c04H {
			copy(data[1:33], c04pad32(r.Priv))
		} else {
			copy(data[:33], r.Pub.Compressed())
		}
		binary.BigEndian.PutUint32(data[33:], e.Index)
		mac := hmac.New(sha512.New, r.ChainCode[:])
		mac.Write(data[:])
		il := mac.Sum(nil)[:32]
		sum := new(big.Int).Add(new(big.Int).SetBytes(il), r.Priv)
		key := new(big.Int).Mod(sum, ref.SecN)
		word := func(x *big.Int) uint32 { // word Pos of the low 256 bits
			b := c04pad32(new(big.Int).And(x, new(big.Int).Sub(new(big.Int).Lsh(big.NewInt(1), 256), big.NewInt(1))))
			return binary.BigEndian.Uint32(b[4*e.Pos:])
		}
		ok := false
		switch e.Kind {
		case "IL":
			ok = binary.BigEndian.Uint32(il[4*e.Pos:]) == e.Val
		case "SUM": // a word of IL + k_par equals the same word of the group order n
			ok = word(sum) == e.Val && word(ref.SecN) == e.Val
		case "KEY": // a word of the child key is all zero / all one
			ok = word(key) == e.Val
		}
		if ok {
			c.Inc(fmt.Sprintf("derivations_with_%s_word_%08x", e.Kind, e.Val))
		} else {
			c.Inc("il_table_entry_not_confirmed")
		}
	}
	k, r = w.step(k, r, e.Index, true)
	for d := 0; d < 2 && r != nil; d++ {
		k, r = w.step(k, r, c04index(c.R), true)
	}
}

func c04errorsCase(c *vf.Ctx, i int) {
	var n int
	switch {
	case i < 16:
		n = i
	case i < 32:
		n = 65 + (i - 16)
	case c.R.Intn(3) == 0:
		n = c.R.Intn(16)
	case c.R.Intn(2) == 0:
		// a legal length plus a multiple of a power of two: wraps back into
		// 16..64 when the length (or the bit count) is squeezed into a
		// narrower integer type
		n = (16 + c.R.Intn(49)) + (1+c.R.Intn(4))<<uint(8+c.R.Intn(10))
		c.Inc("illegal_seed_len_legal_plus_multiple_of_power_of_two")
	default:
		n = 65 + c.R.SkewLen(4000)
	}
	if strconv.IntSize == 32 && (i == 100 || i == 101) {
		// 32-bit build only: a length whose BIT count wraps around 2^32 back into
		// the legal range (2^29 + 16..64 bytes, half a gigabyte of seed)
		n = 1<<29 + 16 + 48*(i-100)
		c.Inc("illegal_seed_len_2^29_plus_legal(32-bit_build)")
	}
	var seed []byte
	if n >= 1<<20 {
		seed = make([]byte, n) // contents are irrelevant for a length refusal; keep it cheap
		c.R.Fill(seed[:64])
	} else {
		seed = c.R.Bytes(n)
	}
	if i == 0 {
		seed = nil
	}
	c.Inc(fmt.Sprintf("illegal_seed_len_%s", map[bool]string{true: "short", false: "long"}[n < 16]))
	c.Nontrivial(vf.Mix(0xe0, uint64(n), vf.HashBytes(seed)))
	for _, net := range c04netList {
		in := func() string {
			if len(seed) > 4096 {
				return fmt.Sprintf("seed=%x... (%d bytes) net=%s", seed[:64], n, net.Name)
			}
			return fmt.Sprintf("seed=%x (%d bytes) net=%s", seed, n, net.Name)
		}
		var k *hdkeychain.ExtendedKey
		var err error
		if !c.Call("NewMaster", in, func() { k, err = hdkeychain.NewMaster(seed, net.P) }) {
			continue
		}
		c.Evals(1)
		switch {
		case err == nil:
			s := ""
			if k != nil {
				c.Call("NewMaster", in, func() { s = k.String() })
			}
			c.Failf("NewMaster/illegal-seed-length-accepted", "%s: NewMaster accepted a %d-byte seed (%s), want %q", in(), n, s, hdkeychain.ErrInvalidSeedLen)
		case !errors.Is(err, hdkeychain.ErrInvalidSeedLen):
			c.Failf("NewMaster/illegal-seed-length-wrong-error", "%s: NewMaster failed with %q, documented error is %q", in(), err, hdkeychain.ErrInvalidSeedLen)
		}
	}
}

func c04selfTest() error {
	for _, f := range []func() error{ref.SelfTestSecp, ref.SelfTestBase58, ref.SelfTestCashAddr, ref.SelfTestBIP32} {
		if err := f(); err != nil {
			return err
		}
	}
	if len(c04netList) == 0 {
		return fmt.Errorf("c04: no network with a registered HD key id")
	}
	// CKDpub(N(parent)) == N(CKDpriv(parent)) in the reference, and the
	// EC-free sibling search agrees with the reference, on fixed seeds.
	xprv, xpub := [4]byte{0x04, 0x88, 0xad, 0xe4}, [4]byte{0x04, 0x88, 0xb2, 0x1e}
	rnd := vf.NewRand(0xc04)
	for t := 0; t < 6; t++ {
		k, err := ref.NewMasterRef(rnd.Bytes(16+t*9), xprv)
		if err != nil {
			return err
		}
		for _, idx := range []uint32{0, c04H - 1, rnd.Uint32() & 0x7fffffff, c04H, rnd.Uint32() | c04H} {
			ch, err := k.Child(idx)
			if err != nil {
				return err
			}
			if s := c04siblingScalar(k, k.Pub.Compressed(), idx); s == nil || s.Cmp(ch.Priv) != 0 {
				return fmt.Errorf("c04: sibling search disagrees with the reference at index %d", idx)
			}
			if idx < c04H {
				pc, err := k.Neuter(xpub).Child(idx)
				if err != nil || pc.String() != ch.Neuter(xpub).String() {
					return fmt.Errorf("c04: reference CKDpub and N(CKDpriv) disagree at index %d", idx)
				}
			} else if _, err := k.Neuter(xpub).Child(idx); err != ref.ErrHardFromPublic {
				return fmt.Errorf("c04: reference derives hardened child from public key")
			}
			k = ch
		}
	}
	return nil
}

func init() {
	register(&vf.Property{
		ID:    "C04",
		Title: "HD key derivation conforms to BIP32 on every seed and path",
		Rule: "stream paths: seeds of every length 16..64 (random, all-zero, all-ones content) then random lengths, networks round-robin over those with a registered HD id, paths of 1..10 indices drawn from {0,1,2^31-1,2^31,2^31+1,2^32-1,random normal,random hardened}, every step compared with the reference (string, scalar, point, depth, fingerprint, address on every network, Neuter, child of the neutered parent or its refusal), optional CKDpub tail; " +
			"stream leadzero: sibling search (HMAC only) for a child scalar with >=1 (7/8 of cases) or >=2 (1/8) leading zero bytes, which is then used for hardened and normal steps, serialisation and neutering; " +
			"stream pathsdeep: chains to depth 255 (all-hardened, all-normal with a parallel public chain, boundary indices, mixed), then the depth-256 refusal on private and public keys; " +
			"stream errors: seed lengths 0..15, 65..80 and random illegal lengths on every network; " +
			"stream il-special-words: the derivations (two master keys, all 2^32 indices scanned by cmd/ilscan) in which an aligned 32-bit word of IL is 00000000 or ffffffff, a word of IL + k_par equals the same word of n, or a word of the child key is 00000000 or ffffffff, then two more steps below them; " +
			"stream trees: derivation trees (several children per parent, keys re-read from their own string, neutered copies) in which every node is compared again after later derivations and serialisations of other nodes. " +
			"A case is non-trivial and distinct per (seed, network, path prefix).",
		Assumptions: []string{
			"reference BIP32 / secp256k1 / Base58 / CashAddr written from the specifications, self-tested on BIP32 test vectors 1-3 and curve vectors on every run",
			"crypto/hmac, crypto/sha512, crypto/sha256, x/crypto/ripemd160 and math/big are correct",
			"the derived P2PKH address of an extended key is the CashAddr encoding (type 0) of hash160(compressed public key) under the prefix of the network passed to Address",
			"the public version bytes of a neutered key are the HDPublicKeyID chaincfg registers for the private id",
			"when two documented refusals apply at once (hardened child of a public key at depth 255) either error is accepted",
			"ErrInvalidChild / ErrUnusableSeed (probability 2^-127) cannot be provoked and are not monitored",
		},
		SelfTest: c04selfTest,
		Streams: []*vf.Stream{
			{Name: "paths", N: func(t vf.Tier) int { return t.Sz(14000, 130000) }, Run: c04pathsCase,
				Init: func(vf.Tier, uint64) any { return &c04shared{} }},
			{Name: "leadzero", N: func(t vf.Tier) int { return t.Sz(480, 6400) }, Run: c04leadzeroCase},
			{Name: "pathsdeep", N: func(t vf.Tier) int { return t.Sz(64, 1200) }, Run: c04deepCase, MaxCaseSec: 120},
			{Name: "errors", N: func(t vf.Tier) int { return t.Sz(600, 4000) }, Run: c04errorsCase},
			{Name: "il-special-words", N: func(t vf.Tier) int { return len(c04ilWords) * t.Sz(2, 8) }, Run: c04ilCase},
			{Name: "trees", N: func(t vf.Tier) int { return t.Sz(1500, 16000) }, Run: c04treeCase},
		},
	})
}
