// Package props holds one monitor per property.
package props

import (
	"sort"

	"verif/internal/vf"
)

var registry []*vf.Property

func register(p *vf.Property) { registry = append(registry, p) }

// All returns every implemented property, sorted by id.
func All() []*vf.Property {
	sort.Slice(registry, func(i, j int) bool { return registry[i].ID < registry[j].ID })
	return registry
}
