// Package props holds one monitor per property.
package props

import (
	"sort"

	"verif/internal/vf"
)

var registry []*vf.Property

func register(p *vf.Property) {
	add386(p)
	registry = append(registry, p)
}

// arch386 lists, per property, the streams that are run a second time in the
// GOARCH=386 build of driver and library (int and uintptr are 32 bits wide
// there; float64 arithmetic is SSE2 as on amd64) with 1/div of the cases.
// C17 declares its 386 streams itself.
var arch386 = map[string][]struct {
	stream string
	div    int
}{
	"C01": {{"hashes", 10}, {"pubkeys", 8}, {"scripts", 10}},
	"C02": {{"cash", 10}, {"legacy", 10}, {"compensated", 6}},
	"C04": {{"paths", 14}, {"il-special-words", 1}, {"errors", 4}},
	"C05": {{"roundtrip", 5}},
	"C06": {{"roundtrip", 8}, {"forged", 4}},
	"C07": {{"b58-bytes", 8}, {"b58-strings", 8}, {"b58check", 8}, {"bech32-decode", 8}, {"convertbits-generic", 8}},
	"C09": {{"murmur", 6}, {"history", 10}},
	"C10": {{"tx", 10}, {"block", 10}},
	"C11": {{"shapes", 4}, {"random", 6}, {"filters", 10}},
	"C12": {{"mutations", 5}, {"deep", 5}},
	"C13": {{"random", 5}},
	"C14": {{"random", 6}, {"reduction", 4}},
	"C15": {{"histories", 6}},
	"C16": {{"blocks", 10}, {"txs", 10}},
	"C18": {{"seeded", 10}},
	"C19": {{"seeded", 5}, {"coinset", 5}},
}

func add386(p *vf.Property) {
	for _, e := range arch386[p.ID] {
		found := false
		for _, st := range p.Streams {
			if st.Name != e.stream {
				continue
			}
			found = true
			cp := *st
			cp.Name = st.Name + "-386"
			cp.Arch386 = true
			cp.Race = false
			cp.Exhaustive = false
			n, div := st.N, e.div
			cp.N = func(t vf.Tier) int {
				k := n(t) / div
				if k < 1 {
					k = 1
				}
				return k
			}
			if cp.RlimitAS > 2<<30 {
				cp.RlimitAS = 0 // a 32-bit process cannot exceed 4 GiB anyway
			}
			p.Streams = append(p.Streams, &cp)
		}
		if !found {
			panic("props: arch386 table names an unknown stream " + p.ID + "/" + e.stream)
		}
	}
}

// All returns every implemented property, sorted by id.
func All() []*vf.Property {
	sort.Slice(registry, func(i, j int) bool { return registry[i].ID < registry[j].ID })
	return registry
}
