package props

import (
	"fmt"
	"github.com/gcash/bchd/chaincfg"
	"math/big"

	"github.com/gcash/bchd/bchec"
	"github.com/gcash/bchutil"

	"verif/internal/ref"
	"verif/internal/vf"
)

// C06 — WIF private-key strings round-trip, are canonical and checksum-guarded.
//
// Validity oracle (the statement's own definition): own Base58 decode gives 37
// bytes, or 38 bytes with byte[33] == 0x01, and the last four bytes are the
// sha256d prefix of the rest.
//
// Asserted:
//   * an invalid string is rejected; an accepted string re-encodes to itself;
//   * for scalars in [1,n-1] x flag x network: String() is the (unique) valid
//     string that carries version || key || [0x01]; decoding it gives the same
//     key bytes, flag and network identity; SerializePubKey is the reference
//     point's 33- / 65-byte encoding;
//   * a valid string whose version byte belongs to one of the networks and
//     whose scalar is in [1,n-1] is accepted.
// The statement says "accepted only if"; a valid string with a foreign version
// byte or a scalar outside [1,n-1] may therefore be rejected by a conforming
// decoder: such rejections are counted, not reported.

func c06pad32(x *big.Int) []byte {
	b := x.Bytes()
	out := make([]byte, 32)
	if len(b) > 32 {
		b = b[len(b)-32:]
	}
	copy(out[32-len(b):], b)
	return out
}

func c06sum(b []byte) []byte {
	s := ref.Sha256d(b)
	return append(append([]byte{}, b...), s[:4]...)
}

func c06body(ver byte, key32 []byte, compressed bool) []byte {
	b := append([]byte{ver}, key32...)
	if compressed {
		b = append(b, 1)
	}
	return b
}

// c06valid returns the decoded bytes and "" for a valid string, else the
// reason class.
func c06valid(s string) ([]byte, string) {
	raw, ok := ref.B58Decode(s)
	if !ok {
		return nil, "not-base58"
	}
	switch {
	case len(raw) == 37:
	case len(raw) == 38:
		if raw[33] != 1 {
			return raw, "compression-marker"
		}
	default:
		return raw, "length"
	}
	sum := ref.Sha256d(raw[:len(raw)-4])
	if !eqBytes(sum[:4], raw[len(raw)-4:]) {
		return raw, "checksum"
	}
	return raw, ""
}

func c06netVersion(v byte) bool {
	for _, n := range allNets {
		if n.P.PrivateKeyID == v {
			return true
		}
	}
	return false
}

func c06show(s string) string {
	raw, ok := ref.B58Decode(s)
	if !ok {
		return q(short(s)) + " (not base58)"
	}
	if len(raw) > 120 {
		return fmt.Sprintf("%s decoded=%x…(%d bytes)", q(short(s)), raw[:120], len(raw))
	}
	return fmt.Sprintf("%s decoded=%x (%d bytes)", q(short(s)), raw, len(raw))
}

// c06check evaluates one string against the validity oracle.
func c06check(c *vf.Ctx, family, s string) *bchutil.WIF {
	raw, reason := c06valid(s)
	in := func() string { return "family=" + family + " string=" + c06show(s) }
	var w *bchutil.WIF
	var err error
	if !c.Call("DecodeWIF", in, func() { w, err = bchutil.DecodeWIF(s) }) {
		return nil
	}
	c.Evals(1)
	accepted := err == nil
	switch {
	case accepted && w == nil:
		c.Failf("DecodeWIF/nil", "%s: returned neither a WIF nor an error", in())
		return nil
	case accepted && reason != "":
		c.Inc("invalid_accepted")
		c.Failf("DecodeWIF/accepts-invalid/"+reason, "%s: accepted, but the string is not a valid WIF (%s)", in(), reason)
		return nil
	case !accepted && reason == "":
		d := new(big.Int).SetBytes(raw[1:33])
		if c06netVersion(raw[0]) && d.Sign() > 0 && d.Cmp(ref.SecN) < 0 {
			c.Failf("DecodeWIF/rejects-valid", "%s: rejected with %q, but the string is the WIF of scalar %x on a known network", in(), err, d)
		} else {
			c.Inc("valid_out_of_domain_rejected")
		}
		return nil
	case !accepted:
		c.Inc("rejected_" + reason)
		return nil
	}
	c.Inc("accepted_valid")
	var re string
	if c.Call("WIF.String", in, func() { re = w.String() }) {
		c.Evals(1)
		if re != s {
			c.Failf("WIF.String/reencode", "%s: accepted, but re-encodes to %s", in(), c06show(re))
		}
	}
	return w
}

func c06scalar(c *vf.Ctx, i int) *big.Int {
	nm1 := new(big.Int).Sub(ref.SecN, big.NewInt(1))
	switch {
	case i < 16:
		return big.NewInt(int64(i + 1))
	case i < 32:
		return new(big.Int).Sub(ref.SecN, big.NewInt(int64(i-15)))
	case i < 63: // exactly 1..31 leading zero bytes
		z := i - 31
		b := c.R.Bytes(32)
		for j := 0; j < z; j++ {
			b[j] = 0
		}
		if b[z] == 0 {
			b[z] = 1 + byte(c.R.Intn(255))
		}
		return new(big.Int).SetBytes(b)
	case i < 64:
		return new(big.Int).Lsh(big.NewInt(1), 255)
	case i < 66: // 1/2 and -1/2 mod n: public points with a 166-bit x coordinate
		return specialScalar(i)
	case i%8 == 0: // random number of leading zero bytes
		z := 1 + c.R.Intn(31)
		b := c.R.Bytes(32)
		for j := 0; j < z; j++ {
			b[j] = 0
		}
		if b[z] == 0 {
			b[z] = 1 + byte(c.R.Intn(255))
		}
		return new(big.Int).SetBytes(b)
	}
	k := new(big.Int).SetBytes(c.R.Bytes(32))
	k.Mod(k, nm1)
	return k.Add(k, big.NewInt(1))
}

func c06roundtripCase(c *vf.Ctx, i int) {
	k := c06scalar(c, i)
	kb := c06pad32(k)
	p := ref.BaseMul(k)
	if z := 32 - (k.BitLen()+7)/8; z > 0 {
		c.Inc("scalars_with_leading_zero_bytes")
	}
	if p.X.BitLen() <= 248 || p.Y.BitLen() <= 248 {
		c.Inc("points_with_leading_zero_coordinate")
	}
	var priv *bchec.PrivateKey
	if !c.Call("bchec.PrivKeyFromBytes", func() string { return hx(kb) }, func() { priv, _ = bchec.PrivKeyFromBytes(bchec.S256(), kb) }) {
		return
	}
	// the six built-in networks plus caller-defined networks covering every
	// private-key version byte (NewWIF takes any *chaincfg.Params)
	nets := append(append([]netInfo{}, allNets...),
		netInfo{fmt.Sprintf("custom-%02x", byte(i)), &chaincfg.Params{PrivateKeyID: byte(i)}},
		netInfo{fmt.Sprintf("custom-%02x", byte(i*7+3)), &chaincfg.Params{PrivateKeyID: byte(i*7 + 3)}})
	for _, net := range nets {
		for _, compressed := range []bool{false, true} {
			in := func() string { return fmt.Sprintf("scalar=%x net=%s compressed=%v", kb, net.Name, compressed) }
			c.Nontrivial(vf.Mix(0x06, vf.HashBytes(kb), uint64(net.P.PrivateKeyID), vf.HashString(fmt.Sprint(compressed))))
			want := ref.B58Encode(c06sum(c06body(net.P.PrivateKeyID, kb, compressed)))
			wantPub := p.Uncompressed()
			if compressed {
				wantPub = p.Compressed()
			}
			checkWIF := func(site string, w *bchutil.WIF) {
				var s string
				var pub []byte
				var d *big.Int
				var ser []byte
				var flag bool
				forNet := make([]bool, len(allNets))
				if !c.Call(site, in, func() {
					s = w.String()
					flag = w.CompressPubKey
					pub = w.SerializePubKey()
					if w.PrivKey != nil {
						d, ser = w.PrivKey.D, w.PrivKey.Serialize()
					}
					for j, m := range allNets {
						forNet[j] = w.IsForNet(m.P)
					}
				}) {
					return
				}
				c.Evals(1)
				if s != want {
					c.Failf(site+"/string", "%s: String()=%s, the WIF of these inputs is %s", in(), c06show(s), c06show(want))
				}
				if d == nil || d.Cmp(k) != 0 || !eqBytes(ser, kb) {
					c.Failf(site+"/key", "%s: key bytes %x (D=%x)", in(), ser, d)
				}
				if flag != compressed {
					c.Failf(site+"/flag", "%s: CompressPubKey=%v", in(), flag)
				}
				if !eqBytes(pub, wantPub) {
					c.Failf(site+"/SerializePubKey", "%s: SerializePubKey()=%x, the point's encoding is %x", in(), pub, wantPub)
				}
				for j, m := range allNets {
					if forNet[j] != (m.P.PrivateKeyID == net.P.PrivateKeyID) {
						c.Failf(site+"/IsForNet", "%s: IsForNet(%s)=%v, version byte %02x, that network's PrivateKeyID %02x", in(), m.Name, forNet[j], net.P.PrivateKeyID, m.P.PrivateKeyID)
					}
				}
				// multi-step: the caller scribbles over the returned slice, asks
				// again, flips the exported compression flag and asks again: every
				// answer must be the encoding the CURRENT flag prescribes
				var again, flipped, back []byte
				if c.Call(site+"/SerializePubKey-sequence", in, func() {
					for j := range pub {
						pub[j] ^= 0xa5
					}
					again = w.SerializePubKey()
					w.CompressPubKey = !w.CompressPubKey
					flipped = w.SerializePubKey()
					w.CompressPubKey = !w.CompressPubKey
					back = w.SerializePubKey()
				}) {
					c.Evals(1)
					other := p.Uncompressed()
					if !compressed {
						other = p.Compressed()
					}
					if !eqBytes(again, wantPub) || !eqBytes(back, wantPub) {
						c.Failf(site+"/SerializePubKey-after-caller-mutation", "%s: after the caller modified the previously returned slice SerializePubKey()=%x / %x, the point's encoding is %x", in(), again, back, wantPub)
					}
					if !eqBytes(flipped, other) {
						c.Failf(site+"/SerializePubKey-after-flag-change", "%s: with CompressPubKey set to %v SerializePubKey()=%x, the encoding for that flag is %x", in(), !compressed, flipped, other)
					}
				}
			}
			var w *bchutil.WIF
			var err error
			if c.Call("NewWIF", in, func() { w, err = bchutil.NewWIF(priv, net.P, compressed) }) {
				if err != nil || w == nil {
					c.Evals(1)
					c.Failf("NewWIF/error", "%s: NewWIF failed: %v", in(), err)
				} else {
					checkWIF("NewWIF", w)
				}
			}
			var d *bchutil.WIF
			if !c.Call("DecodeWIF", func() string { return in() + " string=" + want }, func() { d, err = bchutil.DecodeWIF(want) }) {
				continue
			}
			if err != nil || d == nil {
				c.Evals(1)
				c.Failf("DecodeWIF/rejects-valid", "%s: DecodeWIF(%s) failed: %v", in(), c06show(want), err)
				continue
			}
			checkWIF("DecodeWIF", d)
			// multi-step: the caller wipes the key it was handed (wallets zero
			// key material after use) and decodes the same string again: the
			// string still decodes to the same key, flag and network
			var d2 *bchutil.WIF
			if c.Call("DecodeWIF", func() string { return in() + " string=" + want + " (second decode after wiping the first result)" }, func() {
				if d.PrivKey != nil && d.PrivKey.D != nil {
					d.PrivKey.D.SetInt64(0)
					if d.PrivKey.PublicKey.X != nil && d.PrivKey.PublicKey.Y != nil {
						d.PrivKey.PublicKey.X.SetInt64(0)
						d.PrivKey.PublicKey.Y.SetInt64(0)
					}
				}
				d.CompressPubKey = !d.CompressPubKey
				d2, err = bchutil.DecodeWIF(want)
			}) {
				if err != nil || d2 == nil {
					c.Evals(1)
					c.Failf("DecodeWIF/rejects-valid", "%s: second DecodeWIF(%s) failed: %v", in(), c06show(want), err)
					continue
				}
				c.Inc("decodes_repeated_after_wiping_first_result")
				checkWIF("DecodeWIF-again", d2)
			}
			if c.WantSample() && net.Name == "mainnet" {
				c.Sample(map[string]string{"scalar": hx(kb), "net": net.Name, "compressed": fmt.Sprint(compressed), "wif": want, "pubkey": hx(wantPub)})
			}
		}
	}
}

func c06validRaw(r *vf.Rand, i int) []byte {
	ver := allNets[r.Intn(len(allNets))].P.PrivateKeyID
	nm1 := new(big.Int).Sub(ref.SecN, big.NewInt(1))
	k := new(big.Int).SetBytes(r.Bytes(32))
	k.Mod(k, nm1)
	k.Add(k, big.NewInt(1))
	kb := c06pad32(k)
	if i%8 == 0 {
		for j := 0; j < 1+(i/8)%31; j++ {
			kb[j] = 0
		}
		if new(big.Int).SetBytes(kb).Sign() == 0 {
			kb[31] = 1
		}
	}
	return c06sum(c06body(ver, kb, i%2 == 0))
}

// c06corruptCase: one valid payload; every single-bit flip and all other
// values at 4 positions, checksum NOT recomputed.
func c06corruptCase(c *vf.Ctx, i int) {
	full := c06validRaw(c.R, i)
	base := ref.B58Encode(full)
	c.Nontrivial(vf.Mix(0x16, vf.HashBytes(full)))
	if c06check(c, "valid-base", base) == nil {
		c.Inc("base_not_accepted")
	}
	m := make([]byte, len(full))
	for bit := 0; bit < 8*len(full); bit++ {
		copy(m, full)
		m[bit/8] ^= 0x80 >> uint(bit%8)
		c06check(c, fmt.Sprintf("bitflip/byte%02d", bit/8), ref.B58Encode(m))
	}
	c.Count("bitflips", int64(8*len(full)))
	for j := 0; j < 4; j++ {
		pos := (i/2*4 + j) % len(full)
		for v := 0; v < 256; v++ {
			if byte(v) == full[pos] {
				continue
			}
			copy(m, full)
			m[pos] = byte(v)
			c06check(c, fmt.Sprintf("bytesub/byte%02d", pos), ref.B58Encode(m))
		}
		c.Count("byte_substitutions", 255)
	}
	if c.WantSample() {
		c.Sample(map[string]string{"valid_base": base, "payload": hx(full)})
	}
}

var c06foreign = []string{"0", "O", "I", "l", " ", "\n", "\t", "\x00", "+", "/", "-", "_", "=", "\x7f", "\x80", "\xff", "é", "１"}

const c06families = 10

func c06forgedCase(c *vf.Ctx, i int) {
	fam, v := i%c06families, i/c06families
	r := c.R
	c.Nontrivial(vf.Mix(0x26, uint64(i), r.Uint64()))
	switch fam {
	case 0: // every decoded length 0..45 (and some longer) with a good checksum
		L := v % 46
		if v%5 == 4 {
			L = 46 + r.Intn(80)
		}
		var raw []byte
		if L >= 4 {
			body := r.Bytes(L - 4)
			if len(body) > 0 {
				body[0] = allNets[r.Intn(len(allNets))].P.PrivateKeyID
			}
			if len(body) >= 34 && v%2 == 0 {
				body[33] = 1
			}
			raw = c06sum(body)
		} else {
			raw = r.Bytes(L)
		}
		c.Inc(fmt.Sprintf("forged_length_%02d", min(L, 46)))
		c06check(c, fmt.Sprintf("length=%d", L), ref.B58Encode(raw))
	case 1: // every value of the compression marker, checksum recomputed
		full := c06validRaw(r, 0)
		for mk := 0; mk < 256; mk++ {
			b := append([]byte{}, full[:34]...)
			b[33] = byte(mk)
			c06check(c, fmt.Sprintf("marker=%02x", mk), ref.B58Encode(c06sum(b)))
		}
		c.Count("forged_marker", 256)
	case 2: // every version byte (valid; must be accepted for the networks' ids)
		full := c06validRaw(r, v)
		for ver := 0; ver < 256; ver++ {
			b := append([]byte{}, full[:len(full)-4]...)
			b[0] = byte(ver)
			c06check(c, fmt.Sprintf("version=%02x", ver), ref.B58Encode(c06sum(b)))
		}
		c.Count("forged_version", 256)
	case 3: // scalars outside [1,n-1] (structurally valid; acceptance is optional)
		two256m1 := new(big.Int).Sub(new(big.Int).Lsh(big.NewInt(1), 256), big.NewInt(1))
		specials := []*big.Int{big.NewInt(0), ref.SecN, new(big.Int).Add(ref.SecN, big.NewInt(1)), two256m1}
		d := specials[v%len(specials)]
		ver := allNets[r.Intn(len(allNets))].P.PrivateKeyID
		c.Inc("forged_scalar_out_of_range")
		c06check(c, fmt.Sprintf("scalar=%x", d), ref.B58Encode(c06sum(c06body(ver, c06pad32(d), v%2 == 0))))
	case 9: // a complete valid WIF payload as the TAIL of a longer byte string (junk, zero bytes, valid)
		full := c06validRaw(r, v)
		for _, zeros := range []int{0, 1, 2, 5} {
			j := r.Bytes(1 + r.Intn(6))
			if j[0] == 0 {
				j[0] = 1
			}
			long := append(append(append([]byte{}, j...), make([]byte, zeros)...), full...)
			c06check(c, fmt.Sprintf("valid-tail-after-%d-junk-and-%d-zero-bytes", len(j), zeros), ref.B58Encode(long))
		}
		c.Count("forged_valid_tail_of_longer_string", 4)
	case 4: // 1..4 extra leading '1' characters
		s := ref.B58Encode(c06validRaw(r, v))
		for n := 1; n <= 4; n++ {
			c06check(c, fmt.Sprintf("extra-leading-1x%d", n), "1111"[:n]+s)
		}
		// ... also when the shifted key byte lands on the marker position as 0x01
		full := c06validRaw(r, 1)
		b := append([]byte{}, full[:33]...)
		b[32] = 1
		c06check(c, "extra-leading-1-marker-alias", "1"+ref.B58Encode(c06sum(b)))
		c.Count("forged_extra_leading_ones", 5)
	case 5: // foreign characters, degenerate strings
		s := ref.B58Encode(c06validRaw(r, v))
		f := c06foreign[v%len(c06foreign)]
		pos := r.Intn(len(s) + 1)
		c06check(c, "foreign-inserted", s[:pos]+f+s[pos:])
		if pos < len(s) {
			c06check(c, "foreign-substituted", s[:pos]+f+s[pos+1:])
		}
		c06check(c, "foreign-appended", s+f)
		c06check(c, "foreign-prepended", f+s)
		if pos < len(s) {
			// a multi-byte rune whose code point's low byte is the replaced character
			cp := rune(1+r.Intn(0x10ff))<<8 | rune(s[pos])
			if cp < 0xd800 || cp > 0xdfff {
				c06check(c, "foreign-rune-aliasing-low-byte", s[:pos]+string(cp)+s[pos+1:])
			}
		}
		c06check(c, "foreign-dotless-i-for-1", "\u0131"+s)
		for _, d := range []string{"", "1", " ", ref.B58Encode(make([]byte, 37)), ref.B58Encode(make([]byte, 38))} {
			c06check(c, "degenerate", d)
		}
		c.Count("forged_foreign_characters", 4)
	case 6: // version byte 0x00: valid, string starts with '1'
		full := c06validRaw(r, v)
		b := append([]byte{}, full[:len(full)-4]...)
		b[0] = 0
		s := ref.B58Encode(c06sum(b))
		c.Inc("forged_zero_version")
		c06check(c, "version=00", s)
		c06check(c, "version=00-minus-1", s[1:])
	case 7: // checksum over the wrong slice
		full := c06validRaw(r, 0) // 38 bytes, compressed
		b := full[:34]
		s33 := ref.Sha256d(b[:33])
		c06check(c, "checksum-over-33-of-34", ref.B58Encode(append(append([]byte{}, b...), s33[:4]...)))
		s1 := ref.Sha256d(b[1:])
		c06check(c, "checksum-without-version", ref.B58Encode(append(append([]byte{}, b...), s1[:4]...)))
		u := c06validRaw(r, 1) // 37 bytes
		s34 := ref.Sha256d(append(append([]byte{}, u[:33]...), 1))
		c06check(c, "checksum-with-phantom-marker", ref.B58Encode(append(append([]byte{}, u[:33]...), s34[:4]...)))
		// 38 bytes with a marker other than 0x01 and the checksum of the first 33
		for _, mk := range []byte{0x00, 0x02, 0xff, byte(r.Intn(256))} {
			if mk == 1 {
				continue
			}
			bb := append([]byte{}, b...)
			bb[33] = mk
			c06check(c, fmt.Sprintf("marker=%02x-checksum-over-33", mk), ref.B58Encode(append(bb, s33[:4]...)))
		}
		c.Count("forged_wrong_slice", 7)
	case 8: // single checksum bytes wrong
		full := c06validRaw(r, v)
		for j := len(full) - 4; j < len(full); j++ {
			m := append([]byte{}, full...)
			m[j] += byte(1 + r.Intn(255))
			c06check(c, fmt.Sprintf("checksum-byte-%d-wrong", j-(len(full)-4)), ref.B58Encode(m))
		}
		c.Count("forged_checksum_byte", 4)
	}
}

// c06keyOf compares the decoded key with the 32 key bytes the string carries.
func c06keyOf(c *vf.Ctx, family, s string, w *bchutil.WIF, raw []byte) {
	if w == nil || w.PrivKey == nil {
		return
	}
	c.Evals(1)
	if got := w.PrivKey.Serialize(); !eqBytes(got, raw[1:33]) {
		c.Failf("DecodeWIF/key", "family=%s string=%s: decoded key %x, the string carries %x", family, c06show(s), got, raw[1:33])
	}
	if w.CompressPubKey != (len(raw) == 38) {
		c.Failf("DecodeWIF/flag", "family=%s string=%s: CompressPubKey=%v for a %d-byte payload", family, c06show(s), w.CompressPubKey, len(raw))
	}
}

// c06zeroRunCase: valid WIF strings constructed to contain ten zero digits
// ('1') in the middle of the number.
func c06zeroRunCase(c *vf.Ctx, i int) {
	net := allNets[i%len(allNets)]
	compressed := (i/len(allNets))%2 == 1
	bl, lb := 33, -1
	if compressed {
		bl, lb = 34, 1
	}
	var body []byte
	for try := 0; try < 8; try++ {
		b, ok := b58ZeroRunBody(c.R, []byte{net.P.PrivateKeyID}, bl, 7+c.R.Intn(26), lb)
		if !ok {
			continue
		}
		d := new(big.Int).SetBytes(b[1:33])
		if d.Sign() > 0 && d.Cmp(ref.SecN) < 0 {
			body = b
			break
		}
	}
	if body == nil {
		c.Inc("zero_run_construction_failed")
		return
	}
	raw := c06sum(body)
	s := ref.B58Encode(raw)
	c.Inc("wif_strings_with_run_of_ten_zero_digits")
	c.Nontrivial(vf.Mix(0x60, vf.HashString(s)))
	w := c06check(c, "zero-digit-run", s)
	c06keyOf(c, "zero-digit-run", s, w, raw)
	if c.WantSample() {
		c.Sample(map[string]string{"wif_with_zero_digit_run": s})
	}
}

// checksum collisions: pairs of different valid WIF strings whose four
// checksum bytes are equal (birthday search), decoded back to back.
type c06coll struct{ pairs [][2][]byte }

func c06collInit(t vf.Tier, seed uint64) any {
	r := vf.NewRand(vf.Mix(seed, 0xc0116))
	seen := map[[4]byte][]byte{}
	out := &c06coll{}
	n := t.Sz(400000, 1500000)
	for k := 0; k < n; k++ {
		key := r.Bytes(32)
		key[0] &= 0x7f
		key[31] |= 1
		net := allNets[k%len(allNets)]
		raw := c06sum(c06body(net.P.PrivateKeyID, key, k%2 == 0))
		var ck [4]byte
		copy(ck[:], raw[len(raw)-4:])
		if prev, ok := seen[ck]; ok {
			out.pairs = append(out.pairs, [2][]byte{prev, raw})
		} else {
			seen[ck] = raw
		}
	}
	return out
}

func c06collCase(c *vf.Ctx, i int) {
	sh := c.Shared.(*c06coll)
	if len(sh.pairs) == 0 {
		c.Inconclusive("no-checksum-collision-found")
		return
	}
	p := sh.pairs[i%len(sh.pairs)]
	order := [][]byte{p[0], p[1], p[0], p[1], p[1], p[0]}
	c.Inc("checksum_collision_pairs_decoded_back_to_back")
	c.Nontrivial(vf.Mix(0x61, vf.HashBytes(p[0]), vf.HashBytes(p[1])))
	for _, raw := range order {
		s := ref.B58Encode(raw)
		w := c06check(c, "checksum-collision-pair", s)
		c06keyOf(c, "checksum-collision-pair", s, w, raw)
	}
	if c.WantSample() {
		c.Sample(map[string]string{"a": ref.B58Encode(p[0]), "b": ref.B58Encode(p[1]), "equal_checksum": hx(p[0][len(p[0])-4:])})
	}
}

func c06selfTest() error {
	for _, f := range []func() error{ref.SelfTestSecp, ref.SelfTestBase58} {
		if err := f(); err != nil {
			return err
		}
	}
	// published WIF examples (Bitcoin wiki "Wallet import format" and the
	// compressed form of the same key)
	key, _ := new(big.Int).SetString("0C28FCA386C7A227600B2FE50B7CAE11EC86D3BF1FBE471BE89827E19D72AA1D", 16)
	if got := ref.B58Encode(c06sum(c06body(0x80, c06pad32(key), false))); got != "5HueCGU8rMjxEXxiPuD5BDku4MkFqeZyd4dZ1jvhTVqvbTLvyTJ" {
		return fmt.Errorf("c06: WIF reference encoding wrong: %s", got)
	}
	if got := ref.B58Encode(c06sum(c06body(0x80, c06pad32(key), true))); got != "KwdMAjGmerYanjeui5SHS7JkmpZvVipYvB2LJGU1ZxJwYvP98617" {
		return fmt.Errorf("c06: compressed WIF reference encoding wrong: %s", got)
	}
	for _, t := range []struct{ s, want string }{
		{"5HueCGU8rMjxEXxiPuD5BDku4MkFqeZyd4dZ1jvhTVqvbTLvyTJ", ""},
		{"KwdMAjGmerYanjeui5SHS7JkmpZvVipYvB2LJGU1ZxJwYvP98617", ""},
		{"5HueCGU8rMjxEXxiPuD5BDku4MkFqeZyd4dZ1jvhTVqvbTLvyTK", "checksum"},
		{"15HueCGU8rMjxEXxiPuD5BDku4MkFqeZyd4dZ1jvhTVqvbTLvyTJ", "compression-marker"},
		{"5HueCGU8rMjxEXxiPuD5BDku4MkFqeZyd4dZ1jvhTVqvbTLvyT0", "not-base58"},
		{"", "length"},
	} {
		if _, got := c06valid(t.s); got != t.want {
			return fmt.Errorf("c06: validity oracle on %q: got %q want %q", t.s, got, t.want)
		}
	}
	return nil
}

func init() {
	register(&vf.Property{
		ID:    "C06",
		Title: "WIF private-key strings round-trip, are canonical and checksum-guarded",
		Rule: "stream roundtrip: scalars 1..16, n-16..n-1, exactly 1..31 leading zero bytes, 2^255, then random (1/8 with forced leading zero bytes) x {uncompressed, compressed} x 6 networks, through NewWIF and through DecodeWIF of the reference encoding; " +
			"stream corrupt: valid 37/38-byte payloads, every single-bit flip and all 255 other values at 4 rotating positions, checksum not recomputed; " +
			"stream zero-digit-runs: valid WIFs constructed to contain ten zero digits in the middle of the Base58 number; stream checksum-collisions: pairs of different valid WIFs with equal checksum bytes (birthday search over 4e5 keys), decoded back to back; " +
			"stream forged: recomputed-checksum families (every decoded length 0..45 and longer, every compression-marker value, every version byte, scalars 0/n/n+1/2^256-1, 1..4 extra leading '1', foreign characters, degenerate strings, version 0x00, checksum over the wrong slice, single wrong checksum bytes). " +
			"A case is distinct per (scalar, version byte, flag) or per payload.",
		Assumptions: []string{
			"reference Base58 and secp256k1 written from the specifications, self-tested on every run; the WIF byte layout is checked on the published example key 0C28FCA3...",
			"valid = decodes to 37 bytes, or 38 bytes with byte[33]=0x01, whose last four bytes are the sha256d prefix of the rest (the statement's definition)",
			"network identity of a WIF = its version byte; IsForNet(m) must equal (m.PrivateKeyID == version byte)",
			"rejection of a valid string is reported only when its version byte is a network's PrivateKeyID and its scalar is in [1,n-1]; other rejections are counted as valid_out_of_domain_rejected",
			"which error value a rejection carries is not part of the statement",
		},
		SelfTest: c06selfTest,
		Streams: []*vf.Stream{
			{Name: "roundtrip", N: func(t vf.Tier) int { return 66 + t.Sz(20000, 300000) }, Run: c06roundtripCase},
			{Name: "corrupt", N: func(t vf.Tier) int { return t.Sz(6000, 60000) }, Run: c06corruptCase},
			{Name: "forged", N: func(t vf.Tier) int { return t.Sz(10*800, 10*8000) }, Run: c06forgedCase},
			{Name: "zero-digit-runs", N: func(t vf.Tier) int { return t.Sz(1200, 24000) }, Run: c06zeroRunCase},
			{Name: "checksum-collisions", Workers: 1, Init: c06collInit, N: func(t vf.Tier) int { return t.Sz(60, 600) }, Run: c06collCase},
		},
	})
}
