package props

import (
	"os"
	"strconv"
	"sync"
	"time"

	"github.com/gcash/bchutil/bech32"

	"verif/internal/vf"
)

// T00 is not a property: it exercises the supervisor's own detection paths
// (panic, process-fatal error, hang, race report attribution).  It is only
// registered when VERIF_SELFCHECK=1 and must report exactly those findings.
func init() {
	if os.Getenv("VERIF_SELFCHECK") != "1" {
		return
	}
	register(&vf.Property{
		ID: "T00", Title: "supervisor self-check", Rule: "n/a",
		Streams: []*vf.Stream{
			{Name: "panic", N: func(vf.Tier) int { return 100 }, Run: func(c *vf.Ctx, i int) {
				c.Evals(1)
				if i == 37 {
					var m map[string]int
					m["x"] = 1
				}
			}},
			{Name: "fatal", N: func(vf.Tier) int { return 50 }, RlimitAS: 4 << 30, Run: func(c *vf.Ctx, i int) {
				c.Evals(1)
				if i == 21 {
					b := make([]byte, c00huge())
					b[len(b)-1] = 1
				}
			}},
			{Name: "hang", N: func(vf.Tier) int { return 20 }, MaxCaseSec: 1, Run: func(c *vf.Ctx, i int) {
				c.Evals(1)
				if i == 7 {
					for {
						time.Sleep(time.Second)
					}
				}
			}},
			{Name: "race", Race: true, Workers: 1, N: func(vf.Tier) int { return 20 }, Run: func(c *vf.Ctx, i int) {
				c.Evals(1)
				data := make([]byte, 4, 32)
				var wg sync.WaitGroup
				for g := 0; g < 4; g++ {
					wg.Add(1)
					go func() {
						defer wg.Done()
						for k := 0; k < 50; k++ {
							bech32.Encode("a", data)
						}
					}()
				}
				wg.Wait()
			}},
		},
	})
}

// c00huge is 16 GiB where an int can hold it (the allocation must exceed the
// child's address-space limit), 1.5 GiB on 32-bit builds.
func c00huge() int {
	n := 3 << 29
	if strconv.IntSize == 64 {
		n <<= 3 + 0*strconv.IntSize // 12 GiB; the shift is not a constant expression
		n += n / 3
	}
	return n
}
