package props

import (
	"bytes"
	"encoding/binary"
	"fmt"
	"math/bits"
	"time"

	"github.com/gcash/bchd/chaincfg/chainhash"
	"github.com/gcash/bchd/wire"
	"github.com/gcash/bchutil"
	"github.com/gcash/bchutil/bloom"
	"github.com/gcash/bchutil/merkleblock"

	"verif/internal/ref"
	"verif/internal/vf"
)

// C11 — built merkle-block proofs verify and reveal exactly the chosen
// transactions.
//
// Oracle: ref.BuildPartialMerkle / ref.MerkleRoot (internal/ref/merkle.go,
// written from the BIP37 text).  Transaction ids are sha256d of the wire
// serialisation (wire defines the serialisation; the hash is computed with
// crypto/sha256, not chainhash).

type c11block struct {
	salt   uint64
	blk    *bchutil.Block
	hdr    wire.BlockHeader
	leaves [][32]byte
	root   [32]byte
}

func c11saltHash(salt, k uint64) (h [32]byte) {
	r := vf.NewRand(vf.Mix(salt, k, 0xc11))
	r.Fill(h[:])
	return
}

func c11txid(tx *wire.MsgTx) [32]byte {
	var buf bytes.Buffer
	buf.Grow(tx.SerializeSize())
	if err := tx.Serialize(&buf); err != nil {
		panic("harness: wire cannot serialise a generated transaction: " + err.Error())
	}
	return ref.Sha256d(buf.Bytes())
}

// c11finish places the reference merkle root into a header and wraps the
// transactions into a bchutil.Block.
func c11finish(salt uint64, txs []*wire.MsgTx) *c11block {
	b := &c11block{salt: salt, leaves: make([][32]byte, len(txs))}
	for i, tx := range txs {
		b.leaves[i] = c11txid(tx)
	}
	b.root = ref.MerkleRoot(b.leaves)
	b.hdr = wire.BlockHeader{
		Version:    int32(1 + salt%4),
		PrevBlock:  chainhash.Hash(c11saltHash(salt, 1<<40)),
		MerkleRoot: chainhash.Hash(b.root),
		Timestamp:  time.Unix(1500000000+int64(salt%100000000), 0),
		Bits:       0x1d00ffff,
		Nonce:      uint32(salt >> 7),
	}
	b.blk = bchutil.NewBlock(&wire.MsgBlock{Header: b.hdr, Transactions: txs})
	return b
}

// c11minimalBlock builds a block of n minimal distinct transactions (one
// input without script, one output without script).
func c11minimalBlock(salt uint64, n int) *c11block {
	prev := chainhash.Hash(c11saltHash(salt, 0))
	txs := make([]*wire.MsgTx, n)
	for i := range txs {
		txs[i] = &wire.MsgTx{
			Version:  1,
			TxIn:     []*wire.TxIn{{PreviousOutPoint: wire.OutPoint{Hash: prev, Index: uint32(i)}, Sequence: 0xffffffff}},
			TxOut:    []*wire.TxOut{{Value: int64(i)}},
			LockTime: 0,
		}
	}
	return c11finish(salt, txs)
}

func c11subsetString(m []bool) string {
	var idx []int
	for i, b := range m {
		if b {
			idx = append(idx, i)
		}
	}
	return short(fmt.Sprint(idx))
}

func c11hashList(hs []*chainhash.Hash) string {
	var sb bytes.Buffer
	for i, h := range hs {
		if i > 0 {
			sb.WriteByte(' ')
		}
		if i >= 12 {
			fmt.Fprintf(&sb, "…(%d hashes)", len(hs))
			break
		}
		if h == nil {
			sb.WriteString("<nil>")
		} else {
			sb.WriteString(hx(h[:]))
		}
	}
	return sb.String()
}

func c11refList(hs [][32]byte) string {
	var sb bytes.Buffer
	for i, h := range hs {
		if i > 0 {
			sb.WriteByte(' ')
		}
		if i >= 12 {
			fmt.Fprintf(&sb, "…(%d hashes)", len(hs))
			break
		}
		sb.WriteString(hx(h[:]))
	}
	return sb.String()
}

func c11eqHashes(got []*chainhash.Hash, want [][32]byte) bool {
	if len(got) != len(want) {
		return false
	}
	for i := range got {
		if got[i] == nil || [32]byte(*got[i]) != want[i] {
			return false
		}
	}
	return true
}

func c11eqHeader(a, b *wire.BlockHeader) bool {
	return a.Version == b.Version && a.PrevBlock == b.PrevBlock && a.MerkleRoot == b.MerkleRoot &&
		a.Timestamp.Equal(b.Timestamp) && a.Bits == b.Bits && a.Nonce == b.Nonce
}

// c11checkMessage compares a built message and index list with the
// reference partial merkle tree for matched, then extracts it.
func c11checkMessage(c *vf.Ctx, site string, b *c11block, matched []bool, msg *wire.MsgMerkleBlock, idx []uint32) {
	n := len(b.leaves)
	desc := func() string {
		return fmt.Sprintf("block salt=%#x n=%d subset=%s", b.salt, n, c11subsetString(matched))
	}
	if msg == nil {
		c.Failf(site+"/nil-message", "%s: builder returned a nil message", desc())
		return
	}
	want := ref.BuildPartialMerkle(b.leaves, matched)
	var wantIdx []uint32
	var wantHashes [][32]byte
	for i, m := range matched {
		if m {
			wantIdx = append(wantIdx, uint32(i))
			wantHashes = append(wantHashes, b.leaves[i])
		}
	}
	c.Evals(5)
	if msg.Transactions != want.Count {
		c.Failf(site+"/tx-count", "%s: message declares %d transactions, block has %d", desc(), msg.Transactions, want.Count)
	}
	if !bytes.Equal(msg.Flags, want.Flags) {
		c.Failf(site+"/flags", "%s: flag bytes %x, canonical BIP37 partial merkle tree has %x", desc(), msg.Flags, want.Flags)
	}
	if !c11eqHashes(msg.Hashes, want.Hashes) {
		c.Failf(site+"/hashes", "%s: hash list [%s] (%d), canonical BIP37 partial merkle tree has [%s] (%d)", desc(), c11hashList(msg.Hashes), len(msg.Hashes), c11refList(want.Hashes), len(want.Hashes))
	}
	if !c11eqHeader(&msg.Header, &b.hdr) {
		c.Failf(site+"/header", "%s: message header %+v is not the block header %+v", desc(), msg.Header, b.hdr)
	}
	if !eqU32(idx, wantIdx) {
		c.Failf(site+"/indices", "%s: returned index list %s, chosen positions in block order are %s", desc(), short(fmt.Sprint(idx)), short(fmt.Sprint(wantIdx)))
	}

	// extraction of the library's own message
	var root *chainhash.Hash
	var gotM []*chainhash.Hash
	var gotI []uint32
	in := func() string {
		return fmt.Sprintf("%s message: count=%d hashes=[%s] flags=%x", desc(), msg.Transactions, c11hashList(msg.Hashes), msg.Flags)
	}
	if !c.Call("ExtractMatches", in, func() {
		pb := merkleblock.NewMerkleBlockFromMsg(*msg)
		root = pb.ExtractMatches()
		gotM = pb.GetMatches()
		gotI = pb.GetItems()
	}) {
		return
	}
	c.Evals(3)
	if root == nil {
		c.Failf("ExtractMatches/honest-rejected", "%s: extraction of the built message failed (site %s)", in(), site)
		return
	}
	if [32]byte(*root) != b.root || *root != msg.Header.MerkleRoot {
		c.Failf("ExtractMatches/root", "%s: extracted root %x, block merkle root %x, header field %x (site %s)", in(), root[:], b.root, msg.Header.MerkleRoot[:], site)
	}
	if !c11eqHashes(gotM, wantHashes) {
		c.Failf("GetMatches/list", "%s: matches [%s] (%d), chosen transactions in block order [%s] (%d) (site %s)", in(), c11hashList(gotM), len(gotM), c11refList(wantHashes), len(wantHashes), site)
	}
	if !eqU32(gotI, wantIdx) {
		c.Failf("GetItems/list", "%s: positions %s, chosen positions %s (site %s)", in(), short(fmt.Sprint(gotI)), short(fmt.Sprint(wantIdx)), site)
	}
}

func eqU32(a, b []uint32) bool {
	if len(a) != len(b) {
		return false
	}
	for i := range a {
		if a[i] != b[i] {
			return false
		}
	}
	return true
}

func c11matchedHash(m []bool) uint64 {
	h := uint64(len(m))
	var w uint64
	for i, b := range m {
		if b {
			w |= 1 << uint(i&63)
		}
		if i&63 == 63 || i == len(m)-1 {
			h = vf.Mix(h, w)
			w = 0
		}
	}
	return h
}

// order: 0 block order, 1 reversed, 2 shuffled (r), 3 shuffled with duplicates
func c11txnSet(b *c11block, matched []bool, order int, r *vf.Rand) []*chainhash.Hash {
	var set []*chainhash.Hash
	for i, m := range matched {
		if m {
			h := chainhash.Hash(b.leaves[i]) // fresh copy, not the block's pointer
			set = append(set, &h)
		}
	}
	switch order {
	case 1:
		for i, j := 0, len(set)-1; i < j; i, j = i+1, j-1 {
			set[i], set[j] = set[j], set[i]
		}
	case 2, 3:
		if order == 3 && len(set) > 0 {
			for k := 1 + r.Intn(3); k > 0; k-- {
				h := *set[r.Intn(len(set))]
				set = append(set, &h)
			}
		}
		r.Shuffle(len(set), func(i, j int) { set[i], set[j] = set[j], set[i] })
	}
	return set
}

func c11runTxnSet(c *vf.Ctx, b *c11block, matched []bool, order int, r *vf.Rand) {
	n := len(matched)
	k := 0
	for _, m := range matched {
		if m {
			k++
		}
	}
	switch {
	case k == 0:
		c.Inc("subset_empty")
	case k == n:
		c.Inc("subset_full")
	case k == 1:
		c.Inc("subset_singleton")
	}
	if matched[n-1] && n&1 == 1 && n > 1 {
		c.Inc("matched_last_leaf_of_odd_level")
	}
	odd := 0
	for w := n; w > 1; w = (w + 1) / 2 {
		if w&1 == 1 {
			odd++
		}
	}
	if odd >= 2 {
		c.Inc("trees_odd_at_2+_levels")
	}
	set := c11txnSet(b, matched, order, r)
	var msg *wire.MsgMerkleBlock
	var idx []uint32
	site := "NewMerkleBlockWithTxnSet"
	if !c.Call(site, func() string {
		return fmt.Sprintf("block salt=%#x n=%d subset=%s order=%d", b.salt, n, c11subsetString(matched), order)
	}, func() { msg, idx = merkleblock.NewMerkleBlockWithTxnSet(b.blk, set) }) {
		return
	}
	c.Nontrivial(vf.Mix(b.salt, c11matchedHash(matched)))
	c11checkMessage(c, site, b, matched, msg, idx)
	if msg != nil && len(msg.Flags) >= 2 {
		c.Inc("flags_span_2+_bytes")
	}
	if c.WantSample() && msg != nil {
		c.Sample(map[string]any{"n": n, "subset": c11subsetString(matched), "flags": hx(msg.Flags), "hashes": len(msg.Hashes), "root": hx(b.root[:])})
	}
}

// ---- stream exhaustive: n = 1..12, all subsets ----------------------------

const c11exhMaxN = 12

func c11exhaustive(c *vf.Ctx, i int) {
	n := bits.Len(uint(i+2)) - 1
	mask := i + 2 - 1<<uint(n)
	matched := make([]bool, n)
	for j := range matched {
		matched[j] = mask>>uint(j)&1 == 1
	}
	b := c11minimalBlock(vf.Mix(0xe11, uint64(i)), n)
	c.Inc(fmt.Sprintf("n=%02d", n))
	c11runTxnSet(c, b, matched, i&1, nil)
}

// ---- stream shapes: every n <= 65 with structured subsets -----------------

const c11shapeMaxN = 65

func c11shapePerN(n int, t vf.Tier) int { return 4 + 4*n + t.Sz(8, 64) }

func c11shapes(c *vf.Ctx, i int) {
	n := 1
	for ; n <= c11shapeMaxN; n++ {
		k := c11shapePerN(n, c.Tier)
		if i < k {
			break
		}
		i -= k
	}
	matched := make([]bool, n)
	var kind string
	switch {
	case i == 0:
		kind = "empty"
	case i == 1:
		kind = "full"
		for j := range matched {
			matched[j] = true
		}
	case i == 2 || i == 3:
		kind = "alternating"
		for j := range matched {
			matched[j] = j&1 == i&1
		}
	case i < 4+n:
		kind = "singleton"
		matched[i-4] = true
	case i < 4+2*n:
		kind = "right-edge-run"
		for j := n - 1 - (i - 4 - n); j < n; j++ {
			matched[j] = true
		}
	case i < 4+3*n:
		kind = "left-edge-run"
		for j := 0; j <= i-4-2*n; j++ {
			matched[j] = true
		}
	case i < 4+4*n:
		kind = "all-but-one"
		for j := range matched {
			matched[j] = j != i-4-3*n
		}
	default:
		kind = "seeded"
		den := 1 + c.R.Intn(8)
		for j := range matched {
			matched[j] = c.R.Intn(den) == 0
		}
	}
	c.Inc("kind_" + kind)
	if kind != "seeded" { // directed cases do not depend on the seed
		salt := vf.Mix(0x5a, uint64(n), uint64(i))
		c11runTxnSet(c, c11minimalBlock(salt, n), matched, (i+n)%4, vf.NewRand(salt))
		return
	}
	c11runTxnSet(c, c11minimalBlock(c.R.Uint64(), n), matched, c.R.Intn(4), c.R)
}

// ---- stream random: seeded n up to 3000 ------------------------------------

func c11randomN(r *vf.Rand, max int) int {
	switch r.Intn(4) {
	case 0:
		return 1 + r.Intn(300)
	case 1: // around powers of two
		k := 1 + r.Intn(11)
		n := 1<<uint(k) + r.Intn(5) - 2
		if n < 1 {
			n = 1
		}
		if n > max {
			n = max
		}
		return n
	case 2:
		return 1 + r.Intn(max)
	default: // odd at many levels: 2^k+1 style and random odd
		n := 1 + r.Intn(max)
		return n | 1
	}
}

func c11randomSubset(r *vf.Rand, n int) []bool {
	m := make([]bool, n)
	switch r.Intn(7) {
	case 0: // a few
		for k := 1 + r.Intn(3); k > 0; k-- {
			m[r.Intn(n)] = true
		}
	case 1:
		for j := range m {
			m[j] = r.Intn(100) == 0
		}
	case 2:
		for j := range m {
			m[j] = r.Intn(10) == 0
		}
	case 3:
		for j := range m {
			m[j] = r.Bool()
		}
	case 4:
		for j := range m {
			m[j] = r.Intn(10) != 0
		}
	case 5: // runs
		for j := 0; j < n; {
			l := 1 + r.Intn(1+n/8+1)
			v := r.Bool()
			for ; l > 0 && j < n; l, j = l-1, j+1 {
				m[j] = v
			}
		}
	default: // right edge region
		for j := n - 1 - r.Intn(1+n/4); j < n; j++ {
			m[j] = r.Intn(3) != 0
		}
	}
	return m
}

func c11random(c *vf.Ctx, i int) {
	n := c11randomN(c.R, 3000)
	matched := c11randomSubset(c.R, n)
	switch {
	case n <= 65:
		c.Inc("n<=65")
	case n <= 512:
		c.Inc("n<=512")
	default:
		c.Inc("n>512")
	}
	b := c11minimalBlock(c.R.Uint64(), n)
	c11runTxnSet(c, b, matched, c.R.Intn(4), c.R)
}

// ---- stream filters: subsets induced by a bloom filter ---------------------

type c11filterItem struct {
	kind int // 0 data, 1 hash, 2 outpoint
	data []byte
	hash chainhash.Hash
	op   wire.OutPoint
}

// c11richBlock builds a block whose transactions carry data pushes and spend
// each other (possibly out of topological order).
func c11richBlock(r *vf.Rand, n int) (*c11block, [][]byte, []wire.OutPoint) {
	salt := r.Uint64()
	built := make([]*wire.MsgTx, n)
	ids := make([][32]byte, n)
	var pushes [][]byte
	var outs []wire.OutPoint
	ext := chainhash.Hash(c11saltHash(salt, 0))
	for i := 0; i < n; i++ {
		tx := &wire.MsgTx{Version: 1 + int32(r.Intn(2)), LockTime: uint32(i)}
		for k := 1 + r.Intn(2); k > 0; k-- {
			op := wire.OutPoint{Hash: ext, Index: uint32(i*4 + k)}
			if i > 0 && r.Intn(3) == 0 { // spend an output of an earlier-built transaction
				j := r.Intn(i)
				op = wire.OutPoint{Hash: chainhash.Hash(ids[j]), Index: uint32(r.Intn(len(built[j].TxOut)))}
			}
			var sig []byte
			if r.Intn(2) == 0 {
				d := r.Bytes(8 + r.Intn(30))
				sig = append([]byte{byte(len(d))}, d...)
				pushes = append(pushes, d)
			}
			tx.TxIn = append(tx.TxIn, &wire.TxIn{PreviousOutPoint: op, SignatureScript: sig, Sequence: 0xffffffff})
		}
		for k := 1 + r.Intn(2); k > 0; k-- {
			var pk []byte
			switch r.Intn(4) {
			case 0: // no script
			case 1: // pay-to-pubkey shaped
				d := r.Bytes(33)
				d[0] = 2 + byte(r.Intn(2))
				pk = append(append([]byte{33}, d...), 0xac)
				pushes = append(pushes, d)
			default: // pay-to-pubkey-hash shaped
				d := r.Bytes(20)
				pk = append(append([]byte{0x76, 0xa9, 20}, d...), 0x88, 0xac)
				pushes = append(pushes, d)
			}
			tx.TxOut = append(tx.TxOut, &wire.TxOut{Value: int64(r.Intn(1 << 30)), PkScript: pk})
		}
		built[i] = tx
		ids[i] = c11txid(tx)
		for k := range tx.TxOut {
			outs = append(outs, wire.OutPoint{Hash: chainhash.Hash(ids[i]), Index: uint32(k)})
		}
	}
	txs := built
	if r.Intn(2) == 0 { // non-topological order (as with canonical transaction ordering)
		txs = make([]*wire.MsgTx, n)
		for i, p := range r.Perm(n) {
			txs[i] = built[p]
		}
	}
	return c11finish(salt, txs), pushes, outs
}

func c11filters(c *vf.Ctx, i int) {
	r := c.R
	var n int
	switch r.Intn(3) {
	case 0:
		n = 1 + r.Intn(16)
	case 1:
		n = 1 + r.Intn(150)
	default:
		n = c11randomN(r, 400)
	}
	var b *c11block
	var pushes [][]byte
	var outs []wire.OutPoint
	rich := r.Intn(4) != 0
	if rich {
		b, pushes, outs = c11richBlock(r, n)
		c.Inc("blocks_with_scripts_and_spends")
	} else {
		b = c11minimalBlock(r.Uint64(), n)
		c.Inc("blocks_minimal")
	}
	// items loaded into the filter
	var items []c11filterItem
	loaded := make([]bool, n)
	nid := r.Intn(1 + min(n, 6))
	if r.Intn(8) == 0 {
		nid = n
	}
	for k := 0; k < nid; k++ {
		j := r.Intn(n)
		loaded[j] = true
		if r.Bool() {
			items = append(items, c11filterItem{kind: 0, data: append([]byte(nil), b.leaves[j][:]...)})
		} else {
			items = append(items, c11filterItem{kind: 1, hash: chainhash.Hash(b.leaves[j])})
		}
	}
	if rich {
		for k := r.Intn(4); k > 0 && len(pushes) > 0; k-- {
			items = append(items, c11filterItem{kind: 0, data: pushes[r.Intn(len(pushes))]})
		}
		for k := r.Intn(3); k > 0 && len(outs) > 0; k-- {
			items = append(items, c11filterItem{kind: 2, op: outs[r.Intn(len(outs))]})
		}
	}
	elements := uint32(len(items) + 10 + r.Intn(40))
	tweak := r.Uint32()
	fprate := []float64{0.00001, 0.0001, 0.001, 0.01, 0.05}[r.Intn(5)]
	flags := wire.BloomUpdateType(r.Intn(3))
	mk := func() *bloom.Filter {
		f := bloom.NewFilter(elements, tweak, fprate, flags)
		for _, it := range items {
			switch it.kind {
			case 0:
				f.Add(it.data)
			case 1:
				h := it.hash
				f.AddHash(&h)
			default:
				op := it.op
				f.AddOutPoint(&op)
			}
		}
		return f
	}
	in := func() string {
		return fmt.Sprintf("block salt=%#x n=%d rich=%v; filter elements=%d tweak=%#x fprate=%g flags=%d loaded items=%d (txids of positions %s)",
			b.salt, n, rich, elements, tweak, fprate, flags, len(items), c11subsetString(loaded))
	}
	var f1, f2 *bloom.Filter
	if !c.Call("bloom.NewFilter", in, func() { f1, f2 = mk(), mk() }) {
		return
	}
	if i%3 == 0 {
		// the caller has used the block before: its cached transaction
		// wrappers carry whatever index annotation the caller gave them
		// (Tx.SetIndex is public); positions in a proof are block positions
		c.Call("Block.Transactions/SetIndex", in, func() {
			ts := b.blk.Transactions()
			for k := 1 + c.R.Intn(3); k > 0 && len(ts) > 0; k-- {
				ts[c.R.Intn(len(ts))].SetIndex([]int{bchutil.TxIndexUnknown, 0, c.R.Intn(len(ts)), len(ts), 1 << 20}[c.R.Intn(5)])
			}
		})
		c.Inc("blocks_whose_tx_wrappers_were_re-annotated_with_SetIndex")
	}
	var msgB, msgM *wire.MsgMerkleBlock
	var idxB, idxM []uint32
	okB := c.Call("bloom.NewMerkleBlock", in, func() { msgB, idxB = bloom.NewMerkleBlock(b.blk, f1) })
	okM := c.Call("NewMerkleBlockWithFilter", in, func() { msgM, idxM = merkleblock.NewMerkleBlockWithFilter(b.blk, f2) })
	if !okB || !okM {
		return
	}
	if msgB == nil || msgM == nil {
		c.Failf("builders/nil-message", "%s: bloom.NewMerkleBlock message nil=%v, merkleblock.NewMerkleBlockWithFilter message nil=%v", in(), msgB == nil, msgM == nil)
		return
	}
	// the two builders agree
	c.Evals(2)
	if !eqU32(idxB, idxM) {
		c.Failf("builders/indices-differ", "%s: bloom.NewMerkleBlock indices %s, merkleblock.NewMerkleBlockWithFilter indices %s", in(), short(fmt.Sprint(idxB)), short(fmt.Sprint(idxM)))
	}
	sameHashes := len(msgB.Hashes) == len(msgM.Hashes)
	for k := 0; sameHashes && k < len(msgB.Hashes); k++ {
		x, y := msgB.Hashes[k], msgM.Hashes[k]
		sameHashes = x != nil && y != nil && *x == *y
	}
	if msgB.Transactions != msgM.Transactions || !bytes.Equal(msgB.Flags, msgM.Flags) || !sameHashes || !c11eqHeader(&msgB.Header, &msgM.Header) {
		c.Failf("builders/messages-differ", "%s: bloom.NewMerkleBlock {count=%d flags=%x hashes=[%s]} vs merkleblock.NewMerkleBlockWithFilter {count=%d flags=%x hashes=[%s]}",
			in(), msgB.Transactions, msgB.Flags, c11hashList(msgB.Hashes), msgM.Transactions, msgM.Flags, c11hashList(msgM.Hashes))
	}
	// each equals the canonical tree of the subset it reports
	for _, s := range []struct {
		site string
		msg  *wire.MsgMerkleBlock
		idx  []uint32
	}{{"bloom.NewMerkleBlock", msgB, idxB}, {"NewMerkleBlockWithFilter", msgM, idxM}} {
		matched := make([]bool, n)
		bad := false
		for _, p := range s.idx {
			if int(p) >= n {
				bad = true
				continue
			}
			matched[p] = true
		}
		if bad {
			c.Failf(s.site+"/index-out-of-range", "%s: index list %s for a block of %d transactions", in(), short(fmt.Sprint(s.idx)), n)
		}
		c11checkMessage(c, s.site, b, matched, s.msg, s.idx)
		if s.msg == msgB {
			c.Nontrivial(vf.Mix(b.salt, c11matchedHash(matched), 0xf1))
			k, missing, extra := 0, 0, 0
			for j := range matched {
				if matched[j] {
					k++
				}
				if loaded[j] && !matched[j] {
					missing++
				}
				if matched[j] && !loaded[j] {
					extra++
				}
			}
			c.Count("filter_matched_txs", int64(k))
			c.Count("filter_matched_beyond_loaded_txids", int64(extra))
			if missing > 0 {
				c.Inc("observed_loaded_txid_not_reported(not a C11 clause)")
			}
			switch {
			case k == 0:
				c.Inc("induced_subset_empty")
			case k == n:
				c.Inc("induced_subset_full")
			default:
				c.Inc("induced_subset_proper")
			}
			if c.WantSample() {
				c.Sample(map[string]any{"n": n, "rich": rich, "update_flags": int(flags), "loaded_items": len(items), "induced_subset": c11subsetString(matched), "msg_flags": hx(s.msg.Flags), "msg_hashes": len(s.msg.Hashes)})
			}
		}
	}
}

// ---- stream near-colliding-siblings ----------------------------------------
// Honest blocks in which two sibling leaves have DIFFERENT transaction ids
// that agree in one aligned 32-bit word (found by a birthday search over lock
// times, 2^18 candidates per run).  A proof builder / extractor that compares
// node hashes by anything less than all 32 bytes treats such siblings as the
// duplicated-node pattern.

type c11nearPair struct {
	word int
	a, b *wire.MsgTx
}

func c11nearTx(prev chainhash.Hash, lock uint32) *wire.MsgTx {
	return &wire.MsgTx{
		Version:  1,
		TxIn:     []*wire.TxIn{{PreviousOutPoint: wire.OutPoint{Hash: prev, Index: 0}, Sequence: 0xfffffffe}},
		TxOut:    []*wire.TxOut{{Value: 5000}},
		LockTime: lock,
	}
}

func c11nearInit(t vf.Tier, seed uint64) any {
	prev := chainhash.Hash(c11saltHash(seed, 0x4ea7))
	raw := make([]byte, 0, 60)
	raw = append(raw, 1, 0, 0, 0, 1)
	raw = append(raw, prev[:]...)
	raw = append(raw, 0, 0, 0, 0, 0, 0xfe, 0xff, 0xff, 0xff, 1, 0x88, 0x13, 0, 0, 0, 0, 0, 0, 0, 0, 0, 0, 0)
	const cand = 1 << 18
	ids := make([][32]byte, cand)
	for l := 0; l < cand; l++ {
		binary.LittleEndian.PutUint32(raw[len(raw)-4:], uint32(l))
		ids[l] = ref.Sha256d(raw)
	}
	var pairs []c11nearPair
	for w := 0; w < 8; w++ {
		seen := make(map[uint32]uint32, cand)
		found := 0
		for l := 0; l < cand && found < 4; l++ {
			k := binary.LittleEndian.Uint32(ids[l][4*w:])
			if o, ok := seen[k]; ok {
				a, b := c11nearTx(prev, o), c11nearTx(prev, uint32(l))
				ia, ib := c11txid(a), c11txid(b)
				if ia != ids[o] || ib != ids[l] || ia == ib || !bytes.Equal(ia[4*w:4*w+4], ib[4*w:4*w+4]) {
					panic("harness: near-collision search disagrees with wire serialisation")
				}
				pairs = append(pairs, c11nearPair{w, a, b})
				found++
				continue
			}
			seen[k] = uint32(l)
		}
	}
	// pairs agreeing in 64 bits (precomputed by cmd/collide64, 2^32.5 hashes
	// each); every pair is re-verified here with wire's serialisation
	for _, q := range c11pairs64 {
		var ph chainhash.Hash
		for j := range ph {
			ph[j] = q.Salt ^ byte(j*7+1)
		}
		mk := func(seq, lock uint32) *wire.MsgTx {
			t := c11nearTx(ph, lock)
			t.TxIn[0].Sequence = seq
			return t
		}
		a, b := mk(q.SeqA, q.LockA), mk(q.SeqB, q.LockB)
		ia, ib := c11txid(a), c11txid(b)
		word := func(id [32]byte) uint64 {
			if q.Mode < 4 {
				return binary.LittleEndian.Uint64(id[8*q.Mode:])
			}
			return binary.LittleEndian.Uint64(id[0:]) ^ binary.LittleEndian.Uint64(id[8:]) ^ binary.LittleEndian.Uint64(id[16:]) ^ binary.LittleEndian.Uint64(id[24:])
		}
		if ia == ib || word(ia) != word(ib) {
			continue // a wrong constant only removes the pair
		}
		pairs = append(pairs, c11nearPair{8 + q.Mode, a, b})
	}
	return pairs
}

func c11near(c *vf.Ctx, i int) {
	pairs, _ := c.Shared.([]c11nearPair)
	if len(pairs) == 0 {
		c.Inconclusive("no-near-collision-found")
		return
	}
	p := pairs[i%len(pairs)]
	n := 2 + c.R.Intn(40)
	if c.R.Chance(1, 8) {
		n = 2 + c.R.Intn(600)
	}
	salt := c.R.Uint64()
	prev := chainhash.Hash(c11saltHash(salt, 0))
	txs := make([]*wire.MsgTx, n)
	for j := range txs {
		txs[j] = &wire.MsgTx{Version: 1,
			TxIn:  []*wire.TxIn{{PreviousOutPoint: wire.OutPoint{Hash: prev, Index: uint32(j)}, Sequence: 0xffffffff}},
			TxOut: []*wire.TxOut{{Value: int64(j)}}}
	}
	at := 2 * c.R.Intn(n/2) // siblings 2k, 2k+1
	if c.R.Chance(1, 10) && at+2 < n {
		at++ // neighbours that are not siblings
		c.Inc("near_pair_not_siblings")
	}
	a, b := p.a, p.b
	if c.R.Bool() {
		a, b = b, a
	}
	txs[at], txs[at+1] = a, b
	blk := c11finish(salt, txs)
	matched := make([]bool, n)
	switch c.R.Intn(6) {
	case 0:
		matched[at] = true
	case 1:
		matched[at+1] = true
	case 2:
		matched[at], matched[at+1] = true, true
	case 3:
		matched = c11randomSubset(c.R, n)
		matched[at+c.R.Intn(2)] = true
	case 4:
		for j := range matched {
			matched[j] = true
		}
	default:
		matched = c11randomSubset(c.R, n)
	}
	if p.word >= 8 {
		c.Inc("sibling_txids_agree_in_64_bits:" + c11pairs64[p.word-8].What)
	} else {
		c.Inc(fmt.Sprintf("sibling_txids_agree_in_word_%d", p.word))
	}
	c11runTxnSet(c, blk, matched, c.R.Intn(4), c.R)
}

func init() {
	register(&vf.Property{
		ID:    "C11",
		Title: "Built merkle-block proofs verify and reveal exactly the chosen transactions",
		Rule: "blocks of n distinct transactions whose header carries the reference merkle root. stream exhaustive: n=1..12 x all 2^n subsets via NewMerkleBlockWithTxnSet; " +
			"stream shapes: every n<=65 x {empty, full, 2 alternating, each singleton, each right-edge run, each left-edge run, each all-but-one, seeded}; " +
			"stream random: seeded n<=3000 (uniform, around powers of two, odd) x 7 subset densities, hash set given in block/reversed/shuffled/shuffled-with-duplicates order; " +
			"stream filters: subsets induced by a bloom filter loaded with txids, pushed data and outpoints (update flags none/all/p2pubkey-only, blocks with scripts and in-block spends, also out of topological order) via bloom.NewMerkleBlock and merkleblock.NewMerkleBlockWithFilter on two identically constructed filters. " +
			"stream near-colliding-siblings: blocks in which two sibling transactions have different ids that agree in one aligned 32-bit word (each of the 8 words; pairs found by a birthday search over 2^18 lock times per run) or in 64 bits (each aligned 64-bit word and the XOR of the four; five pairs precomputed by cmd/collide64 with 2^32.5 hashes each and re-verified on every run). " +
			"Each message is compared field by field with the reference BIP37 builder and then extracted (one PartialBlock per extraction). Distinct non-trivial case = (block, subset).",
		Assumptions: []string{
			"reference merkle root / BIP37 partial-merkle-tree builder and extractor written from the BIP text (self-tested on hand-derived trees, round trips and two gettxoutproof vectors on every run)",
			"wire.MsgTx.Serialize defines the transaction serialisation; txid = sha256d of it (crypto/sha256)",
			"a hash set given as a slice denotes the set of its elements (order and repetitions are immaterial)",
			"for filter-induced subsets the chosen subset is the one the builder reports (which transactions a filter selects is C09/C10); the two builders get two identically constructed filter objects because matching updates the filter",
		},
		SelfTest: ref.SelfTestMerkle,
		Streams: []*vf.Stream{
			{Name: "exhaustive", Exhaustive: true, N: func(vf.Tier) int { return 1<<(c11exhMaxN+1) - 2 }, Run: c11exhaustive},
			{Name: "shapes", N: func(t vf.Tier) int {
				s := 0
				for n := 1; n <= c11shapeMaxN; n++ {
					s += c11shapePerN(n, t)
				}
				return s
			}, Run: c11shapes},
			{Name: "random", Shards: 8, N: func(t vf.Tier) int { return t.Sz(6000, 60000) }, Run: c11random}, // shards: bchd/wire serialises through one process-wide free list
			{Name: "filters", Shards: 8, N: func(t vf.Tier) int { return t.Sz(20000, 250000) }, Run: c11filters},
			{Name: "near-colliding-siblings", Init: c11nearInit, N: func(t vf.Tier) int { return t.Sz(3000, 40000) }, Run: c11near},
		},
	})
}
