package props

import (
	"fmt"
	"github.com/gcash/bchd/chaincfg"
	"math/big"
	"reflect"
	"strings"
	"sync"
	"sync/atomic"

	"github.com/gcash/bchutil"

	"verif/internal/ref"
	"verif/internal/vf"
)

// C02 - address decoding is strict, canonical and network-separating.
//
// The oracle is the canonical-form rule, deliberately not an acceptance list:
// whatever DecodeAddress accepts must re-encode to the accepted string modulo
// ASCII case folding and one optional leading prefix of the requested network
// (cash / SLP strings), exactly (legacy strings), modulo hex case (public-key
// hex).  Added to it are the clauses the statement spells out and that can be
// decided from the accepted string alone with the reference implementations:
// the checksum of an accepted cash string is valid for the prefix it shows (or,
// when bare, for one of the requested network's prefixes), an accepted legacy
// string is valid Base58Check, and the membership clauses.  Rejecting is never
// a violation here (that is C01's business); rejections are only counted.

// ---------------------------------------------------------------------------
// classification by the reference (never by the code under test)

// c02payloadClass names the class of a 5-bit payload (without checksum).
func c02payloadClass(sym []byte) string {
	data, err := ref.Unpack5to8(sym)
	if err != nil {
		return "bad-padding"
	}
	if len(data) == 0 {
		return "empty"
	}
	ver, n := data[0], len(data)-1
	switch {
	case (ver == 0x00 || ver == 0x08) && n == 20, ver == 0x0b && n == 32:
		return "valid"
	case n == 20 || n == 32:
		return "unknown-version"
	}
	return "wrong-length"
}

func c02symbolsOf(body string) ([]byte, bool) {
	out := make([]byte, len(body))
	for i := 0; i < len(body); i++ {
		k := strings.IndexByte(ref.CashCharset, body[i])
		if k < 0 {
			return nil, false
		}
		out[i] = byte(k)
	}
	return out, true
}

// c02checksumOK: body (lower case, no prefix) carries a valid CashAddr
// checksum for prefix.
func c02checksumOK(prefix, body string) bool {
	sym, ok := c02symbolsOf(body)
	if !ok || len(sym) < 8 {
		return false
	}
	return ref.CashPolymod(append(ref.CashPrefixExpand(prefix), sym...)) == 0
}

// c02mixed flips the case of the ASCII letters of s at random so that both
// cases occur; ok is false when s has fewer than two letters.
func c02mixed(r *vf.Rand, s string) (string, bool) {
	b := []byte(s)
	var letters []int
	for i, ch := range b {
		if (ch >= 'a' && ch <= 'z') || (ch >= 'A' && ch <= 'Z') {
			letters = append(letters, i)
		}
	}
	if len(letters) < 2 {
		return s, false
	}
	for _, i := range letters {
		if r.Bool() {
			b[i] ^= 0x20
		}
	}
	// force both cases on two random distinct letters
	x := r.Intn(len(letters))
	y := (x + 1 + r.Intn(len(letters)-1)) % len(letters)
	b[letters[x]] |= 0x20
	b[letters[y]] &^= 0x20
	return string(b), true
}

func c02stripPrefix(ls string, net netInfo) (shown, body string) {
	cash, slp := net.P.CashAddressPrefix, net.P.SlpAddressPrefix
	if strings.HasPrefix(ls, cash+":") {
		return cash, ls[len(cash)+1:]
	}
	if slp != "" && strings.HasPrefix(ls, slp+":") {
		return slp, ls[len(slp)+1:]
	}
	return "", ls
}

// ---------------------------------------------------------------------------
// the oracle

// c02verify decodes s on net and applies the canonical-form rule and the
// membership clauses.  keyClass goes into violation keys, ctr into counters.
func c02verify(c *vf.Ctx, keyClass, ctr, rendering, s string, net netInfo) bool {
	var a bchutil.Address
	var err error
	in := func() string {
		return fmt.Sprintf("%q (hex %x) net=%s class=%s rendering=%s", s, s, net.Name, ctr, rendering)
	}
	if !c.Call("DecodeAddress", in, func() { a, err = bchutil.DecodeAddress(s, net.P) }) {
		return false
	}
	c.Evals(1)
	if err != nil {
		c.Inc("reject/" + ctr)
		return false
	}
	if a == nil || (reflect.ValueOf(a).Kind() == reflect.Ptr && reflect.ValueOf(a).IsNil()) {
		c.Inconclusive("accepted-with-nil-address")
		return false
	}
	c.Inc("accept/" + ctr)
	c.Inc("accept-rendering/" + rendering)
	var enc, str string
	if !c.Call("EncodeAddress", in, func() { enc = a.EncodeAddress(); str = a.String() }) {
		return true
	}
	key := "DecodeAddress/" + keyClass
	ls := asciiLower(s)
	switch a.(type) {
	case *bchutil.AddressPubKeyHash, *bchutil.AddressScriptHash, *bchutil.AddressScriptHash32:
		c.Inc("accepted-as/cashaddr")
		shownS, bodyS := c02stripPrefix(ls, net)
		shownE, bodyE := c02stripPrefix(asciiLower(enc), net)
		if bodyS != bodyE || (shownS != "" && shownE != "" && shownS != shownE) {
			c.Failf(key+"/reencode", "DecodeAddress(%s) accepted as %T but re-encodes to %q: not the accepted string modulo ASCII case and one leading %q / %q prefix",
				in(), a, enc, net.P.CashAddressPrefix+":", net.P.SlpAddressPrefix+":")
			return true
		}
		shown := shownS
		if shown == "" {
			shown = shownE
		}
		okCash := c02checksumOK(net.P.CashAddressPrefix, bodyS)
		okSlp := net.P.SlpAddressPrefix != "" && c02checksumOK(net.P.SlpAddressPrefix, bodyS)
		switch {
		case shown == net.P.CashAddressPrefix && !okCash, shown != "" && shown == net.P.SlpAddressPrefix && !okSlp, shown == "" && !okCash && !okSlp:
			c.Failf(key+"/checksum", "DecodeAddress(%s) accepted as %T (re-encodes to %q) although the CashAddr checksum is valid neither for the prefix shown (%q) nor, when bare, for a prefix of the requested network (valid for cash prefix: %v, for SLP prefix: %v)",
				in(), a, enc, shown, okCash, okSlp)
			return true
		}
		// membership: a cash-format (non-SLP) address belongs to the requested net
		isCash := shown == net.P.CashAddressPrefix || (shown == "" && okCash && !okSlp)
		if shown == "" && okCash && okSlp {
			c.Inconclusive("checksum-valid-for-cash-and-slp-prefix")
		}
		if isCash {
			var forNet bool
			if c.Call("IsForNet", in, func() { forNet = a.IsForNet(net.P) }) && !forNet {
				c.Failf("DecodeAddress/cash/isfornet", "DecodeAddress(%s) accepted the cash-format address %q but IsForNet(%s) is false", in(), enc, net.Name)
			}
			c.Inc("membership-checked/cash")
		} else {
			c.Inc("accepted-slp")
		}
	case *bchutil.LegacyAddressPubKeyHash, *bchutil.LegacyAddressScriptHash:
		c.Inc("accepted-as/legacy")
		if enc != s {
			c.Failf(key+"/reencode", "DecodeAddress(%s) accepted as %T but re-encodes to %q, not to the accepted string", in(), a, enc)
			return true
		}
		ver, payload, ok := ref.B58CheckDecode(s)
		if !ok {
			c.Failf(key+"/checksum", "DecodeAddress(%s) accepted as %T although the string is not valid Base58Check", in(), a)
			return true
		}
		_, isPKH := a.(*bchutil.LegacyAddressPubKeyHash)
		for _, m := range allNets {
			want := (isPKH && m.P.LegacyPubKeyHashAddrID == ver) || (!isPKH && m.P.LegacyScriptHashAddrID == ver)
			var got bool
			if !c.Call("IsForNet", in, func() { got = a.IsForNet(m.P) }) {
				continue
			}
			if got != want {
				c.Failf("DecodeAddress/legacy/isfornet", "DecodeAddress(%s) = %T with version byte 0x%02x payload %x: IsForNet(%s)=%v, want %v (P2PKH id 0x%02x, P2SH id 0x%02x)",
					in(), a, ver, payload, m.Name, got, want, m.P.LegacyPubKeyHashAddrID, m.P.LegacyScriptHashAddrID)
			}
		}
		c.Inc("membership-checked/legacy")
	case *bchutil.AddressPubKey:
		c.Inc("accepted-as/pubkey")
		if str != ls {
			c.Failf(key+"/reencode", "DecodeAddress(%s) accepted as %T but String() is %q, not the accepted hex string modulo hex case", in(), a, str)
		}
	default:
		c.Inconclusive(fmt.Sprintf("accepted-as-unknown-type-%T", a))
	}
	return true
}

// c02verifyCash applies the DecodeCashAddress clause: on success the returned
// (prefix, 5-bit data) re-encode with the reference checksum to lower(s).
// The caller guarantees s has at least 8 symbols after the separator (shorter
// inputs belong to C08).
func c02verifyCash(c *vf.Ctx, ctr, s string) {
	var prefix string
	var data []byte
	var err error
	in := func() string { return fmt.Sprintf("%q (hex %x) class=%s", s, s, ctr) }
	if !c.Call("DecodeCashAddress", in, func() { prefix, data, err = bchutil.DecodeCashAddress(s) }) {
		return
	}
	c.Evals(1)
	if err != nil {
		c.Inc("dca-reject/" + ctr)
		return
	}
	c.Inc("dca-accept/" + ctr)
	for _, d := range data {
		if d > 31 {
			c.Failf("DecodeCashAddress/symbol-range", "DecodeCashAddress(%s) returned prefix %q data %x with a value above 31", in(), prefix, data)
			return
		}
	}
	re := prefix + ":" + ref.CashEncodeSymbols(prefix, data)
	ls := asciiLower(s)
	if re != ls && !(prefix == "" && re[1:] == ls) {
		c.Failf("DecodeCashAddress/reencode", "DecodeCashAddress(%s) returned prefix %q data %x which re-encode (reference checksum) to %q, not to the lower-cased input", in(), prefix, data, re)
	}
}

// ---------------------------------------------------------------------------
// stream "cash": valid-checksum generator over arbitrary symbol lists

const c02cashEnum = 256 * 66 // version byte x payload length 0..65

var c02unknownPrefixes = []string{"bch", "bitcoincashx", "x", "bitcoincas", "simpleledgers", "ecash", "etoken", "bchtestx", "q", "prefix"}

// every known prefix of the six nets
var c02knownPrefixes = []string{"bitcoincash", "simpleledger", "bchtest", "slptest", "bchreg", "slpreg", "bchsim"}

type c02list struct {
	sym []byte
	tag string
}

func c02nets(c *vf.Ctx, i int) []netInfo {
	if c.Tier == vf.Thorough {
		return allNets
	}
	// testnet3 / testnet4 / chipnet carry identical address parameters:
	// rotate through them, always run mainnet, regtest, simnet.
	return []netInfo{allNets[0], allNets[1+i%3], allNets[4], allNets[5]}
}

// c02cashRun generates the renderings of one (symbol list, checksum prefix)
// on one net.  full selects the large rendering set.
func c02cashRun(c *vf.Ctx, l c02list, cp string, net netInfo, full bool) {
	pc := c02payloadClass(l.sym)
	cash, slp := net.P.CashAddressPrefix, net.P.SlpAddressPrefix
	cls, keyClass := pc, pc
	switch {
	case cp == cash:
	case cp == slp && slp != "":
		cls = pc + "-slp"
	default:
		cls, keyClass = "foreign-prefix/"+pc, "foreign-prefix"
	}
	body := ref.CashEncodeSymbols(cp, l.sym)
	pre := cp + ":" + body
	own := cp == cash || (cp == slp && slp != "")
	// passesChecksum: by construction the string gets past the checksum stage
	// of the requested net (only those count as non-trivial cases).
	run := func(rendering, s string, passesChecksum bool) {
		kc, ct := keyClass, cls
		if rendering == "prefix-swap" {
			kc, ct = "prefix-swap", "prefix-swap/"+pc
		}
		if passesChecksum {
			c.Nontrivial(vf.Mix(vf.HashString(s), vf.HashString(net.Name)))
		}
		c02verify(c, kc, ct, rendering, s, net)
	}
	run("bare-lower", body, own)
	run("prefixed-lower", pre, own)
	run("prefixed-upper", asciiUpper(pre), own)
	c02verifyCash(c, "prefixed-lower", pre)
	c02verifyCash(c, "prefixed-upper", asciiUpper(pre))
	if !full {
		return
	}
	run("bare-upper", asciiUpper(body), own)
	if m, ok := c02mixed(c.R, body); ok {
		run("bare-mixed", m, own)
		c02verifyCash(c, "bare", m)
	}
	c02verifyCash(c, "bare", body)
	up := asciiUpper(cp) + ":" + body
	run("prefixed-mixed", up, own)
	c02verifyCash(c, "prefixed-mixed", up)
	if cp != "" {
		pu := cp + ":" + asciiUpper(body)
		run("prefixed-mixed", pu, own)
		c02verifyCash(c, "prefixed-mixed", pu)
	}
	if m, ok := c02mixed(c.R, pre); ok {
		run("prefixed-mixed", m, own)
		c02verifyCash(c, "prefixed-mixed", m)
	}
	// one symbol changed: bad checksum by construction (the code detects every
	// single-symbol error, so this never validates)
	if own && len(body) > 0 {
		b := []byte(body)
		k := c.R.Intn(len(b))
		b[k] = ref.CashCharset[(strings.IndexByte(ref.CashCharset, b[k])+1+c.R.Intn(31))%32]
		bad := string(b)
		if !c02checksumOK(cp, bad) {
			c02verify(c, "bad-checksum", "bad-checksum", "bare-lower", bad, net)
			c02verify(c, "bad-checksum", "bad-checksum", "prefixed-lower", cp+":"+bad, net)
			c02verify(c, "bad-checksum", "bad-checksum", "prefixed-upper", asciiUpper(cp+":"+bad), net)
			c02verifyCash(c, "bad-checksum", cp+":"+bad)
		}
	}
	// the checksum was computed for cp but another prefix is shown
	var shown []string
	if cp == cash && slp != "" {
		shown = append(shown, slp)
	}
	if cp == slp && slp != "" {
		shown = append(shown, cash)
	}
	if own {
		for k := 0; k < 2; k++ {
			p := c02knownPrefixes[c.R.Intn(len(c02knownPrefixes))]
			if p != cash && p != slp {
				shown = append(shown, p)
			}
		}
	} else {
		shown = append(shown, cash)
		if slp != "" {
			shown = append(shown, slp)
		}
	}
	for _, p := range shown {
		if p == cp {
			continue
		}
		s := p + ":" + body
		// passes the checksum stage only by a 2^-40 accident; decide with the reference
		run("prefix-swap", s, (p == cash || (p == slp && slp != "")) && c02checksumOK(p, body))
		c02verifyCash(c, "prefix-swap", s)
	}
}

func c02cashLists(c *vf.Ctx, i int) (lists []c02list, desc string) {
	thorough := c.Tier == vf.Thorough
	reps := c.Tier.Sz(1, 4)
	if i < c02cashEnum*reps {
		idx := i % c02cashEnum
		ver, n := byte(idx/66), idx%66
		payload := c.R.Bytes(n)
		switch (i / c02cashEnum) % 3 {
		case 1:
			if n > 0 {
				payload[n-1] = 0 // trailing zero bits next to the padding
			}
		case 2:
			if n > 0 {
				payload[n-1] = 0xff
			}
		}
		data := append([]byte{ver}, payload...)
		s0 := ref.Pack8to5(data)
		lists = append(lists, c02list{s0, "zero-pad"})
		pad := uint(len(s0)*5 - len(data)*8)
		if pad > 0 {
			if thorough {
				for v := 1; v < 1<<pad; v++ {
					s := append([]byte{}, s0...)
					s[len(s)-1] |= byte(v)
					lists = append(lists, c02list{s, "nonzero-pad"})
				}
			} else {
				s := append([]byte{}, s0...)
				s[len(s)-1] |= byte(1 + c.R.Intn(1<<pad-1))
				lists = append(lists, c02list{s, "nonzero-pad"})
			}
		}
		lists = append(lists, c02list{append(append([]byte{}, s0...), 0), "extra-zero-symbol"})
		if thorough {
			lists = append(lists, c02list{append(append([]byte{}, s0...), byte(1+c.R.Intn(31))), "extra-symbol"})
		}
		return lists, fmt.Sprintf("version=0x%02x payload=%x", ver, payload)
	}
	// random tail
	r := c.R
	randSyms := func(n int) []byte {
		s := r.Bytes(n)
		for k := range s {
			s[k] &= 31
		}
		return s
	}
	switch r.Intn(4) {
	case 0: // arbitrary symbol list, any length
		n := r.Intn(113)
		return []c02list{{randSyms(n), "random-symbols"}}, "random symbols"
	case 1: // arbitrary symbols of exactly the length of a 21- or 33-byte payload
		n := []int{34, 53, 33, 35, 52, 54}[r.Intn(6)]
		return []c02list{{randSyms(n), "random-symbols-addr-length"}}, "random symbols, address length"
	case 2: // valid version / length
		k := [][2]int{{0x00, 20}, {0x08, 20}, {0x0b, 32}}[r.Intn(3)]
		h := randHash(r, k[1])
		return []c02list{{ref.Pack8to5(append([]byte{byte(k[0])}, h...)), "valid"}}, fmt.Sprintf("version=0x%02x payload=%x", k[0], h)
	default: // supported version byte with a neighbouring / swapped length
		ver := []byte{0x00, 0x08, 0x0b}[r.Intn(3)]
		n := []int{19, 21, 31, 33, 20, 32, 24, 28}[r.Intn(8)]
		h := r.Bytes(n)
		return []c02list{{ref.Pack8to5(append([]byte{ver}, h...)), "near-valid"}}, fmt.Sprintf("version=0x%02x payload=%x", ver, h)
	}
}

func c02cashCase(c *vf.Ctx, i int) {
	lists, desc := c02cashLists(c, i)
	thorough := c.Tier == vf.Thorough
	for li, l := range lists {
		c.Inc("lists/" + l.tag)
		c.Inc("payload-class/" + c02payloadClass(l.sym))
		full := li == 0
		for ni, net := range c02nets(c, i) {
			cash, slp := net.P.CashAddressPrefix, net.P.SlpAddressPrefix
			c02cashRun(c, l, cash, net, full)
			if slp != "" {
				c02cashRun(c, l, slp, net, full)
			}
			// other networks' prefixes
			var foreign []string
			for _, p := range c02knownPrefixes {
				if p != cash && p != slp {
					foreign = append(foreign, p)
				}
			}
			if thorough && full {
				for _, p := range foreign {
					c02cashRun(c, l, p, net, false)
				}
			} else {
				c02cashRun(c, l, foreign[(i+ni+li)%len(foreign)], net, false)
			}
			// unknown prefixes and (rarely) the empty prefix
			c02cashRun(c, l, c02unknownPrefixes[(i+ni+li)%len(c02unknownPrefixes)], net, full && thorough)
			if (i+ni)%8 == 0 && full {
				c02cashRun(c, l, "", net, false)
			}
		}
	}
	if c.WantSample() {
		l := lists[0]
		c.Sample(map[string]string{"case": desc, "class": c02payloadClass(l.sym),
			"mainnet_bare": ref.CashEncodeSymbols("bitcoincash", l.sym), "symbols": hx(l.sym)})
	}
}

// ---------------------------------------------------------------------------
// stream "confusables": non-ASCII case-fold confusables and decorations in
// otherwise valid strings

type c02confusable struct {
	ascii byte
	repl  string
	name  string
}

var c02confusables = []c02confusable{
	{'k', "\u212a", "U+212A"}, // KELVIN SIGN, unicode.ToLower -> 'k'
	{'s', "\u017f", "U+017F"}, // LATIN SMALL LETTER LONG S, folds to 's'
	{'i', "\u0130", "U+0130"}, // LATIN CAPITAL LETTER I WITH DOT ABOVE, unicode.ToLower -> 'i'
	{'i', "\u0131", "U+0131"}, // LATIN SMALL LETTER DOTLESS I, unicode.ToUpper -> 'I'
	{'q', "\uff51", "U+FF51"}, // FULLWIDTH q
	{'p', "\uff50", "U+FF50"}, // FULLWIDTH p
	{'a', "\u0430", "U+0430"}, // CYRILLIC a
	{'e', "\u0435", "U+0435"}, // CYRILLIC e
	{'c', "\u0441", "U+0441"}, // CYRILLIC es
	{'k', "\u041a", "U+041A"}, // CYRILLIC CAPITAL KA
	{'k', "\u039a", "U+039A"}, // GREEK CAPITAL KAPPA
	{'l', "\u2113", "U+2113"}, // SCRIPT SMALL L
}

// c02substitute replaces occurrences of the ASCII letter (either case) by
// repl: mode 0 first, 1 all, 2 one at random, 3 last.
func c02substitute(r *vf.Rand, s string, ascii byte, repl string, mode int) (string, bool) {
	var pos []int
	for i := 0; i < len(s); i++ {
		if s[i]|0x20 == ascii && ((s[i] >= 'a' && s[i] <= 'z') || (s[i] >= 'A' && s[i] <= 'Z')) {
			pos = append(pos, i)
		}
	}
	if len(pos) == 0 {
		return s, false
	}
	sel := map[int]bool{}
	switch mode {
	case 0:
		sel[pos[0]] = true
	case 1:
		for _, p := range pos {
			sel[p] = true
		}
	case 2:
		sel[pos[r.Intn(len(pos))]] = true
	default:
		sel[pos[len(pos)-1]] = true
	}
	var sb strings.Builder
	for i := 0; i < len(s); i++ {
		if sel[i] {
			sb.WriteString(repl)
		} else {
			sb.WriteByte(s[i])
		}
	}
	return sb.String(), true
}

func c02confusableCase(c *vf.Ctx, i int) {
	r := c.R
	net := allNets[i%len(allNets)]
	kind := [][2]int{{0x00, 20}, {0x08, 20}, {0x0b, 32}}[(i/6)%3]
	prefix := net.P.CashAddressPrefix
	if (i/18)%2 == 1 && net.P.SlpAddressPrefix != "" {
		prefix = net.P.SlpAddressPrefix
	}
	cf := c02confusables[(i/36)%len(c02confusables)]
	// draw payloads until the body contains the letter to substitute
	var body string
	var h []byte
	for try := 0; try < 64; try++ {
		h = randHash(r, kind[1])
		body = ref.CashEncodeSymbols(prefix, ref.Pack8to5(append([]byte{byte(kind[0])}, h...)))
		if strings.IndexByte(body, cf.ascii) >= 0 || strings.IndexByte(ref.CashCharset, cf.ascii) < 0 {
			break
		}
	}
	c.Nontrivial(vf.Mix(vf.HashString(body), vf.HashString(net.Name), vf.HashString(cf.name)))
	pre := prefix + ":" + body
	forms := []struct{ name, s string }{
		{"bare-lower", body}, {"bare-upper", asciiUpper(body)},
		{"prefixed-lower", pre}, {"prefixed-upper", asciiUpper(pre)},
	}
	if m, ok := c02mixed(r, body); ok {
		forms = append(forms, struct{ name, s string }{"bare-mixed", m})
	}
	for _, f := range forms {
		for mode := 0; mode < 4; mode++ {
			s, ok := c02substitute(r, f.s, cf.ascii, cf.repl, mode)
			if !ok {
				c.Inc("confusable-letter-absent/" + cf.name)
				break
			}
			c.Inc("confusable-strings/" + cf.name)
			c02verify(c, "confusable", "confusable/"+cf.name, f.name, s, net)
			if strings.IndexByte(s, ':') > 0 {
				c02verifyCash(c, "confusable/"+cf.name, s)
			}
		}
		// decorations that are not documented normalisations
		if i%4 == 0 {
			for _, d := range []struct{ name, s string }{
				{"trailing-space", f.s + " "}, {"leading-space", " " + f.s}, {"trailing-newline", f.s + "\n"},
				{"trailing-nul", f.s + "\x00"}, {"trailing-0x80", f.s + "\x80"}, {"leading-bom", "\ufeff" + f.s},
				{"double-prefix", prefix + ":" + pre}, {"leading-separator", ":" + f.s}, {"trailing-separator", f.s + ":"},
			} {
				c02verify(c, "decorated", "decorated/"+d.name, f.name, d.s, net)
			}
		}
	}
	if c.WantSample() {
		s, _ := c02substitute(r, body, cf.ascii, cf.repl, 0)
		c.Sample(map[string]string{"net": net.Name, "valid": body, "confusable": cf.name, "substituted": s, "substituted_hex": hx([]byte(s))})
	}
}

// ---------------------------------------------------------------------------
// stream "bit-alias": one character of a valid string replaced by a byte that
// differs from it only in bits 5..7 (what masking tricks such as c|0x20 or
// c&0x1f conflate: control bytes for digits, '@'..'_' for letters, high
// bytes), and by arbitrary byte values.

func c02bitAliasCase(c *vf.Ctx, i int) {
	r := c.R
	net := allNets[i%len(allNets)]
	var valid []struct{ name, s string }
	switch (i / 6) % 4 {
	case 0, 1:
		kind := [][2]int{{0x00, 20}, {0x08, 20}, {0x0b, 32}}[(i/24)%3]
		prefix := net.P.CashAddressPrefix
		if (i/72)%2 == 1 && net.P.SlpAddressPrefix != "" {
			prefix = net.P.SlpAddressPrefix
		}
		body := ref.CashEncodeSymbols(prefix, ref.Pack8to5(append([]byte{byte(kind[0])}, randHash(r, kind[1])...)))
		valid = append(valid, struct{ name, s string }{"bare-lower", body}, struct{ name, s string }{"bare-upper", asciiUpper(body)},
			struct{ name, s string }{"prefixed-lower", prefix + ":" + body}, struct{ name, s string }{"prefixed-upper", asciiUpper(prefix + ":" + body)})
	case 2:
		ver := net.P.LegacyPubKeyHashAddrID
		if r.Bool() {
			ver = net.P.LegacyScriptHashAddrID
		}
		valid = append(valid, struct{ name, s string }{"legacy", ref.B58CheckEncode(ver, randHash(r, 20))})
	default:
		k := new(big.Int).SetBytes(r.Bytes(32))
		k.Mod(k, new(big.Int).Sub(ref.SecN, big.NewInt(1)))
		k.Add(k, big.NewInt(1))
		pt := ref.BaseMul(k)
		valid = append(valid, struct{ name, s string }{"pubkey-hex-compressed", hx(pt.Compressed())}, struct{ name, s string }{"pubkey-hex-uncompressed", asciiUpper(hx(pt.Uncompressed()))})
	}
	for _, f := range valid {
		c.Nontrivial(vf.Mix(0xa11a5, vf.HashString(f.s), vf.HashString(net.Name)))
		b := []byte(f.s)
		for p := range b {
			orig := b[p]
			for _, mask := range []byte{0x20, 0x40, 0x60, 0x80, 0xa0, 0xc0, 0xe0, 0x10} {
				b[p] = orig ^ mask
				c.Inc("bit-alias-strings")
				c02verify(c, "bit-alias", fmt.Sprintf("bit-alias/xor-%02x", mask), f.name, string(b), net)
			}
			b[p] = orig
		}
		// a multi-byte rune whose code point's low byte is the replaced character
		// (what a decoder that ranges over runes and truncates them would conflate)
		for k := 0; k < 12; k++ {
			p := r.Intn(len(b))
			cp := rune(1+r.Intn(0x10ff))<<8 | rune(b[p])
			if cp >= 0xd800 && cp <= 0xdfff {
				continue
			}
			c.Inc("bit-alias-strings")
			c02verify(c, "bit-alias", "bit-alias/rune-low-byte", f.name, string(b[:p])+string(cp)+string(b[p+1:]), net)
		}
		for k := 0; k < 24; k++ {
			p := r.Intn(len(b))
			orig := b[p]
			b[p] = byte(r.Intn(256))
			if b[p] != orig {
				c02verify(c, "bit-alias", "bit-alias/any-byte", f.name, string(b), net)
			}
			b[p] = orig
		}
	}
	if c.WantSample() {
		c.Sample(map[string]string{"net": net.Name, "valid": valid[0].s, "example": fmt.Sprintf("%q", valid[0].s[:3]+string([]byte{valid[0].s[3] ^ 0x20})+valid[0].s[4:])})
	}
}

// ---------------------------------------------------------------------------
// stream "compensated": strings that are only valid if the decoder makes a
// specific mistake, with the checksum computed to compensate for it:
// (a) a character outside the alphabet at payload position j, checksum
// computed as if that character decoded to symbol value w (255 = byte(-1), 0,
// 31, the character's low five bits); (b) caller-defined networks with long
// prefixes, checksum computed over a truncated prefix.

func c02compensatedCase(c *vf.Ctx, i int) {
	r := c.R
	kind := [][2]int{{0x00, 20}, {0x08, 20}, {0x0b, 32}}[i%3]
	sym := ref.Pack8to5(append([]byte{byte(kind[0])}, randHash(r, kind[1])...))
	if i%2 == 0 {
		net := allNets[(i/6)%len(allNets)]
		prefix := net.P.CashAddressPrefix
		for k := 0; k < 6; k++ {
			j := r.Intn(len(sym))
			foreign := "bio1BIO"[r.Intn(7)]
			if r.Bool() {
				// any other ASCII byte outside the alphabet (control characters,
				// punctuation, space, DEL), as one wrong entry of a decoding table
				// would admit it
				for {
					foreign = byte(r.Intn(128))
					if foreign != ':' && !strings.ContainsRune(ref.CashCharset, rune(foreign|0x20)) && !strings.ContainsRune(ref.CashCharset, rune(foreign)) {
						break
					}
				}
			}
			for _, w := range []byte{255, 254, 253, 0, 1, 31, foreign & 31, foreign, byte(r.Intn(256))} {
				mod := append([]byte{}, sym...)
				mod[j] = w
				ck := ref.CashChecksum(prefix, mod)
				var sb strings.Builder
				for x, v := range mod {
					if x == j {
						sb.WriteByte(foreign)
					} else {
						sb.WriteByte(ref.CashCharset[v&31])
					}
				}
				for _, v := range ck {
					sb.WriteByte(ref.CashCharset[v])
				}
				body := sb.String()
				if foreign >= 'A' && foreign <= 'Z' {
					body = asciiUpper(body)
				}
				c.Inc("compensated/foreign-character-strings")
				c02verify(c, "compensated-foreign", fmt.Sprintf("compensated/foreign-as-%d", w), "bare", body, net)
				c02verify(c, "compensated-foreign", fmt.Sprintf("compensated/foreign-as-%d", w), "prefixed", prefix+":"+body, net)
			}
		}
		c.Nontrivial(vf.Mix(0xc0a, uint64(i), vf.HashBytes(sym)))
		return
	}
	if i%5 == 2 {
		// (c) separator games: the checksum is computed over a VARIANT of the
		// prefix shown (with a leading or trailing ':', empty, doubled), on
		// the built-in nets and on nets without / with an odd SLP prefix
		shown := append(append([]string{}, c02knownPrefixes...), c02unknownPrefixes...)[r.Intn(len(c02knownPrefixes)+len(c02unknownPrefixes))]
		nets := append([]netInfo{}, allNets...)
		nets = append(nets,
			netInfo{"custom-no-slp", &chaincfg.Params{CashAddressPrefix: shown}},
			netInfo{"custom-no-slp-other", &chaincfg.Params{CashAddressPrefix: "bchcustom"}},
			netInfo{"custom-slp-is-colon-prefix", &chaincfg.Params{CashAddressPrefix: "bchcustom", SlpAddressPrefix: ":" + shown}})
		for _, over := range []string{":" + shown, shown + ":", "", shown + ":" + shown, ":", "bchsim:" + shown, ":bchsim", shown} {
			body := ref.CashEncodeSymbols(over, sym)
			for _, str := range []string{shown + ":" + body, ":" + shown + ":" + body, shown + "::" + body, ":" + body, body, asciiUpper(shown + ":" + body)} {
				for _, net := range nets {
					if over == shown && (net.P.CashAddressPrefix == shown || net.P.SlpAddressPrefix == shown) && (str == shown+":"+body || str == body || str == asciiUpper(shown+":"+body)) {
						continue // the honest string: covered by the other streams
					}
					c.Inc("compensated/checksum-over-prefix-variant")
					c02verify(c, "prefix-variant", "prefix-variant", "prefixed", str, net)
				}
				if len(sym) >= 8 {
					c02verifyCash(c, "prefix-variant", str)
				}
			}
		}
		c.Nontrivial(vf.Mix(0xc0c, vf.HashString(shown), vf.HashBytes(sym)))
		return
	}
	// (b) long prefixes
	plen := []int{31, 32, 33, 34, 40, 64, 83}[(i/2)%7]
	pb := make([]byte, plen)
	for k := range pb {
		pb[k] = byte('a' + r.Intn(26))
	}
	prefix := string(pb)
	net := netInfo{fmt.Sprintf("custom-prefix-%d", plen), &chaincfg.Params{CashAddressPrefix: prefix, SlpAddressPrefix: "slp" + prefix[:plen-3]}}
	good := ref.CashEncodeSymbols(prefix, sym)
	c.Inc("compensated/long-prefix-nets")
	c.Nontrivial(vf.Mix(0xc0b, vf.HashString(prefix), vf.HashBytes(sym)))
	c02verify(c, "long-prefix", "long-prefix/valid", "bare", good, net)
	c02verify(c, "long-prefix", "long-prefix/valid", "prefixed", prefix+":"+good, net)
	for _, cut := range []int{32, 31, 16, plen - 1, 8} {
		if cut >= plen || cut < 1 {
			continue
		}
		bad := ref.CashEncodeSymbols(prefix[:cut], sym)
		c02verify(c, "long-prefix", fmt.Sprintf("long-prefix/checksum-over-first-%d-letters", cut), "bare", bad, net)
		c02verify(c, "long-prefix", fmt.Sprintf("long-prefix/checksum-over-first-%d-letters", cut), "prefixed", prefix+":"+bad, net)
		c02verifyCash(c, "long-prefix/truncated-checksum", prefix+":"+bad)
	}
}

// ---------------------------------------------------------------------------
// stream "cross-prefix-concurrent": the strictness clauses while other
// goroutines decode.  A payload P is valid under prefix X only; background
// goroutines alternate valid decodes of X:P and of some Y:R; the foreground
// keeps probing Y:P (checksum of X under prefix Y) and X:R, which must never
// be accepted - whatever a decoder remembers about the last string it
// verified, in whatever order another goroutine updates that memory.

func c02concurrentCase(c *vf.Ctx, i int) {
	r := c.R
	net := []netInfo{allNets[0], allNets[1], allNets[4]}[i%3] // mainnet, testnet3, regtest: nets with an SLP prefix
	X, Y := net.P.CashAddressPrefix, net.P.SlpAddressPrefix
	if i%2 == 1 {
		X, Y = Y, X
	}
	kind := [][2]int{{0x00, 20}, {0x08, 20}, {0x0b, 32}}[(i/6)%3]
	symP := ref.Pack8to5(append([]byte{byte(kind[0])}, randHash(r, kind[1])...))
	symR := ref.Pack8to5(append([]byte{byte(kind[0])}, randHash(r, kind[1])...))
	bodyPx, bodyRy := ref.CashEncodeSymbols(X, symP), ref.CashEncodeSymbols(Y, symR)
	validA, validB := X+":"+bodyPx, Y+":"+bodyRy
	probes := []string{Y + ":" + bodyPx, X + ":" + bodyRy}
	if c02checksumOK(Y, bodyPx) || c02checksumOK(X, bodyRy) {
		c.Inconclusive("payload-valid-under-both-prefixes")
		return
	}
	var stop atomic.Bool
	var wg sync.WaitGroup
	var bgErr atomic.Int64
	for g := 0; g < 2; g++ {
		wg.Add(1)
		go func(g int) {
			defer wg.Done()
			defer func() { recover() }() // panics belong to C08
			for k := 0; !stop.Load(); k++ {
				s := validA
				if (k+g)%2 == 1 {
					s = validB
				}
				if _, _, err := bchutil.DecodeCashAddress(s); err != nil {
					bgErr.Add(1)
				}
				if k%64 == 63 {
					if _, err := bchutil.DecodeAddress(s, net.P); err != nil {
						bgErr.Add(1)
					}
				}
			}
		}(g)
	}
	n := 1500
	for k := 0; k < n; k++ {
		p := probes[k%2]
		c02verifyCash(c, "cross-prefix-concurrent", p)
		if k%8 == 0 {
			c02verify(c, "cross-prefix-concurrent", "cross-prefix-concurrent", "prefixed", p, net)
		}
	}
	stop.Store(true)
	wg.Wait()
	c.Count("cross_prefix_probes_while_other_goroutines_decode", int64(n))
	if bgErr.Load() > 0 {
		c.Failf("DecodeCashAddress/valid-rejected-under-concurrency", "%d decodes of the valid strings %q / %q failed while other goroutines were decoding %q / %q", bgErr.Load(), validA, validB, probes[0], probes[1])
	}
	c.Nontrivial(vf.Mix(0xc0d, vf.HashString(validA), vf.HashString(validB)))
}

// ---------------------------------------------------------------------------
// stream "params-object-reused": the caller keeps ONE chaincfg.Params object,
// decodes with it, changes its prefixes (a wallet switching its SLP prefix, a
// test harness re-using a template) and decodes again.  What is accepted must
// follow the fields as they are at the time of the call.

func c02paramsReusedCase(c *vf.Ctx, i int) {
	r := c.R
	base := allNets[[]int{0, 1, 4, 5}[i%4]].P
	p := *base // a private copy: the library's own objects are never modified
	net := netInfo{"reused-" + allNets[[]int{0, 1, 4, 5}[i%4]].Name, &p}
	kind := [][2]int{{0x00, 20}, {0x08, 20}, {0x0b, 32}}[(i/4)%3]
	sym := ref.Pack8to5(append([]byte{byte(kind[0])}, randHash(r, kind[1])...))
	alts := []string{"etoken", "simpleledger", "slptest", "xyz", "", "bitcoincash", "ecash", "bchtest"}
	seen := map[string]bool{}
	probe := func(stage string) {
		for _, pre := range []string{p.CashAddressPrefix, p.SlpAddressPrefix, base.SlpAddressPrefix, base.CashAddressPrefix, "etoken", "ecash"} {
			if pre == "" {
				continue
			}
			seen[pre] = true
		}
		for pre := range seen {
			body := ref.CashEncodeSymbols(pre, sym)
			c02verify(c, "params-object-reused", "params-object-reused/"+stage, "prefixed", pre+":"+body, net)
			c02verify(c, "params-object-reused", "params-object-reused/"+stage, "bare", body, net)
			c02verify(c, "params-object-reused", "params-object-reused/"+stage, "upper", asciiUpper(pre+":"+body), net)
		}
	}
	probe("initial")
	for step := 0; step < 3; step++ {
		switch r.Intn(3) {
		case 0:
			p.SlpAddressPrefix = alts[r.Intn(len(alts))]
		case 1:
			p.CashAddressPrefix = []string{"bitcoincash", "ecash", "bchtest", "xec"}[r.Intn(4)]
		default:
			p.SlpAddressPrefix, p.CashAddressPrefix = alts[r.Intn(len(alts))], []string{"bitcoincash", "ecash", "bchreg"}[r.Intn(3)]
		}
		if p.SlpAddressPrefix == p.CashAddressPrefix {
			p.SlpAddressPrefix = ""
		}
		c.Inc("params_object_changed_between_calls")
		probe(fmt.Sprintf("after-change-%d", step+1))
	}
	c.Nontrivial(vf.Mix(0xc0e, uint64(i), vf.HashBytes(sym)))
}

// ---------------------------------------------------------------------------
// stream "legacy": Base58Check over all version bytes x payload lengths 0..40

const c02legacyEnum = 256 * 41

func c02legacyClass(ver byte, n int) string {
	known := false
	for _, m := range allNets {
		if m.P.LegacyPubKeyHashAddrID == ver || m.P.LegacyScriptHashAddrID == ver {
			known = true
		}
	}
	switch {
	case n != 20:
		return "legacy-wrong-length"
	case known:
		return "legacy-valid"
	}
	return "legacy-unknown-version"
}

var c02legacyIDs = []byte{0x00, 0x05, 0x6f, 0xc4, 0x3f, 0x7b}

func c02legacyCase(c *vf.Ctx, i int) {
	r := c.R
	var ver byte
	var n int
	if i < c02legacyEnum {
		ver, n = byte(i/41), i%41
	} else {
		switch r.Intn(3) {
		case 0: // the registered version bytes, right length
			ver, n = c02legacyIDs[r.Intn(len(c02legacyIDs))], 20
		case 1: // registered version bytes, neighbouring lengths
			ver, n = c02legacyIDs[r.Intn(len(c02legacyIDs))], []int{19, 21, 32, 0, 1}[r.Intn(5)]
		default:
			ver, n = byte(r.Intn(256)), 20
		}
	}
	var payload []byte
	if n == 20 {
		payload = randHash(r, 20)
	} else {
		payload = r.Bytes(n)
		if n > 0 && r.Intn(4) == 0 {
			payload[0] = 0
		}
	}
	s := ref.B58CheckEncode(ver, payload)
	cls := c02legacyClass(ver, n)
	c.Inc("legacy-strings/" + cls)
	// corrupt the checksum: replace the last character by the next alphabet character
	last := strings.IndexByte(ref.B58Alphabet, s[len(s)-1])
	bad := s[:len(s)-1] + string(ref.B58Alphabet[(last+1+r.Intn(57))%58])
	// flip the case of one letter (Base58 is case sensitive)
	flipped := ""
	if m, ok := c02mixed(r, s); ok && m != s {
		flipped = m
	}
	for _, net := range c02nets(c, i) {
		c.Nontrivial(vf.Mix(vf.HashString(s), vf.HashString(net.Name)))
		c02verify(c, cls, cls, "exact", s, net)
		if _, _, ok := ref.B58CheckDecode(bad); !ok {
			c02verify(c, "legacy-bad-checksum", "legacy-bad-checksum", "last-char-changed", bad, net)
		}
		if flipped != "" {
			if _, _, ok := ref.B58CheckDecode(flipped); !ok {
				c02verify(c, "legacy-bad-checksum", "legacy-bad-checksum", "case-changed", flipped, net)
			}
		}
		if i%4 == 0 {
			for _, d := range []struct{ name, s string }{
				{"trailing-space", s + " "}, {"leading-space", " " + s}, {"trailing-newline", s + "\n"},
				{"trailing-nul", s + "\x00"}, {"leading-1", "1" + s}, {"cash-prefixed", net.P.CashAddressPrefix + ":" + s},
			} {
				c02verify(c, "decorated", "decorated-legacy/"+d.name, d.name, d.s, net)
			}
		}
	}
	if c.WantSample() {
		c.Sample(map[string]string{"version": fmt.Sprintf("0x%02x", ver), "payload": hx(payload), "string": s, "class": cls})
	}
}

// ---------------------------------------------------------------------------
// stream "pubkeys": hex strings of length 66 / 130 over every first byte

func c02pad32(x *big.Int) []byte {
	b := x.Bytes()
	out := make([]byte, 32)
	copy(out[32-len(b):], b)
	return out
}

// c02pk33class / c02pk65class classify a serialisation with the reference curve.
func c02pk33class(fb byte, x *big.Int) string {
	_, err := ref.LiftX(x, fb&1 == 1)
	switch {
	case x.Cmp(ref.SecP) >= 0:
		return "pk33/x-ge-p"
	case err != nil:
		return "pk33/not-on-curve"
	case fb == 2 || fb == 3:
		return "pk33/valid"
	}
	return "pk33/bad-format-byte"
}

func c02pk65class(fb byte, x, y *big.Int) string {
	switch {
	case x.Cmp(ref.SecP) >= 0 || y.Cmp(ref.SecP) >= 0:
		return "pk65/coordinate-ge-p"
	case !(ref.Point{X: x, Y: y}).OnCurve():
		return "pk65/not-on-curve"
	case fb == 4:
		return "pk65/valid-uncompressed"
	case fb == 6 || fb == 7:
		if uint(fb&1) == y.Bit(0) {
			return "pk65/valid-hybrid"
		}
		return "pk65/hybrid-wrong-parity"
	}
	return "pk65/bad-format-byte"
}

// c02smallX are the x < 2^32 with a point on the curve found by the
// reference; x+p still fits 32 bytes, giving a non-canonical x coordinate.
func c02smallX(k int) *big.Int {
	x := big.NewInt(int64(1 + 7*k))
	for {
		if _, err := ref.LiftX(x, false); err == nil {
			return x
		}
		x.Add(x, big.NewInt(1))
	}
}

func c02pubkeyCase(c *vf.Ctx, i int) {
	r := c.R
	k := c01scalar(c, i)
	p := ref.BaseMul(k)
	x, y := p.X, p.Y
	negY := new(big.Int).Sub(ref.SecP, y)
	badY := new(big.Int).Xor(y, big.NewInt(1))
	badX := new(big.Int).Add(x, big.NewInt(1))
	for {
		if _, err := ref.LiftX(badX, false); err != nil {
			break
		}
		badX.Add(badX, big.NewInt(1))
	}
	type ser struct {
		b     []byte
		class string
		all   bool // all hex renderings
	}
	hexRenderings := func(h string) []struct{ name, s string } {
		out := []struct{ name, s string }{{"hex-lower", h}, {"hex-upper", asciiUpper(h)}}
		if m, ok := c02mixed(r, h); ok {
			out = append(out, struct{ name, s string }{"hex-mixed", m})
		}
		return out
	}
	for fbi := 0; fbi < 256; fbi++ {
		fb := byte(fbi)
		net := allNets[(i+fbi)%len(allNets)]
		sers := []ser{
			{append([]byte{fb}, c02pad32(x)...), c02pk33class(fb, x), true},
			{append([]byte{fb}, c02pad32(badX)...), c02pk33class(fb, badX), false},
			{append(append([]byte{fb}, c02pad32(x)...), c02pad32(y)...), c02pk65class(fb, x, y), true},
			{append(append([]byte{fb}, c02pad32(x)...), c02pad32(negY)...), c02pk65class(fb, x, negY), true},
			{append(append([]byte{fb}, c02pad32(x)...), c02pad32(badY)...), c02pk65class(fb, x, badY), false},
		}
		if i%8 == 0 && fbi < 16 {
			// coordinates that are not reduced mod p, the point at infinity / zero encodings
			sx := c02smallX(i/8 + fbi)
			spt, _ := ref.LiftX(sx, fb&1 == 1)
			xp := new(big.Int).Add(sx, ref.SecP)
			zero := new(big.Int)
			sers = append(sers,
				ser{append([]byte{fb}, c02pad32(xp)...), c02pk33class(fb, xp), false},
				ser{append(append([]byte{fb}, c02pad32(xp)...), c02pad32(spt.Y)...), c02pk65class(fb, xp, spt.Y), false},
				ser{append([]byte{fb}, c02pad32(zero)...), c02pk33class(fb, zero), false},
				ser{append(append([]byte{fb}, c02pad32(zero)...), c02pad32(zero)...), c02pk65class(fb, zero, zero), false},
			)
		}
		for _, s := range sers {
			h := hx(s.b)
			rs := hexRenderings(h)
			if !s.all {
				rs = rs[:1]
			}
			if strings.HasSuffix(s.class, "/valid") || strings.Contains(s.class, "/valid-") || fb <= 7 {
				c.Nontrivial(vf.Mix(vf.HashBytes(s.b), vf.HashString(net.Name)))
			}
			for _, f := range rs {
				c02verify(c, "pubkey-hex", s.class, f.name, f.s, net)
			}
		}
	}
	if c.WantSample() {
		c.Sample(map[string]string{"scalar": k.Text(16), "uncompressed": hx(p.Uncompressed())})
	}
}

// ---------------------------------------------------------------------------

func c02selfTest() error {
	for _, f := range []func() error{ref.SelfTestCashAddr, ref.SelfTestBase58, ref.SelfTestSecp} {
		if err := f(); err != nil {
			return err
		}
	}
	// the CashAddr specification's first test vector
	const v = "qpm2qsznhks23z7629mms6s4cwef74vcwvy22gdx6a"
	sym, ok := c02symbolsOf(v)
	if !ok || !c02checksumOK("bitcoincash", v) || c02checksumOK("simpleledger", v) || c02checksumOK("bchtest", v) {
		return fmt.Errorf("c02: checksum helper disagrees with the CashAddr specification vector")
	}
	if cl := c02payloadClass(sym[:len(sym)-8]); cl != "valid" {
		return fmt.Errorf("c02: specification vector classified %q", cl)
	}
	if re := ref.CashEncodeSymbols("bitcoincash", sym[:len(sym)-8]); re != v {
		return fmt.Errorf("c02: specification vector re-encodes to %q", re)
	}
	for _, tc := range []struct {
		data []byte
		want string
	}{
		{append([]byte{0x10}, make([]byte, 20)...), "unknown-version"},
		{append([]byte{0x0b}, make([]byte, 32)...), "valid"},
		{append([]byte{0x0b}, make([]byte, 20)...), "unknown-version"},
		{append([]byte{0x00}, make([]byte, 24)...), "wrong-length"},
		{nil, "empty"},
	} {
		if got := c02payloadClass(ref.Pack8to5(tc.data)); got != tc.want {
			return fmt.Errorf("c02: payload %x classified %q want %q", tc.data, got, tc.want)
		}
	}
	s := ref.Pack8to5(append([]byte{0x00}, make([]byte, 20)...))
	s[len(s)-1] |= 1
	if c02payloadClass(s) != "bad-padding" || c02payloadClass(append(ref.Pack8to5(make([]byte, 21)), 0)) != "bad-padding" {
		return fmt.Errorf("c02: padding classification")
	}
	// G in the three serialisations
	g := ref.SecG()
	if c02pk65class(4, g.X, g.Y) != "pk65/valid-uncompressed" || c02pk65class(5, g.X, g.Y) != "pk65/bad-format-byte" ||
		c02pk65class(6+byte(g.Y.Bit(0)), g.X, g.Y) != "pk65/valid-hybrid" || c02pk65class(7-byte(g.Y.Bit(0)), g.X, g.Y) != "pk65/hybrid-wrong-parity" ||
		c02pk33class(2, g.X) != "pk33/valid" || c02pk33class(4, g.X) != "pk33/bad-format-byte" {
		return fmt.Errorf("c02: public key classification")
	}
	if m, ok := c02substitute(vf.NewRand(1), "qkKq", 'k', "\u212a", 1); !ok || m != "q\u212a\u212aq" {
		return fmt.Errorf("c02: substitution helper")
	}
	return nil
}

func init() {
	register(&vf.Property{
		ID:    "C02",
		Title: "Address decoding is strict, canonical and network-separating",
		Rule: "stream cash: every (version byte 0..255, payload length 0..65) with zero / non-zero padding bits and an extra symbol, reference checksum computed for the requested net's cash and SLP prefix, other nets' prefixes, unknown and empty prefixes, rendered bare / prefixed in lower, UPPER and mixed case and with a swapped prefix, then random symbol lists; " +
			"stream compensated: strings that are valid only if the decoder errs in a specific way, with the checksum computed to compensate (a foreign character decoded as symbol 255/0/31/low bits; a long caller-defined prefix truncated before the checksum); " +
			"stream bit-alias: every character of valid cash / legacy / public-key strings replaced by the bytes that differ from it only in bits 4..7, plus random byte values; " +
			"stream confusables: valid strings with one or all letters replaced by non-ASCII look-alikes (U+212A, U+017F, U+0130, ...) and with whitespace / NUL / BOM decorations; " +
			"stream legacy: Base58Check over every version byte x payload length 0..40, plus corrupted checksums and decorations; " +
			"stream pubkeys: hex of 33- and 65-byte keys over every first byte 0x00..0xff with on-curve, off-curve, negated-y and unreduced coordinates in lower / UPPER / mixed hex. " +
			"Oracle: an accepted string must re-encode to itself modulo ASCII case and one leading prefix of the requested net (legacy: exactly; hex: modulo case), its checksum must be valid for the prefix shown, cash non-SLP results report IsForNet(requested net), legacy results report IsForNet exactly on the nets carrying their version byte. " +
			"Non-trivial = distinct (string, net) that passes the checksum stage by construction.",
		Assumptions: []string{
			"reference CashAddr / Base58Check / secp256k1 implementations written from the specifications (self-tested on every run)",
			"the documented normalisations are ASCII case folding and one optional leading prefix of the requested network; mixed-case bare strings that fold to the canonical string are therefore not counted as violations",
			"the six chaincfg networks are the networks of the membership clause (no additional chaincfg.Register calls)",
			"inputs with fewer than 8 symbols after the separator are not generated (out-of-range slicing there is C08's subject)",
		},
		SelfTest: c02selfTest,
		Streams: []*vf.Stream{
			{Name: "cash", N: func(t vf.Tier) int { return c02cashEnum*t.Sz(1, 4) + t.Sz(16000, 200000) }, Run: c02cashCase},
			{Name: "confusables", N: func(t vf.Tier) int { return t.Sz(40000, 400000) }, Run: c02confusableCase},
			{Name: "compensated", N: func(t vf.Tier) int { return t.Sz(6000, 120000) }, Run: c02compensatedCase},
			{Name: "cross-prefix-concurrent", Workers: 4, N: func(t vf.Tier) int { return t.Sz(360, 3600) }, Run: c02concurrentCase},
			{Name: "params-object-reused", N: func(t vf.Tier) int { return t.Sz(1200, 12000) }, Run: c02paramsReusedCase},
			{Name: "bit-alias", N: func(t vf.Tier) int { return t.Sz(3000, 60000) }, Run: c02bitAliasCase},
			{Name: "legacy", N: func(t vf.Tier) int { return c02legacyEnum + t.Sz(10000, 400000) }, Run: c02legacyCase},
			{Name: "pubkeys", N: func(t vf.Tier) int { return 64 + t.Sz(600, 8000) }, Run: c02pubkeyCase},
		},
	})
}
