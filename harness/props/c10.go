package props

import (
	"bytes"
	"fmt"
	"sort"
	"sync"

	"github.com/gcash/bchd/chaincfg/chainhash"
	"github.com/gcash/bchd/txscript"
	"github.com/gcash/bchd/wire"
	"github.com/gcash/bchutil"
	"github.com/gcash/bchutil/bloom"
	"github.com/gcash/bchutil/merkleblock"

	"verif/internal/ref"
	"verif/internal/vf"
)

// C10 — transaction filtering finds every relevant transaction.
//
// (a) stream "tx": exact model of MatchTxAndUpdate written from BIP37 on top
//     of ref.BloomModel; result AND filter bytes are compared.
// (b) stream "block": sandwich oracle  E ⊆ reported ⊆ matches(final filter),
//     E = least fixpoint of relevance over EXACT sets, over several orders of
//     the same block; the reported set must be the same from
//     bloom.GetMatchedIndices, bloom.NewMerkleBlock and
//     merkleblock.NewMerkleBlockWithFilter.
//
// "Data push" and "pay-to-pubkey / multisig" are DEFINED by bchd's
// txscript.PushedData and txscript.GetScriptClass (an unparsable script has no
// pushes); the transaction id is SHA256d of wire's serialisation.

// ------------------------------------------------------------- analysis ---

type c10tx struct {
	msg       *wire.MsgTx
	txid      [32]byte
	outPushes [][][]byte // per output; nil when the script does not parse
	outOK     []bool     // script parses
	outP2PK   []bool     // GetScriptClass is PubKeyTy or MultiSigTy
	inPushes  [][][]byte
	inPrev    [][]byte // 36-byte serialisation of each spent outpoint
}

func c10analyse(msg *wire.MsgTx) *c10tx {
	t := &c10tx{msg: msg}
	var buf bytes.Buffer
	if err := msg.Serialize(&buf); err != nil {
		panic("harness: cannot serialise generated transaction: " + err.Error())
	}
	t.txid = ref.Sha256d(buf.Bytes())
	for _, o := range msg.TxOut {
		p, err := txscript.PushedData(o.PkScript)
		if err != nil {
			p = nil
		}
		t.outPushes = append(t.outPushes, p)
		t.outOK = append(t.outOK, err == nil)
		cl := txscript.GetScriptClass(o.PkScript)
		t.outP2PK = append(t.outP2PK, cl == txscript.PubKeyTy || cl == txscript.MultiSigTy)
	}
	for _, in := range msg.TxIn {
		p, err := txscript.PushedData(in.SignatureScript)
		if err != nil {
			p = nil
		}
		t.inPushes = append(t.inPushes, p)
		t.inPrev = append(t.inPrev, ref.OutPointBytes([32]byte(in.PreviousOutPoint.Hash), in.PreviousOutPoint.Index))
	}
	return t
}

func c10flagAllows(flag wire.BloomUpdateType, t *c10tx, j int) bool {
	switch flag {
	case wire.BloomUpdateAll:
		return true
	case wire.BloomUpdateP2PubkeyOnly:
		return t.outP2PK[j]
	}
	return false
}

// c10modelMatch is BIP37's IsRelevantAndUpdate on the model filter.
// sequential=true inserts each matched output's outpoint before the next
// output is examined (BIP37 / reference order); sequential=false examines all
// outputs against the filter as it was on entry and inserts afterwards (the
// two only differ when an inserted outpoint creates a bloom false positive
// for a later output of the same transaction).
func c10modelMatch(m *ref.BloomModel, flag wire.BloomUpdateType, t *c10tx, sequential bool) (bool, string) {
	if !m.Loaded {
		return false, "unloaded"
	}
	why := ""
	matched := m.Contains(t.txid[:])
	if matched {
		why = "txid"
	}
	var deferred [][]byte
	for j := range t.outPushes {
		for _, p := range t.outPushes[j] {
			if !m.Contains(p) {
				continue
			}
			if !matched {
				why = "output-push"
			}
			matched = true
			if c10flagAllows(flag, t, j) {
				op := ref.OutPointBytes(t.txid, uint32(j))
				if sequential {
					m.Add(op)
				} else {
					deferred = append(deferred, op)
				}
			}
			break
		}
	}
	for _, op := range deferred {
		m.Add(op)
	}
	if matched {
		return true, why
	}
	for k := range t.inPrev {
		if m.Contains(t.inPrev[k]) {
			return true, "spent-outpoint"
		}
		for _, p := range t.inPushes[k] {
			if m.Contains(p) {
				return true, "input-push"
			}
		}
	}
	return false, "none"
}

// c10predicate is the statement's "matches" relation against a fixed filter
// state (no update).
func c10predicate(m *ref.BloomModel, t *c10tx) bool {
	if !m.Loaded {
		return false
	}
	if m.Contains(t.txid[:]) {
		return true
	}
	for j := range t.outPushes {
		for _, p := range t.outPushes[j] {
			if m.Contains(p) {
				return true
			}
		}
	}
	for k := range t.inPrev {
		if m.Contains(t.inPrev[k]) {
			return true
		}
		for _, p := range t.inPushes[k] {
			if m.Contains(p) {
				return true
			}
		}
	}
	return false
}

func c10cloneModel(m *ref.BloomModel) *ref.BloomModel {
	return &ref.BloomModel{Bits: append([]byte(nil), m.Bits...), NHash: m.NHash, Tweak: m.Tweak, Loaded: m.Loaded}
}

func c10loadReal(c *vf.Ctx, m *ref.BloomModel, flag wire.BloomUpdateType) *bloom.Filter {
	var f *bloom.Filter
	if !m.Loaded {
		c.Call("LoadFilter", nil, func() { f = bloom.LoadFilter(nil) })
		return f
	}
	msg := wire.NewMsgFilterLoad(append([]byte(nil), m.Bits...), m.NHash, m.Tweak, flag)
	c.Call("LoadFilter", nil, func() { f = bloom.LoadFilter(msg) })
	return f
}

// ----------------------------------------------------------- generation ---

type c10pool struct {
	keys   [][]byte // 33- or 65-byte "public keys" (only their length matters to the script class)
	hashes [][]byte // 20-byte hashes
	tags   [][]byte // data of assorted lengths
}

func c10newPool(r *vf.Rand) *c10pool {
	p := &c10pool{}
	nk := r.Range(3, 10)
	for i := 0; i < nk; i++ {
		if r.Chance(1, 4) {
			k := r.Bytes(65)
			k[0] = 4
			p.keys = append(p.keys, k)
		} else {
			k := r.Bytes(33)
			k[0] = 2 + byte(r.Intn(2))
			p.keys = append(p.keys, k)
		}
	}
	for _, k := range p.keys {
		p.hashes = append(p.hashes, ref.Hash160(k))
	}
	for i := r.Range(1, 4); i > 0; i-- {
		p.hashes = append(p.hashes, r.Bytes(20))
	}
	lens := []int{1, 1, 2, 3, 4, 5, 8, 16, 20, 31, 32, 33, 35, 36, 37, 40, 64, 65, 75, 76, 80, 255, 256, 300, 520}
	for i := r.Range(3, 8); i > 0; i-- {
		p.tags = append(p.tags, r.Bytes(lens[r.Intn(len(lens))]))
	}
	return p
}

func (p *c10pool) key(r *vf.Rand) []byte  { return p.keys[r.Intn(len(p.keys))] }
func (p *c10pool) hash(r *vf.Rand) []byte { return p.hashes[r.Intn(len(p.hashes))] }
func (p *c10pool) tag(r *vf.Rand) []byte  { return p.tags[r.Intn(len(p.tags))] }
func (p *c10pool) sig(r *vf.Rand) []byte  { s := r.Bytes(r.Range(64, 73)); s[0] = 0x30; return s }
func (p *c10pool) datum(r *vf.Rand) []byte {
	switch r.Intn(4) {
	case 0:
		return p.key(r)
	case 1:
		return p.hash(r)
	default:
		return p.tag(r)
	}
}

// c10rawPush encodes a push in a chosen (possibly non-minimal) form.
func c10rawPush(data []byte, form int) []byte {
	n := len(data)
	var out []byte
	switch {
	case form == 0 && n <= 75:
		out = []byte{byte(n)}
	case form <= 1 && n <= 255:
		out = []byte{txscript.OP_PUSHDATA1, byte(n)}
	case form <= 2 && n <= 65535:
		out = []byte{txscript.OP_PUSHDATA2, byte(n), byte(n >> 8)}
	default:
		out = []byte{txscript.OP_PUSHDATA4, byte(n), byte(n >> 8), byte(n >> 16), byte(n >> 24)}
	}
	return append(out, data...)
}

func c10build(b *txscript.ScriptBuilder) []byte {
	s, err := b.Script()
	if err != nil {
		return []byte{txscript.OP_RETURN}
	}
	return s
}

var c10plainOps = []byte{txscript.OP_DUP, txscript.OP_HASH160, txscript.OP_EQUAL, txscript.OP_EQUALVERIFY, txscript.OP_CHECKSIG,
	txscript.OP_CHECKMULTISIG, txscript.OP_1, txscript.OP_2, txscript.OP_16, txscript.OP_1NEGATE, txscript.OP_0, txscript.OP_NOP,
	txscript.OP_DROP, txscript.OP_IF, txscript.OP_ENDIF, txscript.OP_VERIFY, txscript.OP_RETURN, txscript.OP_CHECKDATASIG, 0xba, 0xff}

// c10pkScript draws an output script; the returned name is its generator
// class (for coverage only — the oracle asks txscript).
func c10pkScript(r *vf.Rand, p *c10pool) ([]byte, string) {
	switch r.Intn(24) {
	case 22: // large bare multisig (up to 16 keys, mostly uncompressed, up to ~1.1 kB), pushes in minimal and non-minimal forms
		n := r.Range(4, 16)
		if r.Chance(1, 3) {
			n = 16
		}
		m := r.Range(0, n)
		s := []byte{txscript.OP_1 - 1 + byte(m)}
		if m == 0 {
			s[0] = txscript.OP_0 // 0-of-n: the required-signatures number is itself an empty push
		}
		nonMinimal := r.Intn(3) // 0: all minimal, 1: one key, 2: random
		odd := r.Intn(n)
		own := r.Intn(n)
		for i := 0; i < n; i++ {
			var k []byte
			switch {
			case i == own:
				k = p.key(r)
			case r.Chance(1, 5):
				k = append([]byte{2 + byte(r.Intn(2))}, r.Bytes(32)...)
			default:
				k = append([]byte{4}, r.Bytes(64)...)
			}
			form := 0
			if (nonMinimal == 1 && i == odd) || (nonMinimal == 2 && r.Chance(1, 3)) {
				form = 1 + r.Intn(3)
			}
			s = append(s, c10rawPush(k, form)...)
		}
		return append(s, txscript.OP_1-1+byte(n), txscript.OP_CHECKMULTISIG), "multisig-large"
	case 23: // P2PK / small multisig whose key pushes use OP_PUSHDATA1/2/4
		if r.Bool() {
			return append(c10rawPush(p.key(r), 1+r.Intn(3)), txscript.OP_CHECKSIG), "p2pk-nonminimal-push"
		}
		s := []byte{txscript.OP_1}
		s = append(s, c10rawPush(p.key(r), r.Intn(4))...)
		s = append(s, c10rawPush(p.key(r), 1+r.Intn(3))...)
		return append(s, txscript.OP_2, txscript.OP_CHECKMULTISIG), "multisig-nonminimal-push"
	case 0, 1, 2: // P2PK
		return c10build(txscript.NewScriptBuilder().AddData(p.key(r)).AddOp(txscript.OP_CHECKSIG)), "p2pk"
	case 3, 4, 5, 6: // P2PKH
		return c10build(txscript.NewScriptBuilder().AddOp(txscript.OP_DUP).AddOp(txscript.OP_HASH160).AddData(p.hash(r)).
			AddOp(txscript.OP_EQUALVERIFY).AddOp(txscript.OP_CHECKSIG)), "p2pkh"
	case 7: // P2SH
		return c10build(txscript.NewScriptBuilder().AddOp(txscript.OP_HASH160).AddData(p.hash(r)).AddOp(txscript.OP_EQUAL)), "p2sh"
	case 8: // P2SH32
		return c10build(txscript.NewScriptBuilder().AddOp(txscript.OP_HASH256).AddData(r.Bytes(32)).AddOp(txscript.OP_EQUAL)), "p2sh32"
	case 9, 10, 11: // bare multisig m-of-n
		n := r.Range(1, 3)
		m := r.Range(1, n)
		if r.Chance(1, 6) {
			m = 0 // 0-of-n: OP_0, an empty push, in front of the keys
		}
		b := txscript.NewScriptBuilder().AddInt64(int64(m))
		for i := 0; i < n; i++ {
			b.AddData(p.key(r))
		}
		return c10build(b.AddInt64(int64(n)).AddOp(txscript.OP_CHECKMULTISIG)), "multisig"
	case 12: // almost-multisig: wrong key count or a key of a wrong length
		n := r.Range(1, 3)
		b := txscript.NewScriptBuilder().AddInt64(1)
		for i := 0; i < n; i++ {
			k := p.key(r)
			if i == 0 && r.Bool() {
				k = k[:len(k)-1]
			}
			b.AddData(k)
		}
		cnt := n
		if r.Bool() {
			cnt = n + 1
		}
		return c10build(b.AddInt64(int64(cnt)).AddOp(txscript.OP_CHECKMULTISIG)), "near-multisig"
	case 13: // almost-P2PK: key length off by one, or a trailing opcode
		k := p.key(r)
		b := txscript.NewScriptBuilder()
		switch r.Intn(3) {
		case 0:
			b.AddData(k[:len(k)-1]).AddOp(txscript.OP_CHECKSIG)
		case 1:
			b.AddData(append(append([]byte(nil), k...), 0)).AddOp(txscript.OP_CHECKSIG)
		default:
			b.AddData(k).AddOp(txscript.OP_CHECKSIG).AddOp(txscript.OP_NOP)
		}
		return c10build(b), "near-p2pk"
	case 14, 15: // OP_RETURN with pushes (builder: minimal encodings, OP_0 for empty, OP_N for small ints)
		b := txscript.NewScriptBuilder().AddOp(txscript.OP_RETURN)
		for i := r.Range(0, 3); i > 0; i-- {
			switch r.Intn(5) {
			case 0:
				b.AddOp(txscript.OP_0)
			case 1:
				b.AddData([]byte{byte(r.Range(1, 16))}) // becomes OP_N: not a data push
			default:
				b.AddData(p.datum(r))
			}
		}
		return c10build(b), "op_return"
	case 16: // raw pushes in non-minimal forms, incl. empty PUSHDATA
		var s []byte
		if r.Bool() {
			s = append(s, txscript.OP_RETURN)
		}
		for i := r.Range(1, 3); i > 0; i-- {
			d := p.datum(r)
			if r.Chance(1, 4) {
				d = nil
			}
			s = append(s, c10rawPush(d, r.Intn(4))...)
		}
		return s, "raw-pushes"
	case 17: // non-standard but parsable mix
		var s []byte
		for i := r.Range(1, 6); i > 0; i-- {
			if r.Bool() {
				s = append(s, c10rawPush(p.datum(r), 0+2*r.Intn(2))...)
			} else {
				s = append(s, c10plainOps[r.Intn(len(c10plainOps))])
			}
		}
		return s, "non-standard"
	case 18: // unparsable: good pushes, then a truncated one
		var s []byte
		for i := r.Range(0, 2); i > 0; i-- {
			s = append(s, c10rawPush(p.datum(r), 0)...)
		}
		d := p.datum(r)
		enc := c10rawPush(d, r.Intn(4))
		cut := 1 + r.Intn(len(enc))
		if cut == len(enc) {
			cut--
		}
		if cut == 0 { // a lone push opcode that announces data
			return append(s, 0x4b), "unparsable"
		}
		return append(s, enc[:cut]...), "unparsable"
	case 19: // empty script
		return nil, "empty"
	case 20: // just OP_0 / small pushes
		return []byte{txscript.OP_0, txscript.OP_0, 1, byte(r.Intn(256))}, "op_0"
	default: // random bytes
		return r.Bytes(r.Range(1, 40)), "random-bytes"
	}
}

func c10sigScript(r *vf.Rand, p *c10pool) ([]byte, string) {
	switch r.Intn(12) {
	case 0, 1: // P2PK spend
		return c10build(txscript.NewScriptBuilder().AddData(p.sig(r))), "sig"
	case 2, 3, 4, 5: // P2PKH spend
		return c10build(txscript.NewScriptBuilder().AddData(p.sig(r)).AddData(p.key(r))), "sig+key"
	case 6: // multisig spend
		return c10build(txscript.NewScriptBuilder().AddOp(txscript.OP_0).AddData(p.sig(r)).AddData(p.sig(r))), "0+sigs"
	case 7: // P2SH spend: pushes + redeem script
		redeem, _ := c10pkScript(r, p)
		if len(redeem) > 520 {
			redeem = redeem[:520]
		}
		return c10build(txscript.NewScriptBuilder().AddData(p.sig(r)).AddData(redeem)), "p2sh-spend"
	case 8:
		return nil, "empty"
	case 9: // unparsable
		enc := c10rawPush(p.datum(r), 0)
		if len(enc) > 1 {
			enc = enc[:len(enc)-1]
		} else {
			enc = []byte{0x05, 1}
		}
		return append(c10rawPush(p.key(r), 0), enc...), "unparsable"
	case 10: // data then non-push ops
		return append(c10rawPush(p.datum(r), r.Intn(4)), c10plainOps[r.Intn(len(c10plainOps))]), "non-standard"
	default:
		return r.Bytes(r.Range(1, 30)), "random-bytes"
	}
}

func c10coinbaseIn(r *vf.Rand) *wire.TxIn {
	return &wire.TxIn{PreviousOutPoint: wire.OutPoint{Hash: chainhash.Hash{}, Index: 0xffffffff},
		SignatureScript: r.Bytes(r.Range(2, 60)), Sequence: 0xffffffff}
}

func c10index(r *vf.Rand) uint32 {
	switch r.Intn(8) {
	case 0:
		return 0xffffffff
	case 1:
		return 0x01020304
	case 2:
		return 256
	default:
		return uint32(r.Intn(4))
	}
}

func c10externalIn(r *vf.Rand, p *c10pool, ext *[]wire.OutPoint) *wire.TxIn {
	var op wire.OutPoint
	if len(*ext) > 0 && r.Chance(1, 5) {
		op = (*ext)[r.Intn(len(*ext))] // shares the funding transaction, different or same index
		if r.Bool() {
			op.Index = c10index(r)
		}
	} else {
		r.Fill(op.Hash[:])
		op.Index = c10index(r)
	}
	*ext = append(*ext, op)
	ss, _ := c10sigScript(r, p)
	return &wire.TxIn{PreviousOutPoint: op, SignatureScript: ss, Sequence: r.Uint32() | 0xfffffff0}
}

func c10filterShape(r *vf.Rand, minSize int) (size int, nh uint32, tw uint32) {
	switch r.Intn(10) {
	case 0:
		size = r.Range(minSize, 16)
	case 1, 2:
		size = r.Range(minSize, 64)
	case 3, 4, 5:
		size = r.Range(65, 2000)
	case 6:
		size = c09MaxSize
	default:
		size = r.Range(2001, c09MaxSize)
	}
	switch r.Intn(12) {
	case 0:
		nh = 0
	case 1:
		nh = c09MaxFuncs
	case 2:
		nh = uint32(r.Range(0, c09MaxFuncs))
	default:
		nh = uint32(r.Range(1, 14))
	}
	return size, nh, c09tweak(r)
}

func c10flag(r *vf.Rand) wire.BloomUpdateType {
	return []wire.BloomUpdateType{wire.BloomUpdateNone, wire.BloomUpdateAll, wire.BloomUpdateAll, wire.BloomUpdateP2PubkeyOnly, wire.BloomUpdateP2PubkeyOnly}[r.Intn(5)]
}

func c10flagName(f wire.BloomUpdateType) string {
	switch f {
	case wire.BloomUpdateNone:
		return "NONE"
	case wire.BloomUpdateAll:
		return "ALL"
	case wire.BloomUpdateP2PubkeyOnly:
		return "P2PUBKEY_ONLY"
	}
	return fmt.Sprint(uint8(f))
}

func c10txHex(m *wire.MsgTx) string {
	var buf bytes.Buffer
	_ = m.Serialize(&buf)
	return hx(buf.Bytes())
}

func c10itemsHex(items [][]byte) string {
	s := "["
	for i, it := range items {
		if i > 0 {
			s += " "
		}
		if i >= 40 {
			s += fmt.Sprintf("…(%d items)", len(items))
			break
		}
		if len(it) > 40 {
			s += fmt.Sprintf("%x…(%d bytes)", it[:40], len(it))
		} else if len(it) == 0 {
			s += `""`
		} else {
			s += hx(it)
		}
	}
	return s + "]"
}

// -------------------------------------------------------- (a) stream tx ---

func c10txCase(c *vf.Ctx, i int) {
	r := c.R
	p := c10newPool(r)
	ntx := r.Range(1, 4)
	var txs []*c10tx
	var ext []wire.OutPoint
	classes := map[string]bool{}
	for k := 0; k < ntx; k++ {
		m := wire.NewMsgTx(int32(r.Range(1, 2)))
		m.LockTime = uint32(k)
		if k == 0 && r.Chance(1, 10) {
			m.AddTxIn(c10coinbaseIn(r))
		} else {
			for n := r.Range(1, 3); n > 0; n-- {
				if k > 0 && r.Chance(2, 3) {
					par := txs[r.Intn(k)]
					idx := uint32(0)
					if len(par.msg.TxOut) > 0 {
						idx = uint32(r.Intn(len(par.msg.TxOut)))
					}
					if r.Chance(1, 10) {
						idx++ // right transaction, (maybe) wrong output
					}
					ss, _ := c10sigScript(r, p)
					m.AddTxIn(&wire.TxIn{PreviousOutPoint: wire.OutPoint{Hash: chainhash.Hash(par.txid), Index: idx}, SignatureScript: ss, Sequence: 0xffffffff})
				} else {
					m.AddTxIn(c10externalIn(r, p, &ext))
				}
			}
		}
		nout := r.Range(1, 4)
		if r.Chance(1, 20) {
			nout = 0
		}
		if r.Chance(1, 30) {
			nout = r.Range(5, 12)
		}
		if r.Chance(1, 150) { // output indices that do not fit one byte
			nout = r.Range(257, 300)
			c.Inc("txs_with_more_than_256_outputs")
		}
		if r.Chance(1, 5000) { // output indices that do not fit two bytes
			nout = 65537 + r.Intn(4)
			c.Inc("txs_with_more_than_65536_outputs")
		}
		for n := 0; n < nout; n++ {
			s, cl := c10pkScript(r, p)
			classes[cl] = true
			m.AddTxOut(wire.NewTxOut(int64(r.Intn(1e8)), s, wire.TokenData{}))
		}
		txs = append(txs, c10analyse(m))
	}

	// ---- filter: model first, the real filter is loaded from the model's bytes
	size, nh, tw := c10filterShape(r, 1)
	flag := c10flag(r)
	m := &ref.BloomModel{Bits: make([]byte, size), NHash: nh, Tweak: tw, Loaded: true}
	var items [][]byte
	density := []int{0, 5, 15, 30, 60}[r.Intn(5)] // percent of candidates inserted
	maybe := func(b []byte) {
		if r.Intn(100) < density {
			items = append(items, b)
		}
	}
	for _, t := range txs {
		if r.Intn(100) < density/2 {
			items = append(items, t.txid[:])
		}
		for j := range t.outPushes {
			for _, d := range t.outPushes[j] {
				maybe(d)
			}
			if r.Intn(100) < density/4 {
				items = append(items, ref.OutPointBytes(t.txid, uint32(j)))
			}
		}
		for k := range t.inPrev {
			if r.Intn(100) < density/2 {
				items = append(items, t.inPrev[k])
			}
			for _, d := range t.inPushes[k] {
				if r.Intn(100) < density/2 {
					items = append(items, d)
				}
			}
		}
	}
	for n := r.Intn(3); n > 0; n-- {
		items = append(items, r.Bytes(r.Range(0, 40)))
	}
	for _, it := range items {
		m.Add(it)
	}
	if r.Chance(1, 12) { // stray bits that no item explains
		for n := r.Range(1, 1+size/2); n > 0; n-- {
			m.Bits[r.Intn(size)] |= 1 << uint(r.Intn(8))
		}
	}
	if r.Chance(1, 60) {
		m = &ref.BloomModel{Loaded: false}
		c.Inc("unloaded_filter_cases")
	}
	f := c10loadReal(c, m, flag)
	if f == nil {
		return
	}
	c.Inc("flag=" + c10flagName(flag))
	for cl := range classes {
		c.Inc("cases_with_output_script=" + cl)
	}

	// ---- feed the transactions, some of them twice
	order := r.Perm(ntx)
	if r.Bool() {
		sort.Ints(order)
	}
	if r.Chance(1, 3) {
		order = append(order, order[r.Intn(len(order))])
	}
	desc := func() string {
		if !m.Loaded {
			return "unloaded filter"
		}
		return fmt.Sprintf("filter size=%d nHashFuncs=%d tweak=%#08x flag=%s items=%s", size, nh, tw, c10flagName(flag), c10itemsHex(items))
	}
	hsh := vf.Mix(10, uint64(size), uint64(nh), uint64(tw), uint64(flag))
	for step, k := range order {
		t := txs[k]
		before := c10cloneModel(m)
		want, why := c10modelMatch(m, flag, t, true)
		var tx *bchutil.Tx
		var got bool
		in := func() string {
			return fmt.Sprintf("%s; step %d tx=%s", desc(), step, c10txHex(t.msg))
		}
		if !c.Call("NewTx", in, func() { tx = bchutil.NewTx(t.msg) }) {
			return
		}
		if !c.Call("MatchTxAndUpdate", in, func() { got = f.MatchTxAndUpdate(tx) }) {
			return
		}
		var after *wire.MsgFilterLoad
		if !c.Call("MsgFilterLoad", in, func() { after = f.MsgFilterLoad() }) {
			return
		}
		c.Evals(2)
		hsh = vf.Mix(hsh, vf.HashBytes(t.txid[:]))
		c.Inc("model_result=" + why)
		for j := range t.outOK {
			if !t.outOK[j] {
				c.Inc("unparsable_output_scripts_seen")
			}
		}
		if got != want {
			c.Failf("MatchTxAndUpdate/result", "MatchTxAndUpdate returned %v, BIP37 model says %v (%s); %s; filter before call=%s; txid=%x tx=%s",
				got, want, why, desc(), c10bitsHex(before.Bits), t.txid, c10txHex(t.msg))
			return
		}
		if !m.Loaded {
			if after != nil {
				c.Failf("MatchTxAndUpdate/unloaded-became-loaded", "an unloaded filter is loaded after MatchTxAndUpdate; tx=%s", c10txHex(t.msg))
				return
			}
			continue
		}
		if after == nil {
			c.Failf("MatchTxAndUpdate/filter-bytes", "filter is unloaded after MatchTxAndUpdate; %s", in())
			return
		}
		if d := c09firstDiff(after.Filter, m.Bits); d >= 0 {
			// accept the other reading of "the filter" (state on entry) too
			alt := c10cloneModel(before)
			altRes, _ := c10modelMatch(alt, flag, t, false)
			if altRes == got && c09firstDiff(after.Filter, alt.Bits) < 0 {
				c.Inc("accepted_outputs_examined_against_entry_state")
				m = alt
			} else {
				c.Failf("MatchTxAndUpdate/filter-bytes", "after MatchTxAndUpdate (returned %v, %s) the filter differs from the BIP37 model at byte %d: got %#02x want %#02x; %s; filter before call=%s; txid=%x outputs=%d tx=%s",
					got, why, d, after.Filter[d], m.Bits[d], desc(), c10bitsHex(before.Bits), t.txid, len(t.outPushes), c10txHex(t.msg))
				return
			}
		}
		if c09firstDiff(before.Bits, m.Bits) >= 0 {
			c.Inc("calls_that_inserted_outpoints")
			if flag == wire.BloomUpdateP2PubkeyOnly {
				c.Inc("calls_that_inserted_outpoints_under_P2PUBKEY_ONLY")
			}
		} else if want && why != "txid" && why != "output-push" {
			c.Inc("matched_by_inputs_only")
		}
		if flag == wire.BloomUpdateP2PubkeyOnly && why == "output-push" {
			c.Inc("output_match_under_P2PUBKEY_ONLY")
		}
	}
	c.Nontrivial(hsh)
	if c.WantSample() {
		c.Sample(map[string]any{"filter": short(desc()), "txs": ntx, "first_tx": short(c10txHex(txs[0].msg))})
	}
}

func c10bitsHex(b []byte) string {
	if len(b) > 256 {
		return fmt.Sprintf("%x…(%d bytes)", b[:256], len(b))
	}
	return hx(b)
}

// ----------------------------------------------------- (b) stream block ---

const c10pathCap = 10000

type c10edge struct{ parent, out int } // in-block input: spends output `out` of tx `parent`

// c10pathTotal is an upper bound on the number of checkFilterTx invocations
// of a recursive re-check scanner in any order: sum over start vertices of
// the number of paths (edges counted per input) leaving them.
func c10pathTotal(n int, edges [][]c10edge) float64 {
	paths := make([]float64, n)
	children := make([][]int, n)
	for t := 0; t < n; t++ {
		for _, e := range edges[t] {
			children[e.parent] = append(children[e.parent], t)
		}
	}
	total := 0.0
	for v := n - 1; v >= 0; v-- {
		paths[v] = 1
		for _, d := range children[v] {
			paths[v] += paths[d]
		}
		total += paths[v]
	}
	return total
}

func c10blockCase(c *vf.Ctx, i int) {
	r := c.R
	p := c10newPool(r)
	n := r.Range(1, 40)
	if r.Chance(1, 3) {
		n = r.Range(1, 8)
	}
	shape := []string{"chain", "fan", "diamond", "forest", "random", "random"}[r.Intn(6)]
	// wallet: the keys whose scripts the filter owner watches
	nw := r.Range(1, 3)
	wallet := map[int]bool{}
	for len(wallet) < nw && len(wallet) < len(p.keys) {
		wallet[r.Intn(len(p.keys))] = true
	}
	walletKeys := [][]byte{}
	for k := range p.keys {
		if wallet[k] {
			walletKeys = append(walletKeys, p.keys[k])
		}
	}
	walletScript := func() []byte {
		k := walletKeys[r.Intn(len(walletKeys))]
		switch r.Intn(5) {
		case 0, 1:
			return c10build(txscript.NewScriptBuilder().AddData(k).AddOp(txscript.OP_CHECKSIG))
		case 2:
			return c10build(txscript.NewScriptBuilder().AddInt64(1).AddData(k).AddData(p.key(r)).AddInt64(2).AddOp(txscript.OP_CHECKMULTISIG))
		default:
			return c10build(txscript.NewScriptBuilder().AddOp(txscript.OP_DUP).AddOp(txscript.OP_HASH160).AddData(ref.Hash160(k)).
				AddOp(txscript.OP_EQUALVERIFY).AddOp(txscript.OP_CHECKSIG))
		}
	}
	walletBias := []int{0, 20, 50, 80}[r.Intn(4)]

	// ---- spend graph (indices are topological: parents first; 0 = coinbase)
	edges := make([][]c10edge, n)
	nouts := make([]int, n)
	for t := 0; t < n; t++ {
		nouts[t] = r.Range(1, 4)
	}
	for t := 1; t < n; t++ {
		var par []int
		switch shape {
		case "chain":
			par = []int{t - 1}
		case "fan":
			par = []int{r.Intn(1 + (t-1)/8)}
		case "diamond": // layers of two; each spends both of the previous layer
			if t >= 3 {
				l := (t - 1) / 2
				par = []int{2*l - 1, 2 * l}
			} else {
				par = []int{0}
			}
		case "forest":
			if t%5 != 1 {
				par = []int{t - 1 - r.Intn(min(t, 3))}
			}
		default:
			for k := r.Intn(4); k > 0; k-- {
				par = append(par, r.Intn(t))
			}
		}
		if r.Chance(1, 10) && t > 1 {
			par = append(par, r.Intn(t))
		}
		for _, q := range par {
			if q == 0 && r.Chance(1, 2) {
				continue // spending the coinbase inside its own block is unusual; keep it rarer
			}
			edges[t] = append(edges[t], c10edge{q, r.Intn(nouts[q])})
			if r.Chance(1, 12) { // two inputs from the same parent
				edges[t] = append(edges[t], c10edge{q, r.Intn(nouts[q])})
			}
		}
	}
	// keep a recursive re-check scanner polynomial: cut in-block edges from
	// the end until the path bound holds
	pathCap := float64(300)
	if r.Chance(1, 12) {
		pathCap = 3000
	}
	if c.Tier == vf.Thorough && r.Chance(1, 100) {
		pathCap = c10pathCap
	}
	cut := 0
	for t := n - 1; t > 0 && c10pathTotal(n, edges) > pathCap; t-- {
		cut += len(edges[t])
		edges[t] = nil
	}
	if cut > 0 {
		c.Inc("blocks_with_edges_cut_for_path_bound")
	}
	pathTotal := c10pathTotal(n, edges)

	// ---- transactions
	txs := make([]*c10tx, n)
	var ext []wire.OutPoint
	scriptClasses := map[string]bool{}
	for t := 0; t < n; t++ {
		m := wire.NewMsgTx(int32(r.Range(1, 2)))
		m.LockTime = uint32(t) // distinct ids even for otherwise equal transactions
		if t == 0 {
			m.AddTxIn(c10coinbaseIn(r))
		} else {
			for _, e := range edges[t] {
				var ss []byte
				if r.Intn(100) < walletBias { // spends with a wallet key in the input script
					ss = c10build(txscript.NewScriptBuilder().AddData(p.sig(r)).AddData(walletKeys[r.Intn(len(walletKeys))]))
				} else {
					ss, _ = c10sigScript(r, p)
				}
				m.AddTxIn(&wire.TxIn{PreviousOutPoint: wire.OutPoint{Hash: chainhash.Hash(txs[e.parent].txid), Index: uint32(e.out)}, SignatureScript: ss, Sequence: 0xffffffff})
			}
			for k := r.Intn(2); k > 0 || len(m.TxIn) == 0; k-- {
				m.AddTxIn(c10externalIn(r, p, &ext))
			}
			if len(m.TxIn) > 1 && r.Bool() {
				r.Shuffle(len(m.TxIn), func(a, b int) { m.TxIn[a], m.TxIn[b] = m.TxIn[b], m.TxIn[a] })
			}
		}
		for j := 0; j < nouts[t]; j++ {
			var s []byte
			if r.Intn(100) < walletBias {
				s = walletScript()
				scriptClasses["wallet"] = true
			} else {
				var cl string
				s, cl = c10pkScript(r, p)
				scriptClasses[cl] = true
			}
			m.AddTxOut(wire.NewTxOut(int64(r.Intn(1e8)), s, wire.TokenData{}))
		}
		txs[t] = c10analyse(m)
	}

	// ---- S0: what the filter owner inserted
	var s0 [][]byte
	mode := r.Intn(10)
	switch {
	case mode == 0: // nothing: only bloom false positives can be reported
	default:
		for _, k := range walletKeys {
			if r.Chance(4, 5) {
				s0 = append(s0, k)
			}
			if r.Chance(4, 5) {
				s0 = append(s0, ref.Hash160(k))
			}
		}
		extra := []int{0, 0, 3, 10}[r.Intn(4)]
		for _, t := range txs {
			if r.Intn(100) < extra {
				s0 = append(s0, t.txid[:])
			}
			for j := range t.outPushes {
				for _, d := range t.outPushes[j] {
					if r.Intn(100) < extra {
						s0 = append(s0, d)
					}
				}
				if r.Intn(100) < extra { // the owner already knows one of the block's outpoints
					s0 = append(s0, ref.OutPointBytes(t.txid, uint32(j)))
				}
			}
			for k := range t.inPrev {
				if r.Intn(100) < 2*extra {
					s0 = append(s0, t.inPrev[k])
				}
				for _, d := range t.inPushes[k] {
					if r.Intn(100) < extra {
						s0 = append(s0, d)
					}
				}
			}
		}
		for k := r.Intn(3); k > 0; k-- {
			s0 = append(s0, r.Bytes(r.Range(0, 40)))
		}
	}
	// Precondition (evaluated without the code under test): no push equals the
	// serialisation of an outpoint of a block transaction, so E does not
	// depend on whether a push may become relevant through an inserted
	// outpoint.
	txidSet := map[[32]byte]int{}
	for t, x := range txs {
		if _, dup := txidSet[x.txid]; dup {
			c.Inc("filtered_duplicate_txid")
			return
		}
		txidSet[x.txid] = t
	}
	for _, x := range txs {
		for _, ps := range append(append([][][]byte{}, x.outPushes...), x.inPushes...) {
			for _, d := range ps {
				if len(d) == 36 {
					var h [32]byte
					copy(h[:], d)
					if _, hit := txidSet[h]; hit {
						c.Inc("filtered_push_equals_block_outpoint")
						return
					}
				}
			}
		}
	}

	flag := c10flag(r)
	size, nh, tw := c10filterShape(r, 8)
	base := &ref.BloomModel{Bits: make([]byte, size), NHash: nh, Tweak: tw, Loaded: true}
	for _, it := range s0 {
		base.Add(it)
	}

	// ---- E: least fixpoint over exact sets
	S := map[string]bool{}
	for _, it := range s0 {
		S[string(it)] = true
	}
	inE := make([]bool, n)
	inS := func(ps [][]byte) bool {
		for _, d := range ps {
			if S[string(d)] {
				return true
			}
		}
		return false
	}
	rounds := 0
	for changed := true; changed; {
		changed = false
		rounds++
		for t, x := range txs {
			rel := S[string(x.txid[:])]
			for j := range x.outPushes {
				if inS(x.outPushes[j]) {
					rel = true
					if c10flagAllows(flag, x, j) {
						op := string(ref.OutPointBytes(x.txid, uint32(j)))
						if !S[op] {
							S[op] = true
							changed = true
						}
					}
				}
			}
			for k := range x.inPrev {
				if S[string(x.inPrev[k])] || inS(x.inPushes[k]) {
					rel = true
				}
			}
			if rel && !inE[t] {
				inE[t] = true
				changed = true
			}
		}
	}
	nE := 0
	viaInsertedOutpoint := 0
	s0set := map[string]bool{}
	for _, it := range s0 {
		s0set[string(it)] = true
	}
	for t, x := range txs {
		if !inE[t] {
			continue
		}
		nE++
		// relevant ONLY because an outpoint was inserted during the scan
		only := !s0set[string(x.txid[:])]
		for j := range x.outPushes {
			for _, d := range x.outPushes[j] {
				if s0set[string(d)] {
					only = false
				}
			}
		}
		for k := range x.inPrev {
			if s0set[string(x.inPrev[k])] {
				only = false
			}
			for _, d := range x.inPushes[k] {
				if s0set[string(d)] {
					only = false
				}
			}
		}
		if only {
			viaInsertedOutpoint++
		}
	}
	c.Count("txs_in_E", int64(nE))
	c.Count("txs_in_E_only_through_outpoints_inserted_during_the_scan", int64(viaInsertedOutpoint))
	c.Count("txs_total", int64(n))
	c.Inc("shape=" + shape)
	c.Inc("flag=" + c10flagName(flag))
	for cl := range scriptClasses {
		c.Inc("blocks_with_output_script=" + cl)
	}
	if pathTotal > 1000 {
		c.Inc("blocks_with_path_bound_over_1000")
	}

	// ---- orders
	type ord struct {
		name string
		perm []int // position -> tx
	}
	topo := make([]int, n)
	for k := range topo {
		topo[k] = k
	}
	rev := make([]int, n)
	for k := range rev {
		rev[k] = n - 1 - k
	}
	ctor := append([]int(nil), topo...)
	sort.Slice(ctor[1:], func(a, b int) bool { // CTOR: ascending txid as a little-endian number, coinbase first
		x, y := txs[ctor[1+a]].txid, txs[ctor[1+b]].txid
		for k := 31; k >= 0; k-- {
			if x[k] != y[k] {
				return x[k] < y[k]
			}
		}
		return false
	})
	revAfterCb := append([]int{0}, rev[:n-1]...)
	orders := []ord{{"topological", topo}, {"reverse", rev}, {"ctor", ctor}, {"reverse-after-coinbase", revAfterCb}}
	nrand := c.Tier.Sz(4, 5)
	for k := 0; k < nrand; k++ {
		pr := vf.NewRand(vf.Mix(r.Uint64(), uint64(k)))
		orders = append(orders, ord{fmt.Sprintf("random#%d", k), pr.Perm(n)})
	}

	var hdr wire.BlockHeader
	hdr.Version = 0x20000000
	r.Fill(hdr.PrevBlock[:])
	r.Fill(hdr.MerkleRoot[:])
	hdr.Bits = 0x1d00ffff
	hdr.Nonce = r.Uint32()

	describe := func(o ord) string {
		s := fmt.Sprintf("order=%s flag=%s filter size=%d nHashFuncs=%d tweak=%#08x inserted items=%s; block of %d txs (shape %s):", o.name, c10flagName(flag), size, nh, tw, c10itemsHex(s0), n, shape)
		for pos, t := range o.perm {
			if pos >= 45 {
				break
			}
			s += fmt.Sprintf(" [%d]=%x", pos, txs[t].txid[:6])
			if inE[t] {
				s += "(E)"
			}
		}
		return s
	}
	hsh := vf.Mix(11, uint64(size), uint64(nh), uint64(tw), uint64(flag), uint64(len(s0)))
	for _, x := range txs {
		hsh = vf.Mix(hsh, vf.HashBytes(x.txid[:8]))
	}
	c.Nontrivial(hsh)

	apis := []struct {
		name string
		run  func(b *bchutil.Block, f *bloom.Filter) []int
	}{
		{"bloom.NewMerkleBlock", func(b *bchutil.Block, f *bloom.Filter) []int {
			_, idx := bloom.NewMerkleBlock(b, f)
			return c10fromU32(idx)
		}},
		{"merkleblock.NewMerkleBlockWithFilter", func(b *bchutil.Block, f *bloom.Filter) []int {
			_, idx := merkleblock.NewMerkleBlockWithFilter(b, f)
			return c10fromU32(idx)
		}},
		{"bloom.GetMatchedIndices", func(b *bchutil.Block, f *bloom.Filter) []int {
			var out []int
			for k, v := range bloom.GetMatchedIndices(b, f) {
				if v {
					out = append(out, k)
				}
			}
			return out
		}},
	}

	c10hookOnce.Do(func() {
		bloom.VerifSetAddHook(func(f *bloom.Filter, data []byte) {
			if v, ok := c10recorders.Load(f); ok {
				rc := v.(*c10rec)
				rc.items = append(rc.items, append([]byte(nil), data...))
			}
		})
	})
	outIndex := map[string][2]int{}
	spenders := map[string][]int{}
	for t, x := range txs {
		for j := range x.msg.TxOut {
			outIndex[string(ref.OutPointBytes(x.txid, uint32(j)))] = [2]int{t, j}
		}
	}
	for t, x := range txs {
		seen := map[string]bool{}
		for _, pv := range x.inPrev {
			if _, ok := outIndex[string(pv)]; ok && !seen[string(pv)] {
				seen[string(pv)] = true
				spenders[string(pv)] = append(spenders[string(pv)], t)
			}
		}
	}
	allThree := r.Intn(len(orders))
	for oi, o := range orders {
		mb := wire.NewMsgBlock(&hdr)
		for _, t := range o.perm {
			mb.Transactions = append(mb.Transactions, txs[t].msg)
		}
		var first []int
		firstName := ""
		for ai, api := range apis {
			// every order is scanned through one API (rotating); two orders of
			// every block (a seeded one and the last random one) through all
			// three, which is where the reported sets are compared
			if oi != allThree && oi != len(orders)-1 && ai != (oi+i)%len(apis) {
				continue
			}
			f := c10loadReal(c, base, flag)
			if f == nil {
				return
			}
			var blk *bchutil.Block
			var rep []int
			in := func() string { return describe(o) }
			if !c.Call("NewBlock", in, func() { blk = bchutil.NewBlock(mb) }) {
				return
			}
			if (oi+ai+i)%3 == 0 {
				// the caller has used the block before and re-annotated some of its
				// cached transaction wrappers (Tx.SetIndex is public); reported
				// indices are block positions all the same
				c.Call("Block.Transactions/SetIndex", in, func() {
					ts := blk.Transactions()
					pr := vf.NewRand(vf.Mix(hsh, uint64(oi), uint64(ai)))
					for k := 1 + pr.Intn(3); k > 0 && len(ts) > 0; k-- {
						ts[pr.Intn(len(ts))].SetIndex([]int{bchutil.TxIndexUnknown, 0, pr.Intn(len(ts)), len(ts), 1 << 20}[pr.Intn(5)])
					}
				})
				c.Inc("scans_of_blocks_whose_tx_wrappers_were_re-annotated")
			}
			rec := &c10rec{}
			c10recorders.Store(f, rec)
			ok := c.Call(api.name, in, func() { rep = api.run(blk, f) })
			c10recorders.Delete(f)
			if !ok {
				return
			}
			sort.Ints(rep)
			rep = c10uniq(rep)
			var after *wire.MsgFilterLoad
			if !c.Call("MsgFilterLoad", in, func() { after = f.MsgFilterLoad() }) {
				return
			}
			c.Evals(3)
			c.Inc("scans")
			// reported positions must be positions of the block
			bad := false
			for _, pos := range rep {
				if pos < 0 || pos >= n {
					c.Failf(api.name+"/index-out-of-range", "reported index %d in a block of %d transactions; %s", pos, n, describe(o))
					bad = true
				}
			}
			if bad {
				continue
			}
			repSet := make([]bool, n) // by position
			for _, pos := range rep {
				repSet[pos] = true
			}
			// lower bound
			missing := -1
			for pos, t := range o.perm {
				if inE[t] && !repSet[pos] {
					missing = pos
					break
				}
			}
			if missing >= 0 {
				t := o.perm[missing]
				c.Failf(api.name+"/missed-relevant-tx", "transaction at position %d (txid %x) is relevant under exact-set semantics but was not reported (reported positions %v); %s; missed tx=%s; its parents in the block: %s",
					missing, txs[t].txid, rep, describe(o), c10txHex(txs[t].msg), c10parents(txs, o.perm, edges[t]))
			}
			// upper bound against this scan's final filter
			if after == nil {
				c.Failf(api.name+"/filter-unloaded", "filter is unloaded after the scan; %s", describe(o))
				continue
			}
			final := &ref.BloomModel{Bits: append([]byte(nil), after.Filter...), NHash: nh, Tweak: tw, Loaded: true}
			nFinal := 0
			for pos, t := range o.perm {
				mt := c10predicate(final, txs[t])
				if mt {
					nFinal++
				}
				if repSet[pos] && !mt {
					c.Failf(api.name+"/reported-tx-not-matching-final-filter", "transaction at position %d (txid %x) was reported but the final filter state matches none of its id, output pushes, spent outpoints, input pushes; final filter=%s; %s; tx=%s",
						pos, txs[t].txid, c10bitsHex(after.Filter), describe(o), c10txHex(txs[t].msg))
					break
				}
			}
			// what the scan inserted (hook bloom.VerifSetAddHook): only outpoints of
			// block outputs the filter matches, as the flag prescribes, and every
			// transaction of the block that spends one of them is reported
			posOf := make([]int, n)
			for pos, t := range o.perm {
				posOf[t] = pos
			}
			c.Count("items_inserted_during_scans", int64(len(rec.items)))
			for _, it := range rec.items {
				c.Evals(1)
				tj, isOut := outIndex[string(it)]
				switch {
				case flag == wire.BloomUpdateNone:
					c.Failf(api.name+"/inserted-under-flag-none", "the scan inserted %x into a filter loaded with BloomUpdateNone; %s", it, describe(o))
				case !isOut:
					c.Failf(api.name+"/inserted-foreign-item", "the scan inserted %x, which is not the outpoint of an output of a transaction of the block; %s", it, describe(o))
				case !c10flagAllows(flag, txs[tj[0]], tj[1]):
					c.Failf(api.name+"/inserted-outpoint-against-flag", "the scan inserted outpoint %x:%d although flag %s does not prescribe an update for that output (script %x); %s", txs[tj[0]].txid, tj[1], c10flagName(flag), txs[tj[0]].msg.TxOut[tj[1]].PkScript, describe(o))
				default:
					matched := false
					for _, d := range txs[tj[0]].outPushes[tj[1]] {
						if final.Contains(d) {
							matched = true
						}
					}
					if !matched {
						c.Failf(api.name+"/inserted-outpoint-of-unmatched-output", "the scan inserted outpoint %x:%d although the final filter matches no data push of that output (script %x); %s", txs[tj[0]].txid, tj[1], txs[tj[0]].msg.TxOut[tj[1]].PkScript, describe(o))
					}
					if !S[string(it)] {
						c.Inc("outpoints_inserted_through_a_bloom_false_positive")
					}
					for _, v := range spenders[string(it)] {
						c.Inc("in_block_spenders_of_inserted_outpoints")
						if !repSet[posOf[v]] {
							c.Failf(api.name+"/spender-of-inserted-outpoint-missed", "the scan inserted outpoint %x:%d into the filter (its output became relevant) but the transaction at position %d (txid %x), which spends it, was not reported (reported positions %v); final filter=%s; %s; spender=%s",
								txs[tj[0]].txid, tj[1], posOf[v], txs[v].txid, rep, c10bitsHex(after.Filter), describe(o), c10txHex(txs[v].msg))
						}
					}
				}
			}
			if first == nil {
				first = rep
				if first == nil {
					first = []int{}
				}
				firstName = api.name
				if len(rep) == nE {
					c.Inc("sandwich_tight_at_lower_bound(reported==E)")
				}
				if len(rep) == nFinal {
					c.Inc("sandwich_tight_at_upper_bound(reported==matches(final))")
				}
				if len(rep) == nE && len(rep) == nFinal {
					c.Inc("sandwich_exact(E==reported==matches(final))")
				}
				if len(rep) > nE {
					c.Inc("scans_with_bloom_false_positive_reports")
				}
				c.Count("reported_txs", int64(len(rep)))
				if c09firstDiff(after.Filter, base.Bits) >= 0 {
					c.Inc("scans_that_updated_the_filter")
				}
			} else {
				c.Evals(1)
				if !c10eqInts(first, rep) {
					c.Failf("reported-sets-differ", "%s reported %v but %s reported %v for the same block and filter; %s", firstName, first, api.name, rep, describe(o))
				} else {
					c.Inc("api_pairs_compared_equal")
				}
			}
		}
	}
	if c.WantSample() {
		c.Sample(map[string]any{"txs": n, "shape": shape, "flag": c10flagName(flag), "filter_bytes": size, "hash_funcs": nh, "inserted_items": len(s0),
			"relevant_exact": nE, "only_via_inserted_outpoints": viaInsertedOutpoint, "path_bound": pathTotal, "fixpoint_rounds": rounds})
	}
}

// c10rec collects what one filter inserted while it was registered (hook
// bloom.VerifSetAddHook, called with the filter lock held).
type c10rec struct{ items [][]byte }

var (
	c10recorders sync.Map // *bloom.Filter -> *c10rec
	c10hookOnce  sync.Once
)

func c10parents(txs []*c10tx, perm []int, es []c10edge) string {
	posOf := map[int]int{}
	for pos, t := range perm {
		posOf[t] = pos
	}
	s := ""
	for _, e := range es {
		s += fmt.Sprintf("{position %d txid %x output %d} ", posOf[e.parent], txs[e.parent].txid[:6], e.out)
	}
	if s == "" {
		return "none"
	}
	return s
}

func c10fromU32(a []uint32) []int {
	out := make([]int, len(a))
	for i, v := range a {
		out[i] = int(v)
	}
	return out
}

func c10uniq(a []int) []int {
	out := a[:0]
	for i, v := range a {
		if i == 0 || v != a[i-1] {
			out = append(out, v)
		}
	}
	return out
}

func c10eqInts(a, b []int) bool {
	if len(a) != len(b) {
		return false
	}
	for i := range a {
		if a[i] != b[i] {
			return false
		}
	}
	return true
}

func init() {
	register(&vf.Property{
		ID:    "C10",
		Title: "Transaction filtering finds every relevant transaction, in any block order",
		Rule: "stream tx: 1..4 seeded transactions (inputs: coinbase / external / outputs of earlier ones; output scripts: P2PK 33/65, P2PKH, P2SH, P2SH32, bare multisig up to 16 keys (about 1.1 kB) with minimal and OP_PUSHDATA1/2/4 key pushes, near-miss P2PK/multisig, OP_RETURN pushes, non-minimal and empty pushes, OP_0, non-standard, unparsable, empty, random bytes; input scripts likewise) " +
			"fed (some twice, in seeded order) to one filter (1..36000 bytes, 0..50 hash functions, flag NONE/ALL/P2PUBKEY_ONLY, loaded from a model into which a seeded subset of the transactions' ids, pushes, spent and own outpoints was inserted; sometimes stray bits or unloaded); after each call result == model and filter bytes == model. " +
			"stream block: blocks of 1..40 transactions over a key pool, spend graphs chain/fan/diamond/forest/random with path bound <= 10^4, a wallet of 1..3 keys, filter 8..36000 bytes; each block scanned in topological, reverse, CTOR, reverse-after-coinbase and 4 (thorough 5) seeded random orders by three APIs from a fresh copy of the same filter; E ⊆ reported ⊆ matches(final), reported sets equal; every item the scan inserts is observed through the hook bloom.VerifSetAddHook and must be the outpoint of a block output whose push the filter matches and for which the flag prescribes an update (none under NONE), and every transaction of the block spending an inserted outpoint must be reported (this covers relevance that arises through bloom false positives during the scan). " +
			"A case is non-trivial and distinct per (filter shape, transaction ids).",
		Assumptions: []string{
			"txscript.PushedData defines 'data push' (unparsable script: none; OP_0 and zero-length PUSHDATA: the empty string) and txscript.GetScriptClass defines pay-to-pubkey / multisig",
			"transaction id = SHA256d of wire.MsgTx.Serialize",
			"BIP37 order inside one call: id; outputs in order, each matched output's outpoint inserted before the next output is examined; inputs only when nothing matched. A result that equals examining all outputs against the entry state is accepted as well and counted",
			"block stream: no generated push equals the serialisation of an outpoint of a block transaction (checked, filtered cases counted)",
			"the bloom model of C09 (ref.BloomModel, self-tested MurmurHash3)",
		},
		SelfTest: ref.SelfTestMurmur,
		Streams: []*vf.Stream{
			// bchd's wire serialiser borrows its scratch buffers from one
			// process-wide channel, so many goroutines hashing transactions in
			// one process contend on it: several small children instead.
			{Name: "tx", Shards: 8, N: func(t vf.Tier) int { return t.Sz(200000, 2000000) }, Run: c10txCase},
			{Name: "block", Shards: 8, N: func(t vf.Tier) int { return t.Sz(12000, 100000) }, Run: c10blockCase},
		},
	})
}
