package props

import (
	"encoding/hex"
	"fmt"
	"math/big"
	"reflect"
	"strings"
	"sync"

	"github.com/gcash/bchd/chaincfg"
	"github.com/gcash/bchutil"

	"verif/internal/ref"
	"verif/internal/vf"
)

// C01 — every constructible address survives encode -> decode unchanged and
// its string is the one the CashAddr / Base58Check specifications prescribe.

type c01kind struct {
	name   string
	size   int // hash size
	slp    bool
	legacy bool
	mk     func(h []byte, n *chaincfg.Params) (bchutil.Address, error)
	want   func(h []byte, n *chaincfg.Params) string
}

var c01kinds = []c01kind{
	{"P2PKH", 20, false, false,
		func(h []byte, n *chaincfg.Params) (bchutil.Address, error) { return bchutil.NewAddressPubKeyHash(h, n) },
		func(h []byte, n *chaincfg.Params) string {
			return ref.CashEncode(n.CashAddressPrefix, ref.CashTypeP2KH, h)
		}},
	{"P2SH", 20, false, false,
		func(h []byte, n *chaincfg.Params) (bchutil.Address, error) {
			return bchutil.NewAddressScriptHashFromHash(h, n)
		},
		func(h []byte, n *chaincfg.Params) string {
			return ref.CashEncode(n.CashAddressPrefix, ref.CashTypeP2SH, h)
		}},
	{"P2SH32", 32, false, false,
		func(h []byte, n *chaincfg.Params) (bchutil.Address, error) {
			return bchutil.NewAddressScriptHash32FromHash(h, n)
		},
		func(h []byte, n *chaincfg.Params) string {
			return ref.CashEncode(n.CashAddressPrefix, ref.CashTypeP2SH, h)
		}},
	{"SLP-P2PKH", 20, true, false,
		func(h []byte, n *chaincfg.Params) (bchutil.Address, error) {
			return bchutil.NewSlpAddressPubKeyHash(h, n)
		},
		func(h []byte, n *chaincfg.Params) string {
			return ref.CashEncode(n.SlpAddressPrefix, ref.CashTypeP2KH, h)
		}},
	{"SLP-P2SH", 20, true, false,
		func(h []byte, n *chaincfg.Params) (bchutil.Address, error) {
			return bchutil.NewSlpAddressScriptHashFromHash(h, n)
		},
		func(h []byte, n *chaincfg.Params) string {
			return ref.CashEncode(n.SlpAddressPrefix, ref.CashTypeP2SH, h)
		}},
	{"SLP-P2SH32", 32, true, false,
		func(h []byte, n *chaincfg.Params) (bchutil.Address, error) {
			return bchutil.NewSlpAddressScriptHash32FromHash(h, n)
		},
		func(h []byte, n *chaincfg.Params) string {
			return ref.CashEncode(n.SlpAddressPrefix, ref.CashTypeP2SH, h)
		}},
	{"LEGACY-P2PKH", 20, false, true,
		func(h []byte, n *chaincfg.Params) (bchutil.Address, error) {
			return bchutil.NewLegacyAddressPubKeyHash(h, n)
		},
		func(h []byte, n *chaincfg.Params) string { return ref.B58CheckEncode(n.LegacyPubKeyHashAddrID, h) }},
	{"LEGACY-P2SH", 20, false, true,
		func(h []byte, n *chaincfg.Params) (bchutil.Address, error) {
			return bchutil.NewLegacyAddressScriptHashFromHash(h, n)
		},
		func(h []byte, n *chaincfg.Params) string { return ref.B58CheckEncode(n.LegacyScriptHashAddrID, h) }},
}

func c01checkDecoded(c *vf.Ctx, kind string, net netInfo, rendering, in string, orig bchutil.Address, want string, payload []byte, mustBeForNet bool) {
	var got bchutil.Address
	var err error
	site := "DecodeAddress/" + kind
	if !c.Call(site, func() string { return fmt.Sprintf("%q net=%s", in, net.Name) }, func() { got, err = bchutil.DecodeAddress(in, net.P) }) {
		return
	}
	c.Evals(1)
	if err != nil {
		c.Failf(site+"/rejected", "kind=%s net=%s rendering=%s: DecodeAddress(%q) failed: %v (payload %x)", kind, net.Name, rendering, in, err, payload)
		return
	}
	if reflect.TypeOf(got) != reflect.TypeOf(orig) {
		c.Failf(site+"/kind", "kind=%s net=%s rendering=%s: DecodeAddress(%q) returned %T, constructed %T", kind, net.Name, rendering, in, got, orig)
		return
	}
	if !eqBytes(got.ScriptAddress(), payload) {
		c.Failf(site+"/payload", "kind=%s net=%s rendering=%s: DecodeAddress(%q).ScriptAddress()=%x want %x", kind, net.Name, rendering, in, got.ScriptAddress(), payload)
	}
	if re := got.EncodeAddress(); re != want {
		c.Failf(site+"/reencode", "kind=%s net=%s rendering=%s: DecodeAddress(%q).EncodeAddress()=%q want %q", kind, net.Name, rendering, in, re, want)
	}
	if mustBeForNet && !got.IsForNet(net.P) {
		c.Failf(site+"/isfornet", "kind=%s net=%s rendering=%s: decoded address of %q does not report membership of the network it was decoded on", kind, net.Name, rendering, in)
	}
}

func c01hashCase(c *vf.Ctx, i int) {
	for ki, k := range c01kinds {
		var h []byte
		if d := directedHash(i, k.size); d != nil {
			h = d
		} else {
			h = randHash(vf.NewRand(vf.Mix(c.R.Uint64(), uint64(ki))), k.size)
		}
		c01hashOnNets(c, k, h, allNets)
	}
}

// c01wordCase: hashes constructed so that the CashAddr payload string spells
// a word: the prefix of the same or another network, "bitcoincash" cannot be
// spelled (b, i, o are no CashAddr characters) but "slpreg", "slptest",
// "qqqqqq", a run of one character or a fragment of another address can.  A
// decoder that looks for prefixes anywhere but in front of the separator
// meets them here.
func c01wordCase(c *vf.Ctx, i int) {
	words := []string{"slpreg", "slptest", "test", "reg", "slp", "cash", "ecash", "etches", "simpleledger", "bchtest", "bchreg", "bchsim", "bitcoincash", "slpsim"}
	k := c01kinds[i%6] // the six CashAddr kinds
	w := words[(i/6)%len(words)]
	var vals []byte
	for j := 0; j < len(w); j++ {
		x := strings.IndexByte(ref.CashCharset, w[j])
		if x < 0 {
			// not spellable: keep the spellable tail (e.g. "chtest" of "bchtest")
			vals = vals[:0]
			continue
		}
		vals = append(vals, byte(x))
	}
	if len(vals) < 3 {
		return
	}
	typ := byte(0)
	if strings.Contains(k.name, "P2SH") {
		typ = 8
	}
	if k.size == 32 {
		typ |= 3
	}
	h := c.R.Bytes(k.size)
	sym := ref.Pack8to5(append([]byte{typ}, h...))
	off := 2 + c.R.Intn(len(sym)-2-len(vals))
	if i%3 == 0 {
		off = 2
	}
	copy(sym[off:], vals)
	raw, err := ref.Unpack5to8(sym)
	if err != nil || len(raw) != k.size+1 || raw[0] != typ {
		c.Inc("word_construction_failed")
		return
	}
	h = raw[1:]
	if want := k.want(h, allNets[0].P); !strings.Contains(want, string(w[len(w)-len(vals):])) {
		panic("harness: constructed payload does not spell the word")
	}
	c.Inc("payloads_spelling_" + w[len(w)-len(vals):])
	c01hashOnNets(c, k, h, allNets)
}

// c01dualB58Case: cash addresses whose bare lower-case payload string is ALSO
// a valid Base58Check string (precomputed by cmd/dualb58, about 7e9 candidates
// per witness; re-verified here).  A decoder that tries the formats in another
// order, or trusts the first one that verifies, takes them for something else.
func c01dualB58Case(c *vf.Ctx, i int) {
	if len(dualB58) == 0 {
		c.Inconclusive("dual-format-table-empty")
		return
	}
	e := dualB58[i%len(dualB58)]
	h, err := hex.DecodeString(e.Hash)
	if err != nil || len(h) != 20 {
		c.Inconclusive("dual-format-table-entry-unusable")
		return
	}
	s := ref.CashEncode(e.Prefix, e.Typ, h)
	if _, _, ok := ref.B58CheckDecode(s); !ok {
		c.Inconclusive("dual-format-table-entry-not-confirmed")
		return
	}
	c.Inc("cash_addresses_that_are_also_valid_base58check")
	k := c01kinds[e.Typ] // P2PKH, P2SH
	var nets []netInfo
	for _, n := range allNets {
		if n.P.CashAddressPrefix == e.Prefix {
			nets = append(nets, n)
		}
	}
	c01hashOnNets(c, k, h, nets)
}

func c01hashOnNets(c *vf.Ctx, k c01kind, h []byte, nets []netInfo) {
	{
		for _, net := range nets {
			if k.slp && net.P.SlpAddressPrefix == "" {
				continue
			}
			var a bchutil.Address
			var err error
			site := "construct/" + k.name
			if !c.Call(site, func() string { return fmt.Sprintf("%x net=%s", h, net.Name) }, func() { a, err = k.mk(h, net.P) }) {
				continue
			}
			if err != nil || a == nil || reflect.ValueOf(a).IsNil() {
				c.Failf(site+"/error", "kind=%s net=%s hash=%x: constructor failed: %v", k.name, net.Name, h, err)
				continue
			}
			c.Nontrivial(vf.Mix(vf.HashString(k.name), vf.HashString(net.Name), vf.HashBytes(h)))
			want := k.want(h, net.P)
			var enc, str string
			c.Call("EncodeAddress/"+k.name, func() string { return fmt.Sprintf("%x", h) }, func() { enc = a.EncodeAddress(); str = a.String() })
			c.Evals(1)
			if enc != want || str != want {
				c.Failf("EncodeAddress/"+k.name+"/spec-string", "kind=%s net=%s hash=%x: EncodeAddress()=%q String()=%q, specification prescribes %q", k.name, net.Name, h, enc, str, want)
			}
			if !eqBytes(a.ScriptAddress(), h) {
				c.Failf("construct/"+k.name+"/payload", "kind=%s net=%s: ScriptAddress()=%x want %x", k.name, net.Name, a.ScriptAddress(), h)
			}
			if !k.slp && !a.IsForNet(net.P) {
				c.Failf("construct/"+k.name+"/isfornet", "kind=%s net=%s hash=%x: constructed address does not report membership of its network", k.name, net.Name, h)
			}
			// Decode the specification's string in every rendering (this is
			// also what the library must produce, checked above).
			if k.legacy {
				c01checkDecoded(c, k.name, net, "exact", want, a, want, h, true)
			} else {
				prefix := net.P.CashAddressPrefix
				if k.slp {
					prefix = net.P.SlpAddressPrefix
				}
				c01checkDecoded(c, k.name, net, "lower-bare", want, a, want, h, !k.slp)
				c01checkDecoded(c, k.name, net, "upper-bare", asciiUpper(want), a, want, h, !k.slp)
				c01checkDecoded(c, k.name, net, "lower-prefixed", prefix+":"+want, a, want, h, !k.slp)
				c01checkDecoded(c, k.name, net, "upper-prefixed", asciiUpper(prefix+":"+want), a, want, h, !k.slp)
			}
			if c.WantSample() && net.Name == "mainnet" {
				c.Sample(map[string]string{"kind": k.name, "net": net.Name, "hash": hx(h), "spec_string": want, "library_string": enc})
			}
		}
	}
}

// c01zeroRunCase: legacy addresses whose Base58 string contains ten '1'
// characters (zero digits) in the middle of the number (constructed, about
// 2e-18 per random hash): a decoder that folds digits in chunks meets an
// all-zero chunk there.
func c01zeroRunCase(c *vf.Ctx, i int) {
	net := allNets[i%len(allNets)]
	k := c01kinds[6+(i/len(allNets))%2] // LEGACY-P2PKH, LEGACY-P2SH
	ver := net.P.LegacyPubKeyHashAddrID
	if k.name == "LEGACY-P2SH" {
		ver = net.P.LegacyScriptHashAddrID
	}
	body, ok := b58ZeroRunBody(c.R, []byte{ver}, 21, 7+c.R.Intn(12), -1)
	if !ok {
		c.Inc("zero_run_construction_failed")
		return
	}
	h := body[1:]
	a, err := k.mk(h, net.P)
	if err != nil {
		c.Failf("construct/"+k.name+"/error", "hash=%x: %v", h, err)
		return
	}
	want := k.want(h, net.P)
	c.Evals(1)
	c.Inc("legacy_addresses_with_run_of_ten_zero_digits")
	c.Nontrivial(vf.Mix(9, vf.HashString(want)))
	if enc := a.EncodeAddress(); enc != want {
		c.Failf("EncodeAddress/"+k.name+"/spec-string", "kind=%s net=%s hash=%x: EncodeAddress()=%q, specification prescribes %q", k.name, net.Name, h, enc, want)
	}
	c01checkDecoded(c, k.name, net, "exact", want, a, want, h, true)
	if c.WantSample() {
		c.Sample(map[string]string{"kind": k.name, "net": net.Name, "hash": hx(h), "string_with_zero_digit_run": want})
	}
}

// c01lookalikeCase: legacy addresses whose Base58 string consists only of
// characters of the CashAddr alphabet in a single case (constructed: the
// high digits are chosen, the last six depend on the checksum and are
// searched; about 1e-9 per random hash).  Such a string passes every
// syntactic CashAddr test and fails only the CashAddr checksum; it is still
// the legacy address of its hash and must decode as such.
func c01lookalikeCase(c *vf.Ctx, i int) {
	net := allNets[i%len(allNets)]
	k := c01kinds[6+(i/len(allNets))%2] // LEGACY-P2PKH, LEGACY-P2SH
	ver := net.P.LegacyPubKeyHashAddrID
	if k.name == "LEGACY-P2SH" {
		ver = net.P.LegacyScriptHashAddrID
	}
	set := "qpzry9x8gf2tvdws3jn54khce6mua7" // CashAddr alphabet without '0' and 'l' (not Base58 digits)
	if (i/(2*len(allNets)))%2 == 1 {
		set = "QPZRY9X8GF2TVDWS3JN54KHCE6MUA7L"
	}
	in := func(s string, from int) bool {
		for j := from; j < len(s); j++ {
			if strings.IndexByte(set, s[j]) < 0 {
				return false
			}
		}
		return true
	}
	var h []byte
	var want string
	for tries := 0; tries < 20000 && h == nil; tries++ {
		s0 := ref.B58CheckEncode(ver, c.R.Bytes(20))
		t := []byte(s0)
		for j := 2; j < len(t); j++ { // the first two digits follow the version byte
			t[j] = set[c.R.Intn(len(set))]
		}
		raw, ok := ref.B58Decode(string(t))
		if !ok || len(raw) != 25 || raw[0] != ver {
			continue
		}
		w := ref.B58CheckEncode(ver, raw[1:21])
		if in(w, 2) {
			h, want = raw[1:21], w
		}
	}
	if h == nil {
		c.Inc("lookalike_construction_failed")
		return
	}
	a, err := k.mk(h, net.P)
	if err != nil {
		c.Failf("construct/"+k.name+"/error", "hash=%x: %v", h, err)
		return
	}
	c.Evals(1)
	c.Inc("legacy_addresses_of_cashaddr_characters_only_after_the_first_two")
	if in(want, 0) {
		c.Inc("legacy_addresses_of_cashaddr_characters_only")
	}
	c.Nontrivial(vf.Mix(10, vf.HashString(want)))
	if enc := a.EncodeAddress(); enc != want {
		c.Failf("EncodeAddress/"+k.name+"/spec-string", "kind=%s net=%s hash=%x: EncodeAddress()=%q, specification prescribes %q", k.name, net.Name, h, enc, want)
	}
	c01checkDecoded(c, k.name, net, "exact", want, a, want, h, true)
	if c.WantSample() {
		c.Sample(map[string]string{"kind": k.name, "net": net.Name, "hash": hx(h), "string_of_cashaddr_characters": want})
	}
}

// ---- stream first-use-concurrent ------------------------------------------
// The address codec's very first calls in a fresh child process, from 16
// goroutines at the same instant (see c17firstUseInit for the rationale).

type c01firstUse struct {
	kind, net int
	h         []byte
	enc, dec  string
	err       string
}

func c01firstUseInit(t vf.Tier, seed uint64) any {
	const G = 16
	out := make([][]c01firstUse, G)
	var wg sync.WaitGroup
	start := make(chan struct{})
	for g := 0; g < G; g++ {
		wg.Add(1)
		go func(g int) {
			defer wg.Done()
			defer func() { recover() }()
			r := vf.NewRand(vf.Mix(seed, 0xf01, uint64(g)))
			<-start
			for k := 0; k < 16; k++ {
				ki := (k + g) % len(c01kinds)
				ni := (k*5 + g) % len(allNets)
				kd, net := c01kinds[ki], allNets[ni]
				if kd.slp && net.P.SlpAddressPrefix == "" {
					continue
				}
				h := r.Bytes(kd.size)
				e := c01firstUse{kind: ki, net: ni, h: h}
				a, err := kd.mk(h, net.P)
				if err != nil {
					e.err = "construct: " + err.Error()
				} else {
					e.enc = a.EncodeAddress()
					d, err := bchutil.DecodeAddress(e.enc, net.P)
					if err != nil {
						e.err = "decode: " + err.Error()
					} else {
						e.dec = d.EncodeAddress() + "|" + hx(d.ScriptAddress())
					}
				}
				out[g] = append(out[g], e)
			}
		}(g)
	}
	close(start)
	wg.Wait()
	var all []c01firstUse
	for _, o := range out {
		all = append(all, o...)
	}
	return all
}

func c01firstUseCase(c *vf.Ctx, i int) {
	all, _ := c.Shared.([]c01firstUse)
	if len(all) == 0 {
		c.Inconclusive("first-use-results-missing")
		return
	}
	for _, e := range all {
		c.Evals(1)
		kd, net := c01kinds[e.kind], allNets[e.net]
		want := kd.want(e.h, net.P)
		if e.err != "" || e.enc != want || e.dec != want+"|"+hx(e.h) {
			c.Failf("first-use/"+kd.name, "first calls in a fresh process, 16 goroutines at once: kind=%s net=%s hash=%x: error %q, EncodeAddress()=%q (specification: %q), decoded back to %q", kd.name, net.Name, e.h, e.err, e.enc, want, e.dec)
		}
	}
	c.Count("first_use_results_judged", int64(len(all)))
	c.Nontrivial(vf.Mix(0xf01, uint64(i), c.Seed))
}

func c01scriptCase(c *vf.Ctx, i int) {
	var script []byte
	if i <= 520 {
		script = c.R.Bytes(i)
	} else {
		script = c.R.Bytes(c.R.Intn(2000))
	}
	h160 := ref.Hash160(script)
	h256 := ref.Sha256d(script)
	net := allNets[i%len(allNets)]
	in := func() string { return fmt.Sprintf("script=%x net=%s", script, net.Name) }
	c.Nontrivial(vf.Mix(1, vf.HashBytes(script)))
	c.Call("NewAddressScriptHash", in, func() {
		a, err := bchutil.NewAddressScriptHash(script, net.P)
		c.Evals(1)
		if err != nil || !eqBytes(a.ScriptAddress(), h160) {
			c.Failf("NewAddressScriptHash/hash", "%s: ScriptAddress()=%x err=%v, RIPEMD160(SHA256(script))=%x", in(), a.ScriptAddress(), err, h160)
		} else if want := ref.CashEncode(net.P.CashAddressPrefix, ref.CashTypeP2SH, h160); a.EncodeAddress() != want {
			c.Failf("NewAddressScriptHash/string", "%s: %q want %q", in(), a.EncodeAddress(), want)
		}
	})
	c.Call("NewAddressScriptHash32", in, func() {
		a, err := bchutil.NewAddressScriptHash32(script, net.P)
		c.Evals(1)
		if err != nil || !eqBytes(a.ScriptAddress(), h256[:]) {
			c.Failf("NewAddressScriptHash32/hash", "%s: ScriptAddress()=%x err=%v, SHA256(SHA256(script))=%x", in(), a.ScriptAddress(), err, h256)
		} else if want := ref.CashEncode(net.P.CashAddressPrefix, ref.CashTypeP2SH, h256[:]); a.EncodeAddress() != want {
			c.Failf("EncodeAddress/P2SH32/spec-string", "%s: %q want %q", in(), a.EncodeAddress(), want)
		}
	})
	c.Call("NewLegacyAddressScriptHash", in, func() {
		a, err := bchutil.NewLegacyAddressScriptHash(script, net.P)
		c.Evals(1)
		if err != nil || !eqBytes(a.ScriptAddress(), h160) {
			c.Failf("NewLegacyAddressScriptHash/hash", "%s: ScriptAddress()=%x err=%v want %x", in(), a.ScriptAddress(), err, h160)
		} else if want := ref.B58CheckEncode(net.P.LegacyScriptHashAddrID, h160); a.EncodeAddress() != want {
			c.Failf("NewLegacyAddressScriptHash/string", "%s: %q want %q", in(), a.EncodeAddress(), want)
		}
	})
	// Hash160 / Hash256 helpers
	c.Call("Hash160", in, func() {
		if !eqBytes(bchutil.Hash160(script), h160) {
			c.Failf("Hash160/value", "%s", in())
		}
		if !eqBytes(bchutil.Hash256(script), h256[:]) {
			c.Failf("Hash256/value", "%s", in())
		}
	})
}

func c01scalar(c *vf.Ctx, i int) *big.Int {
	nm1 := new(big.Int).Sub(ref.SecN, big.NewInt(1))
	switch {
	case i < 16:
		return big.NewInt(int64(i + 1))
	case i < 32:
		return new(big.Int).Sub(ref.SecN, big.NewInt(int64(i-15)))
	case i < 64: // leading zero bytes
		b := c.R.Bytes(32)
		for j := 0; j < i-32 && j < 31; j++ {
			b[j] = 0
		}
		if b[31] == 0 {
			b[31] = 1
		}
		return new(big.Int).SetBytes(b)
	case i < 66: // 1/2 and -1/2 mod n: public points with a 166-bit x coordinate
		return specialScalar(i)
	}
	k := new(big.Int).SetBytes(c.R.Bytes(32))
	k.Mod(k, nm1)
	return k.Add(k, big.NewInt(1))
}

// c01charsetPoint returns a curve point whose compressed hex form consists
// only of characters of the CashAddr alphabet (no 'b', no '1'), so that
// DecodeAddress first takes it for a cash address with a bad checksum (a rare,
// data-dependent path: about 1.5e-4 of random keys).
func c01charsetPoint(r *vf.Rand) ref.Point {
	const nib = "\x00\x02\x03\x04\x05\x06\x07\x08\x09\x0a\x0c\x0d\x0e\x0f"
	for {
		x := make([]byte, 32)
		for j := range x {
			x[j] = nib[r.Intn(14)]<<4 | nib[r.Intn(14)]
		}
		if p, err := ref.LiftX(new(big.Int).SetBytes(x), r.Bool()); err == nil {
			return p
		}
	}
}

// c01dualValid constructs compressed public keys whose 66-character hex form
// is at the same time a CashAddr payload with a VALID checksum under the given
// prefix (and zero padding bits): the decoder's cash-address attempt then fails
// for the length, not for the checksum.  The checksum is affine over GF(2) in
// the symbols, so a meet-in-the-middle over the two halves of x finds such
// strings in about a second (random probability below 1e-16).
func c01dualValid(prefix string, seed uint64, want int) []ref.Point {
	const hexOK = "023456789acdef" // hex digits that are CashAddr characters
	sym := func(ch byte) byte { return byte(strings.IndexByte(ref.CashCharset, ch)) }
	pre := ref.CashPrefixExpand(prefix)
	base := make([]byte, len(pre)+66)
	copy(base, pre)
	f0 := ref.CashPolymod(base)
	contrib := func(pos int, ch byte) uint64 {
		v := append([]byte{}, base...)
		v[len(pre)+pos] = sym(ch)
		return ref.CashPolymod(v) ^ f0
	}
	var tab [66][14]uint64
	for p := 0; p < 66; p++ {
		for k := 0; k < 14; k++ {
			tab[p][k] = contrib(p, hexOK[k])
		}
	}
	r := vf.NewRand(vf.Mix(seed, vf.HashString(prefix), 0xd0a1))
	var out []ref.Point
	for attempt := 0; attempt < 6 && len(out) < want; attempt++ {
		odd := r.Bool()
		head := f0 ^ contrib(0, '0') ^ contrib(1, '2')
		if odd {
			head = f0 ^ contrib(0, '0') ^ contrib(1, '3')
		}
		left := map[uint64][32]byte{}
		for n := 0; n < 1<<20; n++ {
			var a [32]byte
			var syn uint64
			for j := 0; j < 32; j++ {
				a[j] = byte(r.Intn(14))
				syn ^= tab[2+j][a[j]]
			}
			left[syn] = a
		}
		for n := 0; n < 1<<21 && len(out) < want; n++ {
			var b [32]byte
			syn := head
			for j := 0; j < 32; j++ {
				b[j] = byte(r.Intn(14))
				if j == 31 { // last symbol: the two padding bits must be zero
					for sym(hexOK[b[j]])&3 != 0 {
						b[j] = byte(r.Intn(14))
					}
				}
				syn ^= tab[34+j][b[j]]
			}
			a, ok := left[syn]
			if !ok {
				continue
			}
			hexs := make([]byte, 64)
			for j := 0; j < 32; j++ {
				hexs[j], hexs[32+j] = hexOK[a[j]], hexOK[b[j]]
			}
			xb, _ := hex.DecodeString(string(hexs))
			if pt, err := ref.LiftX(new(big.Int).SetBytes(xb), odd); err == nil {
				out = append(out, pt)
			}
		}
	}
	return out
}

type c01dual struct {
	byPrefix map[string][]ref.Point
}

func c01dualInit(t vf.Tier, seed uint64) any {
	d := &c01dual{byPrefix: map[string][]ref.Point{}}
	for _, n := range allNets {
		if _, ok := d.byPrefix[n.P.CashAddressPrefix]; !ok {
			d.byPrefix[n.P.CashAddressPrefix] = c01dualValid(n.P.CashAddressPrefix, seed, 3)
		}
	}
	return d
}

func c01pubkeyDualCase(c *vf.Ctx, i int) {
	d := c.Shared.(*c01dual)
	net := allNets[i%len(allNets)]
	pts := d.byPrefix[net.P.CashAddressPrefix]
	if len(pts) == 0 {
		c.Inconclusive("no-dual-valid-key-constructed")
		return
	}
	p := pts[(i/len(allNets))%len(pts)]
	// sanity: the hex really is a checksum-valid cash payload for this prefix
	hexs := hx(p.Compressed())
	symb := make([]byte, 66)
	for j := range symb {
		symb[j] = byte(strings.IndexByte(ref.CashCharset, hexs[j]))
	}
	if ref.CashPolymod(append(ref.CashPrefixExpand(net.P.CashAddressPrefix), symb...)) != 0 {
		c.Inconclusive("dual-valid-construction-wrong")
		return
	}
	c.Inc("pubkeys_whose_hex_is_a_checksum_valid_cashaddr_payload")
	c01pubkeyPoint(c, p, "dual-valid")
}

func c01pubkeyCharsetCase(c *vf.Ctx, i int) {
	p := c01charsetPoint(c.R)
	c.Inc("pubkeys_with_hex_inside_cashaddr_charset")
	c01pubkeyPoint(c, p, "charset-x")
}

func c01pubkeyCase(c *vf.Ctx, i int) {
	k := c01scalar(c, i)
	p := ref.BaseMul(k)
	c01pubkeyPoint(c, p, k.Text(16))
}

func c01pubkeyPoint(c *vf.Ctx, p ref.Point, label string) {
	sers := []struct {
		name string
		b    []byte
		f    bchutil.PubKeyFormat
	}{{"compressed", p.Compressed(), bchutil.PKFCompressed}, {"uncompressed", p.Uncompressed(), bchutil.PKFUncompressed}, {"hybrid", p.Hybrid(), bchutil.PKFHybrid}}
	if p.X.Bit(255) == 0 && p.X.BitLen() <= 248 {
		c.Inc("pubkeys_with_leading_zero_x")
	}
	for _, s := range sers {
		for _, net := range allNets {
			in := func() string { return fmt.Sprintf("pubkey=%x net=%s", s.b, net.Name) }
			var a *bchutil.AddressPubKey
			var err error
			if !c.Call("NewAddressPubKey", in, func() { a, err = bchutil.NewAddressPubKey(s.b, net.P) }) {
				continue
			}
			c.Evals(1)
			if err != nil {
				c.Failf("NewAddressPubKey/rejected", "%s (%s): %v", in(), s.name, err)
				continue
			}
			c.Nontrivial(vf.Mix(2, vf.HashBytes(s.b), vf.HashString(net.Name)))
			wantStr := hx(s.b)
			wantEnc := ref.B58CheckEncode(net.P.LegacyPubKeyHashAddrID, ref.Hash160(s.b))
			if a.String() != wantStr {
				c.Failf("AddressPubKey/String", "%s (%s): String()=%q want %q", in(), s.name, a.String(), wantStr)
			}
			if a.Format() != s.f {
				c.Failf("AddressPubKey/Format", "%s (%s): Format()=%d want %d", in(), s.name, a.Format(), s.f)
			}
			if a.EncodeAddress() != wantEnc {
				c.Failf("AddressPubKey/EncodeAddress", "%s (%s): EncodeAddress()=%q want %q", in(), s.name, a.EncodeAddress(), wantEnc)
			}
			if !eqBytes(a.ScriptAddress(), s.b) {
				c.Failf("AddressPubKey/ScriptAddress", "%s (%s): ScriptAddress()=%x", in(), s.name, a.ScriptAddress())
			}
			if !a.IsForNet(net.P) {
				c.Failf("AddressPubKey/isfornet", "%s (%s)", in(), s.name)
			}
			for _, r := range []struct{ name, s string }{{"lower-hex", wantStr}, {"upper-hex", asciiUpper(wantStr)}} {
				var got bchutil.Address
				if !c.Call("DecodeAddress/pubkey", func() string { return r.s }, func() { got, err = bchutil.DecodeAddress(r.s, net.P) }) {
					continue
				}
				c.Evals(1)
				if err != nil {
					c.Failf("DecodeAddress/pubkey/rejected", "%s rendering=%s: DecodeAddress(%q): %v", in(), r.name, r.s, err)
					continue
				}
				pk, ok := got.(*bchutil.AddressPubKey)
				if !ok {
					c.Failf("DecodeAddress/pubkey/kind", "%s rendering=%s: got %T", in(), r.name, got)
					continue
				}
				if !eqBytes(pk.ScriptAddress(), s.b) || pk.String() != wantStr || pk.EncodeAddress() != wantEnc || pk.Format() != s.f {
					c.Failf("DecodeAddress/pubkey/roundtrip", "%s rendering=%s: decoded to %s format %d encode %s", in(), r.name, pk.String(), pk.Format(), pk.EncodeAddress())
				}
				if !pk.IsForNet(net.P) {
					c.Failf("DecodeAddress/pubkey/isfornet", "%s rendering=%s", in(), r.name)
				}
			}
		}
	}
	if c.WantSample() {
		c.Sample(map[string]string{"scalar": label, "compressed": hx(p.Compressed())})
	}
}

func init() {
	register(&vf.Property{
		ID:    "C01",
		Title: "Every constructible address survives encode -> decode unchanged",
		Rule: "stream hashes: directed hashes (all-zero, all-ones, 1..n-1 leading zero bytes, every single set bit, every single clear bit) then seeded random hashes, each under all 8 hash kinds x 6 nets x 4 renderings; " +
			"stream pubkeys-dual-valid: public keys constructed (meet in the middle on the affine checksum) so that their hex is also a checksum-valid CashAddr payload of the net; stream legacy-zero-digit-runs: legacy addresses constructed so that their Base58 string has ten zero digits in the middle; stream payload-spells-words: hashes constructed so that the CashAddr payload string contains a network prefix or its spellable tail (slpreg, slptest, chtest, ...) at the start or anywhere; stream legacy-cashaddr-lookalikes: legacy addresses constructed so that their Base58 string consists of CashAddr-alphabet characters in one case only; stream scripts: script lengths 0..520 then random; stream pubkeys: scalars 1..16, n-16..n-1, leading-zero scalars, random, x 3 serialisations x 6 nets x 2 hex cases; stream pubkeys-cashaddr-charset: points whose compressed hex lies inside the CashAddr alphabet (the decoder first tries them as cash addresses). " +
			"A case is non-trivial and distinct per (kind, net, payload).",
		Assumptions: []string{
			"reference CashAddr / Base58Check encoders written from the specifications (self-tested on the specifications' vectors on every run)",
			"crypto/sha256, x/crypto/ripemd160 and math/big are correct",
			"P2SH32 is CashAddr type 1 with size code 3 (version byte 0x0b) as the CashAddr specification prescribes",
		},
		SelfTest: func() error {
			for _, f := range []func() error{ref.SelfTestCashAddr, ref.SelfTestBase58, ref.SelfTestSecp} {
				if err := f(); err != nil {
					return err
				}
			}
			return nil
		},
		Streams: []*vf.Stream{
			{Name: "hashes", N: func(t vf.Tier) int { return directedHashCount(32) + t.Sz(20000, 300000) }, Run: c01hashCase},
			{Name: "scripts", N: func(t vf.Tier) int { return 521 + t.Sz(5000, 100000) }, Run: c01scriptCase},
			{Name: "pubkeys", N: func(t vf.Tier) int { return 66 + t.Sz(2000, 30000) }, Run: c01pubkeyCase},
			{Name: "pubkeys-dual-valid", Init: c01dualInit, N: func(t vf.Tier) int { return t.Sz(36, 72) }, Run: c01pubkeyDualCase},
			{Name: "legacy-zero-digit-runs", N: func(t vf.Tier) int { return t.Sz(600, 12000) }, Run: c01zeroRunCase},
			{Name: "first-use-concurrent", Workers: 1, Shards: 8, Init: c01firstUseInit, N: func(t vf.Tier) int { return 8 }, Run: c01firstUseCase},
			{Name: "cashaddr-also-base58check", N: func(t vf.Tier) int { return t.Sz(8, 32) }, Run: c01dualB58Case},
			{Name: "payload-spells-words", N: func(t vf.Tier) int { return t.Sz(6*14*6, 6*14*60) }, Run: c01wordCase},
			{Name: "legacy-cashaddr-lookalikes", N: func(t vf.Tier) int { return t.Sz(480, 9600) }, Run: c01lookalikeCase},
			{Name: "pubkeys-cashaddr-charset", N: func(t vf.Tier) int { return t.Sz(400, 6000) }, Run: c01pubkeyCharsetCase},
		},
	})
}
