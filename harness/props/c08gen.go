package props

import (
	"bytes"
	"encoding/binary"
	"fmt"
	"math/big"
	"strings"

	"github.com/gcash/bchd/chaincfg/chainhash"
	"github.com/gcash/bchd/wire"

	"verif/internal/ref"
	"verif/internal/vf"
)

// Generators of hostile inputs for C08.  "Structure-aware": most inputs pass
// the outer validation layer (valid checksum, valid framing) and carry
// degenerate inner content.

var c08knownPrefixes = []string{"bitcoincash", "bchtest", "bchreg", "bchsim", "simpleledger", "slptest", "slpreg", "bchdev", "simpleledgerdevelopment", "bitcoincashdevelopmentnetwork", "s", "p"}

func c08randPrefix(r *vf.Rand) string {
	switch r.Intn(4) {
	case 0, 1:
		return c08knownPrefixes[r.Intn(len(c08knownPrefixes))]
	case 2:
		n := 1 + r.Intn(12)
		b := make([]byte, n)
		for i := range b {
			b[i] = byte('a' + r.Intn(26))
		}
		return string(b)
	}
	return []string{"p", "bitcoincashx", "bch", "q", "simpleledge"}[r.Intn(5)]
}

func c08symString(sym []byte) string {
	b := make([]byte, len(sym))
	for i, s := range sym {
		b[i] = ref.CashCharset[s&31]
	}
	return string(b)
}

// c08validCash returns a string with a VALID CashAddr checksum over an
// arbitrary symbol list of the given length.
func c08validCash(r *vf.Rand, prefix string, nsym int) (bare string) {
	sym := make([]byte, nsym)
	for i := range sym {
		sym[i] = byte(r.Intn(32))
	}
	if nsym > 0 && r.Bool() {
		// plausible version symbol
		sym[0] = []byte{0, 1, 2, 3, 31, 16}[r.Intn(6)]
	}
	return ref.CashEncodeSymbols(prefix, sym)
}

// c08solveShort finds a prefix (letters p..w) such that "prefix:" followed by
// the k (< 8) given symbols has a valid checksum although fewer than the 8
// checksum symbols are present.  The remainder is affine over GF(2) in the 3
// free bits of each prefix letter, so the prefix is found by elimination.
func c08solveShort(r *vf.Rand, symbols []byte) (string, bool) {
	m := 14 + r.Intn(6) // 42..57 free bits for 40 equations
	base := make([]byte, m)
	for i := range base {
		base[i] = 'p'
	}
	eval := func(p []byte) uint64 {
		v := make([]byte, 0, m+1+len(symbols))
		for _, c := range p {
			v = append(v, c&31)
		}
		v = append(v, 0)
		v = append(v, symbols...)
		return ref.CashPolymod(v)
	}
	f0 := eval(base)
	nvar := 3 * m
	// columns
	cols := make([]uint64, nvar)
	for j := 0; j < nvar; j++ {
		p := append([]byte{}, base...)
		p[j/3] |= 1 << uint(j%3)
		cols[j] = eval(p) ^ f0
	}
	// solve sum x_j cols[j] = f0 ; randomise variable order for diversity
	order := r.Perm(nvar)
	type row struct {
		vec  uint64 // combination of columns (40-bit value)
		comb []uint64
	}
	// Gaussian elimination on the 40 equations: build basis of column space
	words := (nvar + 63) / 64
	var basisVec [40]uint64
	var basisComb [40][]uint64
	var have [40]bool
	for _, j := range order {
		v := cols[j]
		comb := make([]uint64, words)
		comb[j/64] |= 1 << uint(j%64)
		for b := 39; b >= 0 && v != 0; b-- {
			if v>>uint(b)&1 == 0 {
				continue
			}
			if !have[b] {
				have[b] = true
				basisVec[b] = v
				basisComb[b] = comb
				v = 0
				break
			}
			v ^= basisVec[b]
			for w := range comb {
				comb[w] ^= basisComb[b][w]
			}
		}
	}
	// express f0
	v := f0
	sol := make([]uint64, words)
	for b := 39; b >= 0 && v != 0; b-- {
		if v>>uint(b)&1 == 0 {
			continue
		}
		if !have[b] {
			return "", false
		}
		v ^= basisVec[b]
		for w := range sol {
			sol[w] ^= basisComb[b][w]
		}
	}
	p := append([]byte{}, base...)
	for j := 0; j < nvar; j++ {
		if sol[j/64]>>uint(j%64)&1 == 1 {
			p[j/3] |= 1 << uint(j%3)
		}
	}
	if eval(p) != 0 {
		return "", false
	}
	return string(p), true
}

var c08confusables = []string{"K", "ſ", "İ", "ı", "\x00", "\xff", "é", " "}

var c08directedStrings = []string{"", ":", "a", "a:", ":a", "::", "bitcoincash", "bitcoincash:", "bitcoincash::", "BITCOINCASH:", "bchtest:", "simpleledger:",
	"bitcoincash:q", "bitcoincash:qqqqqqqq", "1", "11", "1111", "z", "0", "O", "bc1", "1qqqqqq", "a1qqqqqq", "A12UEL5L", "a12uel5l", "xprv", "xpub",
	"bitcoincash:K", "K", "bitcoincas", "bitcoincashq", "bchsim:", "bchreg:", ":q", "q:", "p:", "Q:Q", "1:1"}

func c08junk(r *vf.Rand, n int, mode int) string {
	b := make([]byte, n)
	for i := range b {
		switch mode {
		case 0:
			b[i] = byte(32 + r.Intn(95))
		case 1:
			b[i] = byte(r.Intn(256))
		case 2:
			b[i] = ref.B58Alphabet[r.Intn(58)]
		case 3:
			b[i] = ref.CashCharset[r.Intn(32)]
		default:
			b[i] = "0123456789abcdefABCDEF"[r.Intn(22)]
		}
	}
	return string(b)
}

// c08hostileString returns a hostile string and the name of its class.
func c08hostileString(r *vf.Rand, i int) (string, string) {
	if i < len(c08directedStrings) {
		return c08directedStrings[i], "directed"
	}
	render := func(prefix, bare string) string {
		switch r.Intn(6) {
		case 0:
			return bare
		case 1:
			return asciiUpper(bare)
		case 2:
			return prefix + ":" + bare
		case 3:
			return asciiUpper(prefix + ":" + bare)
		case 4: // mixed case
			b := []byte(prefix + ":" + bare)
			for k := range b {
				if r.Bool() && b[k] >= 'a' && b[k] <= 'z' {
					b[k] -= 32
				}
			}
			return string(b)
		}
		return asciiUpper(prefix) + ":" + bare
	}
	switch i % 9 {
	case 0: // valid checksum over an arbitrary symbol list
		prefix := c08randPrefix(r)
		n := r.Intn(121)
		if r.Chance(1, 3) {
			n = r.Intn(12)
		}
		return render(prefix, c08validCash(r, prefix, n)), "cashaddr-valid-checksum-arbitrary-symbols"
	case 1: // valid checksum over fewer than 8 symbols (prefix solved for)
		k := r.Intn(8)
		sym := make([]byte, k)
		for j := range sym {
			sym[j] = byte(r.Intn(32))
		}
		if p, ok := c08solveShort(r, sym); ok {
			s := p + ":" + c08symString(sym)
			if r.Bool() {
				s = asciiUpper(s)
			}
			return s, "cashaddr-valid-checksum-under-8-symbols"
		}
		return c08junk(r, r.Intn(40), 3), "cashaddr-junk"
	case 2: // mutations of a valid address
		prefix := c08knownPrefixes[r.Intn(len(c08knownPrefixes))]
		hb := []int{20, 32, 24}[r.Intn(3)]
		bare := ref.CashEncode(prefix, r.Intn(2), r.Bytes(hb))
		s := render(prefix, bare)
		if len(s) == 0 {
			return s, "cashaddr-mutated"
		}
		switch r.Intn(7) {
		case 0:
			s = s[:r.Intn(len(s))]
		case 1:
			k := r.Intn(len(s))
			s = s[:k] + s[k+1:]
		case 2:
			k := r.Intn(len(s))
			s = s[:k] + s[k:k+1] + s[k:]
		case 3:
			k := r.Intn(len(s) + 1)
			s = s[:k] + ":" + s[k:]
		case 4:
			k := r.Intn(len(s))
			s = s[:k] + c08confusables[r.Intn(len(c08confusables))] + s[k+1:]
		case 5:
			k := r.Intn(len(s))
			s = s[k:]
		case 6:
			s = s + s
		}
		return s, "cashaddr-mutated"
	case 3: // public-key shaped hex
		n := []int{66, 130, 64, 68, 128, 132}[r.Intn(6)]
		var b []byte
		switch r.Intn(3) {
		case 0:
			b = r.Bytes(n / 2)
			b[0] = byte(r.Intn(9))
		case 1:
			p := ref.BaseMul(new(big.Int).SetBytes(r.Bytes(32)))
			if p.Inf {
				p = ref.SecG()
			}
			if n >= 128 {
				b = p.Uncompressed()
				b[0] = []byte{4, 5, 6, 7, 0, 2}[r.Intn(6)]
			} else {
				b = p.Compressed()
			}
		default:
			return c08junk(r, n, 4), "hex-junk"
		}
		s := hx(b)
		if len(s) > n {
			s = s[:n]
		}
		if r.Bool() {
			s = asciiUpper(s)
		}
		return s, "pubkey-hex"
	case 4: // Base58Check with a valid checksum over arbitrary versions / lengths
		if r.Chance(1, 8) {
			// fewer than the 5 bytes (version + checksum) a Base58Check string needs,
			// but with a "checksum" that verifies over the shorter prefix
			d := r.Bytes(r.Intn(4))
			if r.Bool() {
				d = d[:0]
			}
			ck := ref.Sha256d(d)
			return strings.Repeat("1", r.Intn(3)) + ref.B58Encode(append(d, ck[:4]...)), "base58check-short-valid-checksum"
		}
		n := r.Intn(81)
		switch r.Intn(4) {
		case 0:
			n = []int{20, 32, 33, 31, 34}[r.Intn(5)]
		case 1:
			n = 77 // extended-key sized payload (78 with the version byte)
		}
		pl := r.Bytes(n)
		if r.Chance(1, 4) {
			for k := range pl {
				pl[k] = 0
			}
		}
		ver := byte(r.Intn(256))
		if r.Bool() {
			ver = []byte{0, 5, 0x6f, 0xc4, 0x80, 0xef, 0x04, 0x3f, 0x7b, 0x64}[r.Intn(10)]
		}
		s := ref.B58CheckEncode(ver, pl)
		if n == 77 && r.Bool() {
			// looks like an extended key: known version, key byte 0/2/3
			raw := append([]byte{0x04, 0x88, byte(0xad + r.Intn(2)*5), byte(0xe4 - r.Intn(2)*0xc6)}, r.Bytes(74)...)
			raw[45] = []byte{0, 2, 3, 4, 1}[r.Intn(5)]
			c := ref.Sha256d(raw)
			s = ref.B58Encode(append(raw, c[:4]...))
		}
		return s, "base58check-valid-checksum"
	case 5: // junk of every flavour
		return c08junk(r, r.SkewLen(200), r.Intn(5)), "junk"
	case 6: // bech32
		hrp := c08junk(r, 1+r.Intn(10), 3)
		n := r.Intn(70)
		d := make([]byte, n)
		for k := range d {
			d[k] = byte(r.Intn(32))
		}
		s := ref.Bech32Encode(hrp, d)
		switch r.Intn(4) {
		case 0:
			s = asciiUpper(s)
		case 1:
			if len(s) > 0 {
				s = s[:r.Intn(len(s))]
			}
		case 2:
			s = strings.Replace(s, "1", "", 1)
		}
		return s, "bech32"
	case 7: // boundary lengths around "prefix:" for DecodeAddress slicing
		p := c08knownPrefixes[r.Intn(len(c08knownPrefixes))]
		n := len(p) + r.Intn(4) - 1
		if n < 0 {
			n = 0
		}
		return c08junk(r, n, r.Intn(5)), "prefix-boundary-length"
	default: // valid WIF-shaped and multi-byte strings
		s := "bitcoincash:" + c08confusables[r.Intn(len(c08confusables))] + c08junk(r, r.Intn(50), 3)
		return s, "non-ascii"
	}
}

// --- transactions and blocks

func c08hostileScript(r *vf.Rand) []byte {
	switch r.Intn(12) {
	case 10, 11:
		// a standard script form with bytes removed from (or added in) the MIDDLE:
		// the leading and trailing opcodes that recognise the form are intact, its
		// length is not what the form implies
		var t []byte
		switch r.Intn(5) {
		case 0, 1:
			t = append(append([]byte{0x76, 0xa9, 0x14}, r.Bytes(20)...), 0x88, 0xac)
		case 2:
			t = append(append([]byte{0xa9, 0x14}, r.Bytes(20)...), 0x87)
		case 3:
			t = append(append([]byte{0x21, 0x02}, r.Bytes(32)...), 0xac)
		default:
			t = append(append([]byte{0xaa, 0x20}, r.Bytes(32)...), 0x87)
		}
		head, tail := 1+r.Intn(3), 1+r.Intn(2)
		if head+tail > len(t) {
			return t
		}
		mid := t[head : len(t)-tail]
		switch r.Intn(3) {
		case 0:
			mid = mid[:r.Intn(len(mid)+1)]
		case 1:
			mid = nil
		default:
			mid = append(append([]byte{}, mid...), r.Bytes(1+r.Intn(4))...)
		}
		return append(append(append([]byte{}, t[:head]...), mid...), t[len(t)-tail:]...)
	case 0:
		return nil
	case 1:
		return []byte{}
	case 2: // truncated direct push
		n := 1 + r.Intn(75)
		return append([]byte{byte(n)}, r.Bytes(r.Intn(n))...)
	case 3: // OP_PUSHDATA1 with short body
		return append([]byte{0x4c, byte(r.Intn(256))}, r.Bytes(r.Intn(8))...)
	case 4: // OP_PUSHDATA2
		return append([]byte{0x4d, 0xff, 0xff}, r.Bytes(r.Intn(8))...)
	case 5: // OP_PUSHDATA4 with a huge declared length
		return append([]byte{0x4e, 0xff, 0xff, 0xff, byte(0x7f + r.Intn(2)*0x80)}, r.Bytes(r.Intn(8))...)
	case 6: // many OP_0 pushes
		return bytes.Repeat([]byte{0x00}, r.Intn(40))
	case 7: // standard looking P2PKH
		return append(append([]byte{0x76, 0xa9, 0x14}, r.Bytes(20)...), 0x88, 0xac)
	case 8: // P2PK
		return append(append([]byte{0x21, 0x02}, r.Bytes(32)...), 0xac)
	}
	return r.Bytes(r.Intn(60))
}

func c08tx(r *vf.Rand, hostileScripts bool) *wire.MsgTx {
	tx := wire.NewMsgTx(int32(r.Uint32()))
	nin, nout := r.Intn(4), r.Intn(4)
	for i := 0; i < nin; i++ {
		var h chainhash.Hash
		copy(h[:], r.Bytes(32))
		var s []byte
		if hostileScripts {
			s = c08hostileScript(r)
		} else {
			s = r.Bytes(r.Intn(30))
		}
		in := wire.NewTxIn(wire.NewOutPoint(&h, r.Uint32()), s)
		in.Sequence = r.Uint32()
		tx.AddTxIn(in)
	}
	for i := 0; i < nout; i++ {
		var s []byte
		if hostileScripts {
			s = c08hostileScript(r)
		} else {
			s = r.Bytes(r.Intn(30))
		}
		tx.AddTxOut(wire.NewTxOut(int64(r.Uint64()>>1), s, wire.TokenData{}))
	}
	tx.LockTime = r.Uint32()
	return tx
}

func c08serializeTx(tx *wire.MsgTx) []byte {
	var buf bytes.Buffer
	tx.Serialize(&buf)
	return buf.Bytes()
}

func c08block(r *vf.Rand) []byte {
	var hdr wire.BlockHeader
	hdr.Version = int32(r.Uint32())
	copy(hdr.PrevBlock[:], r.Bytes(32))
	copy(hdr.MerkleRoot[:], r.Bytes(32))
	hdr.Bits = r.Uint32()
	hdr.Nonce = r.Uint32()
	blk := wire.NewMsgBlock(&hdr)
	n := r.Intn(6)
	for i := 0; i < n; i++ {
		blk.AddTransaction(c08tx(r, r.Bool()))
	}
	var buf bytes.Buffer
	blk.Serialize(&buf)
	return buf.Bytes()
}

// c08mutateBytes applies one structure-hostile mutation.
func c08mutateBytes(r *vf.Rand, b []byte, giant bool) ([]byte, string) {
	out := append([]byte{}, b...)
	if len(out) == 0 {
		return out, "empty"
	}
	switch r.Intn(8) {
	case 0:
		return out[:r.Intn(len(out))], "truncated"
	case 1:
		k := r.Intn(len(out))
		out[k] ^= 1 << uint(r.Intn(8))
		return out, "bitflip"
	case 2: // 0xff-prefixed maximal varint spliced in
		k := r.Intn(len(out))
		return append(append(append([]byte{}, out[:k]...), 0xff, 0xff, 0xff, 0xff, 0xff, 0xff, 0xff, 0xff, 0xff), out[k:]...), "varint-ff-inserted"
	case 3: // overwrite with a large varint claim
		k := r.Intn(len(out))
		claim := [][]byte{{0xfd, 0xff, 0xff}, {0xfd, 0x00, 0x10}, {0xfe, 0x00, 0x00, 0x02, 0x00}, {0xfd, 0xff, 0x7f}, {0xfe, 0xff, 0xff, 0xff, 0xff}, {0xff, 0, 0, 0, 0, 1, 0, 0, 0}}[r.Intn(6)]
		if r.Chance(1, 12) {
			claim = [][]byte{{0xfe, 0x00, 0x00, 0x10, 0x00}, {0xfe, 0x40, 0x42, 0x0f, 0x00}}[r.Intn(2)]
			if giant && r.Chance(1, 4) {
				claim = []byte{0xfe, 0x00, 0x00, 0x00, 0x02} // 2^25 elements: gigabytes in bchd/wire (known finding); thorough tier only
			}
		}
		out = append(out[:k], claim...)
		return out, "varint-claim-then-eof"
	case 4:
		k := r.Intn(len(out))
		claim := [][]byte{{0xfe, 0xff, 0xff, 0xff, 0xff}, {0xfd, 0x00, 0x10}, {0xfd, 0xff, 0xff}, {0xfe, 0x00, 0x00, 0x02, 0x00}}[r.Intn(4)]
		if r.Chance(1, 12) {
			claim = [][]byte{{0xfe, 0x00, 0x00, 0x10, 0x00}, {0xfe, 0x40, 0x42, 0x0f, 0x00}}[r.Intn(2)]
		}
		rest := out[min(len(out), k+len(claim)):]
		out = append(append(append([]byte{}, out[:k]...), claim...), rest...)
		return out, "varint-claim-overwrite"
	case 5:
		return append(out, r.Bytes(r.Intn(20))...), "trailing-junk"
	case 6:
		k := r.Intn(len(out))
		out[k] = byte(r.Intn(256))
		return out, "byte-replaced"
	}
	return out, "valid"
}

// --- merkle block messages

func c08merkleMsg(r *vf.Rand) (*wire.MsgMerkleBlock, int) {
	msg := &wire.MsgMerkleBlock{}
	copy(msg.Header.PrevBlock[:], r.Bytes(32))
	counts := []uint32{0, 1, 2, 3, 7, 8, 1 << 16, 1<<32 - 1, 1 << 31, 1000000, 3000000}
	msg.Transactions = counts[r.Intn(len(counts))]
	if r.Bool() {
		msg.Transactions = uint32(r.Intn(40))
	}
	nh := r.Intn(12)
	if r.Chance(1, 6) {
		nh = int(msg.Transactions%50) + r.Intn(3)
	}
	pool := make([]chainhash.Hash, 3)
	for i := range pool {
		copy(pool[i][:], r.Bytes(32))
	}
	for i := 0; i < nh; i++ {
		h := pool[r.Intn(3)]
		if r.Chance(1, 20) {
			msg.Hashes = append(msg.Hashes, nil) // a message built by hand may hold nil
		} else {
			msg.Hashes = append(msg.Hashes, &h)
		}
	}
	msg.Flags = r.Bytes(r.SkewLen(64))
	if r.Bool() {
		for i := range msg.Flags {
			msg.Flags[i] = []byte{0xff, 0x00, 0x01, 0x55}[r.Intn(4)]
		}
	}
	return msg, 84 + 32*nh + len(msg.Flags)
}

func c08merkleBytes(r *vf.Rand) []byte {
	var b bytes.Buffer
	b.Write(r.Bytes(80))
	var cnt [4]byte
	binary.LittleEndian.PutUint32(cnt[:], []uint32{0, 1, 5, 1 << 20, 1<<32 - 1}[r.Intn(5)])
	b.Write(cnt[:])
	nh := r.Intn(6)
	claim := uint64(nh)
	if r.Chance(1, 3) {
		claim = []uint64{1 << 20, 1<<32 - 1, 1 << 40, 100000}[r.Intn(4)]
	}
	b.Write(ref.CompactSize(claim))
	for i := 0; i < nh; i++ {
		b.Write(r.Bytes(32))
	}
	nf := r.Intn(9)
	fclaim := uint64(nf)
	if r.Chance(1, 3) {
		fclaim = []uint64{1 << 20, 1<<32 - 1, 1 << 24}[r.Intn(3)]
	}
	b.Write(ref.CompactSize(fclaim))
	b.Write(r.Bytes(nf))
	return b.Bytes()
}

// --- JSON

var c08jsonKeys = []string{"hash", "height", "full_transactions", "transactions", "inputs", "outputs", "index", "value", "pubkey_script",
	"address", "addresses", "outpoints", "data_elements", "all_transactions", "block", "info", "transaction", "lock_time", "previous_script",
	"signature_script", "outpoint", "a", "b", "", "hashK"}

func c08jsonString(r *vf.Rand) string {
	switch r.Intn(10) {
	case 8, 9:
		// exactly 64 (or 63 / 65 / 128) BYTES that are not 64 characters: hex
		// digits mixed with multi-byte code points
		want := []int{64, 64, 64, 63, 65, 128}[r.Intn(6)]
		var sb strings.Builder
		for sb.Len() < want {
			left := want - sb.Len()
			switch {
			case left >= 2 && r.Chance(1, 4):
				sb.WriteString([]string{"é", "ü", "ß", "\u0141"}[r.Intn(4)])
			case left >= 3 && r.Chance(1, 8):
				sb.WriteString([]string{"€", "\u212a", "\uff21"}[r.Intn(3)])
			case left >= 4 && r.Chance(1, 12):
				sb.WriteString("\U0001F600")
			default:
				sb.WriteByte("0123456789abcdefABCDEF"[r.Intn(22)])
			}
		}
		return sb.String()
	case 0:
		return hx(r.Bytes(32))
	case 1:
		return hx(r.Bytes(r.Intn(40)))
	case 2:
		return c08junk(r, r.Intn(20), 0)
	case 3:
		return hx(r.Bytes(32))[:63]
	case 4:
		return strings.ToUpper(hx(r.Bytes(32)))
	case 5:
		return ""
	case 6:
		return c08junk(r, 64, 4)
	}
	return "zz" + hx(r.Bytes(31))
}

func c08jsonValue(r *vf.Rand, sb *strings.Builder, depth int) {
	k := r.Intn(10)
	if depth <= 0 && k >= 6 {
		k = r.Intn(6)
	}
	switch k {
	case 0, 1:
		fmt.Fprintf(sb, "%q", c08jsonString(r))
	case 2:
		fmt.Fprintf(sb, "%d", int64(r.Uint64()>>uint(r.Intn(64)))-int64(r.Intn(3)))
	case 3:
		sb.WriteString([]string{"true", "false", "null", "1e400", "-0", "1.5"}[r.Intn(6)])
	case 4:
		sb.WriteString("null")
	case 5:
		fmt.Fprintf(sb, "%q", c08jsonString(r))
	case 6, 7: // array, biased to heterogeneous content
		n := r.Intn(5)
		sb.WriteByte('[')
		hetero := r.Bool()
		first := r.Intn(4)
		for i := 0; i < n; i++ {
			if i > 0 {
				sb.WriteByte(',')
			}
			kind := first
			if hetero && i > 0 {
				kind = r.Intn(5)
			}
			switch kind {
			case 0:
				fmt.Fprintf(sb, "%q", c08jsonString(r))
			case 1:
				c08jsonObject(r, sb, depth-1)
			case 2:
				c08jsonValue(r, sb, depth-1)
			case 3:
				sb.WriteByte('[')
				if r.Bool() {
					c08jsonValue(r, sb, depth-1)
				}
				sb.WriteByte(']')
			default:
				sb.WriteString([]string{"1", "null", "true", "\"aa\"", "{}"}[r.Intn(5)])
			}
		}
		sb.WriteByte(']')
	default:
		c08jsonObject(r, sb, depth-1)
	}
}

func c08jsonObject(r *vf.Rand, sb *strings.Builder, depth int) {
	sb.WriteByte('{')
	n := r.Intn(5)
	for i := 0; i < n; i++ {
		if i > 0 {
			sb.WriteByte(',')
		}
		fmt.Fprintf(sb, "%q:", c08jsonKeys[r.Intn(len(c08jsonKeys))])
		c08jsonValue(r, sb, depth)
	}
	sb.WriteByte('}')
}

func c08json(r *vf.Rand, i int) (string, string) {
	var sb strings.Builder
	switch i % 8 {
	case 0:
		c08jsonValue(r, &sb, 5)
		return sb.String(), "json-any-value"
	case 1: // deep nesting ladder
		n := []int{10, 100, 1000, 9999, 10001, 20000}[r.Intn(6)]
		open, cl := "[", "]"
		if r.Bool() {
			open, cl = `{"a":`, "}"
		}
		return strings.Repeat(open, n) + `"aa"` + strings.Repeat(cl, n), "json-deep"
	case 2: // heterogeneous array directly under a key
		fmt.Fprintf(&sb, `{%q:[%q,%s]}`, c08jsonKeys[r.Intn(len(c08jsonKeys))], c08jsonString(r), []string{"1", "null", "{}", "[]", "true", "1.5"}[r.Intn(6)])
		return sb.String(), "json-heterogeneous-array"
	case 3: // truncated / garbage
		c08jsonObject(r, &sb, 4)
		s := sb.String()
		return s[:r.Intn(len(s)+1)], "json-truncated"
	default:
		c08jsonObject(r, &sb, 5)
		return sb.String(), "json-object"
	}
}
