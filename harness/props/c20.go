package props

import (
	"bytes"
	"fmt"
	"runtime"
	"sort"
	"sync"
	"sync/atomic"
	"time"

	"github.com/anishathalye/porcupine"
	"github.com/gcash/bchd/chaincfg/chainhash"
	"github.com/gcash/bchd/txscript"
	"github.com/gcash/bchd/wire"
	"github.com/gcash/bchutil"
	"github.com/gcash/bchutil/bloom"
	"github.com/gcash/bchutil/gcs"

	"verif/internal/ref"
	"verif/internal/vf"
)

// C20 — a bloom filter may be used from many goroutines at once; GCS filters
// may be queried from any number of goroutines.
//
// Deciders: (1) the Go race detector over these workloads (race streams; the
// supervisor reads the GORACE log), (2) linearizability of the recorded
// histories against a bit-exact sequential BIP37 model (porcupine), with the
// final filter bytes observed at quiescence as part of the history,
// (3) conservation on add-only runs.

const (
	c20K        = 3 // harness-owned filter-load messages
	c20MaxBytes = 8
)

type c20state struct {
	cur  int8 // loaded message or -1
	bits [c20K][c20MaxBytes]byte
}

type c20op uint8

const (
	opAdd c20op = iota
	opAddHash
	opAddOutPoint
	opMatches
	opMatchesOutPoint
	opMatchTx
	opReload
	opUnload
	opIsLoaded
	opMsg
	opReadBits // harness-side observation of a message's bytes at quiescence
)

var c20opNames = []string{"Add", "AddHash", "AddOutPoint", "Matches", "MatchesOutPoint", "MatchTxAndUpdate", "Reload", "Unload", "IsLoaded", "MsgFilterLoad", "ReadBits"}

type c20in struct {
	Op  c20op
	Arg int
}

type c20out struct {
	B    bool
	ID   int
	Bits [c20MaxBytes]byte
}

type c20txOut struct {
	pushes   []int // item indices of the pushes
	outpoint int   // item index of (txid, i)
	pubkeyTy bool  // PubKeyTy or MultiSigTy per txscript.GetScriptClass
}

type c20txIn struct {
	prevout int
	pushes  []int
}

type c20tx struct {
	tx   *bchutil.Tx
	txid int
	outs []c20txOut
	ins  []c20txIn
}

// c20world is the read-only configuration of one history.
type c20world struct {
	msgs   [c20K]*wire.MsgFilterLoad
	nbytes [c20K]int
	items  [][]byte
	hashes []*chainhash.Hash // hash items (subset of items, by index)
	hashIx []int
	ops    []*wire.OutPoint // outpoint items
	opIx   []int
	rawIx  []int
	txs    []*c20tx
	// fresh[k] wraps the same message as txs[k].tx in a NEW bchutil.Tx whose
	// hash has never been asked for: the goroutines' MatchTxAndUpdate calls are
	// the first to need it (the filter computes it inside its critical section)
	fresh []*bchutil.Tx
	// idx[m][item] = bit numbers
	idx [c20K][][]uint16
}

func (w *c20world) addItem(b []byte) int {
	for i, it := range w.items {
		if bytes.Equal(it, b) {
			return i
		}
	}
	w.items = append(w.items, b)
	return len(w.items) - 1
}

func c20buildWorld(r *vf.Rand) *c20world { return c20buildWorldOpt(r, false, false) }

// c20buildWorldOpt: sameGeom gives every message the byte length and hash
// function count of the first (tweaks still differ); static gives every
// message BloomUpdateNone, so that no query changes the filter.
func c20buildWorldOpt(r *vf.Rand, sameGeom, static bool) *c20world {
	w := &c20world{}
	for m := 0; m < c20K; m++ {
		nb := 1 + r.Intn(c20MaxBytes)
		if r.Chance(1, 3) {
			nb = 1 + r.Intn(2)
		}
		nh := uint32(1 + r.Intn(3))
		if sameGeom && m > 0 {
			nb, nh = w.nbytes[0], w.msgs[0].HashFuncs
		}
		w.nbytes[m] = nb
		flags := []wire.BloomUpdateType{wire.BloomUpdateNone, wire.BloomUpdateAll, wire.BloomUpdateP2PubkeyOnly}[r.Intn(3)]
		if static {
			flags = wire.BloomUpdateNone
		}
		w.msgs[m] = wire.NewMsgFilterLoad(make([]byte, nb), nh, r.Uint32(), flags)
	}
	// raw items of every length mod 4
	for i := 0; i < 4; i++ {
		w.rawIx = append(w.rawIx, w.addItem(r.Bytes(r.Intn(9))))
	}
	// two "public keys" (33 bytes, look like compressed keys) and a 20-byte hash
	pk1 := append([]byte{2}, r.Bytes(32)...)
	pk2 := append([]byte{3}, r.Bytes(32)...)
	h20 := r.Bytes(20)
	ipk1, ih20 := w.addItem(pk1), w.addItem(h20)
	w.addItem(pk2)
	w.rawIx = append(w.rawIx, ipk1, ih20)
	// hash items
	for i := 0; i < 2; i++ {
		var h chainhash.Hash
		copy(h[:], r.Bytes(32))
		w.hashes = append(w.hashes, &h)
		w.hashIx = append(w.hashIx, w.addItem(h[:]))
	}
	// outpoint items on those hashes
	for i := 0; i < 2; i++ {
		op := wire.NewOutPoint(w.hashes[i], uint32(r.Intn(3)))
		w.ops = append(w.ops, op)
		var id [32]byte
		copy(id[:], op.Hash[:])
		w.opIx = append(w.opIx, w.addItem(ref.OutPointBytes(id, op.Index)))
	}
	// transactions
	mk := func(outScripts [][]byte, ins []*wire.OutPoint, sigs [][]byte) {
		mtx := wire.NewMsgTx(1)
		for k, in := range ins {
			mtx.AddTxIn(wire.NewTxIn(in, sigs[k]))
		}
		for _, s := range outScripts {
			mtx.AddTxOut(wire.NewTxOut(int64(1000+r.Intn(1000)), s, wire.TokenData{}))
		}
		tx := bchutil.NewTx(mtx)
		h := tx.Hash() // compute and cache before any goroutine starts
		mt := &c20tx{tx: tx, txid: w.addItem(h[:])}
		var id [32]byte
		copy(id[:], h[:])
		for oi, s := range outScripts {
			o := c20txOut{outpoint: w.addItem(ref.OutPointBytes(id, uint32(oi)))}
			if pd, err := txscript.PushedData(s); err == nil {
				for _, d := range pd {
					o.pushes = append(o.pushes, w.addItem(d))
				}
			}
			cl := txscript.GetScriptClass(s)
			o.pubkeyTy = cl == txscript.PubKeyTy || cl == txscript.MultiSigTy
			mt.outs = append(mt.outs, o)
		}
		for k, in := range ins {
			var pid [32]byte
			copy(pid[:], in.Hash[:])
			ti := c20txIn{prevout: w.addItem(ref.OutPointBytes(pid, in.Index))}
			if pd, err := txscript.PushedData(sigs[k]); err == nil {
				for _, d := range pd {
					ti.pushes = append(ti.pushes, w.addItem(d))
				}
			}
			mt.ins = append(mt.ins, ti)
		}
		w.txs = append(w.txs, mt)
	}
	p2pk := func(pk []byte) []byte {
		s, _ := txscript.NewScriptBuilder().AddData(pk).AddOp(txscript.OP_CHECKSIG).Script()
		return s
	}
	p2pkh := func(h []byte) []byte {
		s, _ := txscript.NewScriptBuilder().AddOp(txscript.OP_DUP).AddOp(txscript.OP_HASH160).AddData(h).AddOp(txscript.OP_EQUALVERIFY).AddOp(txscript.OP_CHECKSIG).Script()
		return s
	}
	sig := func(d []byte) []byte {
		s, _ := txscript.NewScriptBuilder().AddData(d).Script()
		return s
	}
	raw0 := w.items[w.rawIx[0]]
	mk([][]byte{p2pk(pk1), p2pkh(h20)}, []*wire.OutPoint{w.ops[0]}, [][]byte{sig(raw0)})
	mk([][]byte{p2pkh(h20), p2pk(pk2)}, []*wire.OutPoint{w.ops[1], wire.NewOutPoint(w.txs[0].tx.Hash(), 0)}, [][]byte{sig(pk2), {}})
	for _, mt := range w.txs {
		w.fresh = append(w.fresh, bchutil.NewTx(mt.tx.MsgTx()))
	}
	// bit numbers per message and item
	for m := 0; m < c20K; m++ {
		w.idx[m] = make([][]uint16, len(w.items))
		msg := w.msgs[m]
		for i, it := range w.items {
			for f := uint32(0); f < msg.HashFuncs; f++ {
				b := ref.Murmur3(f*0xFBA4C795+msg.Tweak, it) % uint32(w.nbytes[m]*8)
				w.idx[m][i] = append(w.idx[m][i], uint16(b))
			}
		}
	}
	return w
}

func (w *c20world) has(s *c20state, item int) bool {
	if s.cur < 0 {
		return false
	}
	for _, b := range w.idx[s.cur][item] {
		if s.bits[s.cur][b>>3]&(1<<(b&7)) == 0 {
			return false
		}
	}
	return true
}

func (w *c20world) set(s *c20state, item int) {
	if s.cur < 0 {
		return
	}
	for _, b := range w.idx[s.cur][item] {
		s.bits[s.cur][b>>3] |= 1 << (b & 7)
	}
}

// matchTx is BIP37's relevance test with update, on the model.
func (w *c20world) matchTx(s *c20state, t *c20tx) bool {
	if s.cur < 0 {
		return false
	}
	matched := w.has(s, t.txid)
	flags := w.msgs[s.cur].Flags
	for _, o := range t.outs {
		for _, p := range o.pushes {
			if !w.has(s, p) {
				continue
			}
			matched = true
			if flags == wire.BloomUpdateAll || (flags == wire.BloomUpdateP2PubkeyOnly && o.pubkeyTy) {
				w.set(s, o.outpoint)
			}
			break
		}
	}
	if matched {
		return true
	}
	for _, in := range t.ins {
		if w.has(s, in.prevout) {
			return true
		}
		for _, p := range in.pushes {
			if w.has(s, p) {
				return true
			}
		}
	}
	return false
}

func (w *c20world) model() porcupine.Model {
	return porcupine.Model{
		Init: func() interface{} { return c20state{cur: 0} },
		Step: func(st, in, out interface{}) (bool, interface{}) {
			s := st.(c20state)
			i := in.(c20in)
			o := out.(c20out)
			switch i.Op {
			case opAdd, opAddHash, opAddOutPoint:
				w.set(&s, i.Arg)
				return true, s
			case opMatches, opMatchesOutPoint:
				return w.has(&s, i.Arg) == o.B, s
			case opMatchTx:
				r := w.matchTx(&s, w.txs[i.Arg])
				return r == o.B, s
			case opReload:
				s.cur = int8(i.Arg)
				return true, s
			case opUnload:
				s.cur = -1
				return true, s
			case opIsLoaded:
				return (s.cur >= 0) == o.B, s
			case opMsg:
				return int(s.cur) == o.ID, s
			case opReadBits:
				return s.bits[i.Arg] == o.Bits, s
			}
			return false, s
		},
		DescribeOperation: func(in, out interface{}) string {
			i, o := in.(c20in), out.(c20out)
			return fmt.Sprintf("%s(%d) -> %v/%d/%x", c20opNames[i.Op], i.Arg, o.B, o.ID, o.Bits)
		},
	}
}

type c20rec struct {
	in        c20in
	out       c20out
	call, ret int64
}

// perform executes one operation on the real filter.
func (w *c20world) perform(f *bloom.Filter, in c20in) (out c20out) {
	switch in.Op {
	case opAdd:
		f.Add(w.items[in.Arg])
	case opAddHash:
		for k, ix := range w.hashIx {
			if ix == in.Arg {
				f.AddHash(w.hashes[k])
			}
		}
	case opAddOutPoint:
		for k, ix := range w.opIx {
			if ix == in.Arg {
				f.AddOutPoint(w.ops[k])
			}
		}
	case opMatches:
		out.B = f.Matches(w.items[in.Arg])
	case opMatchesOutPoint:
		for k, ix := range w.opIx {
			if ix == in.Arg {
				out.B = f.MatchesOutPoint(w.ops[k])
			}
		}
	case opMatchTx:
		out.B = f.MatchTxAndUpdate(w.fresh[in.Arg])
	case opReload:
		f.Reload(w.msgs[in.Arg])
	case opUnload:
		f.Unload()
	case opIsLoaded:
		out.B = f.IsLoaded()
	case opMsg:
		m := f.MsgFilterLoad()
		out.ID = -1
		for k := range w.msgs {
			if m == w.msgs[k] {
				out.ID = k
			}
		}
		if m != nil && out.ID == -1 {
			out.ID = -2 // a message the harness never loaded
		}
	}
	return out
}

func (w *c20world) randOp(r *vf.Rand) c20in {
	x := r.Intn(100)
	anyItem := func() int {
		// mostly the items that transactions and other operations care about
		return r.Intn(len(w.items))
	}
	switch {
	case x < 24:
		return c20in{opAdd, anyItem()}
	case x < 29:
		return c20in{opAddHash, w.hashIx[r.Intn(len(w.hashIx))]}
	case x < 34:
		return c20in{opAddOutPoint, w.opIx[r.Intn(len(w.opIx))]}
	case x < 58:
		return c20in{opMatches, anyItem()}
	case x < 64:
		return c20in{opMatchesOutPoint, w.opIx[r.Intn(len(w.opIx))]}
	case x < 76:
		return c20in{opMatchTx, r.Intn(len(w.txs))}
	case x < 84:
		return c20in{opReload, r.Intn(c20K)}
	case x < 88:
		return c20in{opUnload, 0}
	case x < 93:
		return c20in{opIsLoaded, 0}
	default:
		return c20in{opMsg, 0}
	}
}

var c20procs = []int{1, 2, 4, 16}
var c20clients = []int{2, 3, 4, 8, 16, 32}

// goroutine counts of the histories that are checked for linearizability
// (the check is NP-complete; cost climbs steeply with concurrency)
var c20linClients = []int{2, 3, 4, 5, 6, 8}

// c20history runs one concurrent history on a fresh filter and checks it.
func c20history(c *vf.Ctx, i int) {
	w := c20buildWorld(c.R)
	k := c20linClients[i%len(c20linClients)]
	procs := c20procs[(i/len(c20linClients))%len(c20procs)]
	runtime.GOMAXPROCS(procs)
	per := 30 / k
	if per < 3 {
		per = 3
	}
	// pre-generate every goroutine's operations and perturbation
	plans := make([][]c20in, k)
	spins := make([][]uint8, k)
	for g := 0; g < k; g++ {
		plans[g] = make([]c20in, per)
		spins[g] = make([]uint8, per)
		for j := range plans[g] {
			plans[g][j] = w.randOp(c.R)
			spins[g][j] = uint8(c.R.Intn(8))
		}
	}
	f := bloom.LoadFilter(w.msgs[0])
	recs := make([][]c20rec, k)
	t0 := time.Now()
	var wg sync.WaitGroup
	start := make(chan struct{})
	for g := 0; g < k; g++ {
		recs[g] = make([]c20rec, per)
		wg.Add(1)
		go func(g int) {
			defer wg.Done()
			my := recs[g]
			plan := plans[g]
			sp := spins[g]
			<-start
			for j := range plan {
				switch sp[j] {
				case 0, 1:
					runtime.Gosched()
				case 2:
					for x := 0; x < 200; x++ {
						_ = x * x
					}
				}
				my[j].in = plan[j]
				my[j].call = int64(time.Since(t0))
				my[j].out = w.perform(f, plan[j])
				my[j].ret = int64(time.Since(t0))
			}
		}(g)
	}
	close(start)
	wg.Wait()
	runtime.GOMAXPROCS(runtime.NumCPU())
	end := int64(time.Since(t0)) + 10000

	var ops []porcupine.Operation
	type evt struct {
		t   int64
		cli int
		ret bool
	}
	var evts []evt
	for g := 0; g < k; g++ {
		for _, r := range recs[g] {
			ops = append(ops, porcupine.Operation{ClientId: g, Input: r.in, Output: r.out, Call: r.call - 1000, Return: r.ret + 1000})
			evts = append(evts, evt{r.call, g, false}, evt{r.ret, g, true})
		}
	}
	// observation at quiescence: the bytes of every harness-owned message
	for m := 0; m < c20K; m++ {
		var o c20out
		copy(o.Bits[:], w.msgs[m].Filter)
		ops = append(ops, porcupine.Operation{ClientId: k, Input: c20in{opReadBits, m}, Output: o, Call: end + int64(m)*10, Return: end + int64(m)*10 + 5})
	}
	// coverage: overlapping pairs and interleaving signature
	sort.Slice(evts, func(a, b int) bool { return evts[a].t < evts[b].t })
	sig := uint64(1469598103934665603)
	open := 0
	var overlaps int64
	for _, e := range evts {
		x := uint64(e.cli) << 1
		if e.ret {
			x |= 1
			open--
		} else {
			overlaps += int64(open)
			open++
		}
		sig = vf.Mix(sig, x)
	}
	c.Count("operations", int64(k*per))
	c.Count("overlapping_operation_pairs", overlaps)
	c.Nontrivial(sig)
	for g := 0; g < k; g++ {
		for _, r := range recs[g] {
			if r.in.Op == opMatches || r.in.Op == opMatchTx || r.in.Op == opMatchesOutPoint {
				if r.out.B {
					c.Inc("membership_answers_true")
				} else {
					c.Inc("membership_answers_false")
				}
			}
			if r.in.Op == opMsg && r.out.ID == -2 {
				c.Failf("Filter/MsgFilterLoad/foreign-message", "MsgFilterLoad returned a message that was never loaded")
			}
		}
	}
	res, info := porcupine.CheckOperationsVerbose(w.model(), ops, 3*time.Second)
	c.Evals(1)
	switch res {
	case porcupine.Ok:
		c.Inc("histories_linearizable")
	case porcupine.Unknown:
		c.Inconclusive("porcupine-timeout")
	case porcupine.Illegal:
		// witness: the history in call order
		sort.Slice(ops, func(a, b int) bool { return ops[a].Call < ops[b].Call })
		var sb bytes.Buffer
		for _, o := range ops {
			in, out := o.Input.(c20in), o.Output.(c20out)
			fmt.Fprintf(&sb, "  client %2d [%8d,%8d] %s(%d) -> %v id=%d bits=%x\n", o.ClientId, o.Call, o.Return, c20opNames[in.Op], in.Arg, out.B, out.ID, out.Bits)
		}
		_ = info
		c.Failf("Filter/not-linearizable", "history of %d goroutines (GOMAXPROCS %d) on one bloom.Filter is not equivalent to any sequential order of its calls (porcupine: Illegal):\n%s", k, procs, sb.String())
	}
	if c.WantSample() {
		c.Sample(map[string]any{"goroutines": k, "gomaxprocs": procs, "ops": k * per, "overlapping_pairs": overlaps, "first_ops_of_client0": fmt.Sprintf("%v", plans[0])})
	}
}

// c20stress: high-concurrency mixed workload for the race detector only (too
// concurrent for the linearizability checker).  Besides race reports, a
// foreign message or a panic is a violation.
func c20stress(c *vf.Ctx, i int) {
	w := c20buildWorld(c.R)
	k := []int{16, 32}[i%2]
	runtime.GOMAXPROCS(c20procs[(i/2)%len(c20procs)])
	per := 30
	plans := make([][]c20in, k)
	for g := range plans {
		plans[g] = make([]c20in, per)
		for j := range plans[g] {
			plans[g][j] = w.randOp(c.R)
		}
	}
	f := bloom.LoadFilter(w.msgs[0])
	foreign := make([]bool, k)
	var wg sync.WaitGroup
	start := make(chan struct{})
	for g := 0; g < k; g++ {
		wg.Add(1)
		go func(g int) {
			defer wg.Done()
			<-start
			for _, in := range plans[g] {
				if out := w.perform(f, in); in.Op == opMsg && out.ID == -2 {
					foreign[g] = true
				}
			}
		}(g)
	}
	close(start)
	wg.Wait()
	runtime.GOMAXPROCS(runtime.NumCPU())
	c.Evals(int64(k * per))
	c.Count("stress_operations", int64(k*per))
	for _, fo := range foreign {
		if fo {
			c.Failf("Filter/MsgFilterLoad/foreign-message", "MsgFilterLoad returned a message that was never loaded")
		}
	}
	c.Nontrivial(vf.Mix(22, uint64(i), vf.HashBytes(w.msgs[0].Filter), vf.HashBytes(w.msgs[1].Filter)))
}

// c20conservation: add-only run on a bigger filter; nothing may be lost and a
// goroutine must see its own completed insertions.
func c20conservation(c *vf.Ctx, i int) {
	k := c20clients[i%len(c20clients)]
	runtime.GOMAXPROCS(c20procs[(i/len(c20clients))%len(c20procs)])
	nb := 16 + c.R.Intn(64)
	msg := wire.NewMsgFilterLoad(make([]byte, nb), uint32(1+c.R.Intn(5)), c.R.Uint32(), wire.BloomUpdateNone)
	f := bloom.LoadFilter(msg)
	per := 40
	items := make([][][]byte, k)
	for g := range items {
		items[g] = make([][]byte, per)
		for j := range items[g] {
			items[g][j] = append([]byte{byte(g), byte(j)}, c.R.Bytes(c.R.Intn(12))...)
		}
	}
	missing := make([]int, k)
	var wg sync.WaitGroup
	start := make(chan struct{})
	for g := 0; g < k; g++ {
		wg.Add(1)
		go func(g int) {
			defer wg.Done()
			<-start
			for j, it := range items[g] {
				f.Add(it)
				if j%3 == 0 {
					runtime.Gosched()
				}
				if !f.Matches(it) {
					missing[g]++
				}
			}
		}(g)
	}
	close(start)
	wg.Wait()
	runtime.GOMAXPROCS(runtime.NumCPU())
	model := &ref.BloomModel{Bits: make([]byte, nb), NHash: msg.HashFuncs, Tweak: msg.Tweak, Loaded: true}
	for g := range items {
		for _, it := range items[g] {
			model.Add(it)
		}
	}
	c.Evals(int64(k*per) + 1)
	c.Count("conservation_insertions", int64(k*per))
	for g, m := range missing {
		if m > 0 {
			c.Failf("Filter/own-insertion-not-visible", "goroutine %d of %d: %d membership tests issued after its own Add returned reported the item absent", g, k, m)
		}
	}
	if !bytes.Equal(model.Bits, msg.Filter) {
		c.Failf("Filter/lost-insertion", "after %d goroutines x %d Add calls the filter bytes %x differ from the OR of all inserted bits %x", k, per, msg.Filter, model.Bits)
	}
	c.Nontrivial(vf.Mix(20, uint64(i), vf.HashBytes(msg.Filter)))
}

// c20flipAdds: one goroutine keeps switching the shared filter between
// harness-owned messages (Reload) while others insert.  Every sequential
// order of these calls puts each inserted item completely into the message
// that was loaded at its linearization point and sets no other bit, so at
// quiescence (a) every inserted item is contained in at least one message and
// (b) no message has a bit outside the union of its initial bits and the bits
// of all inserted items under ITS OWN tweak and size.
func c20flipAdds(c *vf.Ctx, i int) {
	nm := 2 + c.R.Intn(2)
	same := c.R.Chance(2, 3)
	msgs := make([]*wire.MsgFilterLoad, nm)
	for m := range msgs {
		nb, nh := 24+c.R.Intn(100), uint32(1+c.R.Intn(4))
		if same && m > 0 {
			nb, nh = len(msgs[0].Filter), msgs[0].HashFuncs
		}
		msgs[m] = wire.NewMsgFilterLoad(make([]byte, nb), nh, c.R.Uint32(), wire.BloomUpdateNone)
	}
	k := []int{2, 3, 4, 6}[i%4]
	runtime.GOMAXPROCS([]int{2, 4, 16}[(i/4)%3])
	per := 36 / k
	items := make([][][]byte, k)
	for g := range items {
		items[g] = make([][]byte, per)
		for j := range items[g] {
			items[g][j] = append([]byte{byte(g), byte(j)}, c.R.Bytes(c.R.Intn(40))...)
		}
	}
	f := bloom.LoadFilter(msgs[0])
	var done atomic.Bool
	var reloads int64
	var wg, rg sync.WaitGroup
	start := make(chan struct{})
	rg.Add(1)
	go func() {
		defer rg.Done()
		<-start
		for j := 1; !done.Load(); j++ {
			f.Reload(msgs[j%nm])
			reloads++
			if j%7 == 0 {
				runtime.Gosched()
			}
		}
	}()
	for g := 0; g < k; g++ {
		wg.Add(1)
		go func(g int) {
			defer wg.Done()
			<-start
			for j, it := range items[g] {
				f.Add(it)
				if j%4 == g%4 {
					runtime.Gosched()
				}
			}
		}(g)
	}
	close(start)
	wg.Wait()
	done.Store(true)
	rg.Wait()
	runtime.GOMAXPROCS(runtime.NumCPU())
	c.Evals(int64(k * per))
	c.Count("flip_insertions", int64(k*per))
	c.Count("flip_reloads_during_insertions", reloads)
	if same {
		c.Inc("flip_histories_same_geometry_messages")
	}
	lost, stray := 0, 0
	var firstLost []byte
	for m, msg := range msgs {
		all := &ref.BloomModel{Bits: make([]byte, len(msg.Filter)), NHash: msg.HashFuncs, Tweak: msg.Tweak, Loaded: true}
		for g := range items {
			for _, it := range items[g] {
				all.Add(it)
			}
		}
		for b := range msg.Filter {
			if x := msg.Filter[b] &^ all.Bits[b]; x != 0 {
				stray++
				c.Failf("Filter/Reload-during-Add/stray-bits", "%d goroutines inserted while one goroutine switched the filter between %d messages (same geometry: %v): message %d (%d bytes, %d hash functions, tweak %08x) has bits %02x set in byte %d that no inserted item maps to under that message's parameters; bytes %x", k, nm, same, m, len(msg.Filter), msg.HashFuncs, msg.Tweak, x, b, msg.Filter)
				break
			}
		}
	}
	for g := range items {
		for _, it := range items[g] {
			in := false
			for _, msg := range msgs {
				real := &ref.BloomModel{Bits: msg.Filter, NHash: msg.HashFuncs, Tweak: msg.Tweak, Loaded: true}
				if real.Contains(it) {
					in = true
				}
			}
			if !in {
				if lost == 0 {
					firstLost = it
				}
				lost++
			}
		}
	}
	if lost > 0 {
		c.Failf("Filter/Reload-during-Add/lost-insertion", "%d goroutines inserted %d items while one goroutine switched the filter between %d messages (same geometry: %v, no Unload): %d inserted items are contained in none of the messages at quiescence, e.g. %x", k, k*per, nm, same, lost, firstLost)
	}
	h := uint64(23)
	for _, msg := range msgs {
		h = vf.Mix(h, vf.HashBytes(msg.Filter))
	}
	c.Nontrivial(h)
}

// c20flipQueries: the messages are pre-populated and never change (flag
// BloomUpdateNone, no insertions); one goroutine keeps switching the filter
// between them while others query.  Every sequential order answers a query
// with its answer under one of the messages in the cycle, so an answer that
// no message gives is a violation.
func c20flipQueries(c *vf.Ctx, i int) {
	if i%100 == 99 {
		c20flipBigTx(c, i/100)
		return
	}
	w := c20buildWorldOpt(c.R, c.R.Chance(1, 2), true)
	var st c20state
	shaped := i%2 == 0
	var hot int
	if shaped {
		// a transaction that message 0 matches through an input only and
		// message 1 through an output only
		hot = c.R.Intn(len(w.txs))
		t := w.txs[hot]
		in := t.ins[c.R.Intn(len(t.ins))]
		st.cur = 0
		if len(in.pushes) > 0 && c.R.Bool() {
			w.set(&st, in.pushes[c.R.Intn(len(in.pushes))])
		} else {
			w.set(&st, in.prevout)
		}
		o := t.outs[c.R.Intn(len(t.outs))]
		st.cur = 1
		if len(o.pushes) > 0 {
			w.set(&st, o.pushes[c.R.Intn(len(o.pushes))])
		}
		for it := range w.items {
			st.cur = 2
			if c.R.Chance(1, 5) {
				w.set(&st, it)
			}
		}
	} else {
		for m := 0; m < c20K; m++ {
			st.cur = int8(m)
			den := 2 + c.R.Intn(6)
			for it := range w.items {
				if c.R.Chance(1, den) {
					w.set(&st, it)
				}
			}
		}
	}
	for m := 0; m < c20K; m++ {
		copy(w.msgs[m].Filter, st.bits[m][:w.nbytes[m]])
	}
	nm := 2 + c.R.Intn(2)
	// allowed answers per query
	allowed := func(in c20in) (canTrue, canFalse bool) {
		for m := 0; m < nm; m++ {
			s := st
			s.cur = int8(m)
			var a bool
			if in.Op == opMatchTx {
				a = w.matchTx(&s, w.txs[in.Arg])
			} else {
				a = w.has(&s, in.Arg)
			}
			if a {
				canTrue = true
			} else {
				canFalse = true
			}
		}
		return
	}
	k := []int{2, 3, 4, 6}[(i/2)%4]
	runtime.GOMAXPROCS([]int{2, 4, 16}[(i/8)%3])
	per := 60
	plans := make([][]c20in, k)
	outs := make([][]bool, k)
	for g := range plans {
		plans[g] = make([]c20in, per)
		outs[g] = make([]bool, per)
		for j := range plans[g] {
			switch x := c.R.Intn(10); {
			case shaped && x < 6:
				plans[g][j] = c20in{opMatchTx, hot}
			case x < 4:
				plans[g][j] = c20in{opMatchTx, c.R.Intn(len(w.txs))}
			case x < 8:
				plans[g][j] = c20in{opMatches, c.R.Intn(len(w.items))}
			default:
				plans[g][j] = c20in{opMatchesOutPoint, w.opIx[c.R.Intn(len(w.opIx))]}
			}
		}
	}
	f := bloom.LoadFilter(w.msgs[0])
	var done atomic.Bool
	var reloads int64
	var wg, rg sync.WaitGroup
	start := make(chan struct{})
	rg.Add(1)
	go func() {
		defer rg.Done()
		<-start
		for j := 1; !done.Load(); j++ {
			f.Reload(w.msgs[j%nm])
			reloads++
			if j%5 == 0 {
				runtime.Gosched()
			}
		}
	}()
	for g := 0; g < k; g++ {
		wg.Add(1)
		go func(g int) {
			defer wg.Done()
			<-start
			for j, in := range plans[g] {
				outs[g][j] = w.perform(f, in).B
			}
		}(g)
	}
	close(start)
	wg.Wait()
	done.Store(true)
	rg.Wait()
	runtime.GOMAXPROCS(runtime.NumCPU())
	c.Evals(int64(k * per))
	c.Count("flip_queries", int64(k*per))
	c.Count("flip_reloads_during_queries", reloads)
	for m := 0; m < c20K; m++ {
		if !bytes.Equal(w.msgs[m].Filter, st.bits[m][:w.nbytes[m]]) {
			c.Failf("Filter/Reload-during-query/message-modified", "message %d (flag BloomUpdateNone, no insertions) changed from %x to %x during a query-only history", m, st.bits[m][:w.nbytes[m]], w.msgs[m].Filter)
		}
	}
	h := uint64(24)
	for g := range plans {
		for j, in := range plans[g] {
			ct, cf := allowed(in)
			if ct && cf {
				c.Inc("flip_queries_with_message_dependent_answer")
			}
			if (outs[g][j] && !ct) || (!outs[g][j] && !cf) {
				c.Failf("Filter/Reload-during-query/answer-of-no-state", "%s(%d) returned %v while another goroutine switched the filter between messages 0..%d, but every one of these messages answers %v (messages unchanged during the history; tx matched by message 0 through an input only and by message 1 through an output only: %v)", c20opNames[in.Op], in.Arg, outs[g][j], nm-1, !outs[g][j], shaped)
			}
			h = vf.Mix(h, uint64(in.Op), uint64(in.Arg), vf.HashString(fmt.Sprint(outs[g][j])))
		}
	}
	c.Nontrivial(vf.Mix(h, uint64(i)))
}

// c20flipBigTx: a transaction with thousands of outputs, one of which message
// A matches (near the end) and one of which message B matches (near the
// start), flag NONE; the filter is switched between A and B while other
// goroutines match the transaction.  Under every sequential order the call
// sees ONE message throughout and returns true.
func c20flipBigTx(c *vf.Ctx, i int) {
	r := c.R
	n := 8200 + r.Intn(8000)
	ha, hb := r.Bytes(20), r.Bytes(20)
	pa, pb := n-1-r.Intn(1000), r.Intn(1000)
	mtx := wire.NewMsgTx(1)
	mtx.AddTxIn(wire.NewTxIn(wire.NewOutPoint(&chainhash.Hash{7}, 0), nil))
	for j := 0; j < n; j++ {
		h := []byte{byte(j), byte(j >> 8), 0x5a, 1, 2, 3, 4, 5, 6, 7, 8, 9, 10, 11, 12, 13, 14, 15, 16, 17}
		if j == pa {
			h = ha
		}
		if j == pb {
			h = hb
		}
		script := append(append([]byte{0x76, 0xa9, 0x14}, h...), 0x88, 0xac)
		mtx.AddTxOut(wire.NewTxOut(int64(j), script, wire.TokenData{}))
	}
	mk := func(item []byte) *wire.MsgFilterLoad {
		m := &ref.BloomModel{Bits: make([]byte, 512), NHash: 5, Tweak: r.Uint32(), Loaded: true}
		m.Add(item)
		return wire.NewMsgFilterLoad(append([]byte{}, m.Bits...), m.NHash, m.Tweak, wire.BloomUpdateNone)
	}
	msgA, msgB := mk(ha), mk(hb)
	// (a collision that makes another output match as well only adds matches)
	f := bloom.LoadFilter(msgA)
	k := []int{2, 3, 4}[i%3]
	runtime.GOMAXPROCS([]int{2, 4, 16}[(i/3)%3])
	var done atomic.Bool
	var wg, rg sync.WaitGroup
	misses := make([]int, k)
	calls := 14
	start := make(chan struct{})
	rg.Add(1)
	go func() {
		defer rg.Done()
		<-start
		for j := 0; !done.Load(); j++ {
			if j%2 == 0 {
				f.Reload(msgB)
			} else {
				f.Reload(msgA)
			}
		}
	}()
	for g := 0; g < k; g++ {
		wg.Add(1)
		go func(g int) {
			defer wg.Done()
			tx := bchutil.NewTx(mtx)
			<-start
			for j := 0; j < calls; j++ {
				if !f.MatchTxAndUpdate(tx) {
					misses[g]++
				}
			}
		}(g)
	}
	close(start)
	wg.Wait()
	done.Store(true)
	rg.Wait()
	runtime.GOMAXPROCS(runtime.NumCPU())
	c.Evals(int64(k * calls))
	c.Count("flip_big_transaction_matches", int64(k*calls))
	for g, m := range misses {
		if m > 0 {
			c.Failf("Filter/Reload-during-query/answer-of-no-state", "MatchTxAndUpdate on a transaction of %d outputs returned false %d times in goroutine %d while another goroutine switched the filter between two messages that BOTH match it (output %d / output %d; flag NONE)", n, m, g, pa, pb)
		}
	}
	c.Nontrivial(vf.Mix(25, uint64(i), uint64(n), vf.HashBytes(ha)))
}

// c20gcs: one immutable GCS filter queried by 32 goroutines.
func c20gcs(c *vf.Ctx, i int) {
	var key [16]byte
	copy(key[:], c.R.Bytes(16))
	n := 1 + c.R.Intn(120)
	huge := i%40 == 39
	if huge {
		// beyond 2^16 elements: size-dependent internal paths (caches, worker
		// pools) only exist for big filters
		n = 65537 + c.R.Intn(9000)
		c.Inc("gcs_shared_filter_beyond_65536_elements")
	}
	giant := i%160 == 79
	if giant {
		// beyond 2^20 elements
		huge = true
		n = 1<<20 + 1 + c.R.Intn(3000)
		c.Inc("gcs_shared_filter_beyond_2^20_elements")
	}
	data := make([][]byte, n)
	for j := range data {
		data[j] = c.R.Bytes(1 + c.R.Intn(20))
	}
	P := uint8(c.R.Intn(21))
	M := uint64(1) << P
	if c.R.Bool() {
		P, M = 19, 784931
	}
	var f *gcs.Filter
	var err error
	if !c.Call("gcs.BuildGCSFilter", nil, func() { f, err = gcs.BuildGCSFilter(P, M, key, data) }) || err != nil {
		c.Inconclusive("gcs-build-failed")
		return
	}
	// The sequential answers come from a SEPARATE filter object built from
	// the same data, so that the shared object's very first queries happen
	// concurrently (lazily built internal state would otherwise be warmed up).
	var fseq *gcs.Filter
	if !c.Call("gcs.BuildGCSFilter", nil, func() { fseq, err = gcs.BuildGCSFilter(P, M, key, data) }) || err != nil {
		c.Inconclusive("gcs-build-failed")
		return
	}
	if i%2 == 1 {
		// every other case shares a freshly deserialised filter instead
		if nb, e := fseq.NBytes(); e == nil {
			if f2, e2 := gcs.FromNBytes(P, M, nb); e2 == nil {
				f = f2
				c.Inc("gcs_shared_filter_deserialised")
			}
		}
	}
	type query struct {
		items [][]byte
		one   []byte
		want  [4]bool
	}
	qs := make([]query, 12)
	if huge {
		qs = qs[:3]
	}
	if giant {
		qs = qs[:2]
	}
	for j := range qs {
		q := &qs[j]
		m := 1 + c.R.Intn(2*n+2)
		if huge && j == 0 {
			m = n/2 + 1 + c.R.Intn(100) // large enough for MatchAny to pick the hash strategy
		}
		if c.R.Bool() {
			m = 1 + c.R.Intn(4)
		}
		for x := 0; x < m; x++ {
			if c.R.Chance(1, 8) {
				q.items = append(q.items, data[c.R.Intn(n)])
			} else {
				q.items = append(q.items, c.R.Bytes(1+c.R.Intn(20)))
			}
		}
		q.one = q.items[0]
		q.want[0], _ = fseq.Match(key, q.one)
		q.want[1], _ = fseq.MatchAny(key, q.items)
		q.want[2], _ = fseq.ZipMatchAny(key, q.items)
		q.want[3], _ = fseq.HashMatchAny(key, q.items)
	}
	wantBytes, _ := fseq.Bytes()
	wantN, _ := fseq.NBytes()
	wantBytes = append([]byte{}, wantBytes...)
	wantN = append([]byte{}, wantN...)
	const G = 32
	bad := make([]string, G)
	var wg sync.WaitGroup
	start := make(chan struct{})
	for g := 0; g < G; g++ {
		wg.Add(1)
		go func(g int) {
			defer wg.Done()
			<-start
			for rep := 0; rep < 2; rep++ {
				if giant && rep == 1 {
					break
				}
				for j := range qs {
					q := &qs[(j+g)%len(qs)]
					var got [4]bool
					got[0], _ = f.Match(key, q.one)
					got[1], _ = f.MatchAny(key, q.items)
					got[2], _ = f.ZipMatchAny(key, q.items)
					got[3], _ = f.HashMatchAny(key, q.items)
					if got != q.want && bad[g] == "" {
						bad[g] = fmt.Sprintf("query %d: concurrent answers %v, sequential answers %v", (j+g)%len(qs), got, q.want)
					}
				}
				b, _ := f.Bytes()
				nb, _ := f.NBytes()
				if (!bytes.Equal(b, wantBytes) || !bytes.Equal(nb, wantN) || f.N() != uint32(n) || f.P() != P) && bad[g] == "" {
					bad[g] = "Bytes/NBytes/N/P changed under concurrent queries"
				}
			}
		}(g)
	}
	close(start)
	wg.Wait()
	c.Evals(int64(G * 2 * len(qs)))
	c.Count("gcs_concurrent_queries", int64(G*2*len(qs)*4))
	for g, b := range bad {
		if b != "" {
			c.Failf("gcs.Filter/concurrent-query-interference", "goroutine %d of %d on one shared filter (N=%d P=%d M=%d): %s", g, G, n, P, M, b)
		}
	}
	c.Nontrivial(vf.Mix(21, uint64(i), vf.HashBytes(wantBytes)))
}

func c20selfTest() error {
	if err := ref.SelfTestMurmur(); err != nil {
		return err
	}
	// positive control: a lost update must be Illegal
	w := c20buildWorld(vf.NewRand(1))
	x := w.rawIx[0]
	bad := []porcupine.Operation{
		{ClientId: 0, Input: c20in{opAdd, x}, Output: c20out{}, Call: 0, Return: 10},
		{ClientId: 1, Input: c20in{opMatches, x}, Output: c20out{B: false}, Call: 20, Return: 30},
	}
	if porcupine.CheckOperations(w.model(), bad) {
		return fmt.Errorf("porcupine control: a lost-update history was accepted")
	}
	good := []porcupine.Operation{
		{ClientId: 0, Input: c20in{opAdd, x}, Output: c20out{}, Call: 0, Return: 25},
		{ClientId: 1, Input: c20in{opMatches, x}, Output: c20out{B: false}, Call: 20, Return: 30},
	}
	if !porcupine.CheckOperations(w.model(), good) {
		return fmt.Errorf("porcupine control: an overlapping add/miss history was rejected")
	}
	// the model agrees with the real filter sequentially
	r := vf.NewRand(7)
	for t := 0; t < 200; t++ {
		w := c20buildWorld(r)
		f := bloom.LoadFilter(w.msgs[0])
		st := c20state{}
		m := w.model()
		for j := 0; j < 60; j++ {
			in := w.randOp(r)
			out := w.perform(f, in)
			ok, ns := m.Step(st, in, out)
			if !ok {
				return fmt.Errorf("sequential model/implementation disagreement at step %d: %s(%d) -> %+v (this would be reported by the linearizability stream as a violation; rerun C09/C10)", j, c20opNames[in.Op], in.Arg, out)
			}
			st = ns.(c20state)
		}
	}
	return nil
}

func init() {
	lin := func(race bool) *vf.Stream {
		name := "bloom-linearizability"
		if race {
			name += "-race"
		}
		return &vf.Stream{Name: name, Race: race, Workers: 1, Shards: 8, Run: c20history,
			N: func(t vf.Tier) int { return t.Sz(24000, 480000) }}
	}
	register(&vf.Property{
		ID:    "C20",
		Title: "A bloom filter may be used from many goroutines at once",
		Rule: "each case is one concurrent history: k in {2,3,4,8,16,32} goroutines x GOMAXPROCS in {1,2,4,16} issue seeded sequences of all ten documented-safe operations (about 48 operations per history) on ONE shared bloom.Filter of 1-8 bytes with 1-3 hash functions over three harness-owned filter-load messages, a dozen items and two spend-linked transactions, with seeded Gosched/spin perturbation between (never inside) operations; " +
			"the history (call/return stamps from one monotonic clock, widened by 1us) plus the final bytes of every message read at quiescence is checked for linearizability by porcupine against a bit-exact sequential BIP37 model; the same workloads run under the Go race detector. " +
			"streams bloom-reload-during-add / -query: one goroutine switches the filter between two or three messages (two thirds of the time of equal size and hash count, different tweaks) as fast as it can while others insert (oracle: every inserted item lies completely in one message, no message has a foreign bit) or query pre-populated static messages (oracle: every answer is the answer of one of the messages; half the cases use a transaction matched by one message through an input only and by another through an output only). " +
			"distinct_nontrivial counts distinct interleaving signatures (hash of the global order of call/return events).",
		Assumptions: []string{
			"the sequential model (reference MurmurHash3, BIP37 bit numbering, txscript.PushedData/GetScriptClass as definitions) is validated against the real filter single-threaded in the self-test of every run",
			"the race detector observes only the schedules that occurred; 'all interleavings' and the static all-paths clause are out of reach for runtime monitoring",
			"porcupine v1.3.0 decides linearizability of each recorded history; a checker timeout is counted as inconclusive",
		},
		SelfTest: c20selfTest,
		Streams: []*vf.Stream{
			lin(true),
			lin(false),
			{Name: "bloom-stress-race", Race: true, Workers: 1, Shards: 4, Run: c20stress, N: func(t vf.Tier) int { return t.Sz(2000, 40000) }},
			{Name: "bloom-conservation-race", Race: true, Workers: 1, Shards: 4, Run: c20conservation, N: func(t vf.Tier) int { return t.Sz(960, 19200) }},
			{Name: "bloom-reload-during-add-race", Race: true, Workers: 1, Shards: 4, Run: c20flipAdds, N: func(t vf.Tier) int { return t.Sz(3000, 60000) }},
			{Name: "bloom-reload-during-query-race", Race: true, Workers: 1, Shards: 4, Run: c20flipQueries, N: func(t vf.Tier) int { return t.Sz(3000, 60000) }},
			{Name: "gcs-concurrent-queries-race", Race: true, Workers: 1, Shards: 4, Run: c20gcs, N: func(t vf.Tier) int { return t.Sz(160, 3200) }},
		},
	})
}
