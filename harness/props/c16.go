package props

import (
	"bytes"
	"encoding/hex"
	"errors"
	"fmt"
	"io"
	"math"
	"strconv"
	"strings"
	"testing/iotest"
	"time"

	"github.com/gcash/bchd/chaincfg/chainhash"
	"github.com/gcash/bchd/wire"
	"github.com/gcash/bchutil"

	"verif/internal/ref"
	"verif/internal/vf"
)

// C16 — Block / Tx wrappers agree with the wire message they wrap.
//
// History + model.  A case is one generated block (or transaction); for each
// constructor a fresh wrapper is driven through a seeded sequence of accessor
// calls and every result is compared with a fresh computation: the bchd wire
// serialisation (which defines the bytes) and ref.Sha256d of the 80-byte
// header / of the transaction bytes (a chainhash.Hash holds the raw digest).
// The model remembers every pointer handed out so far.
//
// Domain: only blocks / transactions for which wire alone round-trips
// serialise -> deserialise -> serialise (checked without bchutil; filtered
// cases are counted).  NewBlockFromBytes(b || junk) is out of the domain and
// never generated.  Height/SetHeight (and SetIndex on a free-standing Tx) are
// not part of the statement: they are issued as perturbations of the history
// and a disagreement with the obvious model is only counted as inconclusive.

// ---- generation -------------------------------------------------------------

func c16token(r *vf.Rand, cats [][32]byte) wire.TokenData {
	if r.Chance(1, 16) {
		// odd token data: exercises the wire-round-trip filter
		td := wire.TokenData{CategoryID: cats[r.Intn(len(cats))]}
		switch r.Intn(6) {
		case 0: // reserved / invalid bitfield
			td.BitField = []byte{0x00, 0x80, 0x90, 0x13, 0x23, 0x40, 0x11}[r.Intn(7)]
			td.Amount = 7
		case 1: // commitment flag with empty commitment
			td.BitField = wire.HAS_NFT | wire.HAS_COMMITMENT_LENGTH
		case 2: // commitment too long
			td.BitField = wire.HAS_NFT | wire.HAS_COMMITMENT_LENGTH
			td.Commitment = r.Bytes(41 + r.Intn(20))
		case 3: // amount flag with amount 0
			td.BitField = wire.HAS_AMOUNT
		case 4: // all-zero category (IsEmpty) but other fields set
			td.CategoryID = [32]byte{}
			td.BitField = wire.HAS_AMOUNT
			td.Amount = 5
		default: // amount above the maximum
			td.BitField = wire.HAS_AMOUNT
			td.Amount = 1<<63 + uint64(r.Intn(5))
		}
		return td
	}
	return c18token(r, cats)
}

func c16genTx(r *vf.Rand, maxIO int, tokens bool, cats [][32]byte, info *c16genInfo) *wire.MsgTx {
	tx := &wire.MsgTx{Version: int32(r.Uint32()), LockTime: r.Uint32()}
	if r.Chance(3, 4) {
		tx.Version = int32(1 + r.Intn(2))
	}
	nIn, nOut := 1+r.Intn(2), 1+r.Intn(2)
	if r.Chance(1, 5) {
		nIn, nOut = r.Intn(maxIO+1), r.Intn(maxIO+1)
	}
	script := func() []byte {
		switch k := r.Intn(40); {
		case k == 0:
			return nil
		case k == 1:
			return r.Bytes(250 + r.Intn(8)) // around the 0xfd var-int boundary
		case k == 2:
			return r.Bytes(r.Intn(1200))
		}
		return r.Bytes(r.Intn(36))
	}
	for k := 0; k < nIn; k++ {
		in := &wire.TxIn{Sequence: r.Uint32(), SignatureScript: script()}
		r.Fill(in.PreviousOutPoint.Hash[:])
		in.PreviousOutPoint.Index = r.Uint32()
		if r.Bool() {
			in.PreviousOutPoint.Index = uint32(r.Intn(4))
		}
		tx.TxIn = append(tx.TxIn, in)
	}
	for k := 0; k < nOut; k++ {
		o := &wire.TxOut{Value: int64(r.Uint64n(21e14)), PkScript: script()}
		if r.Chance(1, 20) {
			o.Value = int64(r.Uint64())
		}
		if len(o.PkScript) > 0 && o.PkScript[0] == wire.PREFIX_BYTE {
			info.prefixByteScripts++
		}
		if tokens && r.Chance(1, 3) {
			o.TokenData = c16token(r, cats)
			info.tokenOutputs++
		} else if r.Chance(1, 400) && len(o.PkScript) > 0 {
			o.PkScript[0] = wire.PREFIX_BYTE // looks like a token prefix without being one
			info.prefixByteScripts++
		}
		tx.TxOut = append(tx.TxOut, o)
	}
	return tx
}

type c16genInfo struct {
	tokenOutputs      int
	prefixByteScripts int
}

func c16numTx(r *vf.Rand) int {
	switch k := r.Intn(100); {
	case k < 5:
		return 0
	case k < 15:
		return 1
	case k < 60:
		return 2 + r.Intn(7)
	case k < 92:
		return 9 + r.Intn(42)
	case k < 99:
		return 51 + r.Intn(150)
	}
	if r.Chance(1, 60) {
		return 65533 + r.Intn(6) // ... and around the 0xfe var-int boundary (65535 | 65536)
	}
	return 251 + r.Intn(6) // transaction count around the 0xfd var-int boundary
}

func c16genBlock(seed uint64, info *c16genInfo) *wire.MsgBlock {
	r := vf.NewRand(seed)
	blk := &wire.MsgBlock{}
	blk.Header.Version = int32(r.Uint32())
	r.Fill(blk.Header.PrevBlock[:])
	r.Fill(blk.Header.MerkleRoot[:])
	blk.Header.Timestamp = time.Unix(int64(r.Uint32()), 0)
	blk.Header.Bits = r.Uint32()
	blk.Header.Nonce = r.Uint32()
	n := c16numTx(r)
	tokens := r.Bool()
	cats := make([][32]byte, 2)
	for k := range cats {
		r.Fill(cats[k][:])
		cats[k][0] |= 1
	}
	blk.Transactions = make([]*wire.MsgTx, 0, n)
	maxIO := 5
	if n > 1000 {
		maxIO, tokens = 1, false // tens of thousands of minimal transactions
	}
	for k := 0; k < n; k++ {
		blk.Transactions = append(blk.Transactions, c16genTx(r, maxIO, tokens, cats, info))
	}
	return blk
}

// ---- fresh computation (without bchutil) -----------------------------------------

type c16expect struct {
	n       int
	bytes   []byte
	hash    [32]byte
	tx      [][]byte
	txHash  [][32]byte
	locBase int // 80 + size of the transaction count var-int
}

func c16serBlock(m *wire.MsgBlock) ([]byte, error) {
	var w bytes.Buffer
	w.Grow(m.SerializeSize())
	if err := m.Serialize(&w); err != nil {
		return nil, err
	}
	return w.Bytes(), nil
}

func c16serTx(m *wire.MsgTx) ([]byte, error) {
	var w bytes.Buffer
	w.Grow(m.SerializeSize())
	if err := m.Serialize(&w); err != nil {
		return nil, err
	}
	return w.Bytes(), nil
}

// c16expectBlock computes the expected views of m and evaluates the domain
// precondition.  ok=false means the block is filtered (reason says why).
func c16expectBlock(m *wire.MsgBlock) (e *c16expect, reason string) {
	b, err := c16serBlock(m)
	if err != nil {
		return nil, "wire-serialise-error"
	}
	var m2 wire.MsgBlock
	rd := bytes.NewReader(b)
	if err := m2.Deserialize(rd); err != nil {
		return nil, "wire-deserialise-error"
	}
	if rd.Len() != 0 {
		return nil, "wire-deserialise-left-bytes"
	}
	b2, err := c16serBlock(&m2)
	if err != nil || !bytes.Equal(b, b2) {
		return nil, "wire-roundtrip-differs"
	}
	e = &c16expect{n: len(m.Transactions), bytes: b}
	if len(b) < 81 {
		return nil, "wire-block-shorter-than-header"
	}
	e.hash = ref.Sha256d(b[:80])
	e.locBase = 80 + wire.VarIntSerializeSize(uint64(e.n))
	off := e.locBase
	for _, t := range m.Transactions {
		tb, err := c16serTx(t)
		if err != nil {
			return nil, "wire-serialise-error"
		}
		// the block serialisation is header || count || transactions
		if off+len(tb) > len(b) || !bytes.Equal(b[off:off+len(tb)], tb) {
			return nil, "wire-block-is-not-concatenation"
		}
		off += len(tb)
		e.tx = append(e.tx, tb)
		e.txHash = append(e.txHash, ref.Sha256d(tb))
	}
	if off != len(b) {
		return nil, "wire-block-is-not-concatenation"
	}
	return e, ""
}

// ---- block histories ---------------------------------------------------------------

var c16ctors = []string{"NewBlock", "NewBlockFromBytes", "NewBlockFromReader", "NewBlockFromBlockAndBytes"}

type c16model struct {
	txPtr      []*bchutil.Tx
	txMsgPtr   []*wire.MsgTx
	txHashPtr  []*chainhash.Hash // returned by Tx(i).Hash() / Transactions()[i].Hash()
	blkHashPtr []*chainhash.Hash // returned by Block.TxHash(i)
	hashPtr    *chainhash.Hash
	msgPtr     *wire.MsgBlock
	height     int32
	wrapped    int // number of distinct indices handed out so far
	allDone    bool
}

type c16run struct {
	c     *vf.Ctx
	ctor  string
	e     *c16expect
	b     *bchutil.Block
	m     c16model
	trace []string
	dead  bool // a call panicked: stop the history
	// scratch is a caller-owned buffer of which the constructor was handed a
	// zero-length slice; the caller keeps using it (it is overwritten after
	// every call)
	scratch   []byte
	scribbles int
}

func (h *c16run) desc() string {
	tr := strings.Join(h.trace, " ")
	if len(tr) > 1500 {
		tr = "…" + tr[len(tr)-1500:]
	}
	blk := hx(h.e.bytes)
	if len(blk) > 2400 {
		blk = blk[:2400] + fmt.Sprintf("…(%d bytes)", len(h.e.bytes))
	}
	return fmt.Sprintf("ctor=%s ntx=%d history=[%s] block=%s", h.ctor, h.e.n, tr, blk)
}

func (h *c16run) call(site string, f func()) bool {
	if h.dead {
		return false
	}
	if !h.c.Call(site, h.desc, f) {
		h.dead = true
		return false
	}
	if h.scratch != nil && h.scribbles < 6 && (strings.Contains(site, "Bytes") || strings.Contains(site, "TxLoc") || strings.HasPrefix(site, "New")) {
		// (a bounded number of times: the buffer of a 65538-transaction block has megabytes)
		h.scribbles++
		for j := range h.scratch {
			h.scratch[j] = 0xa5
		}
	}
	return true
}

func c16idx(i int) string {
	switch i {
	case math.MaxInt:
		return "MaxInt"
	case math.MinInt:
		return "MinInt"
	}
	return fmt.Sprint(i)
}

func c16isRangeErr(err error) bool {
	var oe bchutil.OutOfRangeError
	return errors.As(err, &oe)
}

// checkTx verifies a wrapped transaction the block handed out for index i.
func (h *c16run) checkTx(site string, i int, t *bchutil.Tx) {
	c, e := h.c, h.e
	c.Evals(1)
	if t == nil {
		c.Failf(site+"/nil", "%s: nil *Tx for in-range index %d", h.desc(), i)
		return
	}
	if h.m.txPtr[i] == nil {
		h.m.txPtr[i] = t
		h.m.wrapped++
	} else if h.m.txPtr[i] != t {
		c.Failf(site+"/identity", "%s: index %d now yields a different *Tx (%p) than an earlier call (%p)", h.desc(), i, t, h.m.txPtr[i])
	}
	var idx int
	var hp *chainhash.Hash
	var mp *wire.MsgTx
	if !h.call(site, func() { idx = t.Index(); hp = t.Hash(); mp = t.MsgTx() }) {
		return
	}
	if idx != i {
		c.Failf(site+"/index", "%s: wrapped transaction %d reports Index()=%d", h.desc(), i, idx)
	}
	if hp == nil {
		c.Failf(site+"/hash", "%s: transaction %d: Hash()=nil", h.desc(), i)
	} else {
		if [32]byte(*hp) != e.txHash[i] {
			c.Failf(site+"/hash", "%s: transaction %d: Hash()=%x, sha256d of its serialisation=%x (tx %s)", h.desc(), i, hp[:], e.txHash[i][:], short(hx(e.tx[i])))
		}
		if h.m.txHashPtr[i] == nil {
			h.m.txHashPtr[i] = hp
		} else if h.m.txHashPtr[i] != hp {
			c.Failf(site+"/hash-identity", "%s: transaction %d: hash pointer changed between calls", h.desc(), i)
		}
	}
	if mp == nil {
		c.Failf(site+"/msgtx", "%s: transaction %d: MsgTx()=nil", h.desc(), i)
	} else if h.m.txMsgPtr[i] == nil {
		h.m.txMsgPtr[i] = mp
		// If the wrapper holds the very MsgTx object of the underlying block
		// message its content is that message's by definition (the message
		// itself is compared with the expected bytes at the end of the
		// history); otherwise compare the serialisation now.
		var under *wire.MsgTx
		h.call(site, func() {
			if mb := h.b.MsgBlock(); mb != nil && i < len(mb.Transactions) {
				under = mb.Transactions[i]
			}
		})
		if under == mp {
			c.Inc("wrapped_tx_holds_the_block_message's_own_MsgTx")
		} else {
			c.Inc("wrapped_tx_holds_another_MsgTx_object")
			got, err := c16serTx(mp)
			if err != nil || !bytes.Equal(got, e.tx[i]) {
				c.Failf(site+"/msgtx", "%s: transaction %d wraps a message serialising to %s (err %v), the block's transaction %d is %s", h.desc(), i, short(hx(got)), err, i, short(hx(e.tx[i])))
			}
		}
	} else if h.m.txMsgPtr[i] != mp {
		c.Failf(site+"/msgtx-identity", "%s: transaction %d: MsgTx() pointer changed between calls", h.desc(), i)
	}
}

func (h *c16run) opTx(i int) {
	h.trace = append(h.trace, "Tx("+c16idx(i)+")")
	var t *bchutil.Tx
	var err error
	if !h.call("Block.Tx", func() { t, err = h.b.Tx(i) }) {
		return
	}
	h.c.Evals(1)
	if i < 0 || i >= h.e.n {
		h.c.Inc("out_of_range_calls")
		if err == nil {
			h.c.Failf("Block.Tx/out-of-range-accepted", "%s: Tx(%s) returned no error (tx=%v)", h.desc(), c16idx(i), t != nil)
		} else if !c16isRangeErr(err) {
			h.c.Failf("Block.Tx/out-of-range-error-type", "%s: Tx(%s) returned %T %v, not an OutOfRangeError", h.desc(), c16idx(i), err, err)
		}
		return
	}
	if err != nil {
		h.c.Failf("Block.Tx/in-range-rejected", "%s: Tx(%d) failed: %v", h.desc(), i, err)
		return
	}
	if h.m.allDone {
		h.c.Inc("tx_call_after_transactions")
	}
	h.checkTx("Block.Tx", i, t)
}

func (h *c16run) opTxHash(i int) {
	h.trace = append(h.trace, "TxHash("+c16idx(i)+")")
	var hp *chainhash.Hash
	var err error
	if !h.call("Block.TxHash", func() { hp, err = h.b.TxHash(i) }) {
		return
	}
	c, e := h.c, h.e
	c.Evals(1)
	if i < 0 || i >= e.n {
		c.Inc("out_of_range_calls")
		if err == nil {
			c.Failf("Block.TxHash/out-of-range-accepted", "%s: TxHash(%s) returned no error", h.desc(), c16idx(i))
		} else if !c16isRangeErr(err) {
			c.Failf("Block.TxHash/out-of-range-error-type", "%s: TxHash(%s) returned %T %v, not an OutOfRangeError", h.desc(), c16idx(i), err, err)
		}
		return
	}
	if err != nil || hp == nil {
		c.Failf("Block.TxHash/in-range-rejected", "%s: TxHash(%d) = %v, %v", h.desc(), i, hp, err)
		return
	}
	if h.m.txPtr[i] == nil {
		c.Inc("txhash_before_tx_was_wrapped")
	}
	if [32]byte(*hp) != e.txHash[i] {
		c.Failf("Block.TxHash/value", "%s: TxHash(%d)=%x, sha256d of the transaction's serialisation=%x (tx %s)", h.desc(), i, hp[:], e.txHash[i][:], short(hx(e.tx[i])))
	}
	if h.m.blkHashPtr[i] == nil {
		h.m.blkHashPtr[i] = hp
	} else if h.m.blkHashPtr[i] != hp {
		c.Failf("Block.TxHash/identity", "%s: TxHash(%d) returned a different hash object than an earlier TxHash(%d)", h.desc(), i, i)
	}
	// TxHash(i) and Tx(i).Hash() being one object is the implementation's
	// choice, not the statement's: observed only.
	if h.m.txHashPtr[i] != nil {
		if h.m.txHashPtr[i] == hp {
			c.Inc("txhash_is_the_wrapped_tx's_hash_object")
		} else {
			c.Inc("txhash_is_a_separate_hash_object")
		}
	}
}

func (h *c16run) opTransactions() {
	h.trace = append(h.trace, "Transactions()")
	var ts []*bchutil.Tx
	if !h.call("Block.Transactions", func() { ts = h.b.Transactions() }) {
		return
	}
	c, e := h.c, h.e
	c.Evals(1)
	switch {
	case h.m.allDone:
		c.Inc("transactions_called_again")
	case h.m.wrapped == 0:
		c.Inc("transactions_called_on_empty_cache")
	case h.m.wrapped < e.n:
		c.Inc("transactions_called_on_partially_filled_cache")
	default:
		c.Inc("transactions_called_on_individually_filled_cache")
	}
	if len(ts) != e.n {
		c.Failf("Block.Transactions/count", "%s: Transactions() has %d entries, the block has %d transactions", h.desc(), len(ts), e.n)
		return
	}
	for i, t := range ts {
		h.checkTx("Block.Transactions", i, t)
		if h.dead {
			return
		}
	}
	h.m.allDone = true
}

func (h *c16run) opHash() {
	h.trace = append(h.trace, "Hash()")
	var hp *chainhash.Hash
	if !h.call("Block.Hash", func() { hp = h.b.Hash() }) {
		return
	}
	c, e := h.c, h.e
	c.Evals(1)
	if hp == nil {
		c.Failf("Block.Hash/value", "%s: Hash()=nil", h.desc())
		return
	}
	if [32]byte(*hp) != e.hash {
		c.Failf("Block.Hash/value", "%s: Hash()=%x, sha256d of the 80-byte header=%x", h.desc(), hp[:], e.hash[:])
	}
	if h.m.hashPtr == nil {
		h.m.hashPtr = hp
	} else if h.m.hashPtr != hp {
		c.Failf("Block.Hash/identity", "%s: Hash() returned a different object than an earlier call", h.desc())
	}
}

func (h *c16run) opBytes() []byte {
	h.trace = append(h.trace, "Bytes()")
	var bs []byte
	var err error
	if !h.call("Block.Bytes", func() { bs, err = h.b.Bytes() }) {
		return nil
	}
	h.c.Evals(1)
	if err != nil {
		h.c.Failf("Block.Bytes/error", "%s: Bytes() failed: %v", h.desc(), err)
		return nil
	}
	if !bytes.Equal(bs, h.e.bytes) {
		h.c.Failf("Block.Bytes/value", "%s: Bytes()=%s differs from the wire serialisation of the message", h.desc(), short(hx(bs)))
	}
	return bs
}

func (h *c16run) opTxLoc() {
	h.trace = append(h.trace, "TxLoc()")
	var locs []wire.TxLoc
	var bs []byte
	var err, err2 error
	if !h.call("Block.TxLoc", func() { locs, err = h.b.TxLoc(); bs, err2 = h.b.Bytes() }) {
		return
	}
	c, e := h.c, h.e
	c.Evals(1)
	if err != nil || err2 != nil {
		c.Failf("Block.TxLoc/error", "%s: TxLoc() failed: %v (Bytes: %v)", h.desc(), err, err2)
		return
	}
	if len(locs) != e.n {
		c.Failf("Block.TxLoc/count", "%s: TxLoc() has %d entries, the block has %d transactions", h.desc(), len(locs), e.n)
		return
	}
	next := e.locBase
	for i, l := range locs {
		if l.TxStart < 0 || l.TxLen < 0 || l.TxStart > len(bs) || l.TxLen > len(bs)-l.TxStart {
			c.Failf("Block.TxLoc/bounds", "%s: location %d = {start %d, len %d} is outside the %d block bytes", h.desc(), i, l.TxStart, l.TxLen, len(bs))
			return
		}
		if !bytes.Equal(bs[l.TxStart:l.TxStart+l.TxLen], e.tx[i]) {
			c.Failf("Block.TxLoc/delimits", "%s: bytes[%d:+%d]=%s is not the serialisation of transaction %d (%s)", h.desc(), l.TxStart, l.TxLen,
				short(hx(bs[l.TxStart:l.TxStart+l.TxLen])), i, short(hx(e.tx[i])))
		}
		if l.TxStart != next {
			c.Failf("Block.TxLoc/tiling", "%s: location %d starts at %d, the preceding bytes end at %d", h.desc(), i, l.TxStart, next)
		}
		next = l.TxStart + l.TxLen
	}
	if e.n > 0 && next != len(bs) {
		c.Failf("Block.TxLoc/tiling", "%s: the last location ends at %d, the block has %d bytes", h.desc(), next, len(bs))
	}
}

func (h *c16run) opHeight(r *vf.Rand) {
	if r.Bool() {
		v := int32(r.Uint32())
		if r.Bool() {
			v = int32(r.Intn(1000000))
		}
		h.trace = append(h.trace, fmt.Sprintf("SetHeight(%d)", v))
		if h.call("Block.SetHeight", func() { h.b.SetHeight(v) }) {
			h.m.height = v
		}
		return
	}
	h.trace = append(h.trace, "Height()")
	var got int32
	if h.call("Block.Height", func() { got = h.b.Height() }) && got != h.m.height {
		// not part of the statement: observed, not judged
		h.c.Inconclusive("Block.Height differs from the last SetHeight / BlockHeightUnknown")
	}
}

func (h *c16run) opMsgBlock() {
	h.trace = append(h.trace, "MsgBlock()")
	var mp *wire.MsgBlock
	if !h.call("Block.MsgBlock", func() { mp = h.b.MsgBlock() }) {
		return
	}
	h.c.Evals(1)
	if mp == nil {
		h.c.Failf("Block.MsgBlock/nil", "%s: MsgBlock()=nil", h.desc())
		return
	}
	if h.m.msgPtr == nil {
		h.m.msgPtr = mp
	} else if h.m.msgPtr != mp {
		h.c.Failf("Block.MsgBlock/identity", "%s: MsgBlock() pointer changed between calls", h.desc())
	}
}

// c16two32 is 2^32 on 64-bit builds (an index that truncates to 0 in 32
// bits) and 1 where an int has 32 bits.
var c16two32 = func() int {
	sh := uint(32)
	return 1 << (sh & uint(strconv.IntSize-1))
}()

// pickIndex draws an index from {-1, 0..n-1, n, n+1, MaxInt, MinInt, ...}.
func (h *c16run) pickIndex(r *vf.Rand, used *[]int) int {
	n := h.e.n
	k := r.Intn(100)
	switch {
	case n == 0 || k < 22:
		oor := []int{-1, n, n + 1, math.MaxInt, math.MinInt, -n - 1, math.MaxInt32, math.MinInt32, c16two32, c16two32 + n - 1, -2}
		return oor[r.Intn(len(oor))]
	case k < 45 && len(*used) > 0:
		return (*used)[r.Intn(len(*used))]
	case k < 55:
		return []int{0, n - 1}[r.Intn(2)]
	}
	i := r.Intn(n)
	*used = append(*used, i)
	return i
}

func c16construct(c *vf.Ctx, r *vf.Rand, ctor string, msg *wire.MsgBlock, e *c16expect, h *c16run) bool {
	own := append([]byte{}, e.bytes...)
	var b *bchutil.Block
	var err error
	switch ctor {
	case "NewBlock":
		h.call(ctor, func() { b = bchutil.NewBlock(msg) })
	case "NewBlockFromBytes":
		h.call(ctor, func() { b, err = bchutil.NewBlockFromBytes(own) })
	case "NewBlockFromReader":
		var rd io.Reader
		switch r.Intn(4) {
		case 0:
			rd = iotest.OneByteReader(bytes.NewReader(own))
			c.Inc("reader=one-byte")
		case 1:
			rd = iotest.HalfReader(bytes.NewReader(own))
			c.Inc("reader=half")
		case 2:
			rd = bytes.NewBuffer(own)
			c.Inc("reader=buffer")
		default:
			rd = bytes.NewReader(own)
			c.Inc("reader=bytes.Reader")
		}
		h.call(ctor, func() { b, err = bchutil.NewBlockFromReader(rd) })
		if r.Bool() {
			// the reader and its storage belong to the caller, who goes on
			// using them (a receive loop reusing one buffer per connection)
			if bb, ok := rd.(*bytes.Buffer); ok {
				bb.Reset()
				for bb.Len() < len(own)+8 {
					bb.Write([]byte{0xde, 0xad, 0xbe, 0xef, 0xfe, 0xed, 0xfa})
				}
			}
			for j := range own {
				own[j] ^= 0x5a
			}
			c.Inc("reader_storage_reused_after_construction")
		}
	case "NewBlockFromBlockAndBytes":
		if r.Chance(1, 4) {
			// "no serialised bytes known": a zero-length slice - of a scratch
			// buffer with plenty of capacity that the caller goes on using
			h.scratch = make([]byte, len(own)+64)
			empty := h.scratch[:0]
			c.Inc("NewBlockFromBlockAndBytes_with_empty_slice_of_a_scratch_buffer")
			h.call(ctor, func() { b = bchutil.NewBlockFromBlockAndBytes(msg, empty) })
			break
		}
		h.call(ctor, func() { b = bchutil.NewBlockFromBlockAndBytes(msg, own) })
	}
	if h.dead {
		return false
	}
	c.Evals(1)
	if err != nil || b == nil {
		c.Failf(ctor+"/rejected", "%s: constructor failed on a block that wire alone round-trips: %v", h.desc(), err)
		return false
	}
	h.b = b
	return true
}

func c16blockCase(c *vf.Ctx, i int) {
	seed := c.R.Uint64()
	var info c16genInfo
	msg := c16genBlock(seed, &info)
	e, why := c16expectBlock(msg)
	c.Count("filtered_blocks_total", 0) // make the zero visible in the evidence
	if e == nil {
		c.Inc("filtered_blocks_total")
		c.Inc("filtered_blocks:" + why)
		return
	}
	switch {
	case e.n == 0:
		c.Inc("blocks_with_0_tx")
	case e.n == 1:
		c.Inc("blocks_with_1_tx")
	case e.n <= 8:
		c.Inc("blocks_with_2..8_tx")
	case e.n <= 50:
		c.Inc("blocks_with_9..50_tx")
	case e.n <= 200:
		c.Inc("blocks_with_51..200_tx")
	default:
		c.Inc("blocks_with_251..256_tx")
	}
	if info.tokenOutputs > 0 {
		c.Inc("blocks_with_token_data")
		c.Count("outputs_with_token_data", int64(info.tokenOutputs))
	} else {
		c.Inc("blocks_without_token_data")
	}
	c.Count("scripts_starting_with_token_prefix_byte", int64(info.prefixByteScripts))

	for ci, ctor := range c16ctors {
		r := vf.NewRand(vf.Mix(seed, uint64(ci), 0xc16))
		// every constructor gets its own, freshly generated message object
		m := msg
		if ci > 0 {
			var dummy c16genInfo
			m = c16genBlock(seed, &dummy)
		}
		h := &c16run{c: c, ctor: ctor, e: e}
		h.m.height = bchutil.BlockHeightUnknown
		h.m.txPtr = make([]*bchutil.Tx, e.n)
		h.m.txMsgPtr = make([]*wire.MsgTx, e.n)
		h.m.txHashPtr = make([]*chainhash.Hash, e.n)
		h.m.blkHashPtr = make([]*chainhash.Hash, e.n)
		if !c16construct(c, r, ctor, m, e, h) {
			continue
		}
		if e.n > 0 {
			c.Nontrivial(vf.Mix(vf.HashBytes(e.bytes), uint64(ci)))
		}
		steps := 4 + r.Intn(28)
		var used []int
		for s := 0; s < steps && !h.dead; s++ {
			switch k := r.Intn(100); {
			case k < 30:
				h.opTx(h.pickIndex(r, &used))
			case k < 50:
				h.opTxHash(h.pickIndex(r, &used))
			case k < 58:
				h.opTransactions()
			case k < 68:
				h.opHash()
			case k < 78:
				h.opBytes()
			case k < 86:
				h.opTxLoc()
			case k < 94:
				h.opHeight(r)
			default:
				h.opMsgBlock()
			}
		}
		c.Count("history_steps", int64(len(h.trace)))
		if h.dead {
			continue
		}
		// final sweep: every view once more, in a seeded order of the cheap ones
		h.trace = append(h.trace, "|final:")
		if r.Bool() {
			h.opHash()
			h.opBytes()
		} else {
			h.opBytes()
			h.opHash()
		}
		h.opTxLoc()
		for _, x := range []int{-1, e.n, math.MaxInt} {
			h.opTx(x)
			h.opTxHash(x)
		}
		if e.n > 0 {
			j := r.Intn(e.n)
			h.opTxHash(j)
			h.opTx(j)
		}
		h.opTransactions()
		full := h.trace[:len(h.trace):len(h.trace)]
		for j := 0; j < e.n && !h.dead; j++ {
			h.trace = append(full, fmt.Sprintf("Tx(%d) TxHash(%d)", j, j))
			var t *bchutil.Tx
			var hp *chainhash.Hash
			var err, err2 error
			if !h.call("Block.Tx", func() { t, err = h.b.Tx(j); hp, err2 = h.b.TxHash(j) }) {
				break
			}
			c.Evals(1)
			if err != nil || err2 != nil || t != h.m.txPtr[j] || (h.m.blkHashPtr[j] != nil && hp != h.m.blkHashPtr[j]) {
				c.Failf("Block.Tx/identity", "%s: after Transactions(), Tx(%d)/TxHash(%d) do not return the objects of Transactions()[%d] (err %v, %v)", h.desc(), j, j, j, err, err2)
			}
		}
		if h.dead {
			continue
		}
		h.trace = full
		h.opMsgBlock()
		if h.m.msgPtr != nil {
			c.Evals(1)
			got, err := c16serBlock(h.m.msgPtr)
			if err != nil || !bytes.Equal(got, e.bytes) {
				c.Failf("Block.MsgBlock/value", "%s: after the history MsgBlock() serialises to %s (err %v)", h.desc(), short(hx(got)), err)
			}
			if (ctor == "NewBlock" || ctor == "NewBlockFromBlockAndBytes") && h.m.msgPtr == m {
				c.Inc("msgblock_is_the_constructor_argument")
			}
		}
		// re-parse of Bytes()
		bs := h.opBytes()
		if bs == nil || h.dead {
			continue
		}
		h.trace = append(h.trace, "NewBlockFromBytes(Bytes())")
		var b2 *bchutil.Block
		var err error
		if !h.call("Block.reparse", func() { b2, err = bchutil.NewBlockFromBytes(append([]byte{}, bs...)) }) {
			continue
		}
		c.Evals(1)
		if err != nil || b2 == nil {
			c.Failf("Block.reparse/rejected", "%s: NewBlockFromBytes(Bytes()) failed: %v", h.desc(), err)
			continue
		}
		h.call("Block.reparse", func() {
			h1, h2 := b2.Hash(), h.b.Hash()
			if h1 == nil || h2 == nil || *h1 != *h2 || [32]byte(*h1) != e.hash {
				c.Failf("Block.reparse/hash", "%s: re-parsed block hash %v, original %v, expected %x", h.desc(), h1, h2, e.hash[:])
			}
			rb, err := b2.Bytes()
			if err != nil || !bytes.Equal(rb, bs) {
				c.Failf("Block.reparse/bytes", "%s: re-parsed block Bytes() differ (err %v)", h.desc(), err)
			}
			if got := len(b2.Transactions()); got != e.n {
				c.Failf("Block.reparse/tx-count", "%s: re-parsed block has %d transactions, original %d", h.desc(), got, e.n)
				return
			}
			for j := 0; j < e.n; j++ {
				th, err := b2.TxHash(j)
				if err != nil || th == nil || [32]byte(*th) != e.txHash[j] {
					c.Failf("Block.reparse/tx-hash", "%s: re-parsed block TxHash(%d)=%v err %v, original %x", h.desc(), j, th, err, e.txHash[j][:])
					return
				}
			}
		})
		if c.WantSample() && ci == 0 {
			c.Sample(map[string]any{"ntx": e.n, "block_bytes": len(e.bytes), "token_outputs": info.tokenOutputs, "hash": hx(e.hash[:])})
		}
	}
}

// ---- free-standing transactions -------------------------------------------------------

var c16txCtors = []string{"NewTx", "NewTxFromBytes", "NewTxFromReader"}

func c16genLooseTx(seed uint64, info *c16genInfo) *wire.MsgTx {
	r := vf.NewRand(seed)
	cats := make([][32]byte, 2)
	for k := range cats {
		r.Fill(cats[k][:])
		cats[k][0] |= 1
	}
	maxIO := 6
	if r.Chance(1, 10) {
		maxIO = 60
	}
	return c16genTx(r, maxIO, r.Bool(), cats, info)
}

// c16txNonCanonical: serialisations that wire parses but does not reproduce
// (an output whose locking bytes start with the token prefix 0xef and an
// all-zero category: wire reads token data and drops it again when
// serialising).  The wrapper must describe the MESSAGE it wraps: its cached
// hash equals a fresh hash of MsgTx(), whatever the input bytes were.
func c16txNonCanonical(c *vf.Ctx) {
	r := c.R
	tx := c16genLooseTx(r.Uint64(), &c16genInfo{})
	sc := append([]byte{0xef}, make([]byte, 32)...)
	sc = append(sc, []byte{0x10, 0x20, 0x30, 0x60, 0x61, 0x22}[r.Intn(6)], byte(1+r.Intn(4)))
	sc = append(sc, r.Bytes(1+r.Intn(20))...)
	tx.AddTxOut(&wire.TxOut{Value: int64(r.Intn(1e6)), PkScript: sc})
	raw, err := c16serTx(tx)
	if err != nil {
		return
	}
	var m2 wire.MsgTx
	if m2.Deserialize(bytes.NewReader(raw)) != nil {
		c.Inc("noncanonical_tx_bytes_rejected_by_wire")
		return
	}
	if again, err := c16serTx(&m2); err != nil || bytes.Equal(again, raw) {
		c.Inc("noncanonical_tx_bytes_roundtrip_after_all")
		return
	}
	c.Inc("txs_from_bytes_wire_does_not_reproduce")
	c.Nontrivial(vf.Mix(0x7c17, vf.HashBytes(raw)))
	for _, ctor := range []string{"NewTxFromBytes", "NewTxFromReader"} {
		var t *bchutil.Tx
		var err error
		desc := func() string {
			return fmt.Sprintf("ctor=%s bytes=%s (wire parses but does not reproduce these bytes)", ctor, short(hx(raw)))
		}
		if !c.Call(ctor, desc, func() {
			if ctor == "NewTxFromBytes" {
				t, err = bchutil.NewTxFromBytes(append([]byte{}, raw...))
			} else {
				t, err = bchutil.NewTxFromReader(bytes.NewReader(raw))
			}
		}) || err != nil || t == nil {
			continue
		}
		var hp, hp2 *chainhash.Hash
		var mp *wire.MsgTx
		if !c.Call("Tx.Hash", desc, func() { hp = t.Hash(); mp = t.MsgTx(); hp2 = t.Hash() }) || mp == nil || hp == nil {
			continue
		}
		fresh, err := c16serTx(mp)
		if err != nil {
			continue
		}
		want := ref.Sha256d(fresh)
		c.Evals(1)
		if [32]byte(*hp) != want {
			c.Failf("Tx.Hash/value", "%s: Hash()=%v, a fresh hash of the wrapped message is %x", desc(), hp, want[:])
		}
		if hp != hp2 {
			c.Failf("Tx.Hash/identity", "%s: Hash() returned a different object on the second call", desc())
		}
	}
}

func c16txCase(c *vf.Ctx, i int) {
	if i%16 == 15 {
		c16txNonCanonical(c)
		return
	}
	seed := c.R.Uint64()
	var info c16genInfo
	msg := c16genLooseTx(seed, &info)
	want, err := c16serTx(msg)
	c.Count("filtered_txs_total", 0)
	if err != nil {
		c.Inc("filtered_txs_total")
		c.Inc("filtered_txs:wire-serialise-error")
		return
	}
	var m2 wire.MsgTx
	rd := bytes.NewReader(want)
	if err := m2.Deserialize(rd); err != nil || rd.Len() != 0 {
		c.Inc("filtered_txs_total")
		c.Inc("filtered_txs:wire-deserialise-error")
		return
	}
	if again, err := c16serTx(&m2); err != nil || !bytes.Equal(again, want) {
		c.Inc("filtered_txs_total")
		c.Inc("filtered_txs:wire-roundtrip-differs")
		return
	}
	wantHash := ref.Sha256d(want)
	if info.tokenOutputs > 0 {
		c.Inc("txs_with_token_data")
	} else {
		c.Inc("txs_without_token_data")
	}
	c.Nontrivial(vf.Mix(0x7c16, vf.HashBytes(want)))
	for ci, ctor := range c16txCtors {
		r := vf.NewRand(vf.Mix(seed, uint64(ci), 0x7c16))
		m := msg
		if ci > 0 {
			var dummy c16genInfo
			m = c16genLooseTx(seed, &dummy)
		}
		var trace []string
		desc := func() string {
			return fmt.Sprintf("ctor=%s history=[%s] tx=%s", ctor, strings.Join(trace, " "), short(hx(want)))
		}
		var t *bchutil.Tx
		var err error
		own := append([]byte{}, want...)
		if ci > 0 && r.Intn(3) == 0 {
			// the buffer / stream continues behind the transaction (e.g. a slice
			// of a block starting at TxLoc.TxStart): the constructor consumes
			// exactly one transaction, and the wrapper must describe that one
			own = append(own, r.Bytes(1+r.Intn(40))...)
			trace = append(trace, fmt.Sprintf("(+%d trailing bytes)", len(own)-len(want)))
			c.Inc("txs_constructed_from_bytes_with_trailing_data")
		}
		ok := c.Call(ctor, desc, func() {
			switch ctor {
			case "NewTx":
				t = bchutil.NewTx(m)
			case "NewTxFromBytes":
				t, err = bchutil.NewTxFromBytes(own)
			default:
				var rd io.Reader = bytes.NewReader(own)
				switch r.Intn(3) {
				case 0:
					rd = iotest.OneByteReader(rd)
				case 1:
					rd = bytes.NewBuffer(own)
				}
				t, err = bchutil.NewTxFromReader(rd)
				if r.Bool() {
					// the reader's storage is the caller's and is reused
					if bb, ok := rd.(*bytes.Buffer); ok {
						bb.Reset()
						for bb.Len() < len(own)+8 {
							bb.Write([]byte{0xde, 0xad, 0xbe, 0xef, 0xfe, 0xed, 0xfa})
						}
					}
					for j := range own {
						own[j] ^= 0x5a
					}
				}
			}
		})
		if !ok {
			continue
		}
		c.Evals(1)
		if err != nil || t == nil {
			c.Failf(ctor+"/rejected", "%s: constructor failed on a transaction that wire alone round-trips: %v", desc(), err)
			continue
		}
		var hashPtr *chainhash.Hash
		var msgPtr *wire.MsgTx
		index := bchutil.TxIndexUnknown
		steps := 3 + r.Intn(8)
		alive := true
		for s := 0; s <= steps && alive; s++ {
			k := r.Intn(4)
			if s == steps {
				k = 0 // always finish with Hash and MsgTx
			}
			switch k {
			case 0, 1:
				trace = append(trace, "Hash()", "MsgTx()")
				var hp *chainhash.Hash
				var mp *wire.MsgTx
				if alive = c.Call("Tx.Hash", desc, func() { hp = t.Hash(); mp = t.MsgTx() }); !alive {
					break
				}
				c.Evals(1)
				if hp == nil || [32]byte(*hp) != wantHash {
					c.Failf("Tx.Hash/value", "%s: Hash()=%v, sha256d of the serialisation=%x", desc(), hp, wantHash[:])
				} else if hashPtr == nil {
					hashPtr = hp
				} else if hashPtr != hp {
					c.Failf("Tx.Hash/identity", "%s: Hash() returned a different object than an earlier call", desc())
				}
				if mp == nil {
					c.Failf("Tx.MsgTx/nil", "%s: MsgTx()=nil", desc())
				} else if msgPtr == nil || s == steps {
					if msgPtr != nil && msgPtr != mp {
						c.Failf("Tx.MsgTx/identity", "%s: MsgTx() pointer changed between calls", desc())
					}
					msgPtr = mp
					got, err := c16serTx(mp)
					if err != nil || !bytes.Equal(got, want) {
						c.Failf("Tx.MsgTx/value", "%s: MsgTx() serialises to %s (err %v)", desc(), short(hx(got)), err)
					}
					if ctor == "NewTx" && mp == m && s == steps {
						c.Inc("msgtx_is_the_constructor_argument")
					}
				} else if msgPtr != mp {
					c.Failf("Tx.MsgTx/identity", "%s: MsgTx() pointer changed between calls", desc())
				}
			case 2:
				v := []int{-1, 0, 1, r.Intn(1000), math.MaxInt, math.MinInt, int(int32(r.Uint32()))}[r.Intn(7)]
				trace = append(trace, "SetIndex("+c16idx(v)+")")
				if alive = c.Call("Tx.SetIndex", desc, func() { t.SetIndex(v) }); alive {
					index = v
				}
			default:
				trace = append(trace, "Index()")
				var got int
				if alive = c.Call("Tx.Index", desc, func() { got = t.Index() }); alive && got != index {
					// not part of the statement for a free-standing transaction
					c.Inconclusive("Tx.Index differs from the last SetIndex / TxIndexUnknown")
				}
			}
		}
		if c.WantSample() && ci == 0 {
			c.Sample(map[string]any{"tx": short(hx(want)), "hash": hx(wantHash[:]), "token_outputs": info.tokenOutputs})
		}
	}
}

func init() {
	register(&vf.Property{
		ID:    "C16",
		Title: "Block and transaction wrappers always agree with the wire message they wrap",
		Rule: "stream blocks: case = one seeded block (0, 1, 2..8, 9..50, 51..200 or 251..256 transactions; token data on a third of the outputs of half the blocks, a few deliberately odd token fields), kept only if wire alone round-trips it; " +
			"for each of the 4 constructors (reader variants: bytes.Reader, bytes.Buffer, one-byte, half reader) a seeded history of 4..31 calls of Tx(i), TxHash(i), Transactions(), Hash(), Bytes(), TxLoc(), Height/SetHeight, MsgBlock() " +
			"with i from {-1, 0..n-1, n, n+1, MaxInt, MinInt, ±2^31, 2^32, revisited indices}, then a final sweep over every view and index and a re-parse of Bytes(). " +
			"stream txs: seeded transactions x {NewTx, NewTxFromBytes, NewTxFromReader} x histories of Hash/MsgTx/Index/SetIndex. " +
			"A case is non-trivial if the block has at least one transaction; distinct by (block bytes, constructor).",
		Assumptions: []string{
			"bchd wire MsgBlock/MsgTx Serialize define the serialised bytes; crypto/sha256 is correct",
			"a chainhash.Hash holds the raw sha256d digest (no byte reversal)",
			"the message handed to NewBlock / NewBlockFromBlockAndBytes is not mutated by the caller during the history, and the bytes handed to NewBlockFromBlockAndBytes are the message's serialisation",
			"Height/SetHeight and SetIndex/Index of a free-standing Tx are outside the statement: used as history perturbations, disagreements are counted as inconclusive only",
			"pointer identity of the []byte returned by Bytes() is not asserted",
		},
		SelfTest: func() error {
			// sha256d of the genesis block header (raw digest, i.e. the displayed hash reversed)
			hdr, _ := hex.DecodeString("0100000000000000000000000000000000000000000000000000000000000000000000003ba3edfd7a7b12b27ac72c3e67768f617fc81bc3888a51323a9fb8aa4b1e5e4a29ab5f49ffff001d1dac2b7c")
			got := ref.Sha256d(hdr)
			if hx(got[:]) != "6fe28c0ab6f1b372c1a6a246ae63f74f931e8365e15a089c68d6190000000000" {
				return fmt.Errorf("sha256d self-test: genesis header hashes to %x", got[:])
			}
			return nil
		},
		Streams: []*vf.Stream{
			{Name: "blocks", Shards: 8, Init: c18init, N: func(t vf.Tier) int { return t.Sz(60000, 400000) }, Run: c16blockCase},
			{Name: "txs", Shards: 8, Init: c18init, N: func(t vf.Tier) int { return t.Sz(300000, 3000000) }, Run: c16txCase},
		},
	})
}
