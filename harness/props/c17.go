package props

import (
	"fmt"
	"math"
	"math/big"
	"sort"
	"strconv"
	"sync"

	"github.com/gcash/bchutil"

	"verif/internal/vf"
)

// C17 — amounts convert between BCH floats, satoshi integers and text
// without loss.
//
// Oracle (exact arithmetic; nothing below uses floating point except the one
// product the statement permits, and subtractions/truncations that are exact):
//
//	NewAmount(f)   x = fl(f*1e8) computed by the harness as float64(f*1e8);
//	               expected = round-half-away-from-zero of the exact binary
//	               value of x (integer logic on the bit pattern).  Because the
//	               statement says "up to the single rounding of that product",
//	               the round-half-away of the *exact* product f*10^8 is
//	               accepted as well (counted, never seen on the library).
//	MulF64(f)      the same on fl(float64(a)*f).
//	ToUnit(u)      nearest-even double of a / 10^(u+8)   (big.Rat.Float64)
//	Format(u)      "<decimal> <label>": decimal parsed by big.Rat must equal
//	               a * 10^-(u+8); label from the harness's own table.
//
// Domain: finite f with |fl(f*1e8)| < 2^62; |a| <= 2.1e15; units -12..12.

const (
	c17cap    = int64(2_100_000_000_000_000) // 21e6 BCH in satoshi
	c17two62  = float64(1 << 62)
	c17minU   = -12
	c17maxU   = 12
	c17nUnits = c17maxU - c17minU + 1
)

// c17rha rounds the exact value of x half away from zero; |x| must be < 2^63.
func c17rha(x float64) int64 {
	b := math.Float64bits(x)
	neg := b>>63 != 0
	exp := int((b >> 52) & 0x7ff)
	if exp == 0 { // zero or subnormal, |x| < 2^-1022
		return 0
	}
	man := b&(1<<52-1) | 1<<52
	e := exp - 1075 // |x| = man * 2^e exactly
	var r uint64
	switch {
	case e >= 0:
		r = man << uint(e)
	case e <= -54: // |x| < 2^53 * 2^-54 = 1/2
		r = 0
	default:
		s := uint(-e) // 1..53 fractional bits
		r = man >> s
		if man&(1<<(s-1)) != 0 { // fraction >= 1/2
			r++
		}
	}
	if neg {
		return -int64(r)
	}
	return int64(r)
}

// c17rhaRat is the slow reference: floor(|r| + 1/2) with the sign restored.
func c17rhaRat(r *big.Rat) *big.Int {
	num := new(big.Int).Abs(r.Num())
	den := r.Denom()
	n2 := new(big.Int).Lsh(num, 1)
	n2.Add(n2, den)
	d2 := new(big.Int).Lsh(den, 1)
	q := new(big.Int).Quo(n2, d2) // operands non-negative: truncation == floor
	if r.Sign() < 0 {
		q.Neg(q)
	}
	return q
}

// c17rhaExactProduct rounds the exact real product a*b half away from zero.
func c17rhaExactProduct(a, b float64) *big.Int {
	ra, rb := new(big.Rat).SetFloat64(a), new(big.Rat).SetFloat64(b)
	if ra == nil || rb == nil {
		return nil
	}
	return c17rhaRat(ra.Mul(ra, rb))
}

var c17pow10 = func() []*big.Int {
	p := make([]*big.Int, 24)
	p[0] = big.NewInt(1)
	for i := 1; i < len(p); i++ {
		p[i] = new(big.Int).Mul(p[i-1], big.NewInt(10))
	}
	return p
}()

// c17quot returns a * 10^-(u+8) exactly.
func c17quot(a int64, u int) *big.Rat {
	k := u + 8
	if k >= 0 {
		return new(big.Rat).SetFrac(big.NewInt(a), c17pow10[k])
	}
	n := new(big.Int).Mul(big.NewInt(a), c17pow10[-k])
	return new(big.Rat).SetInt(n)
}

// c17label is the harness's own copy of the documented unit label table.
func c17label(u int) string {
	switch u {
	case 6:
		return "MBCH"
	case 3:
		return "kBCH"
	case 0:
		return "BCH"
	case -3:
		return "mBCH"
	case -6:
		return "μBCH"
	case -8:
		return "Satoshi"
	}
	return "1e" + strconv.Itoa(u) + " BCH"
}

// c17decimalSyntax: optional '-', digits, optionally '.' and digits.
func c17decimalSyntax(s string) bool {
	i := 0
	if i < len(s) && s[i] == '-' {
		i++
	}
	d := 0
	for i < len(s) && s[i] >= '0' && s[i] <= '9' {
		i++
		d++
	}
	if d == 0 {
		return false
	}
	if i == len(s) {
		return true
	}
	if s[i] != '.' {
		return false
	}
	i++
	d = 0
	for i < len(s) && s[i] >= '0' && s[i] <= '9' {
		i++
		d++
	}
	return d > 0 && i == len(s)
}

func c17split(s string) (num, label string, ok bool) {
	for i := 0; i < len(s); i++ {
		if s[i] == ' ' {
			return s[:i], s[i+1:], true
		}
	}
	return s, "", false
}

// c17fl formats like c17f, but only when fmt actually builds the message.
type c17fl float64

func (f c17fl) String() string { return c17f(float64(f)) }

func c17f(f float64) string {
	return fmt.Sprintf("%s (bits %016x)", strconv.FormatFloat(f, 'g', -1, 64), math.Float64bits(f))
}

// ---- NewAmount ------------------------------------------------------------

type c17tally struct {
	checked, filtered, ties, nearTies, bigOdd, huge, belowHalf, integers, acceptedExact, adj, symm int64
}

func (t *c17tally) flush(c *vf.Ctx, pfx string) {
	c.Count(pfx+"/checked", t.checked)
	c.Count(pfx+"/filtered_product_outside_2^62_or_not_finite", t.filtered)
	c.Count(pfx+"/product_is_exact_tie_k+0.5", t.ties)
	c.Count(pfx+"/product_adjacent_to_tie", t.nearTies)
	c.Count(pfx+"/product_odd_in_[2^52,2^53)", t.bigOdd)
	c.Count(pfx+"/product_ge_2^53", t.huge)
	c.Count(pfx+"/product_below_one_half", t.belowHalf)
	c.Count(pfx+"/product_is_integer", t.integers)
	c.Count(pfx+"/accepted_as_rounding_of_exact_product", t.acceptedExact)
	c.Count(pfx+"/adjacent_double_pairs", t.adj)
	c.Count(pfx+"/sign_pairs", t.symm)
}

func (t *c17tally) classify(x float64) {
	ax := math.Abs(x)
	switch {
	case ax >= 1<<53:
		t.huge++
	case ax >= 1<<52:
		if uint64(ax)&1 == 1 {
			t.bigOdd++
		}
		t.integers++
	case ax < 0.5:
		t.belowHalf++
	default:
		fr := ax - math.Trunc(ax) // exact
		switch {
		case fr == 0.5:
			t.ties++
		case fr == 0:
			t.integers++
		default:
			up, dn := math.Nextafter(ax, math.Inf(1)), math.Nextafter(ax, 0)
			if up-math.Trunc(up) == 0.5 || dn-math.Trunc(dn) == 0.5 {
				t.nearTies++
			}
		}
	}
}

func c17inDomain(f float64) (x float64, ok bool) {
	if math.IsNaN(f) || math.IsInf(f, 0) {
		return 0, false
	}
	x = float64(f * 1e8) // the one permitted rounding (explicit conversion: never fused)
	return x, math.Abs(x) < c17two62
}

// c17newAmount checks one in-domain f and returns the library's result.
func c17newAmount(c *vf.Ctx, t *c17tally, f float64) (got int64, ok bool) {
	x, in := c17inDomain(f)
	if !in {
		t.filtered++
		return 0, false
	}
	var a bchutil.Amount
	var err error
	if !c.Call("NewAmount", func() string { return c17f(f) }, func() { a, err = bchutil.NewAmount(f) }) {
		return 0, false
	}
	c.Evals(1)
	t.checked++
	t.classify(x)
	if err != nil {
		c.Failf("NewAmount/finite-rejected", "NewAmount(%s) failed: %v", c17fl(f), err)
		return 0, false
	}
	want := c17rha(x)
	if int64(a) != want {
		if ex := c17rhaExactProduct(f, 1e8); ex != nil && ex.IsInt64() && ex.Int64() == int64(a) {
			t.acceptedExact++
		} else {
			c.Failf("NewAmount/rounding", "NewAmount(%s) = %d; f*1e8 in float64 = %s, whose exact value rounds half away from zero to %d (the exact product rounds to %v)", c17fl(f), int64(a), c17fl(x), want, ex)
		}
	}
	return int64(a), true
}

// c17newAmountFull: f itself, odd symmetry, both adjacent doubles.
func c17newAmountFull(c *vf.Ctx, t *c17tally, f float64) (int64, bool) {
	g, ok := c17newAmount(c, t, f)
	if !ok {
		return 0, false
	}
	if n, ok2 := c17newAmount(c, t, -f); ok2 {
		t.symm++
		c.Evals(1)
		if n != -g {
			c.Failf("NewAmount/odd-symmetry", "NewAmount(%s) = %d but NewAmount(%s) = %d", c17fl(f), g, c17fl(-f), n)
		}
	}
	if up := math.Nextafter(f, math.Inf(1)); up != f {
		if n, ok2 := c17newAmount(c, t, up); ok2 {
			t.adj++
			c.Evals(1)
			if n < g {
				c.Failf("NewAmount/monotone", "NewAmount(%s) = %d > NewAmount(%s) = %d for the next larger double", c17fl(f), g, c17fl(up), n)
			}
		}
	}
	if dn := math.Nextafter(f, math.Inf(-1)); dn != f {
		if n, ok2 := c17newAmount(c, t, dn); ok2 {
			t.adj++
			c.Evals(1)
			if n > g {
				c.Failf("NewAmount/monotone", "NewAmount(%s) = %d < NewAmount(%s) = %d for the next smaller double", c17fl(f), g, c17fl(dn), n)
			}
		}
	}
	c.Nontrivial(vf.Mix(17, math.Float64bits(f)))
	return g, true
}

func c17rejects(c *vf.Ctx, f float64) {
	var a bchutil.Amount
	var err error
	if !c.Call("NewAmount", func() string { return c17f(f) }, func() { a, err = bchutil.NewAmount(f) }) {
		return
	}
	c.Evals(1)
	c.Inc("newamount/nan_or_inf_inputs")
	if err == nil {
		c.Failf("NewAmount/nan-inf-accepted", "NewAmount(%s) returned %d without an error", c17fl(f), int64(a))
	}
}

// c17step moves f by n doubles (n may be negative).
func c17step(f float64, n int) float64 {
	for ; n > 0; n-- {
		f = math.Nextafter(f, math.Inf(1))
	}
	for ; n < 0; n++ {
		f = math.Nextafter(f, math.Inf(-1))
	}
	return f
}

// c17directedX: the product values the directed stream aims at.
func c17directedX() []float64 {
	var xs []float64
	add := func(x float64) { xs = append(xs, x) }
	for k := 0; k <= 20; k++ {
		add(float64(k))
		add(float64(k) + 0.5)
		add(math.Nextafter(float64(k)+0.5, 0))
		add(math.Nextafter(float64(k)+0.5, math.Inf(1)))
	}
	for e := 0; e <= 61; e++ {
		p := math.Ldexp(1, e)
		for d := -2; d <= 2; d++ {
			k := p + float64(d) // exact below 2^53, rounds to a neighbour above
			if k < 0 {
				continue
			}
			add(k)
			if k < 1<<52 {
				add(k + 0.5)
				add(math.Nextafter(k+0.5, 0))
				add(math.Nextafter(k+0.5, math.Inf(1)))
			}
		}
	}
	for e := -80; e < 0; e++ {
		add(math.Ldexp(1, e))
	}
	for d := -12; d <= 18; d++ {
		p, _ := strconv.ParseFloat("1e"+strconv.Itoa(d), 64)
		add(p)
		if d >= 0 {
			add(p + 1)
			add(p - 1)
			if p < 1<<52 {
				add(p + 0.5)
				add(p - 0.5)
				add(math.Nextafter(p+0.5, 0))
				add(math.Nextafter(p-0.5, math.Inf(1)))
			}
		}
	}
	two52 := float64(1 << 52)
	for j := 0; j < 64; j++ {
		add(two52 + 1 + float64(2*j))
		add(2*two52 - 1 - float64(2*j))
		add(two52 + float64(j)*(two52/64) + 1)
	}
	for d := -2; d <= 2; d++ {
		add(float64(c17cap + int64(d)))
		add(float64(c17cap+int64(d)) + 0.5)
	}
	return xs
}

var (
	c17dirOnce sync.Once
	c17dirTab  []float64
)

// c17directedF is the seed-independent list of directed inputs f.
func c17directedF() []float64 {
	c17dirOnce.Do(func() {
		var fs []float64
		for _, x := range c17directedX() {
			f0 := x / 1e8
			for s := -3; s <= 3; s++ {
				fs = append(fs, c17step(f0, s))
			}
		}
		fs = append(fs,
			4.999999999999999e-09, // product 0.49999999999999994
			45035996.27370497,     // product 2^52+1
			0, math.Copysign(0, -1), 5e-324, 2.2250738585072014e-308, 2.225073858507201e-308,
			1e-8, 0.5e-8, 1.5e-8, 2.5e-8, 0.1, 0.2, 0.3, 0.7, 1.1, 1.15, 2.675, 1.005, 8.7, 21e6, 20999999.99999999, 21000000.00000001,
			math.MaxFloat64, 1e300, c17two62/1e8, c17step(c17two62/1e8, -1), c17step(c17two62/1e8, -2), c17step(c17two62/1e8, 1),
		)
		c17dirTab = fs
	})
	return c17dirTab
}

var c17nonFinite = []float64{
	math.NaN(), math.Inf(1), math.Inf(-1),
	math.Float64frombits(0x7ff0000000000001), math.Float64frombits(0xfff0000000000001), // signalling NaNs
	math.Float64frombits(0x7ff8000000000000), math.Float64frombits(0xfff8000000000000),
	math.Float64frombits(0x7fffffffffffffff), math.Float64frombits(0xffffffffffffffff),
	math.Float64frombits(0x7ff4000000000000),
}

func c17directedCase(c *vf.Ctx, i int) {
	tab := c17directedF()
	var t c17tally
	if i < len(tab) {
		f := tab[i]
		g, ok := c17newAmountFull(c, &t, f)
		if c.WantSample() {
			c.Sample(map[string]any{"f": c17f(f), "product": c17f(float64(f * 1e8)), "NewAmount": g, "in_domain": ok})
		}
	} else {
		c17rejects(c, c17nonFinite[i-len(tab)])
	}
	t.flush(c, "newamount")
}

// c17randX draws a product value (non-negative) from the stratified classes.
func c17randX(r *vf.Rand) float64 {
	bitsK := func(maxBits int) float64 { // integer with a uniformly chosen bit length
		n := r.Intn(maxBits + 1)
		if n == 0 {
			return 0
		}
		return float64(uint64(1)<<uint(n-1) | r.Uint64n(uint64(1)<<uint(n-1)))
	}
	switch r.Intn(10) {
	case 0, 1: // any binade, random mantissa
		e := r.Range(-64, 61)
		return math.Ldexp(1+r.Float64(), e)
	case 2: // exact tie
		return bitsK(52) + 0.5
	case 3: // adjacent to a tie
		k := bitsK(51) + 0.5
		if r.Bool() {
			return math.Nextafter(k, 0)
		}
		return math.Nextafter(k, math.Inf(1))
	case 4: // integers incl. 2^53 and above (rounded to a representable one)
		return bitsK(62)
	case 5: // odd in [2^52, 2^53)
		return float64(uint64(1)<<52 | r.Uint64n(1<<52) | 1)
	case 6: // by decimal digit count
		d := r.Range(1, 18)
		lo := uint64(1)
		for j := 1; j < d; j++ {
			lo *= 10
		}
		k := float64(lo + r.Uint64n(9*lo))
		if k < 1<<52 {
			switch r.Intn(3) {
			case 0:
				k += 0.5
			case 1:
				k += float64(r.Intn(100)) / 100
			}
		}
		return k
	case 7: // around one half and below
		return []float64{0.5, 0.49999999999999994, 0.5000000000000001, 0.25, 0.75, 1.5, 0.4999999999999999}[r.Intn(7)] * []float64{1, 1, 1, 0.5, 2}[r.Intn(5)]
	case 8: // amounts up to the cap (typical use)
		return float64(r.Uint64n(uint64(c17cap) + 1))
	default: // upper end of the domain
		return math.Ldexp(1+r.Float64(), r.Range(52, 61))
	}
}

func c17randF(r *vf.Rand) float64 {
	var f float64
	if r.Chance(1, 12) { // arbitrary bit pattern (mostly far outside or deep inside the domain)
		f = r.AnyFloat64()
		if math.IsNaN(f) || math.IsInf(f, 0) {
			f = 1
		}
		return f
	}
	f = c17step(c17randX(r)/1e8, r.Intn(7)-3)
	if r.Bool() {
		f = -f
	}
	return f
}

const c17batch = 16

func c17randomCase(c *vf.Ctx, i int) {
	var t c17tally
	type pair struct {
		f float64
		g int64
	}
	ps := make([]pair, 0, c17batch)
	for k := 0; k < c17batch; k++ {
		f := c17randF(c.R)
		if g, ok := c17newAmountFull(c, &t, f); ok {
			ps = append(ps, pair{f, g})
		}
	}
	// monotone on the sorted sample
	sort.Slice(ps, func(a, b int) bool { return ps[a].f < ps[b].f })
	for k := 0; k+1 < len(ps); k++ {
		c.Evals(1)
		if ps[k].g > ps[k+1].g {
			c.Failf("NewAmount/monotone", "NewAmount(%s) = %d > NewAmount(%s) = %d", c17fl(ps[k].f), ps[k].g, c17fl(ps[k+1].f), ps[k+1].g)
		}
	}
	c.Count("newamount/sorted_sample_pairs", int64(len(ps)-1))
	if i%64 == 0 {
		c17rejects(c, c17nonFinite[(i/64)%len(c17nonFinite)])
	}
	t.flush(c, "newamount")
	if c.WantSample() && len(ps) > 0 {
		c.Sample(map[string]any{"f": c17f(ps[0].f), "NewAmount": ps[0].g})
	}
}

// ---- amounts: round trip, ToUnit, Format ----------------------------------

func c17directedAmounts() []int64 {
	var as []int64
	add := func(a int64) {
		if a >= -c17cap && a <= c17cap {
			as = append(as, a, -a)
		}
	}
	for k := int64(0); k <= 30; k++ {
		add(k)
	}
	for e := 0; e <= 51; e++ {
		for d := int64(-2); d <= 2; d++ {
			add(int64(1)<<uint(e) + d)
		}
	}
	p := int64(1)
	for d := 0; d <= 15; d++ {
		for _, m := range []int64{1, 2, 5, 9, 15, 25, 45, 55, 95} {
			for e := int64(-1); e <= 1; e++ {
				add(m*p + e)
			}
		}
		add(p*10 - 1)
		p *= 10
	}
	for d := int64(-3); d <= 0; d++ {
		add(c17cap + d)
	}
	add(2099999999999999)
	add(1234567890123456)
	add(1111111111111111)
	add(2000000000000001)
	add(123456789)
	add(100000001)
	add(99999999)
	return as
}

var (
	c17amtOnce sync.Once
	c17amtTab  []int64
)

func c17amountTab() []int64 {
	c17amtOnce.Do(func() { c17amtTab = c17directedAmounts() })
	return c17amtTab
}

func c17randAmount(r *vf.Rand) int64 {
	var a int64
	switch r.Intn(6) {
	case 0, 1: // per binade
		n := r.Range(1, 51)
		a = int64(uint64(1)<<uint(n-1) | r.Uint64n(uint64(1)<<uint(n-1)))
	case 2, 3: // per decimal digit count
		d := r.Range(1, 16)
		lo := uint64(1)
		for j := 1; j < d; j++ {
			lo *= 10
		}
		a = int64(lo + r.Uint64n(9*lo))
	case 4: // trailing zeros (round numbers in some unit)
		z := r.Intn(15)
		m := uint64(1)
		for j := 0; j < z; j++ {
			m *= 10
		}
		a = int64(r.Uint64n(uint64(c17cap)/m+1) * m)
	default: // just under the cap
		a = c17cap - int64(r.Uint64n(1_000_000))
	}
	if a > c17cap {
		a = a % (c17cap + 1)
	}
	if r.Bool() {
		a = -a
	}
	return a
}

type c17amtTally struct {
	amounts, subSat, atSat, aboveSat, inexact, roundTrips int64
	badSub, badOther                                      int64 // ToUnit/Format mismatches by unit class
}

func c17checkText(c *vf.Ctx, site string, a int64, u int, s string, want *big.Rat) (exact bool) {
	num, label, ok := c17split(s)
	if !ok || !c17decimalSyntax(num) {
		c.Failf(site+"/exact-text", "Amount(%d).%s(unit %d) = %q: no \"<decimal numeral> <label>\" shape", a, site, u, s)
		return false
	}
	v, ok := new(big.Rat).SetString(num)
	exact = ok && v.Cmp(want) == 0
	if !exact {
		c.Failf(site+"/exact-text", "Amount(%d).%s(unit %d) = %q: the numeral does not denote %d * 10^%d = %s", a, site, u, s, a, -(u + 8), lazyStr(func() string { return want.FloatString(c17digitsAfterPoint(u)) }))
	}
	if label != c17label(u) {
		c.Failf(site+"/label", "Amount(%d).%s(unit %d) = %q: label %q, the unit's label is %q", a, site, u, s, label, c17label(u))
	}
	return exact
}

func c17digitsAfterPoint(u int) int {
	if u+8 > 0 {
		return u + 8
	}
	return 0
}

func c17unitsOf(c *vf.Ctx, t *c17amtTally, a int64, u int) {
	amt := bchutil.Amount(a)
	unit := bchutil.AmountUnit(u)
	want := c17quot(a, u)
	wantF, exact := want.Float64()
	if !exact {
		t.inexact++
	}
	switch {
	case u < -8:
		t.subSat++
	case u == -8:
		t.atSat++
	default:
		t.aboveSat++
	}
	var got float64
	if c.Call("ToUnit", func() string { return fmt.Sprintf("Amount(%d).ToUnit(%d)", a, u) }, func() { got = amt.ToUnit(unit) }) {
		c.Evals(1)
		if got != wantF {
			if u < -8 {
				t.badSub++
			} else {
				t.badOther++
			}
			c.Failf("ToUnit/rounding", "Amount(%d).ToUnit(%d) = %s; the double nearest to %d / 10^%d is %s", a, u, c17fl(got), a, u+8, c17fl(wantF))
		}
	}
	var s string
	if c.Call("Format", func() string { return fmt.Sprintf("Amount(%d).Format(%d)", a, u) }, func() { s = amt.Format(unit) }) {
		c.Evals(1)
		if !c17checkText(c, "Format", a, u, s, want) {
			if u < -8 {
				t.badSub++
			} else {
				t.badOther++
			}
		}
	}
}

func c17amount(c *vf.Ctx, t *c17amtTally, a int64, units []int) {
	amt := bchutil.Amount(a)
	t.amounts++
	c.Nontrivial(vf.Mix(18, uint64(a)))
	// to BCH and back
	var f float64
	if c.Call("ToBCH", func() string { return fmt.Sprintf("Amount(%d).ToBCH()", a) }, func() { f = amt.ToBCH() }) {
		wantF, _ := c17quot(a, 0).Float64()
		c.Evals(1)
		if f != wantF {
			c.Failf("ToBCH/rounding", "Amount(%d).ToBCH() = %s; the double nearest to %d / 10^8 is %s", a, c17fl(f), a, c17fl(wantF))
		}
		var back bchutil.Amount
		var err error
		if c.Call("NewAmount", func() string { return c17f(f) }, func() { back, err = bchutil.NewAmount(f) }) {
			c.Evals(1)
			t.roundTrips++
			if err != nil || int64(back) != a {
				c.Failf("ToBCH/round-trip", "NewAmount(Amount(%d).ToBCH() = %s) = %d, err %v", a, c17fl(f), int64(back), err)
			}
		}
	}
	var s string
	if c.Call("String", func() string { return fmt.Sprintf("Amount(%d).String()", a) }, func() { s = amt.String() }) {
		c.Evals(1)
		c17checkText(c, "String", a, 0, s, c17quot(a, 0))
	}
	for _, u := range units {
		c17unitsOf(c, t, a, u)
	}
}

var c17allUnits = func() []int {
	us := make([]int, 0, c17nUnits)
	for u := c17minU; u <= c17maxU; u++ {
		us = append(us, u)
	}
	return us
}()

func (t *c17amtTally) flush(c *vf.Ctx) {
	c.Count("amounts/amounts", t.amounts)
	c.Count("amounts/round_trips", t.roundTrips)
	c.Count("amounts/unit_pairs_below_satoshi", t.subSat)
	c.Count("amounts/unit_pairs_satoshi", t.atSat)
	c.Count("amounts/unit_pairs_above_satoshi", t.aboveSat)
	c.Count("amounts/unit_pairs_quotient_not_a_double", t.inexact)
	c.Count("amounts/mismatches_unit_below_satoshi", t.badSub)
	c.Count("amounts/mismatches_unit_satoshi_or_above", t.badOther)
}

const c17amtBatch = 4

// c17exoticUnits are legal AmountUnit values far outside -12..12 (and ones
// that alias in-range units when squeezed into 8 bits).  Their results are not
// checked (outside the quantifier); they are issued so that state a call may
// leave behind (caches, pooled buffers) is present when the in-range calls run.
var c17exoticUnits = []int{244, 268, -268, 256, -256, 100, -100, 127, -128, 128, 300, -300, 1000, -1000, 32767, -32768}

// c17exoticFirst runs once in a fresh child process before any case: every
// exotic unit is used before any in-range unit has been.
func c17exoticFirst(t vf.Tier, seed uint64) any {
	defer func() { recover() }()
	for _, u := range c17exoticUnits {
		for _, a := range []bchutil.Amount{0, 1, -1, 123, 2100000000000000, -2100000000000000} {
			_ = a.Format(bchutil.AmountUnit(u))
			_ = a.ToUnit(bchutil.AmountUnit(u))
		}
		_ = bchutil.AmountUnit(u).String()
	}
	return nil
}

// ---- stream first-use-concurrent ------------------------------------------
// The very first uses of Format / String / AmountUnit.String in a fresh
// process, issued by many goroutines at the same instant (Init runs once per
// child process, before anything else touched the package): lazily built
// tables and caches are initialised under contention exactly once per
// process, which no warmed-up workload can reach.  The texts are judged
// afterwards by the same reference as everywhere else.

type c17firstUse struct {
	a int64
	u int
	s string
	l string // AmountUnit.String()
}

func c17firstUseInit(t vf.Tier, seed uint64) any {
	const G = 16
	r := vf.NewRand(vf.Mix(seed, 0xf1257))
	amts := []int64{0, 1, -1, 123456789, 2099999997690000, -2099999997690000, int64(r.Uint64n(1 << 50))}
	out := make([][]c17firstUse, G)
	var wg sync.WaitGroup
	start := make(chan struct{})
	for g := 0; g < G; g++ {
		wg.Add(1)
		go func(g int) {
			defer wg.Done()
			defer func() { recover() }() // a panic belongs to C08; the texts collected so far are still judged
			<-start
			for k := 0; k < c17nUnits; k++ {
				u := c17minU + (k+g*5)%c17nUnits
				a := amts[(g+k)%len(amts)]
				s := bchutil.Amount(a).Format(bchutil.AmountUnit(u))
				l := bchutil.AmountUnit(u).String()
				out[g] = append(out[g], c17firstUse{a, u, s, l})
			}
		}(g)
	}
	close(start)
	wg.Wait()
	var all []c17firstUse
	for _, o := range out {
		all = append(all, o...)
	}
	return all
}

func c17firstUseCase(c *vf.Ctx, i int) {
	all, _ := c.Shared.([]c17firstUse)
	if len(all) == 0 {
		c.Inconclusive("first-use-results-missing")
		return
	}
	for _, e := range all {
		c.Evals(1)
		c17checkText(c, "Format-first-use", e.a, e.u, e.s, c17quot(e.a, e.u))
		if want := c17label(e.u); e.l != want {
			c.Failf("AmountUnit.String/first-use", "AmountUnit(%d).String()=%q during concurrent first use, want %q", e.u, e.l, want)
		}
	}
	c.Count("first_use_texts_judged", int64(len(all)))
	c.Nontrivial(vf.Mix(0xf17, uint64(i), c.Seed))
}

func c17amountsCase(c *vf.Ctx, i int) {
	tab := c17amountTab()
	var t c17amtTally
	if i%5 == 4 {
		a := bchutil.Amount(c17randAmount(c.R))
		for k := 0; k < 3; k++ {
			u := bchutil.AmountUnit(c17exoticUnits[c.R.Intn(len(c17exoticUnits))])
			c.Call("Amount.Format(exotic unit)", func() string { return fmt.Sprintf("Amount(%d).Format(%d)", a, u) }, func() {
				_ = a.Format(u)
				_ = a.ToUnit(u)
				_ = u.String()
			})
		}
		c.Inc("amounts/cases_preceded_by_calls_with_exotic_units")
	}
	if i < len(tab) {
		c17amount(c, &t, tab[i], c17allUnits)
		if i == 0 { // the label table itself, every exponent
			for _, u := range c17allUnits {
				var s string
				if c.Call("AmountUnit.String", func() string { return strconv.Itoa(u) }, func() { s = bchutil.AmountUnit(u).String() }) {
					c.Evals(1)
					if s != c17label(u) {
						c.Failf("AmountUnit.String/label", "AmountUnit(%d).String() = %q, documented label %q", u, s, c17label(u))
					}
				}
			}
		}
	} else {
		for k := 0; k < c17amtBatch; k++ {
			c17amount(c, &t, c17randAmount(c.R), c17allUnits)
		}
	}
	t.flush(c)
	if c.WantSample() {
		a := tab[0]
		if i < len(tab) {
			a = tab[i]
		}
		c.Sample(map[string]any{"amount": a, "exact_BCH": c17quot(a, 0).FloatString(8), "units": "-12..12"})
	}
}

// ---- MulF64 ---------------------------------------------------------------

var c17percent = []float64{0, 1, -1, 0.5, 0.25, 0.1, 0.01, 0.001, 0.0025, 0.015, 0.03, 1.1, 1.5, 2, 2.5, 3, 10, 100, 1e-8, 1e8, 0.3333333333333333, 0.6666666666666666, 0.9999999999999999, 1.0000000000000002}

func c17mulCase(c *vf.Ctx, i int) {
	r := c.R
	var t c17tally
	tab := c17amountTab()
	for k := 0; k < c17batch; k++ {
		var a int64
		if r.Chance(1, 4) {
			a = tab[r.Intn(len(tab))]
		} else {
			a = c17randAmount(r)
		}
		var f float64
		switch r.Intn(4) {
		case 0:
			f = c17percent[r.Intn(len(c17percent))]
		case 1:
			f = math.Ldexp(1+r.Float64(), r.Range(-40, 20))
		default: // aim the product at an interesting value
			if a == 0 {
				f = r.Float64()
			} else {
				f = c17step(c17randX(r)/math.Abs(float64(a)), r.Intn(7)-3)
			}
		}
		if r.Chance(1, 3) {
			f = -f
		}
		x := float64(float64(a) * f)
		if !(math.Abs(x) < c17two62) { // also filters NaN
			t.filtered++
			continue
		}
		var got bchutil.Amount
		if !c.Call("MulF64", func() string { return fmt.Sprintf("Amount(%d).MulF64(%s)", a, c17f(f)) }, func() { got = bchutil.Amount(a).MulF64(f) }) {
			continue
		}
		c.Evals(1)
		t.checked++
		t.classify(x)
		c.Nontrivial(vf.Mix(16, uint64(a), math.Float64bits(f)))
		want := c17rha(x)
		if int64(got) != want {
			if ex := c17rhaExactProduct(float64(a), f); ex != nil && ex.IsInt64() && ex.Int64() == int64(got) {
				t.acceptedExact++
			} else {
				c.Failf("MulF64/rounding", "Amount(%d).MulF64(%s) = %d; the float64 product is %s, whose exact value rounds half away from zero to %d (the exact product rounds to %v)", a, c17fl(f), int64(got), c17fl(x), want, ex)
			}
		}
		if c.WantSample() && k == 0 {
			c.Sample(map[string]any{"amount": a, "f": c17f(f), "product": c17f(x), "MulF64": int64(got)})
		}
	}
	t.flush(c, "mulf64")
}

// ---- self-test ------------------------------------------------------------

func c17selfTest() error {
	// hand-computed round-half-away vectors
	for _, v := range []struct {
		x    float64
		want int64
	}{
		{0, 0}, {math.Copysign(0, -1), 0}, {0.25, 0}, {0.49999999999999994, 0}, {0.5, 1}, {0.5000000000000001, 1}, {1, 1}, {1.4999999999999998, 1}, {1.5, 2}, {2.5, 3}, {3.5, 4},
		{-0.49999999999999994, 0}, {-0.5, -1}, {-1.5, -2}, {-2.5, -3}, {5e-324, 0}, {1e-300, 0},
		{4503599627370495.5, 4503599627370496}, {4503599627370496, 4503599627370496}, {4503599627370497, 4503599627370497}, {9007199254740991, 9007199254740991},
		{9007199254740994, 9007199254740994}, {1e18, 1000000000000000000}, {-1e18, -1000000000000000000}, {2.1e15, 2100000000000000}, {2305843009213693952, 2305843009213693952},
		{2251799813685247.5, 2251799813685248}, {2251799813685247.25, 2251799813685247}, {2251799813685246.5, 2251799813685247}, {1234567.4999999998, 1234567},
	} {
		if g := c17rha(v.x); g != v.want {
			return fmt.Errorf("c17 selftest: rha(%v) = %d want %d", v.x, g, v.want)
		}
		if r := new(big.Rat).SetFloat64(v.x); c17rhaRat(r).Int64() != v.want {
			return fmt.Errorf("c17 selftest: rhaRat(%v) = %v want %d", v.x, c17rhaRat(r), v.want)
		}
	}
	// integer logic against the rational reference on a fixed pseudo-random sample
	r := vf.NewRand(0xc17)
	for k := 0; k < 20000; k++ {
		x := c17randX(r)
		if k%5 == 0 {
			x = c17step(x, r.Intn(5)-2)
		}
		if r.Bool() {
			x = -x
		}
		if !(math.Abs(x) < c17two62) {
			continue
		}
		if g, w := c17rha(x), c17rhaRat(new(big.Rat).SetFloat64(x)); !w.IsInt64() || w.Int64() != g {
			return fmt.Errorf("c17 selftest: rha(%v) = %d, rational reference %v", x, g, w)
		}
	}
	// exact-product rounding: 0.49999999999999994 comes from 4.999999999999999e-09 * 1e8
	wf, scale := 4.999999999999999e-09, 1e8 // variables: a constant expression would be evaluated exactly
	if x := float64(wf * scale); x != 0.49999999999999994 || c17rha(x) != 0 || c17rhaExactProduct(4.999999999999999e-09, 1e8).Sign() != 0 {
		return fmt.Errorf("c17 selftest: product witness")
	}
	// big.Rat.Float64 is the nearest double: agree with strconv.ParseFloat (an
	// independent correctly rounded decimal parser) on a / 10^k.
	for k := 0; k < 4000; k++ {
		a := c17randAmount(r)
		u := r.Range(c17minU, c17maxU)
		q := c17quot(a, u)
		f, _ := q.Float64()
		dec := q.FloatString(c17digitsAfterPoint(u)) // exact: the quotient has at most u+8 decimals
		p, err := strconv.ParseFloat(dec, 64)
		if err != nil || p != f {
			return fmt.Errorf("c17 selftest: nearest double of %s: big.Rat %v, ParseFloat %v (%v)", dec, f, p, err)
		}
		if back, ok := new(big.Rat).SetString(dec); !ok || back.Cmp(q) != 0 {
			return fmt.Errorf("c17 selftest: %s does not parse back to the quotient", dec)
		}
	}
	if f, _ := c17quot(2099999999999999, 0).Float64(); f != 20999999.99999999 {
		return fmt.Errorf("c17 selftest: quotient vector")
	}
	if f, _ := c17quot(2099999999999999, -12).Float64(); f != 2.099999999999999e19 {
		return fmt.Errorf("c17 selftest: sub-satoshi quotient vector")
	}
	if f, _ := c17quot(1, 12).Float64(); f != 1e-20 {
		return fmt.Errorf("c17 selftest: 1e-20 vector")
	}
	// label table and numeral syntax
	for u, w := range map[int]string{6: "MBCH", 3: "kBCH", 0: "BCH", -3: "mBCH", -6: "μBCH", -8: "Satoshi", -12: "1e-12 BCH", 12: "1e12 BCH", 1: "1e1 BCH", -7: "1e-7 BCH"} {
		if c17label(u) != w {
			return fmt.Errorf("c17 selftest: label(%d)", u)
		}
	}
	for s, w := range map[string]bool{"0": true, "-1": true, "1.50": true, "-0.00000001": true, "": false, "-": false, "1.": false, ".5": false, "1e5": false, "1/2": false, "0x10": false, "+1": false, "1.5 ": false, "NaN": false, "1_0": false} {
		if c17decimalSyntax(s) != w {
			return fmt.Errorf("c17 selftest: decimalSyntax(%q)", s)
		}
	}
	if n, l, ok := c17split("12.5 1e-12 BCH"); !ok || n != "12.5" || l != "1e-12 BCH" {
		return fmt.Errorf("c17 selftest: split")
	}
	return nil
}

func init() {
	register(&vf.Property{
		ID:    "C17",
		Title: "Amounts convert between BCH floats, satoshi integers and text without loss",
		Rule: "stream newamount-directed: f = x/1e8 moved by -3..+3 doubles for every directed product x (0..20 and k+0.5, 2^e+-{0,1,2} for e<=61 with their ties and tie neighbours, 2^-80..2^-1, 10^-12..10^18 +-1/+-0.5, 192 odd values in [2^52,2^53), the 21e14 cap +-2) plus literal witnesses and domain-edge values, each with -f and both adjacent doubles; NaN/Inf bit patterns must be rejected. " +
			"stream newamount-random: 16 f per case stratified over product classes (any binade -64..61, exact ties, tie neighbours, integers by bit length, odd in [2^52,2^53), by decimal digit count, around 1/2, up to the cap, top binades, raw bit patterns), each with -f and adjacent doubles, plus monotonicity over the sorted sample. " +
			"stream amounts: directed satoshi counts (0..30, 2^e+-{0,1,2}, m*10^d+-1, cap-3..cap, both signs) then 4 random per case (per binade, per digit count, trailing zeros, near cap): ToBCH and back, String, and ToUnit/Format for every exponent -12..12 (the six named units are among them). " +
			"stream mulf64: 16 (amount, multiplier) pairs per case, multipliers from a percentage table, random binades, and quotients aiming the product at the NewAmount product classes. " +
			"A distinct non-trivial case is one f, one amount, or one (amount, multiplier). Exhaustive enumeration of 4.2e15 amounts is out of reach of this family.",
		Assumptions: []string{
			"the harness's float64(f*1e8) is one IEEE-754 binary64 multiplication (explicit conversion, so it is never fused)",
			"math/big is exact and big.Rat.Float64 returns the nearest double (cross-checked against strconv.ParseFloat in the self-test)",
			"'up to the single rounding of the product' is read permissively: round-half-away of either fl(f*1e8) or of the exact product is accepted",
			"unit labels: MBCH kBCH BCH mBCH μBCH Satoshi, otherwise \"1e<N> BCH\" (documented on AmountUnit.String); the numeral is everything before the first space",
		},
		SelfTest: c17selfTest,
		Streams: []*vf.Stream{
			{Name: "newamount-directed", N: func(vf.Tier) int { return len(c17directedF()) + len(c17nonFinite) }, Run: c17directedCase},
			{Name: "newamount-random", N: func(t vf.Tier) int { return t.Sz(125_000, 12_500_000) }, Run: c17randomCase},
			{Name: "amounts", N: func(t vf.Tier) int { return len(c17amountTab()) + t.Sz(500_000, 10_000_000) }, Run: c17amountsCase},
			// the same checks in a fresh process whose FIRST library calls use exotic units
			{Name: "amounts-after-exotic-units-first", Init: c17exoticFirst, N: func(t vf.Tier) int { return len(c17amountTab()) + t.Sz(20_000, 400_000) }, Run: c17amountsCase},
			{Name: "first-use-concurrent-race", Race: true, Workers: 1, Shards: 8, Init: c17firstUseInit, N: func(t vf.Tier) int { return t.Sz(8, 8) }, Run: c17firstUseCase},
			{Name: "mulf64", N: func(t vf.Tier) int { return t.Sz(125_000, 12_500_000) }, Run: c17mulCase},
			// the same monitors in the GOARCH=386 build of the driver and the library (int is 32 bits wide there)
			{Name: "newamount-directed-386", Arch386: true, N: func(vf.Tier) int { return len(c17directedF()) + len(c17nonFinite) }, Run: c17directedCase},
			{Name: "newamount-random-386", Arch386: true, N: func(t vf.Tier) int { return t.Sz(40_000, 1_000_000) }, Run: c17randomCase},
			{Name: "amounts-386", Arch386: true, N: func(t vf.Tier) int { return len(c17amountTab()) + t.Sz(100_000, 2_000_000) }, Run: c17amountsCase},
			{Name: "mulf64-386", Arch386: true, N: func(t vf.Tier) int { return t.Sz(40_000, 1_000_000) }, Run: c17mulCase},
		},
	})
}
