package props

import (
	"bytes"
	"fmt"

	"github.com/gcash/bchd/chaincfg/chainhash"
	"github.com/gcash/bchd/wire"
	"github.com/gcash/bchutil/merkleblock"

	"verif/internal/ref"
	"verif/internal/vf"
)

// C12 — extraction is sound against malformed / malicious messages.
//
// Oracle: ref.ExtractPartialMerkle (internal/ref/merkle.go) with exactly the
// rejection rules of the statement.  For every message: the library's root
// is nil  <=>  the reference rejects; when both accept, root, match list and
// positions are equal.  One PartialBlock per extraction.

// c12maxCount is the library's documented maximum transaction count
// (merkleblock/decode.go: "max block size / 61", the smallest transaction).
func c12maxCount() uint32 { return wire.MaxBlockPayload() / 61 }

var c12reasons = []error{nil, ref.ErrPMNoTx, ref.ErrPMTooManyTx, ref.ErrPMHashesGtTx, ref.ErrPMBitsLtHashes,
	ref.ErrPMOutOfBits, ref.ErrPMOutOfHashes, ref.ErrPMUnusedHash, ref.ErrPMUnusedByte, ref.ErrPMEqualChild}

var c12reasonNames = []string{"ref_accepts", "ref_rejects_zero_count", "ref_rejects_count_above_max", "ref_rejects_hashes_gt_count",
	"ref_rejects_bits_lt_hashes", "ref_rejects_out_of_bits", "ref_rejects_out_of_hashes", "ref_rejects_unused_hash",
	"ref_rejects_unused_flag_byte", "ref_rejects_equal_children"}

// c12tally accumulates per-case counters locally (the enumeration evaluates
// billions of messages; map updates per message would dominate).
type c12tally struct {
	reason      [10]int64
	withMatches int64
	evals       int64
}

func (t *c12tally) flush(c *vf.Ctx) {
	for i, n := range t.reason {
		if n != 0 {
			c.Count(c12reasonNames[i], n)
		}
	}
	if t.withMatches != 0 {
		c.Count("accepted_with_matches", t.withMatches)
	}
	c.Evals(t.evals)
}

func c12desc(count uint32, hashes [][32]byte, flags []byte) string {
	return fmt.Sprintf("count=%d hashes=[%s] (%d) flags=%x", count, c11refList(hashes), len(hashes), flags)
}

// c12check runs one message through the library (via msg) and the reference
// and compares.  site distinguishes struct-built and wire-decoded messages.
// It returns the index of the reference's verdict in c12reasons.
func c12check(c *vf.Ctx, t *c12tally, site string, msg *wire.MsgMerkleBlock, count uint32, hashes [][32]byte, flags []byte, max uint32) int {
	wantRoot, wantM, wantP, werr := ref.ExtractPartialMerkle(count, hashes, flags, max)
	ri := 0
	for k, e := range c12reasons {
		if e == werr {
			ri = k
		}
	}
	t.reason[ri]++
	t.evals++
	var root *chainhash.Hash
	var gotM []*chainhash.Hash
	var gotI []uint32
	if !c.Call(site, func() string { return c12desc(count, hashes, flags) }, func() {
		pb := merkleblock.NewMerkleBlockFromMsg(*msg)
		root = pb.ExtractMatches()
		gotM = pb.GetMatches()
		gotI = pb.GetItems()
	}) {
		return ri
	}
	if werr != nil {
		if root != nil {
			c.Failf(site+"/accepted-"+c12reasonNames[ri][len("ref_rejects_"):], "%s: extraction returned root %x (matches [%s] at %v); the message must be rejected: %v",
				c12desc(count, hashes, flags), root[:], c11hashList(gotM), gotI, werr)
		}
		return ri
	}
	if root == nil {
		c.Failf(site+"/rejected-valid", "%s: extraction failed; an independent evaluation of the partial tree gives root %x, matches [%s] at %v and none of the rejection rules applies",
			c12desc(count, hashes, flags), wantRoot, c11refList(wantM), wantP)
		return ri
	}
	if len(wantM) > 0 {
		t.withMatches++
	}
	if [32]byte(*root) != wantRoot {
		c.Failf(site+"/root", "%s: root %x, independent evaluation gives %x", c12desc(count, hashes, flags), root[:], wantRoot)
	}
	if !c11eqHashes(gotM, wantM) {
		c.Failf(site+"/matches", "%s: matches [%s], independent evaluation gives [%s]", c12desc(count, hashes, flags), c11hashList(gotM), c11refList(wantM))
	}
	if !eqU32(gotI, wantP) {
		c.Failf(site+"/positions", "%s: positions %v, independent evaluation gives %v", c12desc(count, hashes, flags), gotI, wantP)
	}
	return ri
}

func c12ptrs(hashes [][32]byte) []*chainhash.Hash {
	if len(hashes) == 0 {
		return nil
	}
	cp := make([]chainhash.Hash, len(hashes))
	out := make([]*chainhash.Hash, len(hashes))
	for i := range hashes {
		cp[i] = chainhash.Hash(hashes[i])
		out[i] = &cp[i]
	}
	return out
}

// c12sharedPtrs returns pointers where equal values share one object; dup
// reports whether any value occurs twice.
func c12sharedPtrs(hashes [][32]byte) (out []*chainhash.Hash, dup bool) {
	seen := map[[32]byte]*chainhash.Hash{}
	for _, h := range hashes {
		p, ok := seen[h]
		if ok {
			dup = true
		} else {
			v := chainhash.Hash(h)
			p = &v
			seen[h] = p
		}
		out = append(out, p)
	}
	return out, dup
}

var c12header = func() []byte {
	h := make([]byte, 80)
	h[0] = 1
	for i := 4; i < 68; i++ {
		h[i] = byte(i * 7)
	}
	h[68], h[69], h[70], h[71] = 0x00, 0x2f, 0x68, 0x59
	h[72], h[73], h[74], h[75] = 0xff, 0xff, 0x00, 0x1d
	return h
}()

// c12both checks the message built as a struct and, when wire accepts the
// serialisation, the message decoded by wire from bytes.
func c12both(c *vf.Ctx, t *c12tally, count uint32, hashes [][32]byte, flags []byte, max uint32, viaWire bool) int {
	msg := wire.MsgMerkleBlock{Transactions: count, Hashes: c12ptrs(hashes), Flags: append([]byte(nil), flags...)}
	ri := c12check(c, t, "ExtractMatches", &msg, count, hashes, flags, max)
	// the same message with equal hash VALUES represented by the SAME pointer
	// (a caller that interns hashes): equality of children is a matter of
	// values, not of object identity
	if shared, dup := c12sharedPtrs(hashes); dup {
		msg2 := wire.MsgMerkleBlock{Transactions: count, Hashes: shared, Flags: append([]byte(nil), flags...)}
		c.Inc("struct_messages_with_shared_hash_pointers")
		c12check(c, t, "ExtractMatches(shared-pointers)", &msg2, count, hashes, flags, max)
	}
	if viaWire {
		raw := ref.SerializeMerkleBlock(c12header, ref.PartialMerkle{Count: count, Hashes: hashes, Flags: flags})
		var dec wire.MsgMerkleBlock
		if err := dec.BchDecode(bytes.NewReader(raw), wire.ProtocolVersion, wire.BaseEncoding); err != nil {
			c.Inc("wire_refused_message")
			return ri
		}
		if dec.Transactions != count || len(dec.Hashes) != len(hashes) || !bytes.Equal(dec.Flags, flags) {
			c.Inc("wire_decoded_differently(skipped)")
			return ri
		}
		c.Inc("wire_decoded_messages")
		c12check(c, t, "ExtractMatches(wire-decoded)", &dec, count, hashes, flags, max)
	}
	return ri
}

// ---- giant honest proofs -----------------------------------------------------

// c12giantCase: an honest, almost fully matched proof over about a million
// transactions (hundreds of kilobytes of flag bits), then the same proof with
// surplus flag bytes, one flag bit flipped near the end, and the last hash
// dropped.  Size-dependent shortcuts (caps on the flag expansion, chunked
// traversal) only show at this scale.
func c12giantCase(c *vf.Ctx, i int) {
	ns := []int{2098360, 1048576 + 1, 1049180, 777777, 2098360 - 10, 2097152 + 1} // the maximum count first: the quick tier runs the first two
	n := ns[i%len(ns)]
	leaves := make([][32]byte, n)
	for j := range leaves {
		leaves[j][0], leaves[j][1], leaves[j][2], leaves[j][3] = byte(j), byte(j>>8), byte(j>>16), byte(j>>24)
		leaves[j][31] = byte(i)
	}
	matched := make([]bool, n)
	for j := range matched {
		matched[j] = j%509 != 3 // nearly all matched
	}
	pm := ref.BuildPartialMerkle(leaves, matched)
	max := c12maxCount()
	var t c12tally
	c.Count("giant_proof_flag_bytes", int64(len(pm.Flags)))
	try := func(kind string, count uint32, hashes [][32]byte, flags []byte) {
		c.Inc("giant_" + kind)
		msg := wire.MsgMerkleBlock{Transactions: count, Hashes: c12ptrs(hashes), Flags: flags}
		c12check(c, &t, "ExtractMatches", &msg, count, hashes, flags, max)
	}
	try("honest", pm.Count, pm.Hashes, pm.Flags)
	try("surplus_flag_byte_00", pm.Count, pm.Hashes, append(append([]byte{}, pm.Flags...), 0))
	try("surplus_flag_bytes_64", pm.Count, pm.Hashes, append(append([]byte{}, pm.Flags...), make([]byte, 64)...))
	fl := append([]byte{}, pm.Flags...)
	fl[len(fl)-2] ^= 0x10
	try("flag_bit_flipped_near_end", pm.Count, pm.Hashes, fl)
	try("last_hash_dropped", pm.Count, pm.Hashes[:len(pm.Hashes)-1], pm.Flags)
	t.flush(c)
	c.Nontrivial(vf.Mix(0x91a, uint64(n)))
}

// ---- small-scope enumeration ----------------------------------------------

const (
	c12enumMaxCount = 7
	c12enumMaxLen   = 8
	c12enumLists    = 9841 // sum 3^L, L = 0..8
	c12enumVariants = 2
	c12blockBits    = 12 // 2-byte flag strings per case = 4096
	c12blocks       = 1 << (16 - c12blockBits)
)

// c12alphabet returns the 3-hash alphabet of a variant:
//
//	0: A, B, H(A||B)   (an inner hash can also be supplied as a hash)
//	1: A, B, H(A||A)   (the hash of a duplicated right-edge node)
func c12alphabet(variant int) [3][32]byte {
	a := ref.Sha256d([]byte("C12 alphabet A"))
	b := ref.Sha256d([]byte("C12 alphabet B"))
	if variant == 0 {
		return [3][32]byte{a, b, ref.MerkleParent(a, b)}
	}
	return [3][32]byte{a, b, ref.MerkleParent(a, a)}
}

// c12list decodes list index l (0..9840) into a hash list: lists are ordered
// by length, then as base-3 numbers (least significant symbol first).
func c12list(l int, alpha *[3][32]byte) [][32]byte {
	L, p := 0, 1
	for l >= p {
		l -= p
		p *= 3
		L++
	}
	out := make([][32]byte, L)
	for k := 0; k < L; k++ {
		out[k] = alpha[l%3]
		l /= 3
	}
	return out
}

type c12cell struct {
	variant int
	count   uint32
	list    int
	block   int
}

// c12enumCase evaluates every flag string of the cell: for block < 0 the
// empty string and all 256 one-byte strings, otherwise the 4096 two-byte
// strings whose high bits select the block.
func c12enumCase(c *vf.Ctx, cell c12cell, max uint32) {
	alpha := c12alphabet(cell.variant)
	hashes := c12list(cell.list, &alpha)
	ptrs := c12ptrs(hashes)
	var t c12tally
	live := uint32(len(hashes)) <= cell.count
	if live {
		c.Inc("cells_hashes_le_count")
	} else {
		c.Inc("cells_hashes_gt_count")
	}
	run := func(flags []byte) {
		msg := wire.MsgMerkleBlock{Transactions: cell.count, Hashes: ptrs, Flags: flags}
		ri := c12check(c, &t, "ExtractMatches", &msg, cell.count, hashes, flags, max)
		if live && cell.count != 0 {
			c.Nontrivial(vf.Mix(uint64(cell.variant), uint64(cell.count), uint64(cell.list), uint64(len(flags)), uint64(flags[0]), uint64(flags[len(flags)-1]), uint64(ri)))
		}
	}
	if cell.block < 0 {
		msg := wire.MsgMerkleBlock{Transactions: cell.count, Hashes: ptrs}
		c12check(c, &t, "ExtractMatches", &msg, cell.count, hashes, nil, max)
		shared, dup := c12sharedPtrs(hashes)
		for f := 0; f < 256; f++ {
			run([]byte{byte(f)})
			if dup && live {
				msg := wire.MsgMerkleBlock{Transactions: cell.count, Hashes: shared, Flags: []byte{byte(f)}}
				c12check(c, &t, "ExtractMatches(shared-pointers)", &msg, cell.count, hashes, []byte{byte(f)}, max)
			}
		}
		c12both(c, &t, cell.count, hashes, []byte{byte(cell.list)}, max, true)
	} else {
		for f := 0; f < 1<<c12blockBits; f++ {
			v := cell.block<<c12blockBits | f
			run([]byte{byte(v), byte(v >> 8)})
		}
	}
	t.flush(c)
	if c.WantSample() {
		c.Sample(map[string]any{"variant": cell.variant, "count": cell.count, "hashes": len(hashes), "block": cell.block, "tally": t.reason})
	}
}

// enum1: (variant, count 0..7, list) x {empty flags, all one-byte flags}
func c12enum1(c *vf.Ctx, i int) {
	cell := c12cell{block: -1}
	cell.list = i % c12enumLists
	i /= c12enumLists
	cell.count = uint32(i % (c12enumMaxCount + 1))
	cell.variant = i / (c12enumMaxCount + 1)
	c12enumCase(c, cell, c12maxCount())
}

// c12liveLists is the number of hash lists with at most count hashes (they
// are the first lists in the ordering of c12list).
func c12liveLists(count int) int {
	p := 1
	for k := 0; k <= count; k++ {
		p *= 3
	}
	return (p - 1) / 2
}

func c12enum2live() int { // cells with hashes <= count, all 16 blocks each
	s := 0
	for cnt := 0; cnt <= c12enumMaxCount; cnt++ {
		s += c12liveLists(cnt)
	}
	return c12enumVariants * s * c12blocks
}

func c12enum2dead() int { // cells with hashes > count, one block each
	s := 0
	for cnt := 0; cnt <= c12enumMaxCount; cnt++ {
		s += c12enumLists - c12liveLists(cnt)
	}
	return c12enumVariants * s
}

// c12enum2cell maps an index to a cell by mixed-radix arithmetic.  Indices
// below c12enum2live() enumerate (variant, count, list with len <= count,
// block); the rest enumerate (variant, count, list with len > count) with
// one block chosen by a fixed hash of the cell: such messages are rejected
// whatever the flags are (more hashes than transactions), so only 4096 of
// their 65536 two-byte flag strings are evaluated.
func c12enum2cell(i int) c12cell {
	var cell c12cell
	if live := c12enum2live(); i < live {
		per := live / c12enumVariants
		cell.variant, i = i/per, i%per
		cell.block, i = i%c12blocks, i/c12blocks
		for cnt := 0; ; cnt++ {
			if n := c12liveLists(cnt); i < n {
				cell.count, cell.list = uint32(cnt), i
				return cell
			} else {
				i -= n
			}
		}
	} else {
		i -= live
		per := c12enum2dead() / c12enumVariants
		cell.variant, i = i/per, i%per
		for cnt := 0; ; cnt++ {
			if n := c12enumLists - c12liveLists(cnt); i < n {
				cell.count, cell.list = uint32(cnt), c12liveLists(cnt)+i
				cell.block = int(vf.Mix(uint64(cell.variant), uint64(cnt), uint64(cell.list)) % c12blocks)
				return cell
			} else {
				i -= n
			}
		}
	}
}

// enum2: two-byte flag strings.  thorough: every cell of c12enum2cell;
// quick: a seeded sample of cells, three quarters of them live.
func c12enum2(c *vf.Ctx, i int) {
	if c.Tier == vf.Quick {
		if c.R.Intn(4) != 0 {
			i = c.R.Intn(c12enum2live())
		} else {
			i = c12enum2live() + c.R.Intn(c12enum2dead())
		}
	}
	c12enumCase(c, c12enum2cell(i), c12maxCount())
}

// ---- mutation of honest proofs --------------------------------------------

func c12honest(r *vf.Rand) (leaves [][32]byte, matched []bool) {
	var n int
	switch r.Intn(8) {
	case 0:
		n = 1 + r.Intn(4)
	case 1:
		n = 65 + r.Intn(400)
	default:
		n = 1 + r.Intn(64)
	}
	leaves = make([][32]byte, n)
	for i := range leaves {
		r.Fill(leaves[i][:])
	}
	return leaves, c11randomSubset(r, n)
}

func c12mutations(c *vf.Ctx, i int) {
	r := c.R
	max := c12maxCount()
	leaves, matched := c12honest(r)
	n := len(leaves)
	pm := ref.BuildPartialMerkle(leaves, matched)
	var t c12tally
	nmut := 0
	try := func(class string, count uint32, hashes [][32]byte, flags []byte) {
		ri := c12both(c, &t, count, hashes, flags, max, true)
		nmut++
		if ri == 0 {
			c.Inc("mutant_accepted_" + class)
		} else {
			c.Inc("mutant_rejected_" + class)
		}
		c.Nontrivial(vf.Mix(vf.HashBytes(flags), uint64(count), uint64(len(hashes)), vf.HashBytes(hashes0(hashes)), uint64(nmut)))
	}
	cpH := func() [][32]byte { return append([][32]byte(nil), pm.Hashes...) }
	cpF := func() []byte { return append([]byte(nil), pm.Flags...) }

	try("none(honest)", pm.Count, pm.Hashes, pm.Flags)
	// every single flag bit (a seeded sample of 96 of them in long proofs)
	for b := 0; b < 8*len(pm.Flags); b++ {
		if 8*len(pm.Flags) > 96 && r.Intn(8*len(pm.Flags)) >= 96 {
			continue
		}
		f := cpF()
		f[b>>3] ^= 1 << uint(b&7)
		try("flag_bit_flip", pm.Count, pm.Hashes, f)
	}
	// hashes dropped / duplicated / swapped with the neighbour / replaced
	for k := range pm.Hashes {
		if len(pm.Hashes) > 40 && r.Intn(len(pm.Hashes)) >= 40 {
			continue
		}
		h := append(cpH()[:k], pm.Hashes[k+1:]...)
		try("hash_dropped", pm.Count, h, pm.Flags)
		h = append(append(cpH()[:k+1], pm.Hashes[k]), pm.Hashes[k+1:]...)
		try("hash_duplicated", pm.Count, h, pm.Flags)
		if k+1 < len(pm.Hashes) {
			h = cpH()
			h[k], h[k+1] = h[k+1], h[k]
			try("hash_swapped", pm.Count, h, pm.Flags)
			h = cpH()
			h[k+1] = h[k]
			try("hash_copied_over_next", pm.Count, h, pm.Flags)
		}
	}
	// altered count
	for _, cnt := range []uint32{pm.Count - 1, pm.Count + 1, pm.Count * 2, pm.Count*2 - 1, (pm.Count + 1) / 2, 0, max, max + 1, 1 << 31, ^uint32(0)} {
		try("count_altered", cnt, pm.Hashes, pm.Flags)
	}
	// counts anywhere above the maximum (an overflowing size computation would let some through)
	for k := 0; k < 24; k++ {
		try("count_above_max", max+1+uint32(c.R.Uint64n(uint64(^uint32(0)-max))), pm.Hashes, pm.Flags)
	}
	// flags truncated / extended
	try("flags_truncated", pm.Count, pm.Hashes, pm.Flags[:len(pm.Flags)-1])
	try("flags_emptied", pm.Count, pm.Hashes, nil)
	try("flags_extended_00", pm.Count, pm.Hashes, append(cpF(), 0x00))
	try("flags_extended_ff", pm.Count, pm.Hashes, append(cpF(), 0xff))
	try("flags_extended_0000", pm.Count, pm.Hashes, append(cpF(), 0, 0))
	{ // set the padding bits of the last byte (they are free)
		f := cpF()
		f[len(f)-1] |= 0x80
		try("flags_top_bit_set", pm.Count, pm.Hashes, f)
	}
	// CVE-2012-2459 family: a block in which the leaves of a left subtree
	// are repeated as the right subtree, proven honestly
	for rep := 0; rep < 3 && n >= 2; rep++ {
		lv := append([][32]byte(nil), leaves...)
		m := append([]bool(nil), matched...)
		h := uint(r.Intn(bitsLen(n - 1))) // subtree height
		w := 1 << h
		pairs := (n + w - 1) / w / 2 // nodes at that height that are left children with a right sibling
		if pairs == 0 {
			continue
		}
		p := 2 * r.Intn(pairs)
		if r.Bool() {
			p = 2 * (pairs - 1) // right edge
		}
		for j := 0; j < w && (p+1)*w+j < n; j++ {
			lv[(p+1)*w+j] = lv[p*w+j]
			if r.Bool() {
				m[(p+1)*w+j] = m[p*w+j]
			}
		}
		if r.Bool() {
			m[p*w+r.Intn(w)] = true // make sure the node is descended into
		}
		d := ref.BuildPartialMerkle(lv, m)
		try("subtree_copied_left_to_right", d.Count, d.Hashes, d.Flags)
	}
	// the classic form: odd block presented with its last transaction repeated
	if n&1 == 1 {
		lv := append(append([][32]byte(nil), leaves...), leaves[n-1])
		m := append(append([]bool(nil), matched...), matched[n-1])
		d := ref.BuildPartialMerkle(lv, m)
		try("last_tx_repeated", d.Count, d.Hashes, d.Flags)
		m[n-1], m[n] = true, r.Bool()
		d = ref.BuildPartialMerkle(lv, m)
		try("last_tx_repeated", d.Count, d.Hashes, d.Flags)
	}
	t.flush(c)
	if c.WantSample() {
		c.Sample(map[string]any{"n": n, "subset": c11subsetString(matched), "honest_flags": hx(pm.Flags), "honest_hashes": len(pm.Hashes), "mutants": nmut, "tally": t.reason})
	}
}

func hashes0(h [][32]byte) []byte {
	if len(h) == 0 {
		return nil
	}
	return h[len(h)/2][:8]
}

func bitsLen(n int) int {
	l := 0
	for ; n > 0; n >>= 1 {
		l++
	}
	if l == 0 {
		l = 1
	}
	return l
}

// ---- deep trees: large declared counts -------------------------------------

// c12virtualProof writes the partial tree an honest prover would send for a
// block of count transactions and the target positions, with random hashes
// for everything that is not computed (no block of that size is built).
func c12virtualProof(r *vf.Rand, count uint32, targets []uint32, dupProb int) ([][32]byte, []byte) {
	n := uint64(count)
	width := func(h uint) uint64 { return (n + (uint64(1) << h) - 1) >> h }
	height := uint(0)
	for width(height) > 1 {
		height++
	}
	var bitsv []bool
	var hashes [][32]byte
	var visit func(h uint, p uint64)
	visit = func(h uint, p uint64) {
		anc := false
		for _, t := range targets {
			if uint64(t)>>h == p {
				anc = true
			}
		}
		bitsv = append(bitsv, anc)
		if h == 0 || !anc {
			var x [32]byte
			r.Fill(x[:])
			if dupProb > 0 && len(hashes) > 0 && r.Intn(dupProb) == 0 {
				x = hashes[len(hashes)-1]
			}
			hashes = append(hashes, x)
			return
		}
		visit(h-1, 2*p)
		if 2*p+1 < width(h-1) {
			visit(h-1, 2*p+1)
		}
	}
	visit(height, 0)
	return hashes, ref.PackBitsLSB(bitsv)
}

func c12deep(c *vf.Ctx, i int) {
	r := c.R
	max := c12maxCount()
	var count uint32
	switch r.Intn(6) {
	case 0:
		count = max - uint32(r.Intn(3))
	case 1:
		k := uint(3 + r.Intn(19))
		count = uint32(1)<<k + uint32(r.Intn(5)) - 2
	case 2:
		count = 1 + uint32(r.Uint64n(uint64(max)))
	case 3:
		count = (1 + uint32(r.Uint64n(uint64(max)))) | 1
	case 4:
		count = 8 + uint32(r.Intn(100000))
	default:
		count = max/2 + uint32(r.Intn(7)) - 3
	}
	if count > max {
		count = max
	}
	var targets []uint32
	for k := r.Intn(5); k > 0; k-- {
		switch r.Intn(4) {
		case 0:
			targets = append(targets, count-1) // right edge
		case 1:
			targets = append(targets, 0)
		default:
			targets = append(targets, uint32(r.Uint64n(uint64(count))))
		}
	}
	dup := 0
	if r.Intn(4) == 0 {
		dup = 8
	}
	hashes, flags := c12virtualProof(r, count, targets, dup)
	var t c12tally
	nm := 0
	try := func(class string, cnt uint32, h [][32]byte, f []byte) {
		ri := c12both(c, &t, cnt, h, f, max, nm%4 == 0)
		nm++
		if ri == 0 {
			c.Inc("accepted_" + class)
		} else {
			c.Inc("rejected_" + class)
		}
		c.Nontrivial(vf.Mix(vf.HashBytes(f), uint64(cnt), uint64(len(h)), vf.HashBytes(hashes0(h)), uint64(nm)))
	}
	if count&1 == 1 && len(targets) > 0 {
		c.Inc("odd_count_with_targets")
	}
	try("as_built", count, hashes, flags)
	// the same tree declared with neighbouring / boundary counts
	for _, cnt := range []uint32{count - 1, count + 1, count ^ 1, max, max + 1, max + 2, count * 2} {
		try("count_altered", cnt, hashes, flags)
	}
	// a few single-bit flips, hash edits and flag length edits
	for k := 0; k < 6 && len(flags) > 0; k++ {
		f := append([]byte(nil), flags...)
		b := r.Intn(8 * len(f))
		f[b>>3] ^= 1 << uint(b&7)
		try("flag_bit_flip", count, hashes, f)
	}
	if len(hashes) > 1 {
		k := r.Intn(len(hashes) - 1)
		h := append([][32]byte(nil), hashes...)
		h[k+1] = h[k]
		try("hash_copied_over_next", count, h, flags)
		h = append(append([][32]byte(nil), hashes[:k]...), hashes[k+1:]...)
		try("hash_dropped", count, h, flags)
	}
	try("hash_appended", count, append(append([][32]byte(nil), hashes...), hashes[0]), flags)
	try("flags_truncated", count, hashes, flags[:len(flags)-1])
	try("flags_extended_00", count, hashes, append(append([]byte(nil), flags...), 0))
	// single-hash messages at the count boundaries
	one := hashes[:1]
	for _, cnt := range []uint32{0, 1, max - 1, max, max + 1, 1 << 31, ^uint32(0)} {
		try("single_hash_boundary_count", cnt, one, []byte{0x00})
		try("single_hash_boundary_count", cnt, one, []byte{0x01})
	}
	for k := 0; k < 16; k++ {
		cnt := max + 1 + uint32(c.R.Uint64n(uint64(^uint32(0)-max)))
		try("single_hash_count_above_max", cnt, one, []byte{0x00})
		try("single_hash_count_above_max", cnt, one, []byte{0x01})
	}
	t.flush(c)
	if c.WantSample() {
		c.Sample(map[string]any{"count": count, "targets": targets, "hashes": len(hashes), "flags": hx(flags), "tally": t.reason})
	}
}

func init() {
	register(&vf.Property{
		ID:    "C12",
		Title: "Merkle proof extraction is sound against malformed or malicious messages",
		Rule: "stream enum1 (exhaustive): 2 alphabets {A,B,H(A||B)} / {A,B,H(A||A)} x count 0..7 x all 9841 hash lists of length 0..8 x {empty flags, all 256 one-byte flags}; " +
			"stream enum2: the same cells x two-byte flag strings in blocks of 4096, addressed by mixed-radix index: cells with no more hashes than transactions x all 16 blocks (= all 65536 strings), cells with more hashes than transactions (rejected whatever the flags are) x 1 block (thorough: every such case; quick: seeded sample of 4000 cases, 3/4 of the first kind); " +
			"stream giant: honest, almost fully matched proofs over about a million transactions and their surplus-flag-byte / flipped-bit / dropped-hash variants; stream mutations: honest proofs (reference builder, n<=464) and every single flag-bit flip, each hash dropped / duplicated / swapped / copied over its neighbour, count -1 +1 x2 0 max max+1 2^31 2^32-1, flags truncated / emptied / extended, left subtree repeated as right subtree and last transaction repeated (CVE-2012-2459), each as a struct and as bytes decoded by wire; " +
			"stream deep: honest-shaped proofs for declared counts up to the maximum (2^k±2, odd, max-2..max) with random hashes, and their count / bit / hash / flag-length edits. " +
			"Verdict per message: library root nil <=> reference rejects; otherwise root, match list and positions equal. One PartialBlock per extraction.",
		Assumptions: []string{
			"reference extractor written from the BIP37 text with exactly the statement's rejection rules (self-tested on hand-derived trees, one message per rejection rule, round trips and two gettxoutproof vectors on every run)",
			"'too many transactions' means more than the library's documented maximum wire.MaxBlockPayload()/61 = 2098360",
			"messages carry non-nil hashes (as wire decoding produces); repeated extraction on one PartialBlock is not part of the statement",
		},
		SelfTest: func() error {
			if err := ref.SelfTestMerkle(); err != nil {
				return err
			}
			if c12maxCount() != 2098360 {
				return fmt.Errorf("documented maximum wire.MaxBlockPayload()/61 = %d, expected 2098360", c12maxCount())
			}
			n := 0
			for l := 0; l < c12enumLists; l++ {
				al := c12alphabet(0)
				if len(c12list(l, &al)) == c12enumMaxLen {
					n++
				}
			}
			if c12enum2live() != 2*4916*16 || c12enum2dead() != 2*(8*9841-4916) {
				return fmt.Errorf("enum2 cell counts: live %d dead %d", c12enum2live(), c12enum2dead())
			}
			seen := map[c12cell]bool{}
			for i := 0; i < c12enum2live()+c12enum2dead(); i++ {
				cell := c12enum2cell(i)
				L := 0
				for l, p := cell.list, 1; l >= p; l, p = l-p, p*3 {
					L++
				}
				live := i < c12enum2live()
				if seen[cell] || cell.variant < 0 || cell.variant >= c12enumVariants || cell.count > c12enumMaxCount || cell.list < 0 || cell.list >= c12enumLists ||
					cell.block < 0 || cell.block >= c12blocks || live != (uint32(L) <= cell.count) {
					return fmt.Errorf("enum2 index %d decodes to %+v (list length %d)", i, cell, L)
				}
				seen[cell] = true
			}
			al := c12alphabet(0)
			if n != 6561 || len(c12list(0, &al)) != 0 || len(c12list(c12enumLists-1, &al)) != c12enumMaxLen {
				return fmt.Errorf("hash list indexing broken: %d lists of length 8", n)
			}
			return nil
		},
		Streams: []*vf.Stream{
			{Name: "enum1", Exhaustive: true, N: func(vf.Tier) int { return c12enumVariants * (c12enumMaxCount + 1) * c12enumLists }, Run: c12enum1},
			{Name: "enum2", N: func(t vf.Tier) int { return t.Sz(4000, c12enum2live()+c12enum2dead()) }, Run: c12enum2},
			{Name: "giant", MaxCaseSec: 300, N: func(t vf.Tier) int { return t.Sz(2, 6) }, Run: c12giantCase},
			{Name: "mutations", Shards: 8, N: func(t vf.Tier) int { return t.Sz(6000, 80000) }, Run: c12mutations},
			{Name: "deep", Shards: 4, N: func(t vf.Tier) int { return t.Sz(20000, 300000) }, Run: c12deep},
		},
	})
}
