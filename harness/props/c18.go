package props

import (
	"bytes"
	"encoding/binary"
	"fmt"
	"runtime/debug"
	"sort"
	"strings"

	"github.com/gcash/bchd/wire"
	"github.com/gcash/bchutil/txsort"

	"verif/internal/ref"
	"verif/internal/vf"
)

// C18 — BIP69 sorting is a correct, non-destructive, idempotent permutation.
//
// Oracle: the reference comparators of internal/ref/bip69.go.  Nothing is
// asserted about the relative order of key-equal elements.  Output keys are
// (TxOut.Value, TxOut.PkScript); token data, like an input's signature script
// and sequence, is payload that must travel with its element (it is part of
// the "same inputs and outputs" multiset) but is not a sort key.  Amounts are
// generated in 0..2^63-1 only (for negative int64 values the BIP's unsigned
// reading and the wire type's signed reading disagree, so no order is
// prescribed by the statement).

// ---- element serialisation and keys ----------------------------------------

func c18putVarInt(dst []byte, v uint64) []byte {
	switch {
	case v < 0xfd:
		return append(dst, byte(v))
	case v <= 0xffff:
		return append(dst, 0xfd, byte(v), byte(v>>8))
	case v <= 0xffffffff:
		return append(dst, 0xfe, byte(v), byte(v>>8), byte(v>>16), byte(v>>24))
	}
	dst = append(dst, 0xff)
	return binary.LittleEndian.AppendUint64(dst, v)
}

// c18inSer is the full serialisation of an input (outpoint, script, sequence).
func c18inSer(in *wire.TxIn) string {
	b := make([]byte, 0, 41+len(in.SignatureScript))
	b = append(b, in.PreviousOutPoint.Hash[:]...)
	b = binary.LittleEndian.AppendUint32(b, in.PreviousOutPoint.Index)
	b = c18putVarInt(b, uint64(len(in.SignatureScript)))
	b = append(b, in.SignatureScript...)
	b = binary.LittleEndian.AppendUint32(b, in.Sequence)
	return string(b)
}

// c18outSer is an injective encoding of every field of an output (amount,
// script, token category / bitfield / commitment / amount).  It is the
// harness's own encoding rather than wire.WriteTxOut: bchd's serialiser takes
// a process-wide free-list lock per field, which serialises the 16 workers.
// On the generated domain (token fields consistent with their bitfield) two
// outputs have the same encoding exactly when they have the same wire form.
func c18outSer(out *wire.TxOut) string {
	b := make([]byte, 0, 64+len(out.PkScript)+len(out.TokenData.Commitment))
	b = binary.LittleEndian.AppendUint64(b, uint64(out.Value))
	b = c18putVarInt(b, uint64(len(out.PkScript)))
	b = append(b, out.PkScript...)
	if out.TokenData.IsEmpty() && out.TokenData.BitField == 0 && len(out.TokenData.Commitment) == 0 && out.TokenData.Amount == 0 {
		return string(append(b, 0))
	}
	b = append(b, 1, out.TokenData.BitField)
	b = append(b, out.TokenData.CategoryID[:]...)
	b = c18putVarInt(b, uint64(len(out.TokenData.Commitment)))
	b = append(b, out.TokenData.Commitment...)
	b = binary.LittleEndian.AppendUint64(b, out.TokenData.Amount)
	return string(b)
}

// c18serTx is an injective encoding of the whole transaction built from the
// element encodings above (same reason).  c18wireHex is only used in messages.
func c18serTx(tx *wire.MsgTx) []byte {
	b := make([]byte, 0, 16+48*len(tx.TxIn)+48*len(tx.TxOut))
	b = binary.LittleEndian.AppendUint32(b, uint32(tx.Version))
	b = c18putVarInt(b, uint64(len(tx.TxIn)))
	for _, in := range tx.TxIn {
		if in == nil {
			b = append(b, "<nil>"...)
			continue
		}
		b = append(b, c18inSer(in)...)
	}
	b = c18putVarInt(b, uint64(len(tx.TxOut)))
	for _, o := range tx.TxOut {
		if o == nil {
			b = append(b, "<nil>"...)
			continue
		}
		b = append(b, c18outSer(o)...)
	}
	return binary.LittleEndian.AppendUint32(b, tx.LockTime)
}

func c18wireHex(tx *wire.MsgTx) (s string) {
	defer func() {
		if r := recover(); r != nil {
			s = fmt.Sprintf("<unserialisable: %v>", r)
		}
	}()
	var w bytes.Buffer
	_ = tx.Serialize(&w)
	return short(hx(w.Bytes()))
}

func c18cmpIn(a, b *wire.TxIn) int {
	ha := [32]byte(a.PreviousOutPoint.Hash)
	hb := [32]byte(b.PreviousOutPoint.Hash)
	return ref.BIP69CmpInput(&ha, a.PreviousOutPoint.Index, &hb, b.PreviousOutPoint.Index)
}

func c18cmpOut(a, b *wire.TxOut) int {
	return ref.BIP69CmpOutput(a.Value, a.PkScript, b.Value, b.PkScript)
}

// c18firstInDescent returns the first position k with key(k-1) > key(k), or -1.
func c18firstInDescent(ins []*wire.TxIn) int {
	for k := 1; k < len(ins); k++ {
		if c18cmpIn(ins[k-1], ins[k]) > 0 {
			return k
		}
	}
	return -1
}

func c18firstOutDescent(outs []*wire.TxOut) int {
	for k := 1; k < len(outs); k++ {
		if c18cmpOut(outs[k-1], outs[k]) > 0 {
			return k
		}
	}
	return -1
}

func c18inKeys(ins []*wire.TxIn) string {
	var sb strings.Builder
	for k, in := range ins {
		if k > 0 {
			sb.WriteByte(' ')
		}
		if k >= 24 {
			fmt.Fprintf(&sb, "…(%d inputs)", len(ins))
			break
		}
		fmt.Fprintf(&sb, "%x:%d", in.PreviousOutPoint.Hash[:], in.PreviousOutPoint.Index)
	}
	return "[" + sb.String() + "]"
}

func c18outKeys(outs []*wire.TxOut) string {
	var sb strings.Builder
	for k, o := range outs {
		if k > 0 {
			sb.WriteByte(' ')
		}
		if k >= 24 {
			fmt.Fprintf(&sb, "…(%d outputs)", len(outs))
			break
		}
		fmt.Fprintf(&sb, "%d:%x", o.Value, o.PkScript)
	}
	return "[" + sb.String() + "]"
}

func c18multisetIn(ins []*wire.TxIn) []string {
	s := make([]string, len(ins))
	for k, in := range ins {
		if in != nil {
			s[k] = c18inSer(in)
		} else {
			s[k] = "<nil>"
		}
	}
	sort.Strings(s)
	return s
}

func c18multisetOut(outs []*wire.TxOut) []string {
	s := make([]string, len(outs))
	for k, o := range outs {
		if o != nil {
			s[k] = c18outSer(o)
		} else {
			s[k] = "<nil>"
		}
	}
	sort.Strings(s)
	return s
}

func c18eqStrings(a, b []string) bool {
	if len(a) != len(b) {
		return false
	}
	for k := range a {
		if a[k] != b[k] {
			return false
		}
	}
	return true
}

func c18hasNil(tx *wire.MsgTx) bool {
	if tx == nil {
		return true
	}
	for _, in := range tx.TxIn {
		if in == nil {
			return true
		}
	}
	for _, o := range tx.TxOut {
		if o == nil {
			return true
		}
	}
	return false
}

// c18deepCopy is the harness's own deep copy (it does not use MsgTx.Copy,
// which is what Sort relies on).
func c18deepCopy(tx *wire.MsgTx) *wire.MsgTx {
	cp := &wire.MsgTx{Version: tx.Version, LockTime: tx.LockTime}
	if tx.TxIn != nil {
		cp.TxIn = make([]*wire.TxIn, len(tx.TxIn))
	}
	// an element object that sits in several slots of the original sits in the
	// same slots of the copy (pointer sharing is part of the input)
	inMap := map[*wire.TxIn]*wire.TxIn{}
	outMap := map[*wire.TxOut]*wire.TxOut{}
	for k, in := range tx.TxIn {
		if prev, ok := inMap[in]; ok {
			cp.TxIn[k] = prev
			continue
		}
		n := &wire.TxIn{PreviousOutPoint: in.PreviousOutPoint, Sequence: in.Sequence}
		if in.SignatureScript != nil {
			n.SignatureScript = append([]byte{}, in.SignatureScript...)
		}
		inMap[in] = n
		cp.TxIn[k] = n
	}
	if tx.TxOut != nil {
		cp.TxOut = make([]*wire.TxOut, len(tx.TxOut))
	}
	for k, o := range tx.TxOut {
		if prev, ok := outMap[o]; ok {
			cp.TxOut[k] = prev
			continue
		}
		n := &wire.TxOut{Value: o.Value}
		if o.PkScript != nil {
			n.PkScript = append([]byte{}, o.PkScript...)
		}
		n.TokenData = o.TokenData
		if o.TokenData.Commitment != nil {
			n.TokenData.Commitment = append([]byte{}, o.TokenData.Commitment...)
		}
		outMap[o] = n
		cp.TxOut[k] = n
	}
	return cp
}

// ---- the oracle --------------------------------------------------------------

func c18check(c *vf.Ctx, tx *wire.MsgTx, label string) {
	origSer := c18serTx(tx)
	pristine := c18deepCopy(tx) // for messages: the wire form is only computed when something is reported (see c18outSer)
	origIn := append([]*wire.TxIn(nil), tx.TxIn...)
	origOut := append([]*wire.TxOut(nil), tx.TxOut...)
	msIn := c18multisetIn(tx.TxIn)
	msOut := c18multisetOut(tx.TxOut)
	dIn := c18firstInDescent(tx.TxIn)
	dOut := c18firstOutDescent(tx.TxOut)
	refSorted := dIn < 0 && dOut < 0
	desc := func() string {
		return fmt.Sprintf("%s tx=%s", label, c18wireHex(pristine))
	}
	untouched := func(site string) {
		c.Evals(1)
		if now := c18serTx(tx); !bytes.Equal(now, origSer) {
			c.Failf(site+"/original-serialisation-changed", "%s: after %s the original serialises to %s", desc(), site, c18wireHex(tx))
			return
		}
		same := len(tx.TxIn) == len(origIn) && len(tx.TxOut) == len(origOut)
		for k := 0; same && k < len(origIn); k++ {
			same = tx.TxIn[k] == origIn[k]
		}
		for k := 0; same && k < len(origOut); k++ {
			same = tx.TxOut[k] == origOut[k]
		}
		if !same {
			c.Failf(site+"/original-pointers-changed", "%s: after %s the original's TxIn/TxOut pointer sequence is not the one it had before", desc(), site)
		}
	}

	// coverage classes
	if refSorted {
		c.Inc("tx_already_sorted")
	} else {
		c.Inc("tx_unsorted")
		if dIn >= 0 {
			c.Inc("tx_inputs_unsorted")
		}
		if dOut >= 0 {
			c.Inc("tx_outputs_unsorted")
		}
	}
	if len(tx.TxIn) >= 2 || len(tx.TxOut) >= 2 {
		c.Nontrivial(vf.HashBytes(origSer))
	}

	// IsSorted(t) <=> keys non-decreasing
	var got bool
	if c.Call("IsSorted", desc, func() { got = txsort.IsSorted(tx) }) {
		c.Evals(1)
		if got && !refSorted {
			c.Failf("IsSorted/true-on-unsorted", "%s: IsSorted=true but keys descend (inputs at %d, outputs at %d; -1 = none): inputs %s outputs %s",
				desc(), dIn, dOut, c18inKeys(tx.TxIn), c18outKeys(tx.TxOut))
		}
		if !got && refSorted {
			c.Failf("IsSorted/false-on-sorted", "%s: IsSorted=false but keys are non-decreasing: inputs %s outputs %s",
				desc(), c18inKeys(tx.TxIn), c18outKeys(tx.TxOut))
		}
		// A predicate that rewrites its argument is not excluded by the
		// statement as long as its answer is right: observed, not judged,
		// and the rest of the case (whose baseline is gone) is skipped.
		if !bytes.Equal(c18serTx(tx), origSer) {
			c.Inconclusive("IsSorted modified its argument")
			return
		}
	}

	// Sort
	var s *wire.MsgTx
	sortOK := false
	if c.Call("Sort", desc, func() { s = txsort.Sort(tx) }) {
		c.Evals(1)
		switch {
		case s == nil:
			c.Failf("Sort/nil", "%s: Sort returned nil", desc())
		case c18hasNil(s):
			c.Failf("Sort/not-permutation", "%s: Sort output has a nil input or output", desc())
		default:
			sortOK = true
			if s == tx {
				c.Inc("sort_returned_the_argument_itself")
			}
			if k := c18firstInDescent(s.TxIn); k >= 0 {
				sortOK = false
				c.Failf("Sort/inputs-not-sorted", "%s: Sort output input %d sorts after input %d: got %s from %s", desc(), k-1, k, c18inKeys(s.TxIn), c18inKeys(origIn))
			}
			if k := c18firstOutDescent(s.TxOut); k >= 0 {
				sortOK = false
				c.Failf("Sort/outputs-not-sorted", "%s: Sort output output %d sorts after output %d: got %s from %s", desc(), k-1, k, c18outKeys(s.TxOut), c18outKeys(origOut))
			}
			if !c18eqStrings(c18multisetIn(s.TxIn), msIn) {
				sortOK = false
				c.Failf("Sort/inputs-not-permutation", "%s: inputs of the Sort output are not the original's (full serialisations as multisets): got %s from %s; sorted tx %s", desc(), c18inKeys(s.TxIn), c18inKeys(origIn), c18wireHex(s))
			}
			if !c18eqStrings(c18multisetOut(s.TxOut), msOut) {
				sortOK = false
				c.Failf("Sort/outputs-not-permutation", "%s: outputs of the Sort output are not the original's (full serialisations as multisets): got %s from %s; sorted tx %s", desc(), c18outKeys(s.TxOut), c18outKeys(origOut), c18wireHex(s))
			}
			if s.Version != tx.Version || s.LockTime != tx.LockTime {
				c.Failf("Sort/other-fields", "%s: Sort output version=%d locktime=%d, original version=%d locktime=%d", desc(), s.Version, s.LockTime, tx.Version, tx.LockTime)
			}
			if !bytes.Equal(c18serTx(s), origSer) {
				c.Inc("sort_changed_the_order")
			}
		}
		untouched("Sort")
	}

	// IsSorted(Sort(t))
	if sortOK {
		var g2 bool
		if c.Call("IsSorted", func() string { return desc() + " (on the Sort output)" }, func() { g2 = txsort.IsSorted(s) }) {
			c.Evals(1)
			if !g2 {
				c.Failf("IsSorted/false-on-Sort-output", "%s: IsSorted(Sort(tx))=false; Sort output is key-sorted under the reference: inputs %s outputs %s", desc(), c18inKeys(s.TxIn), c18outKeys(s.TxOut))
			}
		}
	}

	// InPlaceSort on the harness's own deep copy
	cp := c18deepCopy(tx)
	if c.Call("InPlaceSort", desc, func() { txsort.InPlaceSort(cp) }) {
		c.Evals(1)
		if c18hasNil(cp) || !c18eqStrings(c18multisetIn(cp.TxIn), msIn) || !c18eqStrings(c18multisetOut(cp.TxOut), msOut) ||
			cp.Version != tx.Version || cp.LockTime != tx.LockTime {
			c.Failf("InPlaceSort/not-permutation", "%s: after InPlaceSort the transaction has inputs %s outputs %s version=%d locktime=%d", desc(), c18inKeys(cp.TxIn), c18outKeys(cp.TxOut), cp.Version, cp.LockTime)
		} else if sortOK {
			same := len(cp.TxIn) == len(s.TxIn) && len(cp.TxOut) == len(s.TxOut)
			for k := 0; same && k < len(cp.TxIn); k++ {
				same = c18cmpIn(cp.TxIn[k], s.TxIn[k]) == 0
			}
			for k := 0; same && k < len(cp.TxOut); k++ {
				same = c18cmpOut(cp.TxOut[k], s.TxOut[k]) == 0
			}
			if !same {
				c.Failf("InPlaceSort/order-differs-from-Sort", "%s: InPlaceSort gives inputs %s outputs %s, Sort gives inputs %s outputs %s", desc(), c18inKeys(cp.TxIn), c18outKeys(cp.TxOut), c18inKeys(s.TxIn), c18outKeys(s.TxOut))
			} else if a, b := c18serTx(cp), c18serTx(s); !bytes.Equal(a, b) {
				// "sorting in place yields the same order": the two results list the
				// same elements; where elements have equal keys but differ otherwise
				// (signature script, sequence, token data) the sequences must still
				// be the same
				c.Failf("InPlaceSort/tie-order-differs-from-Sort", "%s: InPlaceSort and Sort order key-equal elements differently: in place %x, copy %x", desc(), a, b)
			} else {
				c.Inc("inplace_and_copy_serialise_identically")
			}
		} else {
			// Sort itself failed a clause: judge the in-place result on its own.
			if c18firstInDescent(cp.TxIn) >= 0 || c18firstOutDescent(cp.TxOut) >= 0 {
				c.Failf("InPlaceSort/not-sorted", "%s: after InPlaceSort inputs %s outputs %s", desc(), c18inKeys(cp.TxIn), c18outKeys(cp.TxOut))
			}
		}
		untouched("InPlaceSort")
	}
	if c.WantSample() {
		c.Sample(map[string]any{"label": label, "tx": c18wireHex(pristine), "already_sorted": refSorted,
			"inputs": len(tx.TxIn), "outputs": len(tx.TxOut)})
	}
}

// ---- exhaustive stream --------------------------------------------------------

const (
	c18maxIn  = 6
	c18maxOut = 4
	c18alphaI = 6  // 3 hashes x 2 indices
	c18alphaO = 12 // 3 amounts x 4 scripts
)

func c18seqCount(alpha, maxLen int) int {
	n, p := 0, 1
	for k := 0; k <= maxLen; k++ {
		n += p
		p *= alpha
	}
	return n
}

// c18seq decodes i into the i-th sequence (shortest first) over alpha symbols.
func c18seq(i, alpha, maxLen int) []int {
	p := 1
	for k := 0; k <= maxLen; k++ {
		if i < p {
			s := make([]int, k)
			for j := k - 1; j >= 0; j-- {
				s[j] = i % alpha
				i /= alpha
			}
			return s
		}
		i -= p
		p *= alpha
	}
	panic("c18seq: index out of range")
}

// Three hashes that differ from a common base only in the first, the last
// and a middle byte (so every pair differs in exactly two positions).
var c18exHashes = func() [3][32]byte {
	var hs [3][32]byte
	for k := range hs {
		for j := range hs[k] {
			hs[k][j] = 0x55
		}
	}
	hs[0][0] = 0x56
	hs[1][31] = 0x56
	hs[2][16] = 0x56
	return hs
}()

var c18exAmounts = [3]int64{0, 1, 1<<63 - 1}
var c18exScripts = [4][]byte{{}, {'a'}, {'a', 'b'}, {'b'}}

func c18exhaustiveTx(i int) *wire.MsgTx {
	nOutSeq := c18seqCount(c18alphaO, c18maxOut)
	is := c18seq(i, c18alphaI, c18maxIn)
	os := c18seq(i%nOutSeq, c18alphaO, c18maxOut)
	tx := &wire.MsgTx{Version: 2, LockTime: uint32(i)}
	for p, sym := range is {
		in := &wire.TxIn{Sequence: uint32(p)}
		in.PreviousOutPoint.Hash = c18exHashes[sym/2]
		in.PreviousOutPoint.Index = uint32(sym % 2)
		if p%2 == 1 {
			in.SignatureScript = []byte{byte(0x51 + p)}
		}
		tx.TxIn = append(tx.TxIn, in)
	}
	for _, sym := range os {
		tx.TxOut = append(tx.TxOut, &wire.TxOut{Value: c18exAmounts[sym/4], PkScript: append([]byte{}, c18exScripts[sym%4]...)})
	}
	return tx
}

func c18exhaustiveCase(c *vf.Ctx, i int) {
	tx := c18exhaustiveTx(i)
	c.Inc(fmt.Sprintf("inputs=%d", len(tx.TxIn)))
	if i < c18seqCount(c18alphaO, c18maxOut) {
		c.Inc(fmt.Sprintf("outputs=%d(first pass)", len(tx.TxOut)))
	}
	c18check(c, tx, fmt.Sprintf("exhaustive #%d", i))
}

// ---- seeded stream --------------------------------------------------------------

const c18directedPairs = 32 * 31 // ordered (p,q) with p != q

var c18idxPool = []uint32{0, 1, 2, 3, 0x7f, 0x80, 0xff, 0x100, 0x7fffffff, 0x80000000, 0xfffffffe, 0xffffffff}
var c18amtPool = []int64{0, 1, 2, 255, 256, 65535, 65536, 1<<31 - 1, 1 << 31, 1<<32 - 1, 1 << 32, 1 << 53, 2100000000000000, 1 << 62, 1<<63 - 2, 1<<63 - 1}
var c18bytePool = []byte{0x00, 0x01, 0x7f, 0x80, 0xfe, 0xff, 'a', 'b'}

func c18len(r *vf.Rand) int {
	switch k := r.Intn(10); {
	case k < 5:
		return r.Intn(9)
	case k < 8:
		return r.Intn(41)
	case k < 9:
		return r.Intn(301)
	}
	return []int{0, 1, 2, 300}[r.Intn(4)]
}

func c18token(r *vf.Rand, cats [][32]byte) wire.TokenData {
	td := wire.TokenData{CategoryID: cats[r.Intn(len(cats))]}
	switch r.Intn(5) {
	case 0: // fungible only
		td.BitField = wire.HAS_AMOUNT
	case 1: // NFT without commitment
		td.BitField = wire.HAS_NFT | byte(r.Intn(3))
	case 2: // NFT with commitment
		td.BitField = wire.HAS_NFT | wire.HAS_COMMITMENT_LENGTH | byte(r.Intn(3))
	case 3: // NFT + amount
		td.BitField = wire.HAS_NFT | wire.HAS_AMOUNT | byte(r.Intn(3))
	default:
		td.BitField = wire.HAS_NFT | wire.HAS_COMMITMENT_LENGTH | wire.HAS_AMOUNT | byte(r.Intn(3))
	}
	if td.BitField&wire.HAS_COMMITMENT_LENGTH != 0 {
		td.Commitment = r.Bytes(1 + r.Intn(40))
		if r.Chance(1, 8) {
			// longer than consensus allows; the struct and the serialiser carry any length
			td.Commitment = r.Bytes([]int{41, 64, 252, 253, 300}[r.Intn(5)])
		}
	}
	if td.BitField&wire.HAS_AMOUNT != 0 {
		if r.Bool() {
			td.Amount = uint64(1 + r.Intn(300))
		} else {
			td.Amount = 1 + r.Uint64n(1<<63-1)
		}
	}
	return td
}

func c18seededTx(c *vf.Ctx) (*wire.MsgTx, string) {
	r := c.R
	tx := &wire.MsgTx{Version: int32(r.Uint32()), LockTime: r.Uint32()}
	nIn, nOut := c18len(r), c18len(r)

	// inputs: few base hashes, near-copies that differ in one or two bytes
	bases := make([][32]byte, 1+r.Intn(4))
	for k := range bases {
		r.Fill(bases[k][:])
	}
	posPool := []int{0, 1, 14, 15, 16, 17, 30, 31}
	for k := 0; k < nIn; k++ {
		in := &wire.TxIn{Sequence: r.Uint32()}
		h := bases[r.Intn(len(bases))]
		for m := r.Intn(3); m > 0; m-- {
			p := posPool[r.Intn(len(posPool))]
			if r.Chance(1, 4) {
				p = r.Intn(32)
			}
			if r.Bool() {
				h[p]++
			} else {
				h[p]--
			}
		}
		in.PreviousOutPoint.Hash = h
		switch r.Intn(4) {
		case 0:
			in.PreviousOutPoint.Index = r.Uint32()
		case 1:
			in.PreviousOutPoint.Index = uint32(r.Intn(4))
		default:
			in.PreviousOutPoint.Index = c18idxPool[r.Intn(len(c18idxPool))]
		}
		if r.Chance(3, 4) {
			in.SignatureScript = r.Bytes(r.Intn(9))
		}
		tx.TxIn = append(tx.TxIn, in)
	}

	// outputs: amount ties, scripts that are prefixes / neighbours of each other
	base := r.Bytes(r.Intn(31))
	for k := range base {
		if r.Chance(1, 3) {
			base[k] = c18bytePool[r.Intn(len(c18bytePool))]
		}
	}
	template := r.Chance(1, 4)
	if template {
		// a standard script form around a random hash / key: outputs of one
		// transaction then differ in the pushed data or only in the opcodes
		// before / after it
		switch r.Intn(7) {
		case 5: // OP_RETURN with a well-known protocol prefix (SLP, memo) and further pushes
			base = append([]byte{0x6a, 0x04, 0x53, 0x4c, 0x50, 0x00, 0x01, 0x01, 0x04}, []byte("SEND")...)
			if r.Bool() {
				base = append([]byte{0x6a, 0x02, 0x6d, 0x02}, append([]byte{byte(1 + r.Intn(20))}, r.Bytes(20)...)[:1+r.Intn(20)]...)
			}
		case 6: // plain OP_RETURN data
			d := r.Bytes(1 + r.Intn(30))
			base = append([]byte{0x6a, byte(len(d))}, d...)
		case 0, 1: // P2PKH
			base = append(append([]byte{0x76, 0xa9, 0x14}, r.Bytes(20)...), 0x88, 0xac)
		case 2: // P2SH
			base = append(append([]byte{0xa9, 0x14}, r.Bytes(20)...), 0x87)
		case 3: // P2PK
			base = append(append([]byte{0x21, 0x02 + byte(r.Intn(2))}, r.Bytes(32)...), 0xac)
		default: // P2SH32
			base = append(append([]byte{0xaa, 0x20}, r.Bytes(32)...), 0x87)
		}
	}
	amts := make([]int64, 1+r.Intn(4))
	for k := range amts {
		if r.Chance(2, 3) {
			amts[k] = c18amtPool[r.Intn(len(c18amtPool))]
		} else {
			amts[k] = int64(r.Uint64n(1 << 63))
		}
	}
	withTokens := r.Chance(1, 3)
	var cats [][32]byte
	if withTokens {
		cats = make([][32]byte, 1+r.Intn(2))
		for k := range cats {
			r.Fill(cats[k][:])
			cats[k][0] |= 1
		}
	}
	for k := 0; k < nOut; k++ {
		o := &wire.TxOut{Value: amts[r.Intn(len(amts))]}
		if r.Chance(1, 6) {
			o.Value = int64(r.Uint64n(1 << 63))
		}
		var s []byte
		switch r.Intn(6) {
		case 0: // nil script
		case 1: // prefix of the base
			s = append([]byte{}, base[:r.Intn(len(base)+1)]...)
		case 2: // extension
			s = append(append([]byte{}, base...), c18bytePool[r.Intn(len(c18bytePool))])
			if r.Bool() {
				s = append(s, r.Bytes(r.Intn(4))...)
			}
		case 3: // one byte changed
			s = append([]byte{}, base...)
			if len(s) > 0 {
				p := r.Intn(len(s))
				if template && r.Bool() { // the opcodes around the pushed data
					edge := []int{0, 1, 2, len(s) - 2, len(s) - 1}
					p = edge[r.Intn(len(edge))]
				}
				switch r.Intn(3) {
				case 0:
					s[p]++
				case 1:
					s[p]--
				default:
					s[p] = c18bytePool[r.Intn(len(c18bytePool))]
				}
			}
		case 4:
			s = append([]byte{}, base...)
		default:
			s = r.Bytes(r.Intn(40))
		}
		if len(s) > 0 && s[0] == wire.PREFIX_BYTE && !withTokens {
			// keep non-token scripts clear of the token prefix byte so that the
			// wire form of the output is unambiguous
			s[0] = 0x76
		}
		o.PkScript = s
		if withTokens && r.Bool() {
			o.TokenData = c18token(r, cats)
		}
		tx.TxOut = append(tx.TxOut, o)
	}

	// the same element object in several slots (a fan-out that adds one output
	// object several times; an input list built from a shared template)
	if r.Chance(1, 8) {
		for k := 1 + r.Intn(3); k > 0; k-- {
			if len(tx.TxOut) >= 2 && r.Bool() {
				tx.TxOut[r.Intn(len(tx.TxOut))] = tx.TxOut[r.Intn(len(tx.TxOut))]
			} else if len(tx.TxIn) >= 2 {
				tx.TxIn[r.Intn(len(tx.TxIn))] = tx.TxIn[r.Intn(len(tx.TxIn))]
			}
		}
	}
	// arrangement
	mode := r.Intn(8)
	sortIn := func() {
		sort.SliceStable(tx.TxIn, func(a, b int) bool { return c18cmpIn(tx.TxIn[a], tx.TxIn[b]) < 0 })
	}
	sortOut := func() {
		sort.SliceStable(tx.TxOut, func(a, b int) bool { return c18cmpOut(tx.TxOut[a], tx.TxOut[b]) < 0 })
	}
	name := "random-order"
	switch mode {
	case 0:
		sortIn()
		sortOut()
		name = "pre-sorted"
	case 1:
		sortIn()
		sortOut()
		name = "pre-sorted+adjacent-swap"
		if r.Bool() && len(tx.TxIn) >= 2 {
			k := r.Intn(len(tx.TxIn) - 1)
			tx.TxIn[k], tx.TxIn[k+1] = tx.TxIn[k+1], tx.TxIn[k]
		} else if len(tx.TxOut) >= 2 {
			k := r.Intn(len(tx.TxOut) - 1)
			tx.TxOut[k], tx.TxOut[k+1] = tx.TxOut[k+1], tx.TxOut[k]
		}
	case 2:
		sortIn()
		sortOut()
		name = "reverse-sorted"
		for a, b := 0, len(tx.TxIn)-1; a < b; a, b = a+1, b-1 {
			tx.TxIn[a], tx.TxIn[b] = tx.TxIn[b], tx.TxIn[a]
		}
		for a, b := 0, len(tx.TxOut)-1; a < b; a, b = a+1, b-1 {
			tx.TxOut[a], tx.TxOut[b] = tx.TxOut[b], tx.TxOut[a]
		}
	case 3:
		sortIn()
		name = "inputs-pre-sorted"
	case 4:
		sortOut()
		name = "outputs-pre-sorted"
	}
	if withTokens {
		name += "+tokens"
	}
	if template {
		name += "+standard-script-forms"
	}
	return tx, name
}

func c18directedTx(i int) *wire.MsgTx {
	// two inputs whose hashes differ at positions p and q in opposite
	// directions; one of the two orders is unsorted
	p, q := i/31, i%31
	if q >= p {
		q++
	}
	var x, y [32]byte
	for k := range x {
		x[k], y[k] = 0xa0, 0xa0
	}
	x[p], y[q] = 0xa1, 0xa1
	tx := &wire.MsgTx{Version: 1}
	for k, h := range [][32]byte{x, y} {
		in := &wire.TxIn{Sequence: uint32(k), SignatureScript: []byte{byte(k)}}
		in.PreviousOutPoint.Hash = h
		in.PreviousOutPoint.Index = uint32(1 - k) // index order opposes the slice order
		tx.TxIn = append(tx.TxIn, in)
	}
	tx.TxOut = []*wire.TxOut{{Value: 1, PkScript: []byte{0x51}}}
	return tx
}

func c18countTies(c *vf.Ctx, tx *wire.MsgTx) {
	ins := append([]*wire.TxIn(nil), tx.TxIn...)
	sort.SliceStable(ins, func(a, b int) bool { return c18cmpIn(ins[a], ins[b]) < 0 })
	for k := 1; k < len(ins); k++ {
		if ins[k].PreviousOutPoint.Hash == ins[k-1].PreviousOutPoint.Hash {
			if ins[k].PreviousOutPoint.Index == ins[k-1].PreviousOutPoint.Index {
				c.Inc("adjacent_inputs_key_equal")
			} else {
				c.Inc("adjacent_inputs_same_hash_index_decides")
			}
		}
	}
	outs := append([]*wire.TxOut(nil), tx.TxOut...)
	sort.SliceStable(outs, func(a, b int) bool { return c18cmpOut(outs[a], outs[b]) < 0 })
	for k := 1; k < len(outs); k++ {
		if outs[k].Value != outs[k-1].Value {
			continue
		}
		a, b := outs[k-1].PkScript, outs[k].PkScript
		switch {
		case bytes.Equal(a, b):
			c.Inc("adjacent_outputs_key_equal")
			if c18outSer(outs[k]) != c18outSer(outs[k-1]) {
				c.Inc("adjacent_outputs_key_equal_but_distinct_token_data")
			}
		case bytes.HasPrefix(b, a):
			c.Inc("adjacent_outputs_same_amount_script_is_prefix")
		default:
			c.Inc("adjacent_outputs_same_amount_script_decides")
			if len(a) == len(b) && len(a) >= 22 {
				switch {
				case bytes.Equal(a[:len(a)-2], b[:len(b)-2]):
					c.Inc("adjacent_outputs_same_amount_scripts_differ_in_last_2_bytes_only")
				case bytes.Equal(a[3:], b[3:]):
					c.Inc("adjacent_outputs_same_amount_scripts_differ_in_first_3_bytes_only")
				}
			}
		}
	}
	for _, o := range tx.TxOut {
		if !o.TokenData.IsEmpty() {
			c.Inc("outputs_with_token_data")
		}
	}
}

func c18seededCase(c *vf.Ctx, i int) {
	if i < c18directedPairs {
		c.Inc("directed_two_byte_hash_pairs")
		c18check(c, c18directedTx(i), fmt.Sprintf("directed hash pair #%d", i))
		return
	}
	tx, name := c18seededTx(c)
	c.Inc("arrangement=" + name)
	if len(tx.TxIn) > 100 || len(tx.TxOut) > 100 {
		c.Inc("tx_with_more_than_100_inputs_or_outputs")
	}
	c18countTies(c, tx)
	c18check(c, tx, "seeded "+name)
}

// c18init only relaxes the child's GC pacing: the cases allocate many tiny
// objects on a tiny live heap, which otherwise keeps 16 workers in GC cycles.
func c18init(vf.Tier, uint64) any {
	debug.SetGCPercent(800)
	return nil
}

func init() {
	register(&vf.Property{
		ID:    "C18",
		Title: "BIP69 sorting is a correct, non-destructive, idempotent permutation",
		Rule: "stream exhaustive: case i < 55987 takes the i-th sequence (shortest first) of <= 6 inputs over 3 hashes (differing only in the first / last / middle byte) x 2 indices, " +
			"paired with the (i mod 22621)-th sequence of <= 4 outputs over amounts {0,1,2^63-1} x scripts {\"\",a,ab,b}, so every input sequence and every output sequence occurs; inputs carry position-dependent sequence/sigScript. " +
			"stream seeded: 992 directed two-input transactions whose hashes differ at byte positions (p,q) in opposite directions, then seeded transactions of 0..300 inputs/outputs with hash, index, amount ties, " +
			"prefix-related scripts, token data on a third of them, in random / pre-sorted / one-swap / reversed / half-sorted arrangements. " +
			"On each: IsSorted <=> reference, Sort output key-sorted + multiset of full element serialisations + other fields + original untouched (bytes and pointer sequence), IsSorted(Sort(t)), InPlaceSort(deep copy) has Sort's key sequence. " +
			"A case is non-trivial if it has >= 2 inputs or >= 2 outputs; distinct by transaction bytes.",
		Assumptions: []string{
			"reference comparators written from the BIP69 text (self-tested on the BIP's example transactions end to end with an own parser and sha256d)",
			"output sort key is (TxOut.Value, TxOut.PkScript); CashToken data is payload of the output, not part of the script key",
			"amounts are generated in 0..2^63-1 only (the signed and the unsigned reading of the amount agree there)",
			"elements and the untouched original are compared on an injective encoding of all their fields (outpoint, sigScript, sequence; amount, script, token category/bitfield/commitment/amount), which on the generated domain identifies exactly the elements with equal wire serialisation",
			"the order among key-equal elements is not asserted",
		},
		SelfTest: ref.SelfTestBIP69,
		Streams: []*vf.Stream{
			{Name: "exhaustive", Exhaustive: true, Init: c18init, N: func(vf.Tier) int { return c18seqCount(c18alphaI, c18maxIn) }, Run: c18exhaustiveCase},
			{Name: "seeded", Init: c18init, N: func(t vf.Tier) int { return c18directedPairs + t.Sz(600000, 3000000) }, Run: c18seededCase},
		},
	})
}
