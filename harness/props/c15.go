package props

import (
	"encoding/binary"
	"fmt"
	"math/big"
	"reflect"
	"runtime"
	"runtime/debug"
	"strings"
	"sync"
	"time"

	"github.com/gcash/bchd/bchec"
	"github.com/gcash/bchd/chaincfg"
	"github.com/gcash/bchutil"
	"github.com/gcash/bchutil/hdkeychain"

	"verif/internal/ref"
	"verif/internal/vf"
)

// C15 — extended keys are independent values; zeroing really erases.
//
// Stream "histories": an executable model (reference BIP32 keys) is run next
// to a pool of at most 8 live hdkeychain.ExtendedKey objects.  Every step
// applies one operation to a seeded pool member and afterwards EVERY live key
// is observed (String, IsPrivate, Depth, ParentFingerprint, one non-hardened
// child derivation) and compared with the model.  Zero additionally checks
// the erase clause on the key's own buffers (read through reflection before
// the call).
//
// Stream "alias-race" (race build): goroutine A runs X.Zero() / X.SetNet(),
// goroutine B runs one read-only accessor on a *different* key Y related to
// X (Neuter / Child / parse(String())), with no synchronisation between them.
// A race report with an hdkeychain frame is cross-key interference.

const (
	c15PoolMax   = 8
	c15Steps     = 30
	c15ZeroedStr = "zeroed extended key"
)

type c15net struct {
	name      string
	p         *chaincfg.Params
	priv, pub [4]byte // value copies taken before the code under test ever runs
}

// c15nets snapshots the HD version bytes of the six networks at package
// initialisation.  The library stores slices that alias the chaincfg globals
// (net.HDPrivateKeyID[:]); a defect that writes through such a slice must not
// be able to drag the model along.
var (
	c15nets      []c15net
	c15privToPub = map[[4]byte][4]byte{}
)

func init() {
	for _, n := range allNets {
		c15nets = append(c15nets, c15net{n.Name, n.P, n.P.HDPrivateKeyID, n.P.HDPublicKeyID})
	}
	// chaincfg registers mainnet, testnet3, regtest and simnet; testnet4 and
	// chipnet share testnet3's identifiers, so every private id of the six
	// nets maps to the public id of the same net.
	for _, n := range c15nets {
		c15privToPub[n.priv] = n.pub
	}
}

// c15key is one pool member: the live object and what the model expects.
type c15key struct {
	n      int // serial number inside the history (for messages)
	k      *hdkeychain.ExtendedKey
	ref    *ref.XKey
	want   string // ref.String()
	obsIdx uint32 // non-hardened index used for the derivation observation
	child  *ref.XKey
	cwant  string // child.String(), "" when the reference says invalid child
	origin string // NewMaster | NewKeyFromString | NewExtendedKey | Child | Neuter
	from   *c15key
	how    string // human-readable provenance
	// caller-owned buffers handed to NewExtendedKey (key, chainCode, parentFP)
	callerBufs map[string][]byte
	noChild    bool // depth 255: no derivation observation
	childErr   string
}

func c15withVersion(x *ref.XKey, v [4]byte) *ref.XKey {
	c := *x
	c.Version = v
	return &c
}

func (e *c15key) setRef(x *ref.XKey) {
	e.ref = x
	e.want = x.String()
}

func (e *c15key) setChild(ch *ref.XKey) {
	e.child = ch
	if ch != nil {
		e.cwant = ch.String()
	} else {
		e.cwant = ""
	}
}

// deriveChild computes the model of the derivation observation.
func (e *c15key) deriveChild() {
	if e.ref.Depth == 255 {
		// a key at depth 255 has no children (the refusal is C04's clause);
		// its derivation behaviour is not observed
		e.setChild(nil)
		e.noChild = true
		return
	}
	ch, err := e.ref.Child(e.obsIdx)
	if err != nil {
		e.setChild(nil)
		e.childErr = err.Error()
		return
	}
	e.setChild(ch)
}

// c15relation names how victim y relates to the key x the step operated on.
func c15relation(x, y *c15key) string {
	if x == y {
		return "target"
	}
	rel := func(origin string, fwd bool) string {
		switch origin {
		case "Child":
			if fwd {
				return "child"
			}
			return "parent"
		case "Neuter":
			if fwd {
				return "neuter-copy"
			}
			return "neuter-source"
		case "NewKeyFromString":
			if fwd {
				return "parsed-copy"
			}
			return "parse-source"
		}
		return "other"
	}
	if y.from == x {
		return rel(y.origin, true)
	}
	if x.from == y {
		return rel(x.origin, false)
	}
	if x.from != nil && x.from == y.from {
		if x.origin == "Neuter" && y.origin == "Neuter" {
			return "co-neuter"
		}
		return "sibling"
	}
	return "other"
}

type c15hist struct {
	c      *vf.Ctx
	r      *vf.Rand
	pool   []*c15key
	grave  []*c15grave
	serial int
	steps  int
	hash   uint64
	log    []string
	broken bool
	nontrv bool
	// arena: one caller-owned buffer from which NewExtendedKey arguments are
	// carved back to back WITHOUT limiting their capacity (a key store that
	// keeps its records in one allocation)
	arena    []byte
	arenaOff int
}

// carve returns a copy of b placed in the shared arena; the returned slice's
// spare capacity extends over the records stored after it.
func (h *c15hist) carve(b []byte) []byte {
	if h.arena == nil {
		h.arena = make([]byte, 8192)
	}
	if h.arenaOff+len(b) > len(h.arena) {
		return append([]byte(nil), b...)
	}
	out := h.arena[h.arenaOff : h.arenaOff+len(b)]
	copy(out, b)
	h.arenaOff += len(b)
	return out
}

type c15grave struct {
	e    *c15key
	bufs map[string][]byte
}

func (h *c15hist) note(format string, a ...any) {
	h.log = append(h.log, fmt.Sprintf(format, a...))
}

func (h *c15hist) trace() string {
	l := h.log
	if len(l) > 14 {
		l = append([]string{fmt.Sprintf("…(%d earlier steps)", len(l)-14)}, l[len(l)-14:]...)
	}
	return strings.Join(l, "; ")
}

func (h *c15hist) add(e *c15key) {
	h.serial++
	e.n = h.serial
	h.pool = append(h.pool, e)
}

func (h *c15hist) remove(e *c15key) {
	for i, x := range h.pool {
		if x == e {
			h.pool = append(h.pool[:i], h.pool[i+1:]...)
			return
		}
	}
}

func c15be(b [4]byte) uint32 { return binary.BigEndian.Uint32(b[:]) }

// observe compares one live key with the model.  op is the operation of the
// step that has just been executed and x its target (nil for creations).
func (h *c15hist) observe(op string, x, y *c15key) {
	c := h.c
	relName := "other"
	if x != nil {
		relName = c15relation(x, y)
	}
	var s, cs string
	var priv bool
	var depth uint8
	var fp uint32
	var cerr error
	in := func() string { return fmt.Sprintf("key#%d (%s) history: %s", y.n, y.how, h.trace()) }
	if !c.Call(op+"/observe", in, func() {
		s = y.k.String()
		priv = y.k.IsPrivate()
		depth = y.k.Depth()
		fp = y.k.ParentFingerprint()
	}) {
		h.broken = true
		return
	}
	var bad []string
	c.Evals(4)
	if s != y.want {
		bad = append(bad, fmt.Sprintf("String()=%q want %q", s, y.want))
	}
	if priv != y.ref.IsPrivate() {
		bad = append(bad, fmt.Sprintf("IsPrivate()=%v want %v", priv, y.ref.IsPrivate()))
	}
	if depth != y.ref.Depth {
		bad = append(bad, fmt.Sprintf("Depth()=%d want %d", depth, y.ref.Depth))
	}
	if fp != c15be(y.ref.ParentFP) {
		bad = append(bad, fmt.Sprintf("ParentFingerprint()=%08x want %08x", fp, c15be(y.ref.ParentFP)))
	}
	if y.cwant != "" {
		var ck *hdkeychain.ExtendedKey
		if !c.Call(op+"/observe-child", in, func() {
			ck, cerr = y.k.Child(y.obsIdx)
			if cerr == nil {
				cs = ck.String()
			}
		}) {
			h.broken = true
			return
		}
		c.Evals(1)
		if cerr != nil {
			bad = append(bad, fmt.Sprintf("Child(%d) failed: %v, want %q", y.obsIdx, cerr, y.cwant))
		} else if cs != y.cwant {
			bad = append(bad, fmt.Sprintf("Child(%d).String()=%q want %q", y.obsIdx, cs, y.cwant))
		}
	} else if !y.noChild {
		c.Inconclusive("reference-invalid-child: " + y.childErr)
	}
	if len(bad) > 0 {
		h.broken = true
		role := relName
		switch {
		case x == nil:
			role = "unrelated"
		case x == y:
			role = "target"
		}
		tgt := "-"
		if x != nil {
			tgt = fmt.Sprintf("key#%d (%s)", x.n, x.how)
		}
		c.Failf(op+"/"+role+"-mismatch",
			"after %s on %s the live key#%d (%s; relation to the operated key: %s) no longer behaves as determined by how it was obtained: %s\nhistory: %s",
			op, tgt, y.n, y.how, relName, strings.Join(bad, "; "), h.trace())
	}
}

// observeNew checks the key a step has just produced.
func (h *c15hist) observeNew(op string, y *c15key) {
	c := h.c
	var s string
	if !c.Call(op+"/observe", nil, func() { s = y.k.String() }) {
		h.broken = true
		return
	}
	c.Evals(1)
	if s != y.want {
		h.broken = true
		c.Failf(op+"/result-mismatch", "%s produced key#%d (%s) with String()=%q, reference %q\nhistory: %s", op, y.n, y.how, s, y.want, h.trace())
	}
}

func (h *c15hist) observeAll(op string, x *c15key) {
	for _, y := range h.pool {
		h.observe(op, x, y)
	}
}

func (h *c15hist) hasRelative(x *c15key) bool {
	for _, y := range h.pool {
		if y != x && c15relation(x, y) != "other" {
			return true
		}
	}
	return false
}

// c15scalar returns a private scalar in [1, n-1], sometimes with leading zero
// bytes.
func c15scalar(r *vf.Rand) *big.Int {
	if r.Chance(1, 40) {
		return specialScalar(r.Intn(2))
	}
	b := r.Bytes(32)
	if r.Chance(1, 12) {
		z := r.Range(1, 3)
		for j := 0; j < z; j++ {
			b[j] = 0
		}
	}
	k := new(big.Int).SetBytes(b)
	k.Mod(k, new(big.Int).Sub(ref.SecN, big.NewInt(1)))
	return k.Add(k, big.NewInt(1))
}

func c15pad32(x *big.Int) []byte {
	b := x.Bytes()
	out := make([]byte, 32)
	copy(out[32-len(b):], b)
	return out
}

// c15randomRef builds an arbitrary (not derived) reference key.
func c15randomRef(r *vf.Rand, allowCustomVersion bool) *ref.XKey {
	d := c15scalar(r)
	x := &ref.XKey{Pub: ref.BaseMul(d)}
	private := r.Bool()
	if private {
		x.Priv = d
	}
	net := c15nets[r.Intn(len(c15nets))]
	if private {
		x.Version = net.priv
	} else {
		x.Version = net.pub
	}
	if allowCustomVersion && r.Chance(1, 5) {
		copy(x.Version[:], r.Bytes(4))
	} else if allowCustomVersion && r.Chance(1, 6) {
		// the version bytes of the OTHER key type of a registered network
		// (a private key labelled with a public id and vice versa)
		if private {
			x.Version = net.pub
		} else {
			x.Version = net.priv
		}
	}
	copy(x.ChainCode[:], r.Bytes(32))
	switch r.Intn(4) {
	case 0: // looks like a master key
	default:
		x.Depth = byte(r.Range(1, 200))
		copy(x.ParentFP[:], r.Bytes(4))
		x.ChildNum = r.Uint32()
		if r.Chance(1, 6) {
			x.ParentFP = [4]byte{}
		}
	}
	return x
}

func c15index(r *vf.Rand, hardened bool) uint32 {
	var i uint32
	switch r.Intn(5) {
	case 0:
		i = uint32(r.Intn(4))
	case 1:
		i = 7
	case 2:
		i = 0x7fffffff
	default:
		i = r.Uint32() & 0x7fffffff
	}
	if hardened {
		i |= ref.HardenedStart
	}
	return i
}

func c15obsIdx(r *vf.Rand) uint32 {
	switch r.Intn(4) {
	case 0:
		return 7
	case 1:
		return uint32(r.Intn(3))
	}
	return r.Uint32() & 0x7fffffff
}

// c15capture reads the four unexported slices of a key through reflection
// (read-only).  Missing or retyped fields are returned in missing.
func c15capture(k *hdkeychain.ExtendedKey) (bufs map[string][]byte, missing []string) {
	bufs = map[string][]byte{}
	v := reflect.ValueOf(k).Elem()
	for _, name := range []string{"key", "pubKey", "chainCode", "parentFP"} {
		f := v.FieldByName(name)
		if !f.IsValid() || f.Kind() != reflect.Slice || f.Type().Elem().Kind() != reflect.Uint8 {
			missing = append(missing, name)
			continue
		}
		bufs[name] = f.Bytes()
	}
	return bufs, missing
}

func c15allZero(b []byte) bool {
	for _, x := range b {
		if x != 0 {
			return false
		}
	}
	return true
}

func c15sameMem(a, b []byte) bool {
	return len(a) > 0 && len(a) == len(b) && &a[0] == &b[0]
}

// checkZeroed evaluates the erase clauses on a key that has just been zeroed.
func c15checkZeroed(c *vf.Ctx, k *hdkeychain.ExtendedKey, bufs map[string][]byte, callerBufs map[string][]byte, ctx func() string) {
	var s string
	var priv bool
	var pk *bchec.PrivateKey
	var err error
	if !c.Call("Zero/accessors", ctx, func() {
		s = k.String()
		priv = k.IsPrivate()
		pk, err = k.ECPrivKey()
	}) {
		return
	}
	c.Evals(3)
	if s != c15ZeroedStr {
		c.Failf("Zero/String-not-zeroed", "after Zero, String()=%q want %q; %s", s, c15ZeroedStr, ctx())
	}
	if priv {
		c.Failf("Zero/IsPrivate", "after Zero, IsPrivate() is still true; %s", ctx())
	}
	switch {
	case err == nil && pk != nil:
		c.Failf("Zero/ECPrivKey-yields-key", "after Zero, ECPrivKey() still returns a private key and no error; %s", ctx())
	case err == nil:
		c.Inconclusive("Zero-ECPrivKey-nil-key-without-error")
	}
	for _, name := range []string{"key", "pubKey", "chainCode", "parentFP"} {
		b, ok := bufs[name]
		if !ok {
			continue
		}
		c.Evals(1)
		c.Count("erase_bytes_checked", int64(len(b)))
		if !c15allZero(b) {
			c.Failf("Zero/buffer-"+name+"-not-erased", "after Zero the buffer that held %s still contains %x; %s", name, b, ctx())
		}
	}
	for _, name := range []string{"key", "chainCode", "parentFP"} {
		b, ok := callerBufs[name]
		if !ok {
			continue
		}
		c.Evals(1)
		if !c15allZero(b) {
			c.Failf("Zero/caller-buffer-"+name+"-not-erased", "after Zero the caller-owned %s buffer that NewExtendedKey stored by reference still contains %x; %s", name, b, ctx())
		}
	}
}

// ---- operations -----------------------------------------------------------

func (h *c15hist) opNewMaster() {
	c, r := h.c, h.r
	seed := r.Bytes(r.Range(hdkeychain.MinSeedBytes, hdkeychain.MaxSeedBytes))
	net := c15nets[r.Intn(len(c15nets))]
	x, rerr := ref.NewMasterRef(seed, net.priv)
	if rerr != nil {
		c.Inconclusive("reference-unusable-seed")
		return
	}
	h.note("NewMaster(%x,%s)", seed, net.name)
	var k *hdkeychain.ExtendedKey
	var err error
	if !c.Call("NewMaster", func() string { return fmt.Sprintf("seed=%x net=%s", seed, net.name) }, func() { k, err = hdkeychain.NewMaster(seed, net.p) }) {
		h.broken = true
		return
	}
	if err != nil || k == nil {
		h.broken = true
		c.Failf("NewMaster/error", "NewMaster(%x, %s) failed: %v (reference: %s)", seed, net.name, err, x.String())
		return
	}
	e := &c15key{k: k, origin: "NewMaster", how: fmt.Sprintf("NewMaster(%x,%s)", seed, net.name), obsIdx: c15obsIdx(r)}
	e.setRef(x)
	e.deriveChild()
	h.add(e)
	h.note("-> key#%d", e.n)
	c.Inc("op_NewMaster")
	h.observeNew("NewMaster", e)
	h.observeAll("NewMaster", nil)
}

func (h *c15hist) opParse(src *c15key) {
	c, r := h.c, h.r
	var x *ref.XKey
	var s, how string
	e := &c15key{origin: "NewKeyFromString", obsIdx: c15obsIdx(r)}
	if src != nil {
		// the model's string of a live key: a re-parsed copy
		x = c15withVersion(src.ref, src.ref.Version)
		s = src.want
		e.from = src
		how = fmt.Sprintf("NewKeyFromString(String of key#%d)", src.n)
		c.Inc("op_NewKeyFromString_copy")
	} else {
		x = c15randomRef(r, true)
		s = x.String()
		how = fmt.Sprintf("NewKeyFromString(%s)", s)
		c.Inc("op_NewKeyFromString_fresh")
	}
	h.note("%s", how)
	var k *hdkeychain.ExtendedKey
	var err error
	if !c.Call("NewKeyFromString", func() string { return s }, func() { k, err = hdkeychain.NewKeyFromString(s) }) {
		h.broken = true
		return
	}
	if err != nil || k == nil {
		h.broken = true
		c.Failf("NewKeyFromString/error", "NewKeyFromString(%q) failed: %v\nhistory: %s", s, err, h.trace())
		return
	}
	e.k, e.how = k, how
	e.setRef(x)
	if src != nil {
		e.obsIdx = src.obsIdx // share the (immutable) reference derivation
		e.setChild(src.child)
		e.noChild, e.childErr = src.noChild, src.childErr
	} else {
		e.deriveChild()
	}
	h.add(e)
	h.note("-> key#%d", e.n)
	h.observeNew("NewKeyFromString", e)
	h.observeAll("NewKeyFromString", src)
}

// c15twinRef returns a key that is NOT src but shares some of its material:
// the negated key (same X coordinate, other parity), the same key under
// another chain code, or the same key and chain code at another position.
func c15twinRef(r *vf.Rand, src *ref.XKey) (*ref.XKey, string) {
	t := *src
	kind := r.Intn(4)
	negate := func() {
		t.Pub = ref.Point{X: new(big.Int).Set(src.Pub.X), Y: new(big.Int).Sub(ref.SecP, src.Pub.Y)}
		if src.Priv != nil {
			t.Priv = new(big.Int).Sub(ref.SecN, src.Priv)
		}
	}
	switch kind {
	case 0:
		negate()
		return &t, "negated key, same chain code"
	case 1:
		negate()
		copy(t.ChainCode[:], r.Bytes(32))
		return &t, "negated key, other chain code"
	case 2:
		copy(t.ChainCode[:], r.Bytes(32))
		return &t, "same key, other chain code"
	}
	t.Depth = byte(r.Range(0, 255))
	t.ChildNum = r.Uint32()
	copy(t.ParentFP[:], r.Bytes(4))
	return &t, "same key and chain code, other depth / child number / parent fingerprint"
}

func (h *c15hist) opNewExtendedKey(src *c15key) {
	c, r := h.c, h.r
	x := c15randomRef(r, true)
	twin := ""
	if src != nil && src.ref.Pub.X != nil && src.ref.Pub.Y != nil && src.ref.Pub.Y.Sign() != 0 {
		x, twin = c15twinRef(r, src.ref)
	}
	// fresh caller-owned buffers, retained to check erasure
	version := append([]byte(nil), x.Version[:]...)
	var key []byte
	if x.IsPrivate() {
		key = c15pad32(x.Priv)
	} else {
		key = x.Pub.Compressed()
	}
	chain := append([]byte(nil), x.ChainCode[:]...)
	fp := append([]byte(nil), x.ParentFP[:]...)
	if r.Bool() {
		// arguments are adjacent records of one caller buffer
		key, chain, fp = h.carve(key), h.carve(chain), h.carve(fp)
		c.Inc("op_NewExtendedKey_arguments_carved_from_one_buffer")
	}
	how := fmt.Sprintf("NewExtendedKey(ver=%x key=%x cc=%x fp=%x depth=%d num=%d priv=%v)", version, key, chain, fp, x.Depth, x.ChildNum, x.IsPrivate())
	h.note("NewExtendedKey(ver=%x depth=%d priv=%v)", version, x.Depth, x.IsPrivate())
	var k *hdkeychain.ExtendedKey
	if !c.Call("NewExtendedKey", func() string { return how }, func() {
		k = hdkeychain.NewExtendedKey(version, key, chain, fp, x.Depth, x.ChildNum, x.IsPrivate())
	}) {
		h.broken = true
		return
	}
	if k == nil {
		h.broken = true
		c.Failf("NewExtendedKey/nil", "%s returned nil", how)
		return
	}
	e := &c15key{k: k, origin: "NewExtendedKey", how: how, obsIdx: c15obsIdx(r),
		callerBufs: map[string][]byte{"key": key, "chainCode": chain, "parentFP": fp}}
	e.setRef(x)
	e.deriveChild()
	h.add(e)
	h.note("-> key#%d", e.n)
	c.Inc("op_NewExtendedKey")
	h.observeNew("NewExtendedKey", e)
	if twin != "" && !h.broken {
		// the new key and the key it resembles are used alternately
		h.note("(key#%d is a twin of key#%d: %s)", e.n, src.n, twin)
		c.Inc("op_NewExtendedKey_twin_of_live_key")
		h.observe("NewExtendedKey-twin", nil, src)
		h.observe("NewExtendedKey-twin", nil, e)
		h.observe("NewExtendedKey-twin", nil, src)
		h.observe("NewExtendedKey-twin", nil, e)
	}
	h.observeAll("NewExtendedKey", nil)
	if r.Chance(1, 12) && !h.broken {
		// a second, short-lived key object over the SAME argument slices is
		// created, used and dropped without Zero; after garbage collection
		// (and any finalizers) nothing has been zeroed, so every live key -
		// in particular the one sharing those slices - must be unchanged
		func() {
			defer func() { recover() }()
			t := hdkeychain.NewExtendedKey(version, key, chain, fp, x.Depth, x.ChildNum, x.IsPrivate())
			_ = t.String()
		}()
		runtime.GC()
		runtime.GC()
		time.Sleep(2 * time.Millisecond)
		h.note("(a second key object over the same argument slices was dropped; GC ran)")
		c.Inc("op_dropped_twin_then_GC")
		h.observeAll("dropped-twin-GC", nil)
	}
}

func (h *c15hist) opChild(x *c15key) {
	c, r := h.c, h.r
	if x.ref.Depth == 255 {
		c.Inc("op_Child_skipped_at_depth_255")
		return
	}
	hardened := x.ref.IsPrivate() && r.Bool()
	i := c15index(r, hardened)
	want, rerr := x.ref.Child(i)
	if rerr != nil {
		c.Inconclusive("reference-invalid-child")
		return
	}
	h.note("key#%d.Child(%d)", x.n, i)
	var k *hdkeychain.ExtendedKey
	var err error
	if !c.Call("Child", func() string { return fmt.Sprintf("%s Child(%d)", x.how, i) }, func() { k, err = x.k.Child(i) }) {
		h.broken = true
		return
	}
	if err != nil || k == nil {
		h.broken = true
		c.Failf("Child/error", "key#%d (%s).Child(%d) failed: %v, reference %s\nhistory: %s", x.n, x.how, i, err, want.String(), h.trace())
		return
	}
	e := &c15key{k: k, origin: "Child", from: x, how: fmt.Sprintf("Child(%d) of key#%d", i, x.n), obsIdx: c15obsIdx(r)}
	e.setRef(want)
	e.deriveChild()
	h.add(e)
	h.note("-> key#%d", e.n)
	switch {
	case hardened:
		c.Inc("op_Child_hardened")
	case x.ref.IsPrivate():
		c.Inc("op_Child_private_normal")
	default:
		c.Inc("op_Child_public")
	}
	h.observeNew("Child", e)
	h.observeAll("Child", x)
}

func (h *c15hist) opNeuter(x *c15key) {
	c, r := h.c, h.r
	h.note("key#%d.Neuter()", x.n)
	var k *hdkeychain.ExtendedKey
	var err error
	if !c.Call("Neuter", func() string { return x.how }, func() { k, err = x.k.Neuter() }) {
		h.broken = true
		return
	}
	if !x.ref.IsPrivate() {
		// documented: the same key is returned
		if err != nil || k == nil {
			h.broken = true
			c.Failf("Neuter/error", "Neuter of public key#%d (%s) failed: %v", x.n, x.how, err)
			return
		}
		if k == x.k {
			c.Inc("op_Neuter_public_same_object")
			h.note("-> same object")
			h.observeAll("Neuter", x)
			return
		}
		// a distinct object is also a legal outcome: model it as a copy
		c.Inc("op_Neuter_public_new_object")
		e := &c15key{k: k, origin: "Neuter", from: x, how: fmt.Sprintf("Neuter of public key#%d", x.n), obsIdx: x.obsIdx}
		e.setRef(c15withVersion(x.ref, x.ref.Version))
		e.setChild(x.child)
		e.noChild, e.childErr = x.noChild, x.childErr
		h.add(e)
		h.note("-> key#%d", e.n)
		h.observeNew("Neuter", e)
		h.observeAll("Neuter", x)
		return
	}
	pubVer, known := c15privToPub[x.ref.Version]
	if !known {
		// custom version bytes: chaincfg has no public counterpart, the
		// statement says nothing about the outcome.
		if err != nil {
			c.Inc("op_Neuter_unregistered_version_error")
		} else {
			c.Inconclusive("Neuter-unregistered-version-returned-key")
		}
		h.note("-> unregistered version, err=%v", err)
		h.observeAll("Neuter", x)
		return
	}
	if err != nil || k == nil {
		h.broken = true
		c.Failf("Neuter/error", "Neuter of private key#%d (%s, version %x) failed: %v\nhistory: %s", x.n, x.how, x.ref.Version, err, h.trace())
		return
	}
	e := &c15key{k: k, origin: "Neuter", from: x, how: fmt.Sprintf("Neuter of private key#%d", x.n), obsIdx: c15obsIdx(r)}
	e.setRef(x.ref.Neuter(pubVer))
	e.deriveChild()
	h.add(e)
	h.note("-> key#%d", e.n)
	c.Inc("op_Neuter_private")
	h.observeNew("Neuter", e)
	h.observeAll("Neuter", x)
}

func (h *c15hist) opSetNet(x *c15key) {
	c, r := h.c, h.r
	net := c15nets[r.Intn(len(c15nets))]
	h.note("key#%d.SetNet(%s)", x.n, net.name)
	if !c.Call("SetNet", func() string { return fmt.Sprintf("%s SetNet(%s)", x.how, net.name) }, func() { x.k.SetNet(net.p) }) {
		h.broken = true
		return
	}
	v := net.pub
	if x.ref.IsPrivate() {
		v = net.priv
	}
	if v != x.ref.Version {
		c.Inc("op_SetNet_changes_version")
	} else {
		c.Inc("op_SetNet_same_version")
	}
	x.setRef(c15withVersion(x.ref, v))
	if x.child != nil {
		// children yet to be derived inherit the new version
		x.setChild(c15withVersion(x.child, v))
	}
	x.how += fmt.Sprintf(" then SetNet(%s)", net.name)
	if h.hasRelative(x) {
		h.nontrv = true
		c.Inc("SetNet_with_live_relative")
	}
	h.observeAll("SetNet", x)
}

func (h *c15hist) opZero(x *c15key) {
	c := h.c
	h.note("key#%d.Zero()", x.n)
	bufs, missing := c15capture(x.k)
	for _, m := range missing {
		c.Inconclusive("erase-clause-field-" + m + "-not-found")
	}
	if len(bufs["pubKey"]) > 0 {
		c.Inc("zero_with_cached_pubkey")
	}
	callerBufs := map[string][]byte{}
	for name, b := range x.callerBufs {
		// the caller's buffer holds the key's material only if the key refers to it
		if c15sameMem(b, bufs[name]) {
			callerBufs[name] = b
			c.Inc("zero_caller_buffer_aliased")
		} else {
			c.Inc("zero_caller_buffer_not_referenced")
		}
	}
	ctx := func() string { return fmt.Sprintf("key#%d (%s)\nhistory: %s", x.n, x.how, h.trace()) }
	if !c.Call("Zero", ctx, func() { x.k.Zero() }) {
		h.broken = true
		return
	}
	c.Inc("op_Zero")
	h.remove(x)
	c15checkZeroed(c, x.k, bufs, callerBufs, ctx)
	g := &c15grave{x, map[string][]byte{}}
	for n, b := range bufs {
		g.bufs["buffer-"+n] = b
	}
	for n, b := range callerBufs {
		g.bufs["caller-buffer-"+n] = b
	}
	h.grave = append(h.grave, g)
	if h.hasRelative(x) {
		h.nontrv = true
		c.Inc("Zero_with_live_relative")
	}
	h.observeAll("Zero", x)
}

// opZeroFresh zeroes a master key nobody has looked at yet, so that its
// public key has never been cached.
// opColdChain: a fresh private key and up to three keys derived from it are
// created back to back WITHOUT being looked at (no String, no derivation
// observation: every cache is cold, nothing lazy has been materialised), then
// one of them is zeroed, and only then are the others observed.  What a key is
// must not depend on whether somebody looked at it before its relatives died.
func (h *c15hist) opColdChain() {
	c, r := h.c, h.r
	if len(h.pool)+4 > c15PoolMax+4 {
		return
	}
	x := c15randomRef(r, false)
	for tries := 0; !x.IsPrivate() && tries < 8; tries++ {
		x = c15randomRef(r, false)
	}
	if !x.IsPrivate() {
		return
	}
	if x.Depth > 250 {
		x.Depth = 250
	}
	version := append([]byte(nil), x.Version[:]...)
	key, chain, fp := c15pad32(x.Priv), append([]byte(nil), x.ChainCode[:]...), append([]byte(nil), x.ParentFP[:]...)
	var k *hdkeychain.ExtendedKey
	if !c.Call("NewExtendedKey", func() string { return "cold chain root" }, func() {
		k = hdkeychain.NewExtendedKey(version, key, chain, fp, x.Depth, x.ChildNum, true)
	}) || k == nil {
		h.broken = true
		return
	}
	root := &c15key{k: k, origin: "NewExtendedKey", how: fmt.Sprintf("NewExtendedKey(cold, depth=%d)", x.Depth), obsIdx: c15obsIdx(r)}
	root.setRef(x)
	root.deriveChild()
	chainKeys := []*c15key{root}
	h.add(root)
	h.note("cold: NewExtendedKey -> key#%d", root.n)
	for step := 1 + r.Intn(3); step > 0 && !h.broken; step-- {
		cur := chainKeys[len(chainKeys)-1]
		var nk *hdkeychain.ExtendedKey
		var nref *ref.XKey
		var err error
		how := ""
		if cur.ref.IsPrivate() && r.Chance(1, 4) {
			pubVer, known := c15privToPub[cur.ref.Version]
			if !known {
				break
			}
			if !c.Call("Neuter", func() string { return cur.how }, func() { nk, err = cur.k.Neuter() }) {
				h.broken = true
				return
			}
			nref, how = cur.ref.Neuter(pubVer), fmt.Sprintf("Neuter of key#%d (cold)", cur.n)
		} else {
			i := c15index(r, cur.ref.IsPrivate() && r.Chance(2, 3))
			var rerr error
			nref, rerr = cur.ref.Child(i)
			if rerr != nil {
				break
			}
			if !c.Call("Child", func() string { return cur.how }, func() { nk, err = cur.k.Child(i) }) {
				h.broken = true
				return
			}
			how = fmt.Sprintf("Child(%d) of key#%d (cold)", i, cur.n)
		}
		if err != nil || nk == nil {
			h.broken = true
			c.Failf("Child/error", "%s failed: %v\nhistory: %s", how, err, h.trace())
			return
		}
		e := &c15key{k: nk, origin: "Child", from: cur, how: how, obsIdx: c15obsIdx(r)}
		e.setRef(nref)
		e.deriveChild()
		h.add(e)
		chainKeys = append(chainKeys, e)
		h.note("cold: %s -> key#%d", how, e.n)
	}
	c.Inc("op_cold_chain")
	// zero one key of the chain (not the last: it has descendants to be looked at)
	victim := chainKeys[r.Intn(len(chainKeys))]
	if len(chainKeys) > 1 {
		victim = chainKeys[r.Intn(len(chainKeys)-1)]
	}
	h.opZero(victim)
}

func (h *c15hist) opZeroFresh() {
	c, r := h.c, h.r
	seed := r.Bytes(r.Range(hdkeychain.MinSeedBytes, hdkeychain.MaxSeedBytes))
	net := c15nets[r.Intn(len(c15nets))]
	h.note("NewMaster(%x,%s).Zero()", seed, net.name)
	var k *hdkeychain.ExtendedKey
	var err error
	ctx := func() string { return fmt.Sprintf("NewMaster(%x,%s) zeroed immediately", seed, net.name) }
	if !c.Call("NewMaster", ctx, func() { k, err = hdkeychain.NewMaster(seed, net.p) }) || err != nil || k == nil {
		return
	}
	bufs, missing := c15capture(k)
	for _, m := range missing {
		c.Inconclusive("erase-clause-field-" + m + "-not-found")
	}
	if len(bufs["pubKey"]) == 0 {
		c.Inc("zero_without_cached_pubkey")
	}
	if !c.Call("Zero", ctx, func() { k.Zero() }) {
		h.broken = true
		return
	}
	c.Inc("op_Zero_fresh")
	c15checkZeroed(c, k, bufs, nil, ctx)
	h.observeAll("Zero", nil)
}

func (h *c15hist) opRead(x *c15key, which int) {
	c := h.c
	switch which {
	case 0:
		h.note("key#%d.String()x3", x.n)
		c.Inc("op_String")
		c.Call("String", func() string { return x.how }, func() {
			for j := 0; j < 3; j++ {
				_ = x.k.String()
			}
		})
		h.observeAll("String", x)
	case 1:
		h.note("key#%d.ECPubKey()", x.n)
		c.Inc("op_ECPubKey")
		var pk *bchec.PublicKey
		var err error
		if !c.Call("ECPubKey", func() string { return x.how }, func() { pk, err = x.k.ECPubKey() }) {
			h.broken = true
			return
		}
		c.Evals(1)
		want := x.ref.Pub.Compressed()
		if err != nil || pk == nil {
			h.broken = true
			c.Failf("ECPubKey/error", "key#%d (%s).ECPubKey() failed: %v\nhistory: %s", x.n, x.how, err, h.trace())
		} else if got := pk.SerializeCompressed(); !eqBytes(got, want) {
			h.broken = true
			c.Failf("ECPubKey/value", "key#%d (%s).ECPubKey()=%x, reference %x\nhistory: %s", x.n, x.how, got, want, h.trace())
		}
		if pk != nil && pk.X != nil && pk.Y != nil && h.r.Bool() {
			// the caller tweaks the returned point in place (it owns it)
			pk.X.SetInt64(0)
			pk.Y.SetInt64(0)
			h.note("(caller overwrote the returned point)")
			c.Inc("op_ECPubKey_result_overwritten_by_caller")
		}
		h.observeAll("ECPubKey", x)
	case 2:
		net := c15nets[h.r.Intn(len(c15nets))]
		h.note("key#%d.Address(%s)", x.n, net.name)
		c.Inc("op_Address")
		var a *bchutil.AddressPubKeyHash
		var err error
		if !c.Call("Address", func() string { return x.how }, func() { a, err = x.k.Address(net.p) }) {
			h.broken = true
			return
		}
		c.Evals(1)
		want := ref.Hash160(x.ref.Pub.Compressed())
		if err != nil || a == nil {
			h.broken = true
			c.Failf("Address/error", "key#%d (%s).Address(%s) failed: %v\nhistory: %s", x.n, x.how, net.name, err, h.trace())
		} else if !eqBytes(a.ScriptAddress(), want) {
			h.broken = true
			c.Failf("Address/hash160", "key#%d (%s).Address(%s) hash=%x, hash160 of the reference public key %x\nhistory: %s", x.n, x.how, net.name, a.ScriptAddress(), want, h.trace())
		}
		h.observeAll("Address", x)
	}
}

func c15historyCase(c *vf.Ctx, i int) {
	h := &c15hist{c: c, r: c.R}
	r := c.R
	for step := 0; step < c15Steps && !h.broken; step++ {
		var x *c15key
		if len(h.pool) > 0 {
			x = h.pool[r.Intn(len(h.pool))]
		}
		op := r.Intn(100)
		switch {
		case x == nil: // empty pool: create something
			switch r.Intn(3) {
			case 0:
				op = 0
			case 1:
				op = 16
			default:
				op = 8
			}
		case len(h.pool) >= c15PoolMax && op < 60: // full pool: make room
			op = 80
		}
		h.hash = vf.Mix(h.hash, uint64(op), uint64(len(h.pool)))
		h.steps++
		switch {
		case op < 6:
			h.opNewMaster()
		case op < 8:
			h.opParse(nil)
		case op < 16:
			if x != nil {
				h.opParse(x)
			} else {
				h.opParse(nil)
			}
		case op < 22:
			if x != nil && r.Chance(1, 3) {
				h.opNewExtendedKey(x)
			} else {
				h.opNewExtendedKey(nil)
			}
		case op < 44:
			h.opChild(x)
		case op < 60:
			h.opNeuter(x)
		case op < 72:
			h.opSetNet(x)
		case op < 86:
			h.opZero(x)
		case op < 87:
			h.opZeroFresh()
		case op < 88:
			h.opColdChain()
		default:
			h.opRead(x, (op-88)%3)
		}
	}
	// zeroed keys stay zeroed and their buffers stay erased
	for _, g := range h.grave {
		var s string
		ctx := func() string {
			return fmt.Sprintf("key#%d (%s), re-checked at the end of the history\nhistory: %s", g.e.n, g.e.how, h.trace())
		}
		if !c.Call("Zero/accessors", ctx, func() { s = g.e.k.String() }) {
			continue
		}
		c.Evals(1)
		if s != c15ZeroedStr {
			c.Failf("Zero/String-not-zeroed", "String()=%q want %q; %s", s, c15ZeroedStr, ctx())
		}
		for name, b := range g.bufs {
			c.Evals(1)
			if !c15allZero(b) {
				c.Failf("Zero/"+name+"-not-erased", "%s contains %x; %s", name, b, ctx())
			}
		}
	}
	c.Count("steps", int64(h.steps))
	c.Count("keys_created", int64(h.serial))
	if h.broken {
		c.Inc("histories_stopped_at_first_divergence")
	}
	if h.nontrv {
		c.Inc("histories_nontrivial")
		c.Nontrivial(vf.Mix(15, h.hash, uint64(i), c.Seed))
	}
	if c.WantSample() {
		c.Sample(map[string]any{"history": h.log, "live_at_end": len(h.pool), "zeroed": len(h.grave)})
	}
}

// ---- aliasing probe (race build) ------------------------------------------

var c15probeRelations = []string{"neuter-copy", "child-normal", "child-hardened", "parsed-copy", "public-child", "public-parsed-copy"}
var c15probeWriters = []string{"Zero", "SetNet"}
var c15probeReaders = []string{"String", "ECPubKey", "Child", "ParentFingerprint", "Address"}

// c15probe builds one pair (X, Y) of different objects and runs a mutator on
// one and a read-only accessor on the other in two unsynchronised goroutines.
func c15probe(c *vf.Ctx, rel, writer, reader string, reverse bool) {
	r := c.R
	seed := r.Bytes(r.Range(16, 64))
	net := c15nets[r.Intn(len(c15nets))]
	net2 := c15nets[r.Intn(len(c15nets))]
	var x, y *hdkeychain.ExtendedKey
	desc := func() string {
		return fmt.Sprintf("seed=%x net=%s relation=%s writer=%s reader=%s reverse=%v", seed, net.name, rel, writer, reader, reverse)
	}
	ok := c.Call("alias-race/setup", desc, func() {
		m, err := hdkeychain.NewMaster(seed, net.p)
		if err != nil {
			return
		}
		// X at depth 1 so that its parent fingerprint is not all zero
		x, err = m.Child(c15index(r, r.Bool()))
		if err != nil {
			x = nil
			return
		}
		if strings.HasPrefix(rel, "public-") {
			// a public X that shares nothing with a private key
			x, err = hdkeychain.NewKeyFromString(mustNeuterString(x))
			if err != nil {
				x = nil
				return
			}
		}
		switch rel {
		case "neuter-copy":
			y, err = x.Neuter()
		case "child-normal", "public-child":
			y, err = x.Child(c15index(r, false))
		case "child-hardened":
			y, err = x.Child(c15index(r, true))
		case "parsed-copy", "public-parsed-copy":
			y, err = hdkeychain.NewKeyFromString(x.String())
		}
		if err != nil {
			y = nil
		}
	})
	if !ok || x == nil || y == nil {
		c.Inconclusive("alias-race-setup-failed")
		return
	}
	if x == y {
		// only Neuter of a public key may return its receiver; never generated
		c.Inconclusive("alias-race-same-object")
		return
	}
	w, rd := x, y
	if reverse {
		w, rd = y, x
	}
	var wg sync.WaitGroup
	var panics [2]string
	wg.Add(2)
	spawn := func() {
		go func() {
			defer wg.Done()
			defer func() {
				if p := recover(); p != nil {
					panics[0] = fmt.Sprintf("%v\n%s", p, debug.Stack())
				}
			}()
			if writer == "Zero" {
				w.Zero()
			} else {
				w.SetNet(net2.p)
			}
		}()
		go func() {
			defer wg.Done()
			defer func() {
				if p := recover(); p != nil {
					panics[1] = fmt.Sprintf("%v\n%s", p, debug.Stack())
				}
			}()
			switch reader {
			case "String":
				_ = rd.String()
			case "ECPubKey":
				_, _ = rd.ECPubKey()
			case "Child":
				_, _ = rd.Child(7)
			case "ParentFingerprint":
				_ = rd.ParentFingerprint()
				_ = rd.Depth()
				_ = rd.IsPrivate()
			case "Address":
				_, _ = rd.Address(net.p)
			}
		}()
	}
	// the wrappers only put the relation and direction into the goroutines'
	// creation stacks, so that a race report says which pair it belongs to
	c15via(rel, reverse, spawn)
	wg.Wait()
	c.Evals(1)
	dir := "derived-read"
	if reverse {
		dir = "source-read"
	}
	c.Inc("probe_" + rel + "_" + writer + "_" + dir)
	c.Nontrivial(vf.Mix(1515, vf.HashString(rel+writer+reader+dir), vf.HashBytes(seed)))
	for g, p := range panics {
		if p != "" {
			c.Failf("alias-race/"+[]string{writer, reader}[g]+"/panic", "panic in the %s goroutine: %s\n%s", []string{"writer", "reader"}[g], p, desc())
		}
	}
	if c.WantSample() {
		c.Sample(map[string]any{"probe": desc()})
	}
}

//go:noinline
func c15viaNeuterCopy(f func()) { f() }

//go:noinline
func c15viaChildNormal(f func()) { f() }

//go:noinline
func c15viaChildHardened(f func()) { f() }

//go:noinline
func c15viaParsedCopy(f func()) { f() }

//go:noinline
func c15viaPublicChild(f func()) { f() }

//go:noinline
func c15viaPublicParsedCopy(f func()) { f() }

//go:noinline
func c15writerOnSourceReaderOnDerived(f func()) { f() }

//go:noinline
func c15writerOnDerivedReaderOnSource(f func()) { f() }

func c15via(rel string, reverse bool, f func()) {
	g := func() { c15writerOnSourceReaderOnDerived(f) }
	if reverse {
		g = func() { c15writerOnDerivedReaderOnSource(f) }
	}
	switch rel {
	case "neuter-copy":
		c15viaNeuterCopy(g)
	case "child-normal":
		c15viaChildNormal(g)
	case "child-hardened":
		c15viaChildHardened(g)
	case "parsed-copy":
		c15viaParsedCopy(g)
	case "public-child":
		c15viaPublicChild(g)
	case "public-parsed-copy":
		c15viaPublicParsedCopy(g)
	default:
		panic("c15: unknown relation " + rel)
	}
}

// mustNeuterString returns the string of the neutered key (setup helper; a
// failure simply aborts the probe through the nil check of the caller).
func mustNeuterString(k *hdkeychain.ExtendedKey) string {
	n, err := k.Neuter()
	if err != nil {
		return ""
	}
	return n.String()
}

func c15raceCase(c *vf.Ctx, i int) {
	// the (relation, writer, reader, direction) combination is a function of
	// the index only; the key material is seeded.
	nr, nw, nd := len(c15probeRelations), len(c15probeWriters), len(c15probeReaders)
	j := i
	rel := c15probeRelations[j%nr]
	j /= nr
	writer := c15probeWriters[j%nw]
	j /= nw
	reader := c15probeReaders[j%nd]
	j /= nd
	reverse := j%2 == 1
	c15probe(c, rel, writer, reader, reverse)
}

func init() {
	register(&vf.Property{
		ID:    "C15",
		Title: "Extended keys are independent values and zeroing really erases them",
		Rule: "stream histories: 30 seeded steps over a pool of <= 8 live keys drawn from {NewMaster, NewKeyFromString (model string of a live key, or a fresh reference key), NewExtendedKey (fresh caller buffers), Child (hardened / normal / public), Neuter, SetNet, Zero, String, ECPubKey, Address}; after every step every live key is compared with the reference BIP32 model (String, IsPrivate, Depth, ParentFingerprint, one non-hardened child); " +
			"a history is non-trivial when a Zero or SetNet happened while a direct relative (parent, child, neutered copy or source, parsed copy or source, sibling) of that key was live; it stops at the first divergence because the model is void afterwards. " +
			"stream alias-race (race build): one (relation, writer, reader, direction) probe per case over 6 relations x {Zero, SetNet} x 5 read-only accessors x 2 directions, seeded key material; distinct per (combination, seed).",
		Assumptions: []string{
			"reference BIP32 / secp256k1 / Base58 written from the specifications on math/big (self-tested on the BIP32 vectors on every run)",
			"crypto/sha256, crypto/sha512, crypto/hmac, x/crypto/ripemd160 and math/big are correct",
			"the HD version bytes of a network are chaincfg's HDPrivateKeyID / HDPublicKeyID (copied by value before the code under test runs); Neuter maps a private id to the public id of the same network",
			"reflection is used read-only to obtain the key's own key/pubKey/chainCode/parentFP slices before Zero; a caller-owned buffer is checked only when the key refers to that very memory",
			"Neuter of an already-public key may return the same object (documented); that pair is excluded from the aliasing probe",
		},
		SelfTest: func() error {
			for _, f := range []func() error{ref.SelfTestBIP32, ref.SelfTestSecp, ref.SelfTestBase58} {
				if err := f(); err != nil {
					return err
				}
			}
			return nil
		},
		Streams: []*vf.Stream{
			{Name: "histories", N: func(t vf.Tier) int { return t.Sz(3000, 100000) }, Run: c15historyCase},
			{Name: "alias-race", Race: true, N: func(t vf.Tier) int { return t.Sz(2400, 48000) }, Run: c15raceCase},
		},
	})
}
