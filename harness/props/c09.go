package props

import (
	"bytes"
	"fmt"
	"math"

	"github.com/gcash/bchd/chaincfg/chainhash"
	"github.com/gcash/bchd/wire"
	"github.com/gcash/bchutil/bloom"

	"verif/internal/ref"
	"verif/internal/vf"
)

// C09 — bloom filters: no false negatives, bit-exact BIP37.
//
// Oracle: ref.Murmur3 (written from the public-domain description, self-tested
// on the SMHasher / Bitcoin Core vectors) and ref.BloomModel, a plain bit
// array with BIP37's bit selection.  The model keeps its OWN copy of the bit
// array: bloom.LoadFilter / Reload alias the caller's message, so the bytes
// handed to the library are never read back as the expectation.
//
// Size 0 filters are C08's and are never generated here.

const (
	c09MaxSize  = 36000 // wire.MaxFilterLoadFilterSize (BIP37), restated so a changed constant cannot move the oracle
	c09MaxFuncs = 50    // wire.MaxFilterLoadHashFuncs
)

// ---------------------------------------------------------------- murmur ---

var c09seeds = []uint32{0, 1, 0xffffffff, 0xfba4c795, 0x80000000, 0x7fffffff, 0x045b386b /* = -0xFBA4C795 */, 0xf7498f2a /* 2*0xFBA4C795 */}

func c09murmurCase(c *vf.Ctx, i int) {
	n := i % 65
	variant := (i / 65) % 6
	data := c.R.Bytes(n)
	switch variant {
	case 0: // all 0xff (sign extension of tail bytes, carries)
		for j := range data {
			data[j] = 0xff
		}
	case 1: // all zero
		for j := range data {
			data[j] = 0
		}
	case 2: // high bit set everywhere
		for j := range data {
			data[j] |= 0x80
		}
	case 3: // only the tail is non-zero
		for j := 0; j < n-(n&3); j++ {
			data[j] = 0
		}
	}
	seeds := append([]uint32{}, c09seeds...)
	for k := 0; k < 4; k++ {
		seeds = append(seeds, c.R.Uint32())
	}
	// seeds of the form i*0xFBA4C795+tweak that wrap
	tw := c.R.Uint32()
	for _, hn := range []uint32{1, 2, 49, 50} {
		seeds = append(seeds, hn*0xfba4c795+tw)
	}
	// the slice handed to the library has spare capacity filled with a
	// sentinel, so a read past len() changes nothing observable but an
	// implementation that hashes cap() bytes would differ.
	buf := make([]byte, n, n+8)
	copy(buf, data)
	copy(buf[n:n+8], []byte{0xa5, 0xa5, 0xa5, 0xa5, 0xa5, 0xa5, 0xa5, 0xa5})
	c.Nontrivial(vf.Mix(9, uint64(n), vf.HashBytes(data)))
	c.Inc(fmt.Sprintf("murmur_len_mod4=%d", n&3))
	for _, s := range seeds {
		var got uint32
		s := s
		if !c.Call("MurmurHash3", func() string { return fmt.Sprintf("seed=%#x data=%x", s, data) }, func() { got = bloom.MurmurHash3(s, buf) }) {
			continue
		}
		c.Evals(1)
		if want := ref.Murmur3(s, data); got != want {
			c.Failf("MurmurHash3/value", "MurmurHash3(seed=%#08x, data=%x (len %d)) = %#08x, reference MurmurHash3_x86_32 = %#08x", s, data, n, got, want)
		}
	}
	if c.WantSample() {
		c.Sample(map[string]any{"len": n, "data": hx(data), "seed": seeds[3], "hash": ref.Murmur3(seeds[3], data)})
	}
}

// --------------------------------------------------------------- history ---

func c09size(r *vf.Rand) int {
	switch r.Intn(10) {
	case 0:
		return r.Range(1, 8)
	case 1, 2:
		return r.Range(1, 64)
	case 3, 4, 5:
		return r.Range(65, 1024)
	case 6:
		return c09MaxSize
	case 7:
		return []int{1, 2, 3, 4, 5, 7, 8, 9, 255, 256, 257, 511, 512, 513, 4095, 4096, 8191, 8192, 8193, 32767, 32768, 35999}[r.Intn(22)]
	default:
		return r.Range(1025, c09MaxSize)
	}
}

func c09nhash(r *vf.Rand) uint32 {
	switch r.Intn(10) {
	case 0:
		return 0
	case 1:
		return c09MaxFuncs
	case 2, 3:
		return uint32(r.Range(0, c09MaxFuncs))
	default:
		return uint32(r.Range(1, 12))
	}
}

func c09tweak(r *vf.Rand) uint32 {
	switch r.Intn(8) {
	case 0:
		return 0
	case 1:
		return 0xffffffff
	case 2: // i*0xFBA4C795 + tweak crosses 2^32 exactly at a small i
		i := uint32(r.Range(1, 50))
		return -(i * 0xfba4c795) + uint32(r.Intn(3)) - 1
	case 3:
		return 0x80000000 + uint32(r.Intn(3)) - 1
	default:
		return r.Uint32()
	}
}

// c09initialBits fills a fresh bit array: empty, sparse, dense or full.
func c09initialBits(r *vf.Rand, size int) []byte {
	b := make([]byte, size)
	switch r.Intn(8) {
	case 0, 1, 2, 3: // empty
	case 4: // sparse
		for k := r.Intn(1 + size/4); k >= 0; k-- {
			b[r.Intn(size)] |= 1 << uint(r.Intn(8))
		}
	case 5: // random
		r.Fill(b)
	case 6: // all ones but a few
		for j := range b {
			b[j] = 0xff
		}
		for k := r.Intn(4); k > 0; k-- {
			b[r.Intn(size)] &^= 1 << uint(r.Intn(8))
		}
	case 7: // full
		for j := range b {
			b[j] = 0xff
		}
	}
	return b
}

func c09item(r *vf.Rand) []byte {
	var n int
	switch r.Intn(10) {
	case 0:
		n = 0
	case 1:
		n = r.Range(1, 3)
	case 2:
		n = []int{20, 32, 33, 36, 65}[r.Intn(5)]
	case 3:
		n = r.Range(4, 8)
	case 4:
		n = r.Range(66, 520)
		if r.Chance(1, 4) {
			// beyond the 520 bytes a filteradd message can carry: Add takes any byte string
			n = []int{521, 522, 523, 524, 1000, 4099, 65536 + 7}[r.Intn(7)]
		}
	default:
		n = r.Range(0, 40)
	}
	b := r.Bytes(n)
	switch r.Intn(10) {
	case 0:
		for j := range b {
			b[j] = 0
		}
	case 1:
		for j := range b {
			b[j] = 0xff
		}
	}
	return b
}

func c09index(r *vf.Rand) uint32 {
	switch r.Intn(6) {
	case 0:
		return 0
	case 1:
		return 0xffffffff
	case 2:
		return 0x01020304
	case 3:
		return uint32(r.Intn(4))
	case 4:
		return 1 << uint(r.Intn(32))
	default:
		return r.Uint32()
	}
}

type c09ins struct {
	kind int // 0 bytes, 1 hash, 2 outpoint
	item []byte
	hash chainhash.Hash
	idx  uint32
}

func (e *c09ins) String() string {
	switch e.kind {
	case 1:
		return "hash " + hx(e.hash[:])
	case 2:
		return fmt.Sprintf("outpoint %x:%d", e.hash[:], e.idx)
	}
	return "bytes " + hx(e.item)
}

type c09saved struct {
	msg   *wire.MsgFilterLoad
	model *ref.BloomModel // the model at the moment the message stopped being the loaded filter
}

type c09hist struct {
	c        *vf.Ctx
	f        *bloom.Filter
	m        *ref.BloomModel
	inserted []*c09ins
	saved    []c09saved
	unloaded *c09saved // the message detached by the last Unload, while the filter stays unloaded
	cur      *wire.MsgFilterLoad
	log      []string
	dead     bool // a call panicked; stop the history
}

func (h *c09hist) trace() string {
	s := ""
	for i, l := range h.log {
		if i > 0 {
			s += "; "
		}
		s += l
	}
	return c09tail(s, 3000)
}

func c09tail(s string, n int) string {
	if len(s) > n {
		return "…" + s[len(s)-n:]
	}
	return s
}

func (h *c09hist) desc() string {
	if !h.m.Loaded {
		return "unloaded"
	}
	return fmt.Sprintf("size=%d nHashFuncs=%d tweak=%#08x", len(h.m.Bits), h.m.NHash, h.m.Tweak)
}

func (h *c09hist) call(site string, f func()) bool {
	if !h.c.Call(site, func() string { return h.desc() + " history: " + h.trace() }, f) {
		h.dead = true
		return false
	}
	return true
}

func c09firstDiff(a, b []byte) int {
	n := len(a)
	if len(b) < n {
		n = len(b)
	}
	for i := 0; i < n; i++ {
		if a[i] != b[i] {
			return i
		}
	}
	if len(a) != len(b) {
		return n
	}
	return -1
}

// load makes a fresh message (library aliases it) and a private model copy.
func c09newMsg(r *vf.Rand) (*wire.MsgFilterLoad, *ref.BloomModel, wire.BloomUpdateType) {
	return c09newMsgSized(r, c09size(r))
}

func c09newMsgSized(r *vf.Rand, size int) (*wire.MsgFilterLoad, *ref.BloomModel, wire.BloomUpdateType) {
	bits := c09initialBits(r, size)
	nh, tw := c09nhash(r), c09tweak(r)
	flags := wire.BloomUpdateType(r.Intn(3))
	if r.Chance(1, 8) {
		flags = wire.BloomUpdateType(r.Intn(256)) // flags do not influence anything C09 observes
	}
	msg := wire.NewMsgFilterLoad(append([]byte(nil), bits...), nh, tw, flags)
	return msg, &ref.BloomModel{Bits: bits, NHash: nh, Tweak: tw, Loaded: true}, flags
}

// verify is run after every step.
func (h *c09hist) verify(step string) {
	if h.dead {
		return
	}
	c := h.c
	var msg *wire.MsgFilterLoad
	var loaded bool
	if !h.call("MsgFilterLoad", func() { msg = h.f.MsgFilterLoad(); loaded = h.f.IsLoaded() }) {
		return
	}
	c.Evals(1)
	if loaded != h.m.Loaded || (msg != nil) != h.m.Loaded {
		c.Failf("IsLoaded/state", "after %s: IsLoaded()=%v MsgFilterLoad()!=nil=%v, expected loaded=%v; history: %s", step, loaded, msg != nil, h.m.Loaded, h.trace())
		h.dead = true
		return
	}
	if !h.m.Loaded {
		// "an unloaded filter ignores insertions": the message detached by
		// Unload must keep the bits it had at that moment.
		if u := h.unloaded; u != nil {
			c.Evals(1)
			if d := c09firstDiff(u.msg.Filter, u.model.Bits); d >= 0 {
				c.Failf("Unload/insertion-not-ignored", "after %s on an unloaded filter the previously loaded message changed at byte %d; history: %s", step, d, h.trace())
				h.dead = true
			}
		}
		return
	}
	c.Evals(1)
	if d := c09firstDiff(msg.Filter, h.m.Bits); d >= 0 {
		var g, w byte
		if d < len(msg.Filter) {
			g = msg.Filter[d]
		}
		if d < len(h.m.Bits) {
			w = h.m.Bits[d]
		}
		c.Failf("filter-bits/after-"+c09stepKind(step), "%s: after %s the filter's bit array differs from the BIP37 model at byte %d: got %#02x want %#02x (len got %d want %d); history: %s",
			h.desc(), step, d, g, w, len(msg.Filter), len(h.m.Bits), h.trace())
		h.dead = true
		return
	}
	// No false negatives: everything inserted since the last (re)load.
	for _, e := range h.inserted {
		e := e
		var got bool
		site := "Matches"
		if e.kind == 2 {
			site = "MatchesOutPoint"
		}
		if !h.call(site, func() {
			switch e.kind {
			case 0:
				got = h.f.Matches(e.item)
			case 1:
				got = h.f.Matches(e.hash[:])
			case 2:
				got = h.f.MatchesOutPoint(wire.NewOutPoint(&e.hash, e.idx))
			}
		}) {
			return
		}
		c.Evals(1)
		c.Inc("inserted_items_rechecked")
		if !got {
			c.Failf(site+"/false-negative", "%s: inserted item (%s) is reported absent after %s; history: %s", h.desc(), e, step, h.trace())
			h.dead = true
			return
		}
	}
}

func c09stepKind(step string) string {
	for i := 0; i < len(step); i++ {
		if step[i] == ' ' || step[i] == '(' {
			return step[:i]
		}
	}
	return step
}

func c09historyCase(c *vf.Ctx, i int) {
	r := c.R
	h := &c09hist{c: c}
	steps := 40
	if c.Tier == vf.Thorough && r.Chance(1, 10) {
		steps = 120
	}
	if i%400 == 399 {
		// a long-lived filter: state that only goes wrong after many
		// operations (wrapping counters, caches) needs long histories
		steps = 3000
		c.Inc("long_histories_3000_steps")
	}
	// ---- initial state
	startKind := r.Intn(10)
	switch {
	case i < 64 || startKind < 6: // LoadFilter with a message of the chosen shape
		var msg *wire.MsgFilterLoad
		if i < 64 {
			msg, h.m, _ = c09newMsgSized(r, i+1)
		} else {
			msg, h.m, _ = c09newMsg(r)
		}
		h.cur = msg
		h.log = append(h.log, fmt.Sprintf("LoadFilter(size=%d k=%d tweak=%#x)", len(msg.Filter), msg.HashFuncs, msg.Tweak))
		if !h.call("LoadFilter", func() { h.f = bloom.LoadFilter(msg) }) {
			return
		}
		c.Inc("start_LoadFilter")
	case startKind < 8: // NewFilter with sane arguments
		elements := uint32(r.Range(1, 3000))
		fp := []float64{0.5, 0.1, 0.01, 0.001, 0.0001, 0.000001, 1e-9}[r.Intn(7)]
		tw := c09tweak(r)
		flags := wire.BloomUpdateType(r.Intn(3))
		h.log = append(h.log, fmt.Sprintf("NewFilter(%d,%#x,%g,%d)", elements, tw, fp, flags))
		if !h.call("NewFilter", func() { h.f = bloom.NewFilter(elements, tw, fp, flags) }) {
			return
		}
		var msg *wire.MsgFilterLoad
		if !h.call("MsgFilterLoad", func() { msg = h.f.MsgFilterLoad() }) {
			return
		}
		if msg == nil || len(msg.Filter) == 0 {
			c.Inc("start_NewFilter_size0_skipped(C08 domain)")
			return
		}
		if len(msg.Filter) > c09MaxSize || msg.HashFuncs > c09MaxFuncs {
			c.Failf("NewFilter/wire-limits", "NewFilter(%d, %#x, %g, %d): len(Filter)=%d HashFuncs=%d exceed 36000 / 50", elements, tw, fp, flags, len(msg.Filter), msg.HashFuncs)
			return
		}
		h.cur = msg
		h.m = &ref.BloomModel{Bits: append([]byte(nil), msg.Filter...), NHash: msg.HashFuncs, Tweak: msg.Tweak, Loaded: true}
		c.Inc("start_NewFilter")
	default: // a filter that starts unloaded, as bchd's peers create it
		h.m = &ref.BloomModel{Loaded: false}
		h.log = append(h.log, "LoadFilter(nil)")
		if !h.call("LoadFilter", func() { h.f = bloom.LoadFilter(nil) }) {
			return
		}
		c.Inc("start_unloaded")
	}
	if h.m.Loaded {
		c.Inc(fmt.Sprintf("size_class=%s", c09sizeClass(len(h.m.Bits))))
		if h.m.NHash == 0 {
			c.Inc("histories_with_0_hash_funcs")
		}
		if h.m.NHash == c09MaxFuncs {
			c.Inc("histories_with_50_hash_funcs")
		}
	}
	h.verify("start")

	fresh := [][]byte{}
	hsh := vf.Mix(uint64(len(h.m.Bits)), uint64(h.m.NHash), uint64(h.m.Tweak))
	for s := 0; s < steps && !h.dead; s++ {
		op := r.Intn(100)
		if !h.m.Loaded && r.Chance(1, 3) {
			op = 78 + r.Intn(9) // do not stay unloaded for most of the history
		}
		var step string
		switch {
		case op < 28: // Add
			it := c09item(r)
			step = fmt.Sprintf("Add(%x)", it)
			h.log = append(h.log, step)
			// the argument is a sub-slice of a larger buffer whose other bytes are not zero
			backing := bytes.Repeat([]byte{0xff}, len(it)+8)
			arg := append(backing[:0:len(it)+8], it...)
			h.call("Add", func() { h.f.Add(arg) })
			h.m.Add(it)
			if h.m.Loaded {
				h.inserted = append(h.inserted, &c09ins{kind: 0, item: it})
				c.Inc(fmt.Sprintf("insert_len_mod4=%d", len(it)&3))
				if len(it) == 0 {
					c.Inc("insert_empty_item")
				}
			} else {
				c.Inc("insert_while_unloaded")
			}
			fresh = append(fresh, it)
			hsh = vf.Mix(hsh, 1, vf.HashBytes(it))
			if h.m.Loaded && h.m.NHash > 0 && len(h.m.Bits) > 0 && r.Chance(1, 5) && !h.dead {
				// directly afterwards: a DIFFERENT item constructed to collide
				// with the previous one under one of the filter's hash
				// functions (MurmurHash3 is invertible, so anyone who knows the
				// tweak can do this); under BIP37 it is an ordinary insertion
				fi := uint32(0)
				if r.Bool() {
					fi = uint32(r.Intn(int(h.m.NHash)))
				}
				seed := fi*0xFBA4C795 + h.m.Tweak
				var first [4]byte
				r.Fill(first[:])
				y := ref.Murmur3Partner(seed, first, ref.Murmur3(seed, it))
				if !bytes.Equal(y, it) {
					h.verify(step)
					step = fmt.Sprintf("Add(%x) [collides with the previous item under hash function %d]", y, fi)
					h.log = append(h.log, step)
					arg2 := append([]byte{}, y...)
					h.call("Add", func() { h.f.Add(arg2) })
					h.m.Add(y)
					h.inserted = append(h.inserted, &c09ins{kind: 0, item: y})
					fresh = append(fresh, y)
					c.Inc("insert_colliding_with_previous_item_under_one_hash_function")
				}
			}
			if h.m.Loaded && h.m.NHash > 0 && len(h.m.Bits) > 0 && r.Chance(1, 6) && !h.dead {
				// an item constructed (MurmurHash3 is invertible) so that one of the
				// filter's hash functions returns a value ON a boundary of the range
				// reduction: exactly the number of bits, one off, a multiple, 0, 2^32-1
				fi := uint32(r.Intn(int(h.m.NHash)))
				seed := fi*0xFBA4C795 + h.m.Tweak
				nb := uint32(len(h.m.Bits) * 8)
				targets := []uint32{nb, nb - 1, nb + 1, 0, 1, 0xffffffff, 2 * nb, nb * (1 + uint32(r.Intn(1000))), 0xffffffff - 0xffffffff%nb, 0xffffffff - 0xffffffff%nb - 1}
				tg := targets[r.Intn(len(targets))]
				var first [4]byte
				r.Fill(first[:])
				y := ref.Murmur3Partner(seed, first, tg)
				if ref.Murmur3(seed, y) == tg {
					h.verify(step)
					step = fmt.Sprintf("Add(%x) [hash function %d gives %d on a filter of %d bits]", y, fi, tg, nb)
					h.log = append(h.log, step)
					arg3 := append([]byte{}, y...)
					h.call("Add", func() { h.f.Add(arg3) })
					h.m.Add(y)
					h.inserted = append(h.inserted, &c09ins{kind: 0, item: y})
					c.Inc("insert_with_hash_value_on_a_range_reduction_boundary")
				}
			}
		case op < 38: // AddHash
			var hs chainhash.Hash
			r.Fill(hs[:])
			step = fmt.Sprintf("AddHash(%x)", hs[:])
			h.log = append(h.log, step)
			hc := hs
			h.call("AddHash", func() { h.f.AddHash(&hc) })
			h.m.Add(hs[:])
			if h.m.Loaded {
				h.inserted = append(h.inserted, &c09ins{kind: 1, hash: hs})
			} else {
				c.Inc("insert_while_unloaded")
			}
			hsh = vf.Mix(hsh, 2, vf.HashBytes(hs[:]))
		case op < 52: // AddOutPoint
			var hs chainhash.Hash
			r.Fill(hs[:])
			idx := c09index(r)
			step = fmt.Sprintf("AddOutPoint(%x:%#x)", hs[:], idx)
			h.log = append(h.log, step)
			opnt := wire.NewOutPoint(&hs, idx)
			h.call("AddOutPoint", func() { h.f.AddOutPoint(opnt) })
			h.m.Add(ref.OutPointBytes(hs, idx))
			if h.m.Loaded {
				h.inserted = append(h.inserted, &c09ins{kind: 2, hash: hs, idx: idx})
				c.Inc("insert_outpoint")
			} else {
				c.Inc("insert_while_unloaded")
			}
			hsh = vf.Mix(hsh, 3, vf.HashBytes(hs[:]), uint64(idx))
		case op < 70: // Matches
			var it []byte
			k := r.Intn(4)
			switch {
			case k == 0 && len(h.inserted) > 0: // an inserted item, via the bytes API whatever its kind
				e := h.inserted[r.Intn(len(h.inserted))]
				switch e.kind {
				case 0:
					it = e.item
				case 1:
					it = e.hash[:]
				case 2:
					it = ref.OutPointBytes(e.hash, e.idx)
				}
			case k == 1 && len(fresh) > 0: // an item added at any time (maybe before a reload / while unloaded)
				it = fresh[r.Intn(len(fresh))]
			case k == 2 && len(h.inserted) > 0: // a near miss of an inserted item
				e := h.inserted[r.Intn(len(h.inserted))]
				it = append([]byte(nil), e.item...)
				if e.kind != 0 {
					it = append([]byte(nil), e.hash[:]...)
				}
				if len(it) > 0 && r.Bool() {
					it[r.Intn(len(it))] ^= 1 << uint(r.Intn(8))
				} else if r.Bool() {
					it = append(it, 0)
				} else if len(it) > 0 {
					it = it[:len(it)-1]
				}
			default:
				it = c09item(r)
			}
			step = fmt.Sprintf("Matches(%x)", it)
			h.log = append(h.log, step)
			var got bool
			if h.call("Matches", func() { got = h.f.Matches(it) }) {
				c.Evals(1)
				want := h.m.Contains(it)
				if !h.m.Loaded {
					c.Inc("answers_while_unloaded")
				}
				if want {
					c.Inc("answers_true")
				} else {
					c.Inc("answers_false")
				}
				if got != want {
					c.Failf("Matches/answer", "%s: Matches(%x)=%v, BIP37 model says %v; history: %s", h.desc(), it, got, want, h.trace())
				}
			}
		case op < 78: // MatchesOutPoint
			var hs chainhash.Hash
			var idx uint32
			var cand []*c09ins
			for _, e := range h.inserted {
				if e.kind == 2 {
					cand = append(cand, e)
				}
			}
			if len(cand) > 0 && r.Bool() {
				e := cand[r.Intn(len(cand))]
				hs, idx = e.hash, e.idx
				switch r.Intn(4) {
				case 0: // byte-swapped index: only equal under the wrong endianness
					idx = idx>>24 | idx>>8&0xff00 | idx<<8&0xff0000 | idx<<24
				case 1:
					idx++
				}
			} else {
				r.Fill(hs[:])
				idx = c09index(r)
			}
			step = fmt.Sprintf("MatchesOutPoint(%x:%#x)", hs[:], idx)
			h.log = append(h.log, step)
			var got bool
			if h.call("MatchesOutPoint", func() { got = h.f.MatchesOutPoint(wire.NewOutPoint(&hs, idx)) }) {
				c.Evals(1)
				want := h.m.Contains(ref.OutPointBytes(hs, idx))
				if want {
					c.Inc("answers_true")
				} else {
					c.Inc("answers_false")
				}
				if got != want {
					c.Failf("MatchesOutPoint/answer", "%s: MatchesOutPoint(%x:%#x)=%v, BIP37 model (txid || LE32(index)) says %v; history: %s", h.desc(), hs[:], idx, got, want, h.trace())
				}
			}
		case op < 84: // Reload with a new message
			if h.m.Loaded {
				h.saved = append(h.saved, c09saved{h.cur, h.m})
			}
			msg, m, _ := c09newMsg(r)
			step = fmt.Sprintf("Reload(size=%d k=%d tweak=%#x)", len(msg.Filter), msg.HashFuncs, msg.Tweak)
			h.log = append(h.log, step)
			h.call("Reload", func() { h.f.Reload(msg) })
			h.cur, h.m, h.inserted, h.unloaded = msg, m, nil, nil
			c.Inc("op_reload_new")
			hsh = vf.Mix(hsh, 4, uint64(len(msg.Filter)), uint64(msg.HashFuncs), uint64(msg.Tweak))
		case op < 87: // Reload a message that was loaded before
			if len(h.saved) == 0 {
				continue
			}
			sv := h.saved[r.Intn(len(h.saved))]
			if h.m.Loaded && sv.msg != h.cur {
				h.saved = append(h.saved, c09saved{h.cur, h.m})
			}
			// While the filter is unloaded the detached message is checked by
			// verify; a message replaced by Reload is simply whatever it
			// contains now (read here by the harness, not through the
			// library), so the expectation starts from its current bytes.
			m := &ref.BloomModel{Bits: append([]byte(nil), sv.msg.Filter...), NHash: sv.msg.HashFuncs, Tweak: sv.msg.Tweak, Loaded: true}
			step = fmt.Sprintf("Reload(previous message size=%d k=%d tweak=%#x)", len(m.Bits), m.NHash, m.Tweak)
			h.log = append(h.log, step)
			h.call("Reload", func() { h.f.Reload(sv.msg) })
			h.cur, h.m, h.inserted, h.unloaded = sv.msg, m, nil, nil
			c.Inc("op_reload_previous")
			hsh = vf.Mix(hsh, 5)
		case op < 92: // Unload
			step = "Unload()"
			h.log = append(h.log, step)
			h.call("Unload", func() { h.f.Unload() })
			if h.m.Loaded {
				sv := c09saved{h.cur, h.m}
				h.saved = append(h.saved, sv)
				h.unloaded = &sv
			}
			// the saved model keeps the bits; a fresh unloaded model takes over
			h.m = &ref.BloomModel{Loaded: false}
			h.cur, h.inserted = nil, nil
			c.Inc("op_unload")
			hsh = vf.Mix(hsh, 6)
		case op >= 95 && op < 97 && h.m.Loaded && h.cur != nil:
			// a SECOND Filter object over the same message (a peer handler that
			// wraps the stored filterload again): what one object inserts, the
			// other must report, because the bits live in the shared message
			var g *bloom.Filter
			cur := h.cur
			step = "second Filter object over the same message"
			h.log = append(h.log, step)
			if !h.call("LoadFilter", func() { g = bloom.LoadFilter(cur) }) {
				break
			}
			for k := 1 + r.Intn(3); k > 0 && !h.dead; k-- {
				it := c09item(r)
				step = fmt.Sprintf("twin.Add(%x)", it)
				h.log = append(h.log, step)
				arg := append([]byte{}, it...)
				h.call("Add", func() { g.Add(arg) })
				h.m.Add(it)
				h.inserted = append(h.inserted, &c09ins{kind: 0, item: it})
				h.verify(step) // queries go through the first object
			}
			c.Inc("op_second_filter_object_over_same_message")
			hsh = vf.Mix(hsh, 8)
			step = "twin"
		case op >= 97 && h.m.Loaded && h.cur != nil:
			// the caller rewrites its message struct in place (as a peer
			// handler decoding the next filterload into the same struct would)
			// and reloads the SAME pointer
			_, m, _ := c09newMsg(r)
			h.cur.Filter = append([]byte(nil), m.Bits...)
			h.cur.HashFuncs, h.cur.Tweak = m.NHash, m.Tweak
			step = fmt.Sprintf("message rewritten in place; Reload(same pointer, size=%d k=%d tweak=%#x)", len(m.Bits), m.NHash, m.Tweak)
			h.log = append(h.log, step)
			cur := h.cur
			h.call("Reload", func() { h.f.Reload(cur) })
			h.m, h.inserted, h.unloaded = m, nil, nil
			c.Inc("op_reload_same_pointer_after_in_place_rewrite")
			hsh = vf.Mix(hsh, 7, uint64(len(m.Bits)))
		default: // IsLoaded / MsgFilterLoad are observed by verify after every step
			step = "IsLoaded()"
			h.log = append(h.log, step)
		}
		h.verify(step)
	}
	c.Nontrivial(hsh)
	if c.WantSample() {
		c.Sample(map[string]any{"final": h.desc(), "steps": len(h.log), "inserted_since_reload": len(h.inserted), "history_tail": c09tail(h.trace(), 400)})
	}
}

func c09sizeClass(n int) string {
	switch {
	case n <= 8:
		return "1..8"
	case n <= 64:
		return "9..64"
	case n <= 1024:
		return "65..1024"
	case n < c09MaxSize:
		return "1025..35999"
	}
	return "36000"
}

// ---------------------------------------------------------------- sizing ---

var c09elements = []uint32{0, 1, 2, 3, 7, 10, 100, 1000, 20000, 20769, 20770, 100000, 1 << 20, 1<<31 - 1, 1 << 31, 1<<32 - 2, 1<<32 - 1}

var c09fprates = []float64{
	math.NaN(), math.Inf(1), math.Inf(-1), -1, -1e-300, math.Copysign(0, -1), 0, 5e-324, 1e-300, 1e-12, 1e-9, 0.999e-9, 1.001e-9,
	1e-6, 0.0001, 0.01, 0.5, 0.999999, 1, 1.0000000000000002, 2, 1e300, math.MaxFloat64, -math.MaxFloat64,
}

func c09sizingCase(c *vf.Ctx, i int) {
	r := c.R
	var elements uint32
	var fp float64
	nd := len(c09elements) * len(c09fprates)
	if i < nd {
		elements = c09elements[i/len(c09fprates)]
		fp = c09fprates[i%len(c09fprates)]
	} else {
		switch r.Intn(4) {
		case 0:
			elements = c09elements[r.Intn(len(c09elements))]
		case 1:
			elements = uint32(r.Intn(100000))
		case 2:
			elements = 1 << uint(r.Intn(32))
			elements += uint32(r.Intn(3)) - 1
		default:
			elements = r.Uint32()
		}
		switch r.Intn(5) {
		case 0:
			fp = c09fprates[r.Intn(len(c09fprates))]
		case 1:
			fp = r.AnyFloat64()
		case 2:
			fp = math.Pow(10, -float64(r.Intn(400))/10)
		case 3:
			fp = r.Float64()
		default:
			fp = r.Float64() * 2e-9
		}
	}
	tw := c09tweak(r)
	flags := wire.BloomUpdateType(r.Intn(3))
	in := func() string {
		return fmt.Sprintf("NewFilter(elements=%d, tweak=%#x, fprate=%v (bits %#016x), flags=%d)", elements, tw, fp, math.Float64bits(fp), flags)
	}
	var f *bloom.Filter
	var msg *wire.MsgFilterLoad
	if !c.Call("NewFilter", in, func() { f = bloom.NewFilter(elements, tw, fp, flags); msg = f.MsgFilterLoad() }) {
		return
	}
	c.Nontrivial(vf.Mix(10, uint64(elements), math.Float64bits(fp)))
	switch {
	case fp != fp:
		c.Inc("fprate_NaN")
	case math.IsInf(fp, 0):
		c.Inc("fprate_Inf")
	case fp < 0:
		c.Inc("fprate_negative")
	case fp == 0:
		c.Inc("fprate_zero")
	case fp > 1:
		c.Inc("fprate_above_1")
	case fp < 1e-9:
		c.Inc("fprate_below_1e-9")
	default:
		c.Inc("fprate_in_range")
	}
	if msg == nil {
		c.Inconclusive("NewFilter_returned_unloaded_filter")
		return
	}
	c.Evals(1)
	if len(msg.Filter) > c09MaxSize {
		c.Failf("NewFilter/filter-size-limit", "%s: len(Filter)=%d > 36000", in(), len(msg.Filter))
	}
	if msg.HashFuncs > c09MaxFuncs {
		c.Failf("NewFilter/hash-funcs-limit", "%s: HashFuncs=%d > 50", in(), msg.HashFuncs)
	}
	switch {
	case len(msg.Filter) == 0:
		c.Inc("sized_to_0_bytes(C08 domain, not used further)")
		return
	case len(msg.Filter) == c09MaxSize:
		c.Inc("sized_to_36000_bytes(clamped)")
	default:
		c.Inc("sized_between")
	}
	if msg.HashFuncs == c09MaxFuncs {
		c.Inc("hash_funcs_50(clamped)")
	}
	if msg.HashFuncs == 0 {
		c.Inc("hash_funcs_0")
	}
	// A sized filter of >= 1 byte is an ordinary filter of the main clause:
	// insert a few items, compare with the model, no false negatives.
	m := &ref.BloomModel{Bits: append([]byte(nil), msg.Filter...), NHash: msg.HashFuncs, Tweak: msg.Tweak, Loaded: true}
	var items [][]byte
	for k := 0; k < 4; k++ {
		it := c09item(r)
		items = append(items, it)
		if !c.Call("Add", in, func() { f.Add(it) }) {
			return
		}
		m.Add(it)
	}
	var after *wire.MsgFilterLoad
	if !c.Call("MsgFilterLoad", in, func() { after = f.MsgFilterLoad() }) || after == nil {
		return
	}
	c.Evals(1)
	if d := c09firstDiff(after.Filter, m.Bits); d >= 0 {
		c.Failf("filter-bits/after-Add", "%s then Add of %x: bit array differs from the BIP37 model (size=%d k=%d tweak=%#x) at byte %d", in(), items, len(m.Bits), m.NHash, m.Tweak, d)
		return
	}
	for _, it := range items {
		var got bool
		if c.Call("Matches", in, func() { got = f.Matches(it) }) {
			c.Evals(1)
			if !got {
				c.Failf("Matches/false-negative", "%s: inserted item %x reported absent", in(), it)
			}
		}
	}
	if c.WantSample() {
		c.Sample(map[string]any{"elements": elements, "fprate": fmt.Sprint(fp), "filter_bytes": len(msg.Filter), "hash_funcs": msg.HashFuncs})
	}
}

func init() {
	register(&vf.Property{
		ID:    "C09",
		Title: "Bloom filters have no false negatives and are bit-exact BIP37",
		Rule: "stream murmur: every length 0..64 x 6 data patterns (0xff, zero, high bits, tail only, random) x 20 seeds (0, 1, 2^32-1, 0xFBA4C795 multiples, wrapping i*0xFBA4C795+tweak, random); " +
			"stream history: filter sizes 1..64 directed then seeded 1..36000, hash counts 0..50, tweaks incl. wrapping ones, initial bits empty/sparse/random/full, started by LoadFilter / NewFilter / LoadFilter(nil); " +
			"40 (thorough: sometimes 120) seeded steps of Add/AddHash/AddOutPoint/Matches/MatchesOutPoint/Reload/Reload(previous)/Unload/IsLoaded, after every step bytes == model, loaded state == model, every item inserted since the last (re)load matches; " +
			"stream sizing: directed elements x fprate grid (NaN, +-Inf, negative, 0, denormal, <1e-9, >1, huge) then seeded random incl. arbitrary float bit patterns. " +
			"A case is non-trivial and distinct per (filter shape, operation sequence) / (length, data) / (elements, fprate). Size-0 filters are never generated (C08's domain).",
		Assumptions: []string{
			"reference MurmurHash3_x86_32 written from the public-domain description (self-tested on SMHasher and Bitcoin Core vectors on every run)",
			"BIP37: bit = MurmurHash3(i*0xFBA4C795 + tweak, item) mod (8*len); bit b lives in byte b>>3 under mask 1<<(b&7); outpoint = txid || LE32(index)",
			"wire limits are BIP37's 36000 bytes / 50 hash functions",
			"a filter built by LoadFilter(nil) is an unloaded filter (this is how bchd creates per-peer filters)",
		},
		SelfTest: ref.SelfTestMurmur,
		Streams: []*vf.Stream{
			{Name: "murmur", N: func(t vf.Tier) int { return 65 * t.Sz(600, 6000) }, Run: c09murmurCase},
			{Name: "history", N: func(t vf.Tier) int { return 64 + t.Sz(200000, 1200000) }, Run: c09historyCase},
			{Name: "sizing", N: func(t vf.Tier) int { return len(c09elements)*len(c09fprates) + t.Sz(150000, 2000000) }, Run: c09sizingCase},
		},
	})
}
