package props

import (
	"bytes"
	"encoding/binary"
	"fmt"
	"hash/adler32"
	"hash/crc32"
	"hash/fnv"
	"runtime"
	"slices"
	"strings"

	"github.com/aead/siphash"
	"github.com/gcash/bchutil/gcs"

	"verif/internal/ref"
	"verif/internal/vf"
)

// C13 — GCS filters never miss a member; all query strategies agree.
//
// The oracle asserts exactly three things:
//   (a) every member of a built filter matches through Match, MatchAny,
//       ZipMatchAny and HashMatchAny;
//   (b) an empty filter, and an empty query on any filter, match nothing;
//   (c) for every query set Q: MatchAny(Q) == ZipMatchAny(Q) ==
//       HashMatchAny(Q) == OR over q in Q of Match(q), the right-hand side
//       computed with the library's own Match.
// It does NOT assert what Match answers for a non-member (false positives
// are inherent to the structure); the reference SipHash / reduction is used
// only to construct hostile queries and to classify cases for the evidence.

// ---------------------------------------------------------------------------
// Workload shared by C13 and C14: filter configurations, item pools.

type gcsCfg struct {
	P     uint8
	M     uint64
	N     int
	MKind string
	// Cluster > 1: the members are chosen (by rejection sampling of item
	// bytes) so that their hashed values lie in one band of width N*M/Cluster,
	// with at most two members far outside it: one very long gap, i.e. one
	// very long unary run, in an otherwise ordinary filter.
	Cluster int
}

func (g gcsCfg) String() string {
	s := fmt.Sprintf("P=%d M=%d(%s) N=%d", g.P, g.M, g.MKind, g.N)
	if g.Cluster > 1 {
		s += fmt.Sprintf(" members-clustered-in-1/%d-of-the-range", g.Cluster)
	}
	return s
}

// gcsNGrid is the directed list of set sizes of the grid streams.
var gcsNGrid = []int{0, 1, 2, 3, 4, 5, 7, 8, 9, 15, 16, 17, 31, 33, 64, 100, 255, 256, 1000}

const gcsMKinds = 6

const gcsDefaultM = 784931

// gcsRlimit is the address-space limit of every GCS child: a broken encoder
// (e.g. values written unsorted) produces unary runs of up to 2^64 bits; the
// limit turns that into an out-of-memory crash the supervisor attributes to
// the case instead of exhausting the machine.
const gcsRlimit = 12 << 30

// gcsM returns the kind-th modulus factor for P.  All of them keep
// M <= 2^(P+4), so the unary part of a filter is at most ~16 bits per item.
func gcsM(r *vf.Rand, P uint8, kind int) (uint64, string) {
	two := uint64(1) << P
	switch kind {
	case 0:
		return 1, "1"
	case 1:
		return two, "2^P"
	case 2:
		return two << 4, "2^(P+4)"
	case 3:
		if P >= 16 {
			return gcsDefaultM, "784931"
		}
		return two + 1, "2^P+1"
	case 4:
		if P >= 1 {
			return two - 1, "2^P-1"
		}
		return 2, "2"
	}
	return 1 + r.Uint64n(two<<4), "random<=2^(P+4)"
}

func gcsGridCount() int { return 33 * gcsMKinds * len(gcsNGrid) }

// gcsGridCfg is the i-th configuration of the grid: every P in 0..32, every
// modulus kind, every directed N.
func gcsGridCfg(r *vf.Rand, i int) gcsCfg {
	P := uint8(i % 33)
	kind := (i / 33) % gcsMKinds
	N := gcsNGrid[(i/(33*gcsMKinds))%len(gcsNGrid)]
	M, mk := gcsM(r, P, kind)
	return gcsCfg{P: P, M: M, N: N, MKind: mk}
}

// gcsRandomCfg draws a configuration with N skewed to small values and at
// most maxN.
func gcsRandomCfg(r *vf.Rand, maxN int) gcsCfg {
	P := uint8(r.Intn(33))
	M, mk := gcsM(r, P, r.Intn(gcsMKinds))
	var N int
	switch r.Intn(10) {
	case 0, 1, 2:
		N = r.Intn(12)
	case 3, 4, 5:
		N = r.Intn(200)
	case 6, 7:
		N = r.Intn(2000)
	case 8:
		N = r.Intn(maxN/4 + 1)
	default:
		if r.Bool() {
			N = r.Intn(maxN + 1)
		} else {
			N = r.Intn(2000)
		}
	}
	if N > maxN {
		N = maxN
	}
	cfg := gcsCfg{P: P, M: M, N: N, MKind: mk}
	if N >= 2 && r.Chance(1, 8) {
		cfg.Cluster = 2 + r.Intn(31)
	}
	return cfg
}

// gcsLargeCfgs are the directed large configurations: N*M on both sides of
// 2^32 with the default parameters, N*M == 2^32 exactly, and N = 10^5.
var gcsLargeCfgs = []gcsCfg{
	{19, gcsDefaultM, 100000, "784931", 0},
	{32, 1 << 32, 100000, "2^P", 0},
	{19, gcsDefaultM, 20000, "784931", 0},
	{19, gcsDefaultM, 5472, "784931", 0}, // N*M = 2^32 + 175136
	{19, gcsDefaultM, 5471, "784931", 0}, // N*M = 2^32 - 609795
	{16, 65536, 65536, "2^P", 0},         // N*M = 2^32
	{20, 1 << 20, 50000, "2^P", 0},
	{28, 1 << 32, 30000, "2^(P+4)", 0},
	{19, gcsDefaultM, 65539, "784931", 0}, // beyond 2^16 members, N not a multiple of 4
	{20, 1 << 20, 70001, "2^P", 0},
	{8, 16 << 8, 100000, "2^(P+4)", 4}, // one gap of about 1.2 million quotient steps
	{0, 16, 100000, "2^(P+4)", 3},
	{19, 16 << 19, 70000, "2^(P+4)", 8},
	{12, 1 << 12, 100000, "2^P", 16},
	{19, gcsDefaultM, 131077, "784931", 0}, // beyond 2^17 members, N not a multiple of 8
	{16, 65536, 200003, "2^P", 0},
	{19, gcsDefaultM, 262147, "784931", 0},
}

func gcsLargeCfg(r *vf.Rand, i int) gcsCfg {
	if i < len(gcsLargeCfgs) {
		return gcsLargeCfgs[i]
	}
	P := uint8(16 + r.Intn(17))
	kind := []int{1, 2, 3, 5}[r.Intn(4)]
	M, mk := gcsM(r, P, kind)
	N := 5000 + r.Intn(95001)
	if r.Chance(1, 4) {
		N = 100000
	}
	if r.Chance(1, 6) {
		N = 131072 + r.Intn(200000)
	}
	cfg := gcsCfg{P: P, M: M, N: N, MKind: mk}
	if r.Chance(1, 3) {
		cfg.P = uint8(r.Intn(33))
		cfg.M, cfg.MKind = gcsM(r, cfg.P, []int{1, 2, 2, 5}[r.Intn(4)])
		cfg.Cluster = 2 + r.Intn(15)
	}
	return cfg
}

func gcsKey(r *vf.Rand) (k [16]byte) {
	switch r.Intn(8) {
	case 0: // all zero
	case 1:
		for i := range k {
			k[i] = 0xff
		}
	case 2:
		for i := range k {
			k[i] = byte(i)
		}
	default:
		r.Fill(k[:])
	}
	return k
}

// gcsItems returns k pairwise distinct byte strings.  Small pools have
// free-form items (every length 0..40, a few long ones, degenerate bytes);
// large pools have a 4-byte index followed by 0..12 random bytes.
func gcsItems(r *vf.Rand, k int) [][]byte {
	out := make([][]byte, 0, k)
	if k > 8192 {
		for i := 0; i < k; i++ {
			b := make([]byte, 4+r.Intn(13))
			r.Fill(b)
			binary.LittleEndian.PutUint32(b, uint32(i))
			out = append(out, b)
		}
		return out
	}
	seen := make(map[string]struct{}, k)
	add := func(b []byte) {
		if _, dup := seen[string(b)]; dup {
			return
		}
		seen[string(b)] = struct{}{}
		out = append(out, b)
	}
	for _, s := range [][]byte{{}, {0}, {0xff}, make([]byte, 8), make([]byte, 16)} {
		if len(out) < k {
			add(s)
		}
	}
	for len(out) < k {
		var n int
		switch r.Intn(16) {
		case 0:
			n = 41 + r.Intn(600)
		case 1, 2:
			n = r.Intn(4)
		default:
			n = r.Intn(41)
		}
		b := r.Bytes(n)
		if len(seen) > 200 && n < 3 { // short strings run out
			b = r.Bytes(3 + r.Intn(20))
		}
		add(b)
	}
	return out
}

// gcsWorld is one built filter together with what the reference knows about
// it.
type gcsWorld struct {
	cfg     gcsCfg
	key     [16]byte
	nm      uint64
	items   [][]byte // pool of pairwise distinct items
	vals    []uint64 // reference value of each pool item under N*M
	member  []bool
	members []int    // pool indices, len N, duplicates possible, shuffled
	mvals   []uint64 // sorted member values (reference)
	mlow    map[uint32]struct{}
	f       *gcs.Filter

	// hostile non-members by class -> pool indices
	hostile map[string][]int
	plain   []int // other non-members
	first   int   // a member holding the smallest value, -1 if none
	last    int   // a member holding the largest value
}

var gcsHostileClasses = []string{"equal-value", "low32-only", "one-below", "one-above", "before-first", "after-last", "value-0", "value-NM-1"}

type gcsVI struct {
	v uint64
	i int32
}

// gcsBuildWorld draws a pool of n + extra items, picks the members so that
// as many hostile relations as possible exist between a member and a
// non-member (equal values, adjacent values, values equal in the low 32 bits
// only), and builds the filter with the library.
func gcsBuildWorld(c *vf.Ctx, cfg gcsCfg, extra int, site string) *gcsWorld {
	r := c.R
	w := &gcsWorld{cfg: cfg, key: gcsKey(r), nm: uint64(cfg.N) * cfg.M, first: -1, last: -1}
	N := cfg.N
	k := N + extra
	w.items = gcsItems(r, k)
	w.vals = make([]uint64, k)
	if w.nm > 0 {
		for i, it := range w.items {
			w.vals[i] = ref.GCSValue(w.key, it, w.nm)
		}
	}
	inBand := func(int) bool { return true }
	if cfg.Cluster > 1 && w.nm >= uint64(cfg.Cluster) && N >= 2 {
		band := w.nm / uint64(cfg.Cluster)
		var lo uint64
		where := r.Intn(3)
		switch where {
		case 1:
			lo = w.nm - band
		case 2:
			lo = r.Uint64n(w.nm - band + 1)
		}
		outliers := map[int]bool{}
		if where != 2 && band < w.nm/2 {
			for j := 1 + r.Intn(2); j > 0; j-- {
				outliers[r.Intn(min(N, 6))] = true
			}
		}
		inBand = func(i int) bool { return outliers[i] || w.vals[i]-lo < band }
		far := func(v uint64) bool { // beyond the band, at the opposite end of the range
			if where == 0 {
				return v >= w.nm-w.nm/32-1
			}
			return v <= w.nm/32
		}
		upto := min(k, N+N/4+64)
		for i := 0; i < upto; i++ {
			ok := func(v uint64) bool {
				if outliers[i] {
					return far(v)
				}
				return v-lo < band
			}
			for tries := 0; !ok(w.vals[i]) && tries < 4000; tries++ {
				b := make([]byte, 5+r.Intn(12))
				r.Fill(b)
				binary.LittleEndian.PutUint32(b, uint32(i))
				b[4] = 0xc1
				w.items[i] = b
				w.vals[i] = ref.GCSValue(w.key, b, w.nm)
			}
		}
		c.Inc("worlds_with_clustered_members")
	}
	w.member = make([]bool, k)
	reserved := make([]bool, k)

	// multiset: some members appear more than once
	dups := 0
	if N >= 2 && r.Chance(1, 3) {
		dups = 1 + r.Intn(min(N/2, 6))
	}
	distinct := N - dups
	chosen := make([]int, 0, distinct)
	pairBudget := distinct * 2 / 3
	if N <= 3 {
		pairBudget = distinct
	}
	take := func(a, b int) { // a becomes a member, b stays out
		if len(chosen) >= pairBudget || w.member[a] || w.member[b] || reserved[a] || reserved[b] || !inBand(a) {
			return
		}
		w.member[a] = true
		reserved[b] = true
		chosen = append(chosen, a)
	}
	if w.nm > 0 && distinct > 0 {
		// low-32 pairs (birthday search over the pool)
		if w.nm > 1<<32 {
			seen := make(map[uint32]int32, k)
			n := 0
			for i, v := range w.vals {
				if j, ok := seen[uint32(v)]; ok {
					if w.vals[j] != v && n < 8 {
						if r.Bool() {
							take(i, int(j))
						} else {
							take(int(j), i)
						}
						n++
					}
				} else {
					seen[uint32(v)] = int32(i)
				}
			}
		}
		// equal and adjacent values
		sv := make([]gcsVI, k)
		for i, v := range w.vals {
			sv[i] = gcsVI{v, int32(i)}
		}
		slices.SortFunc(sv, func(a, b gcsVI) int {
			if a.v != b.v {
				if a.v < b.v {
					return -1
				}
				return 1
			}
			return int(a.i) - int(b.i)
		})
		var eq, adj [][2]int
		for j := 1; j < k && (len(eq) < 64 || len(adj) < 64); j++ {
			d := sv[j].v - sv[j-1].v
			if d == 0 && len(eq) < 64 {
				eq = append(eq, [2]int{int(sv[j-1].i), int(sv[j].i)})
			} else if d == 1 && len(adj) < 64 {
				adj = append(adj, [2]int{int(sv[j-1].i), int(sv[j].i)})
			}
		}
		r.Shuffle(len(eq), func(i, j int) { eq[i], eq[j] = eq[j], eq[i] })
		r.Shuffle(len(adj), func(i, j int) { adj[i], adj[j] = adj[j], adj[i] })
		for j := 0; j < 6; j++ {
			if j < len(eq) {
				take(eq[j][0], eq[j][1])
			}
			if j < len(adj) {
				if r.Bool() {
					take(adj[j][0], adj[j][1])
				} else {
					take(adj[j][1], adj[j][0])
				}
			}
		}
		// occasionally make the extreme pool values members / non-members
		if r.Bool() {
			take(int(sv[0].i), int(sv[k-1].i))
		} else if r.Bool() {
			take(int(sv[k-1].i), int(sv[0].i))
		}
	}
	// fill up with pool items in pool order (the pool is random)
	for i := 0; i < k && len(chosen) < distinct; i++ {
		if !w.member[i] && !reserved[i] {
			w.member[i] = true
			chosen = append(chosen, i)
		}
	}
	for i := 0; i < k && len(chosen) < distinct; i++ { // pool too small for the reservations
		if !w.member[i] {
			w.member[i] = true
			chosen = append(chosen, i)
		}
	}
	w.members = append(w.members, chosen...)
	for j := 0; j < dups; j++ {
		w.members = append(w.members, chosen[r.Intn(len(chosen))])
	}
	r.Shuffle(len(w.members), func(i, j int) { w.members[i], w.members[j] = w.members[j], w.members[i] })
	if len(w.members) != N {
		panic("harness: member count")
	}

	// reference view of the member values
	w.mvals = make([]uint64, 0, N)
	for _, i := range w.members {
		w.mvals = append(w.mvals, w.vals[i])
	}
	slices.Sort(w.mvals)
	{
		var prev, maxq uint64
		for _, v := range w.mvals {
			maxq = max(maxq, (v-prev)>>cfg.P)
			prev = v
		}
		for _, t := range []uint{8, 12, 16, 20} {
			if maxq >= 1<<t {
				c.Inc(fmt.Sprintf("worlds_with_a_unary_run_of_2^%d_bits_or_more", t))
			}
		}
	}
	if w.nm > 1<<32 {
		w.mlow = make(map[uint32]struct{}, N)
		for _, v := range w.mvals {
			w.mlow[uint32(v)] = struct{}{}
		}
	}
	for _, i := range chosen {
		if w.first < 0 || w.vals[i] < w.vals[w.first] {
			w.first = i
		}
		if w.last < 0 || w.vals[i] > w.vals[w.last] {
			w.last = i
		}
	}

	// classify the non-members
	w.hostile = map[string][]int{}
	for i := 0; i < k; i++ {
		if w.member[i] {
			continue
		}
		cls := w.classify(i)
		if len(cls) == 0 {
			if len(w.plain) < 400 {
				w.plain = append(w.plain, i)
			}
			continue
		}
		for _, cl := range cls {
			if len(w.hostile[cl]) < 6 {
				w.hostile[cl] = append(w.hostile[cl], i)
			}
		}
	}

	data := make([][]byte, N)
	for j, i := range w.members {
		data[j] = w.items[i]
	}
	var err error
	if !c.Call(site, func() string { return w.describe() }, func() { w.f, err = gcs.BuildGCSFilter(cfg.P, cfg.M, w.key, data) }) {
		return nil
	}
	if err != nil || w.f == nil {
		c.Failf(site+"/error", "%s: BuildGCSFilter failed: %v", w.describe(), err)
		return nil
	}
	return w
}

func (w *gcsWorld) hasVal(v uint64) bool {
	_, ok := slices.BinarySearch(w.mvals, v)
	return ok
}

// classify returns the hostile classes of non-member i (reference view).
func (w *gcsWorld) classify(i int) []string {
	if w.nm == 0 || len(w.mvals) == 0 {
		return nil
	}
	v := w.vals[i]
	var cls []string
	if w.hasVal(v) {
		cls = append(cls, "equal-value")
	} else {
		if w.mlow != nil {
			if _, ok := w.mlow[uint32(v)]; ok {
				cls = append(cls, "low32-only")
			}
		}
		if v+1 != 0 && w.hasVal(v+1) {
			cls = append(cls, "one-below")
		}
		if v > 0 && w.hasVal(v-1) {
			cls = append(cls, "one-above")
		}
		if v < w.mvals[0] {
			cls = append(cls, "before-first")
		}
		if v > w.mvals[len(w.mvals)-1] {
			cls = append(cls, "after-last")
		}
	}
	if v == 0 {
		cls = append(cls, "value-0")
	}
	if v == w.nm-1 {
		cls = append(cls, "value-NM-1")
	}
	return cls
}

// gcsHx is hex with a visible rendering of the empty string.
func gcsHx(b []byte) string {
	if len(b) == 0 {
		return "(empty)"
	}
	return hx(b)
}

func (w *gcsWorld) describe() string {
	var sb strings.Builder
	fmt.Fprintf(&sb, "key=%x %s N*M=%d", w.key, w.cfg, w.nm)
	if len(w.members) <= 12 {
		sb.WriteString(" members=[")
		for j, i := range w.members {
			if j > 0 {
				sb.WriteByte(' ')
			}
			sb.WriteString(gcsHx(w.items[i]))
		}
		sb.WriteString("]")
	} else {
		fmt.Fprintf(&sb, " members=%d items (replay the case for the full set; first three: %x %x %x)", len(w.members),
			w.items[w.members[0]], w.items[w.members[1]], w.items[w.members[2]])
	}
	return sb.String()
}

func (w *gcsWorld) descQ(q []int) string {
	var sb strings.Builder
	fmt.Fprintf(&sb, "query(len %d)=[", len(q))
	for j, i := range q {
		if j >= 10 {
			fmt.Fprintf(&sb, " …")
			break
		}
		if j > 0 {
			sb.WriteByte(' ')
		}
		sb.WriteString(gcsHx(w.items[i]))
		if w.member[i] {
			sb.WriteString("(member)")
		}
	}
	sb.WriteString("]")
	return sb.String()
}

// explain tells, from the reference, why a non-member is interesting.
func (w *gcsWorld) explain(q []int) string {
	var sb strings.Builder
	n := 0
	for _, i := range q {
		if w.member[i] || n >= 3 {
			continue
		}
		for _, cl := range w.classify(i) {
			if cl == "low32-only" || cl == "equal-value" {
				fmt.Fprintf(&sb, " [reference: query item %x has value %#x, %s", w.items[i], w.vals[i], cl)
				for _, m := range w.members {
					if (cl == "equal-value" && w.vals[m] == w.vals[i]) || (cl == "low32-only" && uint32(w.vals[m]) == uint32(w.vals[i])) {
						fmt.Fprintf(&sb, " as member %x with value %#x", w.items[m], w.vals[m])
						break
					}
				}
				sb.WriteString("]")
				n++
			}
		}
	}
	return sb.String()
}

// ---------------------------------------------------------------------------
// C13 checks on one world.

type c13run struct {
	c     *vf.Ctx
	w     *gcsWorld
	cache map[int]bool // pool index -> library Match
}

func (x *c13run) data(q []int) [][]byte {
	d := make([][]byte, len(q))
	for j, i := range q {
		d[j] = x.w.items[i]
	}
	return d
}

// matchOne is the library's Match for pool item i (cached per filter).
func (x *c13run) matchOne(i int) (res bool, ok bool) {
	if v, hit := x.cache[i]; hit {
		return v, true
	}
	var err error
	ok = x.c.Call("Match", func() string { return fmt.Sprintf("%s item=%x", x.w.describe(), x.w.items[i]) }, func() {
		res, err = x.w.f.Match(x.w.key, x.w.items[i])
	})
	if !ok {
		return false, false
	}
	if err != nil {
		x.c.Inc("errors_returned_by_Match")
		res = false
	}
	x.cache[i] = res
	return res, true
}

var c13fns = []struct {
	name string
	call func(f *gcs.Filter, key [16]byte, d [][]byte) (bool, error)
}{
	{"MatchAny", func(f *gcs.Filter, key [16]byte, d [][]byte) (bool, error) { return f.MatchAny(key, d) }},
	{"ZipMatchAny", func(f *gcs.Filter, key [16]byte, d [][]byte) (bool, error) { return f.ZipMatchAny(key, d) }},
	{"HashMatchAny", func(f *gcs.Filter, key [16]byte, d [][]byte) (bool, error) { return f.HashMatchAny(key, d) }},
}

// anyOf calls one of the any-of queries.
func (x *c13run) anyOf(fn int, q []int, d [][]byte) (res bool, ok bool) {
	var err error
	ok = x.c.Call(c13fns[fn].name, func() string { return x.w.describe() + " " + x.w.descQ(q) }, func() {
		res, err = c13fns[fn].call(x.w.f, x.w.key, d)
	})
	if ok && err != nil {
		x.c.Inc("errors_returned_by_" + c13fns[fn].name)
		res = false
	}
	return res, ok
}

// checkQ asserts clause (c) on one query set; skipHash drops the
// HashMatchAny call (used to bound the cost on very large filters).
func (x *c13run) checkQ(shape string, q []int) {
	if len(q) == 0 {
		return
	}
	c, w := x.c, x.w
	rhs := false
	for _, i := range q {
		m, ok := x.matchOne(i)
		if !ok {
			return
		}
		if m {
			rhs = true
		}
	}
	d := x.data(q)
	c.Inc("querysets_" + shape)
	if rhs {
		c.Inc("querysets_expected_true")
	} else {
		c.Inc("querysets_expected_false")
	}
	if w.cfg.N > 0 {
		if len(q) >= w.cfg.N/2 {
			c.Inc("querysets_size_at_or_above_N/2")
		} else {
			c.Inc("querysets_size_below_N/2")
		}
	}
	for fn := range c13fns {
		got, ok := x.anyOf(fn, q, d)
		if !ok {
			continue
		}
		c.Evals(1)
		if got != rhs {
			c.Failf(c13fns[fn].name+"/agreement", "%s %s: %s=%v but OR of Match over the items=%v (shape %s)%s",
				w.describe(), w.descQ(q), c13fns[fn].name, got, rhs, shape, w.explain(q))
		}
	}
}

func c13worldChecks(c *vf.Ctx, w *gcsWorld) {
	x := &c13run{c: c, w: w, cache: map[int]bool{}}
	r := c.R
	N := w.cfg.N
	c.Nontrivial(vf.Mix(13, vf.HashBytes(w.key[:]), uint64(w.cfg.P), w.cfg.M, uint64(N), vf.HashBytes(w.items[0]), vf.HashBytes(w.items[len(w.items)-1])))
	c.Inc(fmt.Sprintf("filters_P=%02d", w.cfg.P))
	switch {
	case N == 0:
		c.Inc("filters_empty")
	case w.nm < 1<<32:
		c.Inc("filters_NM_below_2^32")
	default:
		c.Inc("filters_NM_at_or_above_2^32")
	}
	if N != len(uniqInts(w.members)) {
		c.Inc("filters_with_duplicate_members")
	}
	for _, cl := range gcsHostileClasses {
		if n := len(w.hostile[cl]); n > 0 {
			c.Inc("filters_with_hostile_" + cl)
			c.Count("hostile_queries_"+cl, int64(n))
		}
	}

	// (b) empty query on every filter
	for fn := range c13fns {
		for _, d := range [][][]byte{nil, {}} {
			got, ok := x.anyOf(fn, nil, d)
			if !ok {
				continue
			}
			c.Evals(1)
			if got {
				c.Failf(c13fns[fn].name+"/empty-query-matched", "%s: %s(empty query)=true", w.describe(), c13fns[fn].name)
			}
		}
	}

	// the distinct-item budget bounds the cost of the right-hand side
	// (one Match per distinct item, each O(N))
	budget := 600
	if N > 0 {
		budget = min(600, max(120, 4000000/N))
	}

	var nonm []int // non-members used in query sets: hostile first
	for _, cl := range gcsHostileClasses {
		nonm = append(nonm, w.hostile[cl]...)
	}
	nonm = uniqInts(nonm)
	nHost := len(nonm)
	for _, i := range w.plain {
		if len(nonm) >= budget {
			break
		}
		nonm = append(nonm, i)
	}

	if N == 0 {
		// (b) empty filter matches nothing
		for _, i := range nonm {
			m, ok := x.matchOne(i)
			if !ok {
				continue
			}
			c.Evals(1)
			if m {
				c.Failf("Match/empty-filter-matched", "%s: Match(%x)=true on an empty filter", w.describe(), w.items[i])
			}
		}
		for _, sz := range []int{1, 2, 3, 17, len(nonm)} {
			if sz > len(nonm) {
				continue
			}
			q := nonm[:sz]
			d := x.data(q)
			for fn := range c13fns {
				got, ok := x.anyOf(fn, q, d)
				if !ok {
					continue
				}
				c.Evals(1)
				if got {
					c.Failf(c13fns[fn].name+"/empty-filter-matched", "%s %s: %s=true on an empty filter", w.describe(), w.descQ(q), c13fns[fn].name)
				}
			}
		}
		return
	}

	// (a) members: all of them on small filters, a sample with the extreme
	// values and the duplicated items on large ones
	dm := uniqInts(w.members)
	test := dm
	if len(dm) > 400 {
		test = []int{w.first, w.last}
		// the first and last members in INPUT order (a builder that splits
		// its input into chunks loses or duplicates items at the seams)
		for j := 0; j < 8 && j < len(w.members); j++ {
			test = append(test, w.members[j], w.members[len(w.members)-1-j])
		}
		for _, at := range []int{len(w.members) / 4, len(w.members) / 2, 3 * len(w.members) / 4} {
			for j := -2; j <= 2; j++ {
				if at+j >= 0 && at+j < len(w.members) {
					test = append(test, w.members[at+j])
				}
			}
		}
		cnt := map[int]int{}
		for _, i := range w.members {
			cnt[i]++
			if cnt[i] == 2 && len(test) < 12 {
				test = append(test, i)
			}
		}
		for len(test) < 150 {
			test = append(test, dm[r.Intn(len(dm))])
		}
		test = uniqInts(test)
	}
	for j, i := range test {
		m, ok := x.matchOne(i)
		if ok {
			c.Evals(1)
			c.Inc("member_checks_Match")
			if !m {
				c.Failf("Match/member-missed", "%s: Match(member %x)=false (reference value %#x)", w.describe(), w.items[i], w.vals[i])
			}
		}
		q := []int{i}
		d := x.data(q)
		for fn := range c13fns {
			if N > 5000 && c13fns[fn].name != "ZipMatchAny" && j >= 24 {
				continue // HashMatchAny decodes the whole filter: sample
			}
			got, ok := x.anyOf(fn, q, d)
			if !ok {
				continue
			}
			c.Evals(1)
			c.Inc("member_checks_" + c13fns[fn].name)
			if !got {
				c.Failf(c13fns[fn].name+"/member-missed", "%s: %s([member %x])=false (reference value %#x)", w.describe(), c13fns[fn].name, w.items[i], w.vals[i])
			}
		}
	}

	// (c) query sets
	heavy := N > 5000
	// singles: every hostile non-member and a few plain ones
	for j, i := range nonm {
		if j < nHost || j < nHost+8 {
			x.checkQ("single-nonmember", []int{i})
		}
	}
	// observation only: what Match answers for non-members
	for j, i := range nonm {
		if j >= nHost+8 {
			break
		}
		m, _ := x.matchOne(i)
		switch {
		case m && w.hasVal(w.vals[i]):
			c.Inc("observed_nonmember_Match_true_value_equal_to_member")
		case m:
			c.Inconclusive("Match_true_for_nonmember_whose_reference_value_is_absent")
		case w.hasVal(w.vals[i]):
			c.Inconclusive("Match_false_for_nonmember_whose_reference_value_equals_a_member")
		default:
			c.Inc("observed_nonmember_Match_false")
		}
	}

	pad := func(base []int, size int) []int { // repeat base cyclically up to size
		q := make([]int, 0, size)
		for len(q) < size {
			q = append(q, base[len(q)%len(base)])
		}
		return q
	}
	sizes := uniqInts([]int{2, 3, N/2 - 1, N / 2, N/2 + 1, N - 1, N, N + 1, 2 * N})
	for _, sz := range sizes {
		if sz < 1 || len(nonm) == 0 {
			continue
		}
		if heavy && sz > N/2+1 {
			continue
		}
		// non-members only; hostile ones first / last / shuffled
		base := append([]int(nil), nonm[:min(sz, len(nonm))]...)
		switch r.Intn(3) {
		case 0:
			slices.Reverse(base)
		case 1:
			r.Shuffle(len(base), func(i, j int) { base[i], base[j] = base[j], base[i] })
		}
		shape := "nonmembers"
		if sz > len(base) {
			shape = "nonmembers-padded-with-duplicates"
		}
		x.checkQ(shape, pad(base, sz))
		// plain non-members only (expected false most of the time)
		if len(nonm) > nHost {
			pb := nonm[nHost:]
			x.checkQ("plain-nonmembers", pad(pb[:min(sz, len(pb))], sz))
		}
		// one member at the start / middle / end of non-members
		if !heavy || sz <= 3 || sz >= N/2-1 {
			m := dm[r.Intn(len(dm))]
			q := pad(base, sz)
			pos := []int{0, sz / 2, sz - 1}[r.Intn(3)]
			q[pos] = m
			x.checkQ("one-member-among-nonmembers", q)
		}
	}
	// threshold-and-remainder shapes: very large query sets (beyond 2^16 items,
	// length not a multiple of 8) whose only matching item is the very last one
	if N >= 5000 && len(nonm) > nHost+8 {
		pb := nonm[nHost:]
		szs := []int{65536 + 1 + r.Intn(7), 100003 + r.Intn(5), 1<<18 + 1 + r.Intn(7)}
		if x.c.Tier == vf.Thorough {
			szs = append(szs, 1<<20+1+r.Intn(7))
		}
		for _, sz := range szs {
			q := pad(pb[:min(len(pb), 600)], sz)
			q[sz-1] = dm[r.Intn(len(dm))]
			x.checkQ("huge-set-one-member-last", q)
			x.c.Inc("querysets_beyond_65536_items")
		}
	}
	// members picked by the RANK of their value in the filter: positions around
	// 2^16 and 2^17 in decoding order (internal tables and batches end there)
	if N > 65536 {
		byVal := map[uint64]int{}
		for _, mi := range dm {
			byVal[w.vals[mi]] = mi
		}
		for _, rank := range []int{65534, 65535, 65536, 65537, 131071, 131072, 131073, N - 1} {
			if rank >= len(w.mvals) {
				continue
			}
			mi, ok := byVal[w.mvals[rank]]
			if !ok {
				continue
			}
			x.c.Inc("queries_for_the_member_at_a_rank_around_2^16_or_2^17")
			x.checkQ("member-by-rank", []int{mi})
			if len(nonm) > nHost+8 {
				pb := nonm[nHost:]
				q := pad(pb[:min(len(pb), 600)], N/2+1+r.Intn(5))
				q[r.Intn(len(q))] = mi
				x.checkQ("member-by-rank-among-nonmembers", q)
			}
		}
	}
	// duplicates of a single hostile item, long enough for the hash strategy
	for _, cl := range gcsHostileClasses {
		if hs := w.hostile[cl]; len(hs) > 0 {
			h := hs[r.Intn(len(hs))]
			x.checkQ("duplicates-of-one-hostile", pad([]int{h}, N/2+1))
			if N/2-1 >= 1 {
				x.checkQ("duplicates-of-one-hostile", pad([]int{h}, N/2-1))
			}
		}
	}
	// all members, members + non-members
	if len(dm) <= budget {
		x.checkQ("all-members", w.members)
		if len(nonm) > 0 {
			q := append(append([]int(nil), dm...), nonm[:min(len(nonm), 20)]...)
			r.Shuffle(len(q), func(i, j int) { q[i], q[j] = q[j], q[i] })
			x.checkQ("members-and-nonmembers", q)
		}
	}
	// random mixtures
	nMix := 8
	if heavy {
		nMix = 3
	}
	for j := 0; j < nMix; j++ {
		sz := 1 + r.Intn(min(2*N+2, budget))
		if heavy {
			sz = 1 + r.Intn(40)
		}
		q := make([]int, sz)
		pm := r.Intn(4) // 0: no members
		for t := range q {
			switch {
			case len(nonm) == 0 || (pm > 0 && r.Intn(8) < pm):
				q[t] = test[r.Intn(len(test))]
			case nHost > 0 && r.Chance(1, 3):
				q[t] = nonm[r.Intn(nHost)]
			default:
				q[t] = nonm[r.Intn(len(nonm))]
			}
		}
		x.checkQ("random-mixture", q)
	}
	if c.WantSample() {
		hc := map[string]int{}
		for cl, hs := range w.hostile {
			hc[cl] = len(hs)
		}
		c.Sample(map[string]any{"filter": w.describe(), "hostile_nonmembers_by_class": hc, "distinct_items_queried": len(x.cache)})
	}
}

func uniqInts(a []int) []int {
	seen := make(map[int]struct{}, len(a))
	out := make([]int, 0, len(a))
	for _, v := range a {
		if _, ok := seen[v]; !ok {
			seen[v] = struct{}{}
			out = append(out, v)
		}
	}
	return out
}

// gcsExtra is the number of non-member candidates drawn for a filter: with
// N*M > 2^32 the pool is large enough for a birthday search of values that
// agree in the low 32 bits only (pairs ~ k^2 / 2^33).
func gcsExtra(cfg gcsCfg, big int) int {
	nm := uint64(cfg.N) * cfg.M
	if nm > 1<<32 {
		return big
	}
	return min(max(4*cfg.N, 64), 4000)
}

func c13grid(c *vf.Ctx, i int) {
	cfg := gcsGridCfg(c.R, i)
	if w := gcsBuildWorld(c, cfg, gcsExtra(cfg, 130000), "BuildGCSFilter"); w != nil {
		c13worldChecks(c, w)
	}
}

func c13random(c *vf.Ctx, i int) {
	cfg := gcsRandomCfg(c.R, c.Tier.Sz(20000, 40000))
	if w := gcsBuildWorld(c, cfg, gcsExtra(cfg, 130000), "BuildGCSFilter"); w != nil {
		c13worldChecks(c, w)
	}
}

func c13large(c *vf.Ctx, i int) {
	cfg := gcsLargeCfg(c.R, i)
	if w := gcsBuildWorld(c, cfg, gcsExtra(cfg, 160000), "BuildGCSFilter"); w != nil {
		c13worldChecks(c, w)
	}
}

// c13manyCalls: two small filters that live through 140 000 queries in one
// process on one P (so that pooled scratch state, if a filter implementation
// keeps any, is handed from call to call).  Filter A is queried at calls 0,
// 1000 and 70001 only; every other call asks filter B for members of A (same
// key, N, P and M, so an item has the same value in both) and must get B's own
// answer.  Counters that wrap after 2^8 or 2^16 calls and whatever a previous
// call left behind are the target; the answers are judged by the reference.
func c13manyCalls(c *vf.Ctx, i int) {
	r := c.R
	old := runtime.GOMAXPROCS(1)
	defer runtime.GOMAXPROCS(old)
	key := gcsKey(r)
	P, M := uint8(19), uint64(gcsDefaultM)
	if i%2 == 1 {
		P = uint8(r.Intn(21))
		M, _ = gcsM(r, P, r.Intn(gcsMKinds))
	}
	N := 3 + r.Intn(38)
	items := gcsItems(r, 2*N+8)
	a, b, junk := items[:N], items[N:2*N], items[2*N:]
	var fa, fb *gcs.Filter
	var err error
	desc := func() string { return fmt.Sprintf("P=%d M=%d N=%d key=%x", P, M, N, key) }
	if !c.Call("BuildGCSFilter", desc, func() {
		fa, err = gcs.BuildGCSFilter(P, M, key, a)
		if err == nil {
			fb, err = gcs.BuildGCSFilter(P, M, key, b)
		}
	}) || err != nil || fa == nil || fb == nil {
		c.Inconclusive("many-calls-build-failed")
		return
	}
	nm := uint64(N) * M
	inB := map[uint64]bool{}
	for _, it := range b {
		inB[ref.GCSValue(key, it, nm)] = true
	}
	want := func(it []byte) bool { return inB[ref.GCSValue(key, it, nm)] }
	const T = 140000
	bad := 0
	for t := 0; t < T && bad < 3; t++ {
		if t == 0 || t == 1000 || t == 70001 {
			var got bool
			if !c.Call("HashMatchAny", desc, func() { got, _ = fa.HashMatchAny(key, a); _, _ = fa.MatchAny(key, a) }) {
				return
			}
			if !got {
				c.Failf("HashMatchAny/member-missed", "%s: call %d: filter A does not report its own members", desc(), t)
				bad++
			}
			continue
		}
		x := a[t%N]
		y := junk[t%len(junk)]
		q := [][]byte{x, y}
		w := want(x) || want(y)
		var g [4]bool
		if !c.Call("HashMatchAny", desc, func() {
			g[0], _ = fb.HashMatchAny(key, q)
			if t%16 == 0 {
				g[1], _ = fb.MatchAny(key, q)
				g[2], _ = fb.ZipMatchAny(key, q)
				g[3], _ = fb.Match(key, x)
			}
		}) {
			return
		}
		c.Evals(1)
		if g[0] != w {
			c.Failf("HashMatchAny/agreement", "%s: call %d on filter B (after filter A was queried at calls 0, 1000, 70001): HashMatchAny([member of A, junk]) = %v, but the items match B individually: %v; item %x", desc(), t, g[0], w, x)
			bad++
		}
		if t%16 == 0 && (g[1] != w || g[2] != w || g[3] != want(x)) {
			c.Failf("MatchAny/agreement", "%s: call %d on filter B: MatchAny=%v ZipMatchAny=%v Match(x)=%v, reference: any=%v x=%v; item %x", desc(), t, g[1], g[2], g[3], w, want(x), x)
			bad++
		}
	}
	c.Count("many_calls_queries_on_one_filter", T)
	c.Nontrivial(vf.Mix(0x13c, uint64(i), vf.HashBytes(key[:]), uint64(N)))
}

// c13digestTwins: pairs of DIFFERENT small filters with the same N, P, M, key
// and serialised length whose bytes collide under a common 32-bit digest
// (CRC-32, Adler-32, FNV-1a; birthday search over 2^18 filters per case),
// queried alternately.  Whatever a filter implementation remembers about "the
// filter it saw last" must not be keyed by such a digest.
func c13digestTwins(c *vf.Ctx, i int) {
	r := c.R
	key := gcsKey(r)
	P, M := uint8(19), uint64(gcsDefaultM)
	N := 2 + i%3
	digest := []func([]byte) uint32{crc32.ChecksumIEEE, adler32.Checksum, func(b []byte) uint32 { h := fnv.New32a(); h.Write(b); return h.Sum32() }}[i%3]
	dname := []string{"crc32", "adler32", "fnv1a32"}[i%3]
	seen := map[uint64]uint32{}
	mk := func(seed uint32) [][]byte {
		d := make([][]byte, N)
		for j := range d {
			d[j] = []byte{byte(seed), byte(seed >> 8), byte(seed >> 16), byte(seed >> 24), byte(j), 0x5d}
		}
		return d
	}
	build := func(seed uint32) *gcs.Filter {
		f, err := gcs.BuildGCSFilter(P, M, key, mk(seed))
		if err != nil {
			return nil
		}
		return f
	}
	var sa, sb uint32
	found := false
	ok := c.Call("BuildGCSFilter", func() string { return "digest twin search" }, func() {
		for seed := uint32(1); seed < 1<<19 && !found; seed++ {
			f := build(seed)
			if f == nil {
				continue
			}
			b, _ := f.Bytes()
			k := uint64(len(b))<<32 | uint64(digest(b))
			if o, hit := seen[k]; hit {
				ob, _ := build(o).Bytes()
				if !bytes.Equal(ob, b) {
					sa, sb, found = o, seed, true
				}
				continue
			}
			seen[k] = seed
		}
	})
	if !ok {
		return
	}
	if !found {
		c.Inc("digest_twins_not_found_" + dname)
		return
	}
	c.Inc("digest_twins_" + dname)
	fa, fb := build(sa), build(sb)
	da, db := mk(sa), mk(sb)
	nm := uint64(N) * M
	member := func(set [][]byte, it []byte) bool {
		v := ref.GCSValue(key, it, nm)
		for _, x := range set {
			if ref.GCSValue(key, x, nm) == v {
				return true
			}
		}
		return false
	}
	desc := func() string {
		return fmt.Sprintf("filters of seeds %d and %d (N=%d P=%d M=%d key=%x), equal length and equal %s of their bytes", sa, sb, N, P, M, key, dname)
	}
	for rep := 0; rep < 6; rep++ {
		for j := 0; j < N; j++ {
			var g [8]bool
			if !c.Call("Match", desc, func() {
				g[0], _ = fa.Match(key, da[j])
				g[1], _ = fb.Match(key, db[j])
				g[2], _ = fa.Match(key, db[j])
				g[3], _ = fb.Match(key, da[j])
				g[4], _ = fa.HashMatchAny(key, da[j:j+1])
				g[5], _ = fb.HashMatchAny(key, db[j:j+1])
				g[6], _ = fa.ZipMatchAny(key, db[j:j+1])
				g[7], _ = fb.MatchAny(key, da[j:j+1])
			}) {
				return
			}
			c.Evals(8)
			w := [8]bool{true, true, member(da, db[j]), member(db, da[j]), true, true, member(da, db[j]), member(db, da[j])}
			if g != w {
				c.Failf("Match/digest-twins", "%s: alternating queries gave %v, the items' membership is %v (Match a/A, b/B, b/A, a/B, HashMatchAny a/A, b/B, Zip b/A, MatchAny a/B)", desc(), g, w)
				return
			}
		}
	}
	c.Nontrivial(vf.Mix(0x13d, uint64(sa), uint64(sb), vf.HashBytes(key[:])))
}

// c13positionSweep: a query set of a little more than 2^14 non-members in
// which exactly ONE item is a member, placed at every position in turn (each
// case covers a block of positions).  An any-of strategy that splits large
// queries into blocks must not lose an item at a block boundary, wherever the
// boundaries are.
const c13sweepBlock = 128
const c13sweepSize = 1<<14 + 6

func c13positionSweep(c *vf.Ctx, i int) {
	r := vf.NewRand(vf.Mix(c.Seed, 0x5eed13)) // the same world for every case of a run
	key := gcsKey(r)
	P, M := uint8(19), uint64(gcsDefaultM)
	N := 40
	items := gcsItems(r, N+c13sweepSize+200)
	members := items[:N]
	var f *gcs.Filter
	var err error
	desc := func() string {
		return fmt.Sprintf("P=%d M=%d N=%d key=%x, query of %d items", P, M, N, key, c13sweepSize)
	}
	if !c.Call("BuildGCSFilter", desc, func() { f, err = gcs.BuildGCSFilter(P, M, key, members) }) || err != nil || f == nil {
		c.Inconclusive("position-sweep-build-failed")
		return
	}
	nm := uint64(N) * M
	inSet := map[uint64]bool{}
	for _, it := range members {
		inSet[ref.GCSValue(key, it, nm)] = true
	}
	q := make([][]byte, 0, c13sweepSize)
	for _, it := range items[N:] {
		if len(q) < c13sweepSize && !inSet[ref.GCSValue(key, it, nm)] {
			q = append(q, it)
		}
	}
	if len(q) < c13sweepSize {
		c.Inconclusive("position-sweep-too-few-nonmembers")
		return
	}
	lo := i * c13sweepBlock
	for p := lo; p < lo+c13sweepBlock && p < c13sweepSize; p++ {
		saved := q[p]
		q[p] = members[p%N]
		var z, a bool
		if !c.Call("ZipMatchAny", desc, func() { z, _ = f.ZipMatchAny(key, q); a, _ = f.MatchAny(key, q) }) {
			return
		}
		q[p] = saved
		c.Evals(2)
		if !z || !a {
			c.Failf("ZipMatchAny/agreement", "%s: the only member sits at query position %d: ZipMatchAny=%v MatchAny=%v, but the item matches individually", desc(), p, z, a)
			return
		}
	}
	c.Count("positions_of_the_only_member_swept", int64(c13sweepBlock))
	c.Nontrivial(vf.Mix(0x13e, uint64(i), c.Seed))
}

// gcsSelfTest validates the references used by C13 and C14.
func gcsSelfTest() error {
	if err := ref.SelfTestSipHash(); err != nil {
		return err
	}
	if err := ref.SelfTestGolomb(); err != nil {
		return err
	}
	// reference SipHash-2-4 against github.com/aead/siphash (independent of
	// bchutil) on seeded inputs of every length 0..130
	r := vf.NewRand(0x51f0a5)
	for n := 0; n < 4000; n++ {
		var key [16]byte
		r.Fill(key[:])
		msg := r.Bytes(n % 131)
		if a, b := ref.SipHash24(key, msg), siphash.Sum64(msg, &key); a != b {
			return fmt.Errorf("siphash reference %#x != aead/siphash %#x (key %x msg %x)", a, b, key, msg)
		}
	}
	// BIP158 published vector (testnet block 0): basic filter 019dfca8,
	// filter header 21584579…b750 with an all-zero previous header
	script := unhexC13("4104678afdb0fe5548271967f1a67130b7105cd6a828e03909a67962e0ea1f61deb649f6bc3f4cef38c4f35504e51ec112de5c384df7ba0b8d578a4c702b6bf11d5fac")
	hash := unhexC13("000000000933ea01ad0ee984209779baaec3ced90fa3f408719526f8d77f4943")
	slices.Reverse(hash)
	var key [16]byte
	copy(key[:], hash[:16])
	nb := append(ref.CompactSize(1), ref.GCSEncode(key, 19, gcsDefaultM, [][]byte{script})...)
	if hx(nb) != "019dfca8" {
		return fmt.Errorf("BIP158 genesis filter = %x want 019dfca8", nb)
	}
	fh := ref.Sha256d(nb)
	hd := ref.Sha256d(append(fh[:], make([]byte, 32)...))
	hdr := hd[:]
	slices.Reverse(hdr)
	if hx(hdr) != "21584579b7eb08997773e5aeff3a7f932700042d0ed2a6129012b7d7ae81b750" {
		return fmt.Errorf("BIP158 genesis filter header = %x", hdr)
	}
	// encoder / decoder round trip for every P
	for P := 0; P <= 32; P++ {
		M, _ := gcsM(r, uint8(P), 1+r.Intn(5))
		n := 1 + r.Intn(60)
		items := gcsItems(r, n)
		r.Fill(key[:])
		enc := ref.GCSEncode(key, uint8(P), M, items)
		want := make([]uint64, n)
		for i, it := range items {
			want[i] = ref.GCSValue(key, it, uint64(n)*M)
		}
		slices.Sort(want)
		got := ref.GCSDecodeValues(enc, uint8(P), uint64(n))
		if !slices.Equal(got, want) {
			return fmt.Errorf("golomb reference round trip P=%d M=%d n=%d", P, M, n)
		}
	}
	return nil
}

func unhexC13(s string) []byte {
	b := make([]byte, len(s)/2)
	for i := range b {
		fmt.Sscanf(s[2*i:2*i+2], "%02x", &b[i])
	}
	return b
}

func init() {
	register(&vf.Property{
		ID:    "C13",
		Title: "GCS filters never miss a member; all query strategies agree",
		Rule: "one case = one filter built by gcs.BuildGCSFilter from a seeded multiset plus its query sets. " +
			"stream grid: every P in 0..32 x 6 modulus kinds (1, 2^P, 2^(P+4), 784931 or 2^P+1, 2^P-1, random <= 2^(P+4)) x N in {0,1,2,3,4,5,7,8,9,15,16,17,31,33,64,100,255,256,1000}; " +
			"stream random: seeded (P, M, N) with N skewed small up to 2*10^4 (4*10^4 thorough); stream large: N*M on both sides of 2^32 with the default parameters, N*M = 2^32, N = 10^5, then seeded N in 5000..10^5 with P >= 16. " +
			"The member set is chosen from a pool of distinct items after computing every item's value with the reference (SipHash-2-4, bits.Mul64) so that non-members exist whose value equals a member's, equals it in the low 32 bits only (birthday search over >= 1.3*10^5 items when N*M > 2^32), is one below / above, before the first, after the last, 0 or N*M-1. " +
			"Query sets: singles, sizes 2, 3, N/2-1, N/2, N/2+1, N-1, N, N+1, 2N of non-members (hostile first), the same with one member inserted, duplicates of one hostile item, all members, random mixtures. " +
			"Oracle: members match through all four queries; empty filter / empty query match nothing; MatchAny, ZipMatchAny, HashMatchAny each equal the OR of the library's own Match over the query items. Distinct non-trivial case = (key, P, M, N, pool).",
		Assumptions: []string{
			"reference SipHash-2-4 (self-tested on the paper's vectors and against github.com/aead/siphash) and math/bits.Mul64 are correct; they are used only to construct and classify hostile queries, never as the verdict",
			"the right-hand side of the agreement clause is the library's own Match, as the statement says",
			"on filters with more than 400 distinct members a sample of 150 members (incl. the smallest and largest value and duplicated items) is queried individually; the any-of queries over N > 5000 are sampled",
		},
		SelfTest: gcsSelfTest,
		Streams: []*vf.Stream{
			{Name: "large", N: func(t vf.Tier) int { return t.Sz(len(gcsLargeCfgs), 96) }, Run: c13large, MaxCaseSec: 120, RlimitAS: gcsRlimit},
			{Name: "grid", N: func(t vf.Tier) int { return gcsGridCount() * t.Sz(1, 2) }, Run: c13grid, RlimitAS: gcsRlimit},
			{Name: "random", N: func(t vf.Tier) int { return t.Sz(1500, 20000) }, Run: c13random, RlimitAS: gcsRlimit, MaxCaseSec: 120},
			{Name: "digest-twins", N: func(t vf.Tier) int { return t.Sz(9, 90) }, Run: c13digestTwins, MaxCaseSec: 120},
			{Name: "member-position-sweep", N: func(t vf.Tier) int { return (c13sweepSize + c13sweepBlock - 1) / c13sweepBlock }, Run: c13positionSweep, MaxCaseSec: 120},
			{Name: "many-calls", Workers: 1, Shards: 4, N: func(t vf.Tier) int { return t.Sz(8, 48) }, Run: c13manyCalls, MaxCaseSec: 120},
		},
	})
}
