package props

import (
	"bytes"
	"fmt"
	"github.com/gcash/bchd/chaincfg"
	"runtime"
	"runtime/debug"
	"runtime/metrics"
	"sort"
	"strings"
	"sync"
	"time"

	"github.com/gcash/bchd/chaincfg/chainhash"
	"github.com/gcash/bchd/wire"
	"github.com/gcash/bchutil"
	"github.com/gcash/bchutil/base58"
	"github.com/gcash/bchutil/bech32"
	"github.com/gcash/bchutil/bloom"
	"github.com/gcash/bchutil/gcs"
	"github.com/gcash/bchutil/hdkeychain"
	"github.com/gcash/bchutil/jsonpb"
	"github.com/gcash/bchutil/jsonpb/testpb"
	"github.com/gcash/bchutil/merkleblock"
	"github.com/golang/protobuf/proto"

	"verif/internal/vf"
)

// C08 — no parser panics, hangs or over-allocates on untrusted input.
//
// Monitors: panic (recover around every call), process-fatal errors and
// hangs (supervisor: crash isolation, watchdog), allocation per call
// (runtime/metrics heap-allocation counter around each call, one case
// goroutine per child, excess attributed to an allocation site with
// runtime.MemProfile), CPU-time growth on size ladders.

const (
	c08allocBase    = 1 << 20  // bytes
	c08allocPerByte = 64 << 10 // bytes per input byte
)

type c08mon struct {
	c      *vf.Ctx
	sample [1]metrics.Sample
	// maxRatioPPM tracks the largest alloc/bound ratio seen (parts per million)
	maxRatio float64
}

func newC08mon(c *vf.Ctx) *c08mon {
	m := &c08mon{c: c}
	m.sample[0].Name = "/gc/heap/allocs:bytes"
	return m
}

func (m *c08mon) allocs() uint64 {
	metrics.Read(m.sample[:])
	return m.sample[0].Value.Uint64()
}

// run executes one call into the code under test under the panic and
// allocation monitors.  inputLen is the size of the untrusted input in bytes.
func (m *c08mon) run(target string, inputLen int, desc func() string, f func()) (completed bool) {
	return m.runBound(target, uint64(c08allocBase)+uint64(c08allocPerByte)*uint64(inputLen), "1 MiB + 64 KiB per input byte", inputLen, desc, f)
}

// runBound is run with an explicit allocation bound (entry points whose
// honest cost per input byte is known to be small get a tighter one).
func (m *c08mon) runBound(target string, bound uint64, boundText string, inputLen int, desc func() string, f func()) (completed bool) {
	c := m.c
	before := m.allocs()
	ok := c.Call(target, desc, f)
	delta := m.allocs() - before
	c.Evals(1)
	c.Inc("calls/" + target)
	if !ok {
		return false
	}
	if r := float64(delta) / float64(bound); r > m.maxRatio {
		m.maxRatio = r
	}
	if delta <= bound {
		return true
	}
	// over the bound: attribute the excess to an allocation site (a profiled
	// re-run; after three attributions for the same entry point in this
	// process the last site is reused: the re-run costs ~0.2 s)
	c08attrMu.Lock()
	memo := c08attrMemo[target]
	c08attrMu.Unlock()
	var site string
	var bytesAt, total uint64
	if memo.n >= 3 {
		site, bytesAt, total = memo.site, 0, delta
	} else {
		site, bytesAt, total = c08attribute(f)
		if total <= bound {
			c.Inconclusive("alloc-excess-not-reproduced/" + target)
			return true
		}
		c08attrMu.Lock()
		c08attrMemo[target] = c08memo{memo.n + 1, site}
		c08attrMu.Unlock()
	}
	c.Failf("alloc/"+target+"/"+site, "%s allocated %d bytes for an input of %d bytes (bound %d = %s); dominant allocation site %s (%d bytes)\ninput: %s",
		target, total, inputLen, bound, boundText, site, bytesAt, desc())
	return true
}

type c08memo struct {
	n    int
	site string
}

var (
	c08attrMu   sync.Mutex
	c08attrMemo = map[string]c08memo{}
)

// c08attribute re-runs f with every allocation profiled and returns the
// innermost non-runtime function of the stack that allocated most.
func c08attribute(f func()) (site string, bytesAt uint64, total uint64) {
	old := runtime.MemProfileRate
	runtime.MemProfileRate = 1
	defer func() { runtime.MemProfileRate = old }()
	snap := func() map[[32]uintptr]int64 {
		runtime.GC()
		runtime.GC()
		n, _ := runtime.MemProfile(nil, true)
		recs := make([]runtime.MemProfileRecord, n+200)
		n, ok := runtime.MemProfile(recs, true)
		if !ok {
			return nil
		}
		out := map[[32]uintptr]int64{}
		for _, r := range recs[:n] {
			out[r.Stack0] += r.AllocBytes
		}
		return out
	}
	before := snap()
	var s [1]metrics.Sample
	s[0].Name = "/gc/heap/allocs:bytes"
	metrics.Read(s[:])
	a0 := s[0].Value.Uint64()
	func() {
		defer func() { recover() }()
		f()
	}()
	metrics.Read(s[:])
	total = s[0].Value.Uint64() - a0
	after := snap()
	var best [32]uintptr
	var bestD int64
	for k, v := range after {
		if d := v - before[k]; d > bestD {
			bestD, best = d, k
		}
	}
	site = "unknown"
	if bestD > 0 {
		n := 0
		for n < len(best) && best[n] != 0 {
			n++
		}
		frames := runtime.CallersFrames(best[:n])
		for {
			fr, more := frames.Next()
			if x := vf.SiteOf(fr.Function); x != "" {
				site = x
				break
			}
			if !more {
				break
			}
		}
	}
	return site, uint64(bestD), total
}

func (m *c08mon) done() {
	m.c.SetExtra("max_alloc_over_bound_ratio_seen_in_last_child", m.maxRatio)
}

// ------------------------------------------------------------ strings

// c08nets: the six built-in networks plus caller-defined ones whose cash and
// SLP prefixes differ a lot in length (the decoder slices the input by both).
var c08nets = append(append([]netInfo{}, allNets...),
	netInfo{"custom-short-cash-long-slp", &chaincfg.Params{CashAddressPrefix: "bchdev", SlpAddressPrefix: "simpleledgerdevelopment", LegacyPubKeyHashAddrID: 0x6f, LegacyScriptHashAddrID: 0xc4}},
	netInfo{"custom-long-cash-short-slp", &chaincfg.Params{CashAddressPrefix: "bitcoincashdevelopmentnetwork", SlpAddressPrefix: "s", LegacyPubKeyHashAddrID: 0x6f, LegacyScriptHashAddrID: 0xc4}},
	netInfo{"custom-one-letter", &chaincfg.Params{CashAddressPrefix: "p", SlpAddressPrefix: "", LegacyPubKeyHashAddrID: 0, LegacyScriptHashAddrID: 5}},
)

func c08stringCase(c *vf.Ctx, i int) {
	m := newC08mon(c)
	defer m.done()
	s, class := c08hostileString(c.R, i)
	c.Inc("class/" + class)
	c.Nontrivial(vf.HashString(s))
	d := func() string { return fmt.Sprintf("%q (class %s)", s, class) }
	n := len(s)
	for _, net := range c08nets {
		net := net
		m.run("DecodeAddress", n, func() string { return d() + " net=" + net.Name }, func() {
			a, err := bchutil.DecodeAddress(s, net.P)
			if err == nil && a != nil {
				c.Inc("accepted/DecodeAddress")
				_ = a.EncodeAddress()
				_ = a.String()
				_ = a.ScriptAddress()
				_ = a.IsForNet(net.P)
			}
		})
	}
	m.run("DecodeCashAddress", n, d, func() {
		if _, _, err := bchutil.DecodeCashAddress(s); err == nil {
			c.Inc("accepted/DecodeCashAddress")
			if class == "cashaddr-valid-checksum-under-8-symbols" {
				c.Inc("accepted/DecodeCashAddress-under-8-symbols")
			}
		}
	})
	m.run("DecodeWIF", n, d, func() {
		if w, err := bchutil.DecodeWIF(s); err == nil {
			c.Inc("accepted/DecodeWIF")
			_ = w.String()
			_ = w.SerializePubKey()
			_ = w.IsForNet(allNets[0].P)
		}
	})
	m.run("base58.Decode", n, d, func() { _ = base58.Decode(s) })
	m.run("base58.CheckDecode", n, d, func() {
		if _, _, err := base58.CheckDecode(s); err == nil {
			c.Inc("accepted/base58.CheckDecode")
		}
	})
	m.run("bech32.Decode", n, d, func() {
		if _, data, err := bech32.Decode(s); err == nil {
			c.Inc("accepted/bech32.Decode")
			_, _ = bech32.ConvertBits(data, 5, 8, false)
		}
	})
	m.run("hdkeychain.NewKeyFromString", n, d, func() {
		if k, err := hdkeychain.NewKeyFromString(s); err == nil {
			c.Inc("accepted/hdkeychain.NewKeyFromString")
			_ = k.String()
			_, _ = k.ECPubKey()
			_, _ = k.ECPrivKey()
			_, _ = k.Neuter()
			_, _ = k.Child(0)
			_, _ = k.Child(hdkeychain.HardenedKeyStart)
			_, _ = k.Address(allNets[0].P)
			_ = k.IsForNet(allNets[0].P)
		}
	})
	if c.WantSample() {
		c.Sample(map[string]string{"string": short(s), "class": class})
	}
}

func c08convertBitsCase(c *vf.Ctx, i int) {
	m := newC08mon(c)
	defer m.done()
	data := c.R.Bytes(c.R.SkewLen(200))
	from, to := uint8(c.R.Intn(256)), uint8(c.R.Intn(256))
	if c.R.Bool() {
		from, to = uint8(c.R.Intn(10)), uint8(c.R.Intn(10))
	}
	pad := c.R.Bool()
	c.Nontrivial(vf.Mix(uint64(from), uint64(to), vf.HashBytes(data)))
	m.run("bech32.ConvertBits", len(data), func() string { return fmt.Sprintf("data=%x from=%d to=%d pad=%v", data, from, to, pad) }, func() {
		_, _ = bech32.ConvertBits(data, from, to, pad)
	})
	// Encode is not an untrusted-input parser, but it takes 5-bit data that
	// callers often pass through from Decode/ConvertBits
	m.run("bech32.Encode", len(data), func() string { return fmt.Sprintf("data=%x", data) }, func() { _, _ = bech32.Encode("bc", data) })
}

// ------------------------------------------------------------ blocks and transactions

func c08exerciseBlock(c *vf.Ctx, b *bchutil.Block) {
	_ = b.Hash()
	_, _ = b.Bytes()
	txs := b.Transactions()
	for _, i := range []int{-1, 0, len(txs) - 1, len(txs), len(txs) + 1, 1 << 30, -1 << 31} {
		_, _ = b.Tx(i)
		_, _ = b.TxHash(i)
	}
	_, _ = b.TxLoc()
	_ = b.Height()
	for _, t := range txs {
		_ = t.Hash()
		_ = t.Index()
	}
}

func c08blockCase(c *vf.Ctx, i int) {
	m := newC08mon(c)
	defer m.done()
	var raw []byte
	var kind string
	isBlock := i%2 == 0
	if isBlock {
		raw = c08block(c.R)
	} else {
		raw = c08serializeTx(c08tx(c.R, c.R.Bool()))
	}
	if i%16 >= 14 { // directed tiny inputs
		tiny := [][]byte{{}, {0}, {1, 0, 0, 0}, {1, 0, 0, 0, 0xfe, 0xff, 0xff, 0xff, 0xff}, {1, 0, 0, 0, 0xff, 0xff, 0xff, 0xff, 0xff, 0xff, 0xff, 0xff, 0x7f},
			{1, 0, 0, 0, 0, 0xfe, 0x00, 0x00, 0x04, 0x00}, {1, 0, 0, 0, 0xfe, 0x00, 0x00, 0x08, 0x00}, {1, 0, 0, 0, 0x00, 0x01, 0xfe, 0xff, 0xff, 0xff, 0x00}}
		if c.Tier == vf.Thorough {
			tiny = append(tiny, []byte{1, 0, 0, 0, 0, 0xfe, 0xff, 0xff, 0xff, 0x00}) // 2^24 outputs: 1.7 GB in bchd/wire (known finding)
		}
		raw, kind = tiny[c.R.Intn(len(tiny))], "tiny"
		if isBlock {
			raw = append(c.R.Bytes(80), raw...)
		}
	} else {
		raw, kind = c08mutateBytes(c.R, raw, c.Tier == vf.Thorough)
	}
	c.Inc("mutation/" + kind)
	c.Nontrivial(vf.HashBytes(raw))
	d := func() string { return fmt.Sprintf("%x (%s)", raw, kind) }
	if isBlock {
		m.run("NewBlockFromBytes", len(raw), d, func() {
			if b, err := bchutil.NewBlockFromBytes(raw); err == nil {
				c.Inc("accepted/NewBlockFromBytes")
				c08exerciseBlock(c, b)
			}
		})
		m.run("NewBlockFromReader", len(raw), d, func() {
			if b, err := bchutil.NewBlockFromReader(bytes.NewReader(raw)); err == nil {
				c08exerciseBlock(c, b)
			}
		})
	} else {
		m.run("NewTxFromBytes", len(raw), d, func() {
			if t, err := bchutil.NewTxFromBytes(raw); err == nil {
				c.Inc("accepted/NewTxFromBytes")
				_ = t.Hash()
				_ = t.MsgTx()
				_ = t.Index()
			}
		})
		m.run("NewTxFromReader", len(raw), d, func() {
			if t, err := bchutil.NewTxFromReader(bytes.NewReader(raw)); err == nil {
				_ = t.Hash()
			}
		})
	}
	if c.WantSample() {
		c.Sample(map[string]string{"bytes": short(hx(raw)), "mutation": kind})
	}
}

// ------------------------------------------------------------ bloom

// c08bloomMsg draws a filter-load message within the wire limits (nil for
// one case in 25: no filter loaded).
func c08bloomMsg(r *vf.Rand, i int) (*wire.MsgFilterLoad, int) {
	var msg *wire.MsgFilterLoad
	n := 0
	if i%25 != 24 {
		switch r.Intn(6) {
		case 0:
			n = 0
		case 1:
			n = 1 + r.Intn(3)
		case 2:
			n = []int{36000, 35999, 4096, 255, 256}[r.Intn(5)]
		default:
			n = r.Intn(64)
		}
		flt := r.Bytes(n)
		if r.Bool() {
			for k := range flt {
				flt[k] = 0xff
			}
		}
		msg = &wire.MsgFilterLoad{Filter: flt, HashFuncs: uint32(r.Intn(51)), Tweak: r.Uint32(), Flags: wire.BloomUpdateType(r.Intn(256))}
		if r.Bool() {
			msg.Flags = wire.BloomUpdateType(r.Intn(3))
		}
	}
	return msg, n
}

func c08bloomCase(c *vf.Ctx, i int) {
	m := newC08mon(c)
	defer m.done()
	r := c.R
	var msg *wire.MsgFilterLoad
	n := 0
	if i%25 != 24 {
		switch r.Intn(6) {
		case 0:
			n = 0
		case 1:
			n = 1 + r.Intn(3)
		case 2:
			n = []int{36000, 35999, 4096, 255, 256}[r.Intn(5)]
		default:
			n = r.Intn(64)
		}
		flt := r.Bytes(n)
		if r.Bool() {
			for k := range flt {
				flt[k] = 0xff
			}
		}
		msg = &wire.MsgFilterLoad{Filter: flt, HashFuncs: uint32(r.Intn(51)), Tweak: r.Uint32(), Flags: wire.BloomUpdateType(r.Intn(256))}
		if r.Bool() {
			msg.Flags = wire.BloomUpdateType(r.Intn(3))
		}
	}
	c.Nontrivial(vf.Mix(uint64(n), uint64(i)))
	if msg == nil {
		c.Inc("bloom/unloaded-filter")
	} else {
		if n == 0 {
			c.Inc("bloom/empty-filter")
			if msg.HashFuncs > 0 {
				c.Inc("bloom/empty-filter-with-hash-funcs")
			}
		}
		if msg.Flags > 2 {
			c.Inc("bloom/undefined-flag-byte")
		}
	}
	d := func() string {
		if msg == nil {
			return "LoadFilter(nil)"
		}
		return fmt.Sprintf("LoadFilter{len(Filter)=%d HashFuncs=%d Tweak=%d Flags=%d}", len(msg.Filter), msg.HashFuncs, msg.Tweak, msg.Flags)
	}
	var f *bloom.Filter
	m.run("bloom.LoadFilter", n+9, d, func() { f = bloom.LoadFilter(msg) })
	if f == nil {
		return
	}
	data := r.Bytes(r.SkewLen(80))
	var h chainhash.Hash
	copy(h[:], r.Bytes(32))
	op := wire.NewOutPoint(&h, r.Uint32())
	tx := bchutil.NewTx(c08tx(r, true))
	txLen := tx.MsgTx().SerializeSize()
	// a panic inside a locked method leaves the filter's mutex held: stop using the object then
	if !m.run("bloom.Filter.IsLoaded", n+9, d, func() { _ = f.IsLoaded(); _ = f.MsgFilterLoad() }) {
		return
	}
	if !m.run("bloom.Filter.Matches", n+9+len(data), func() string { return d() + fmt.Sprintf(" Matches(%x)", data) }, func() { _ = f.Matches(data) }) {
		return
	}
	if !m.run("bloom.Filter.MatchesOutPoint", n+9+36, func() string { return d() + " MatchesOutPoint" }, func() { _ = f.MatchesOutPoint(op) }) {
		return
	}
	if !m.run("bloom.Filter.MatchTxAndUpdate", n+9+txLen, func() string { return d() + fmt.Sprintf(" MatchTxAndUpdate(%x)", c08serializeTx(tx.MsgTx())) }, func() { _ = f.MatchTxAndUpdate(tx) }) {
		return
	}
	if !m.run("bloom.Filter.Add", n+9+len(data), func() string { return d() + fmt.Sprintf(" Add(%x)", data) }, func() { f.Add(data) }) {
		return
	}
	if !m.run("bloom.Filter.AddHash", n+9+32, func() string { return d() + " AddHash" }, func() { f.AddHash(&h) }) {
		return
	}
	if !m.run("bloom.Filter.AddOutPoint", n+9+36, func() string { return d() + " AddOutPoint" }, func() { f.AddOutPoint(op) }) {
		return
	}
	if !m.run("bloom.Filter.MatchTxAndUpdate", n+9+txLen, func() string { return d() + fmt.Sprintf(" MatchTxAndUpdate(%x) after Add", c08serializeTx(tx.MsgTx())) }, func() { _ = f.MatchTxAndUpdate(tx) }) {
		return
	}
	// a block scanned against the filter
	if i%4 == 0 {
		raw := c08block(r)
		if i%80 == 0 {
			// a block message that carries no transactions at all (a header and
			// a zero count): wire parses it
			raw = append(r.Bytes(80), 0)
			c.Inc("bloom/block-without-transactions")
		}
		if blk, err := bchutil.NewBlockFromBytes(raw); err == nil {
			// (a panic inside a locked filter method leaves the mutex held: the object is abandoned then)
			if !m.run("bloom.NewMerkleBlock", n+9+len(raw), func() string { return d() + fmt.Sprintf(" NewMerkleBlock(%x)", raw) }, func() { _, _ = bloom.NewMerkleBlock(blk, f) }) {
				return
			}
			if !m.run("merkleblock.NewMerkleBlockWithFilter", n+9+len(raw), func() string { return d() + fmt.Sprintf(" NewMerkleBlockWithFilter(%x)", raw) }, func() {
				_, _ = merkleblock.NewMerkleBlockWithFilter(blk, f)
			}) {
				return
			}
			m.run("merkleblock.NewMerkleBlockWithTxnSet", n+9+len(raw), func() string { return d() + fmt.Sprintf(" NewMerkleBlockWithTxnSet(%x)", raw) }, func() {
				_, _ = merkleblock.NewMerkleBlockWithTxnSet(blk, []*chainhash.Hash{&h})
			})
		}
	}
	if !m.run("bloom.Filter.Reload", n+9, d, func() { f.Reload(msg); f.Unload(); _ = f.Matches(data); f.Add(data); _ = f.MatchTxAndUpdate(tx) }) {
		return
	}
	// the same object lives on: a peer sends further filterload messages
	// (another size, empty, full, none), each followed by queries
	prev := "unloaded"
	for life := 0; life < 3; life++ {
		msg2, n2 := c08bloomMsg(r, r.Intn(50))
		d2 := func() string {
			if msg2 == nil {
				return fmt.Sprintf("%s; then (state: %s) Reload(nil)", d(), prev)
			}
			return fmt.Sprintf("%s; then (state: %s) Reload{len(Filter)=%d HashFuncs=%d Tweak=%d Flags=%d}", d(), prev, len(msg2.Filter), msg2.HashFuncs, msg2.Tweak, msg2.Flags)
		}
		c.Inc("bloom/reloads_of_a_used_filter_object")
		if msg2 != nil && n2 == 0 {
			c.Inc("bloom/reloads_with_empty_filter")
		}
		if !m.run("bloom.Filter.Reload", n2+9, d2, func() { f.Reload(msg2) }) {
			return
		}
		if !m.run("bloom.Filter.Matches", n2+9+len(data), d2, func() { _ = f.Matches(data); _ = f.MatchesOutPoint(op) }) {
			return
		}
		if !m.run("bloom.Filter.MatchTxAndUpdate", n2+9+txLen, d2, func() { _ = f.MatchTxAndUpdate(tx) }) {
			return
		}
		if !m.run("bloom.Filter.Add", n2+9+len(data)+68, d2, func() { f.Add(data); f.AddHash(&h); f.AddOutPoint(op) }) {
			return
		}
		prev = fmt.Sprintf("%d-byte filter loaded", n2)
		if msg2 == nil {
			prev = "none loaded"
		}
	}
}

// ------------------------------------------------------------ merkle block

func c08exercisePartial(pb *merkleblock.PartialBlock) {
	_ = pb.ExtractMatches()
	_ = pb.GetMatches()
	_ = pb.GetItems()
	_ = pb.BadTree()
}

func c08merkleCase(c *vf.Ctx, i int) {
	m := newC08mon(c)
	defer m.done()
	if i%3 == 0 {
		raw := c08merkleBytes(c.R)
		c.Nontrivial(vf.HashBytes(raw))
		var msg wire.MsgMerkleBlock
		var derr error
		// decoding the wire message is bchd's job, not an entry point of
		// bchutil: no monitor on this call, it only prepares the input
		func() {
			defer func() {
				if recover() != nil {
					derr = fmt.Errorf("wire decode panicked")
				}
			}()
			derr = msg.BchDecode(bytes.NewReader(raw), wire.ProtocolVersion, wire.BaseEncoding)
		}()
		if derr != nil {
			c.Inc("merkle/wire-decode-rejected")
			return
		}
		c.Inc("merkle/wire-decoded")
		m.run("merkleblock.ExtractMatches", len(raw), func() string { return "wire bytes " + hx(raw) }, func() { c08exercisePartial(merkleblock.NewMerkleBlockFromMsg(msg)) })
		return
	}
	if i%3 == 1 && i%2 == 0 {
		// a well-formed sparse proof (hashes of pruned branches are arbitrary) for
		// MANY matched leaves under a claimed transaction count of any size: a
		// few kilobytes of input, whatever the claim; honest extraction costs
		// two to three times the message size
		r := c.R
		max := wire.MaxBlockPayload() / 61
		count := []uint32{128, 1 << 10, 1 << 16, 1 << 17, 1 << 20, 1<<21 + 1, max - 1, max}[r.Intn(8)]
		if r.Chance(1, 4) {
			count = 2 + uint32(r.Intn(int(max)-2))
		}
		k := []int{1, 2, 8, 64, 65, 66, 100, 255, 256, 300}[r.Intn(10)]
		targets := make([]uint32, 0, k)
		if r.Bool() { // clustered: few hashes
			base := uint32(r.Intn(int(count)))
			for j := 0; j < k; j++ {
				targets = append(targets, (base+uint32(j))%count)
			}
		} else {
			for j := 0; j < k; j++ {
				targets = append(targets, uint32(r.Intn(int(count))))
			}
		}
		hashes, flags := c12virtualProof(r, count, targets, 0)
		msg := wire.MsgMerkleBlock{Transactions: count, Flags: flags}
		copy(msg.Header.PrevBlock[:], r.Bytes(32))
		for j := range hashes {
			hh := chainhash.Hash(hashes[j])
			msg.Hashes = append(msg.Hashes, &hh)
		}
		size := 84 + 32*len(hashes) + len(flags)
		c.Nontrivial(vf.Mix(uint64(count), uint64(len(hashes)), vf.HashBytes(flags)))
		c.Inc("merkle/sparse-proof-many-matches")
		if count >= 1<<20 && k >= 65 {
			c.Inc("merkle/sparse-proof-65+matches-under-count>=2^20")
		}
		m.runBound("merkleblock.ExtractMatches", 256<<10+64*uint64(size), "256 KiB + 64 bytes per input byte (well-formed sparse proof)", size, func() string {
			return fmt.Sprintf("MsgMerkleBlock{Transactions:%d, len(Hashes):%d, Flags:%x} (sparse proof for %d leaves)", count, len(hashes), flags, k)
		}, func() { c08exercisePartial(merkleblock.NewMerkleBlockFromMsg(msg)) })
		return
	}
	msg, size := c08merkleMsg(c.R)
	c.Nontrivial(vf.Mix(uint64(msg.Transactions), uint64(len(msg.Hashes)), vf.HashBytes(msg.Flags)))
	hasNil := false
	for _, h := range msg.Hashes {
		if h == nil {
			hasNil = true
		}
	}
	if hasNil {
		// wire never produces nil hashes; a nil pointer is not "externally supplied data"
		c.Inc("merkle/struct-with-nil-hash-skipped")
		return
	}
	c.Inc("merkle/struct-built")
	m.run("merkleblock.ExtractMatches", size, func() string {
		return fmt.Sprintf("MsgMerkleBlock{Transactions:%d, len(Hashes):%d, Flags:%x}", msg.Transactions, len(msg.Hashes), msg.Flags)
	}, func() { c08exercisePartial(merkleblock.NewMerkleBlockFromMsg(*msg)) })
}

// ------------------------------------------------------------ gcs

func c08gcsCase(c *vf.Ctx, i int) {
	m := newC08mon(c)
	defer m.done()
	r := c.R
	body := r.Bytes(r.SkewLen(64))
	switch r.Intn(4) {
	case 0:
		for k := range body {
			body[k] = 0xff
		}
	case 1:
		for k := range body {
			body[k] = 0
		}
	}
	P := uint8(r.Intn(41))
	if r.Bool() {
		P = uint8(r.Intn(33))
	}
	M := []uint64{0, 1, 2, 784931, 1 << 19, 1 << 32, 1 << 63, ^uint64(0)}[r.Intn(8)]
	N := []uint32{0, 1, 2, uint32(r.Intn(100)), 1 << 16, 1 << 20, 1 << 24, 1<<32 - 1, 1 << 31}[r.Intn(9)]
	var key [16]byte
	copy(key[:], r.Bytes(16))
	c.Nontrivial(vf.Mix(uint64(P), M, uint64(N), vf.HashBytes(body)))
	nq := r.Intn(6)
	var qs [][]byte
	ql := 0
	for k := 0; k < nq; k++ {
		q := r.Bytes(r.Intn(20))
		qs = append(qs, q)
		ql += len(q)
	}
	d := func() string { return fmt.Sprintf("N=%d P=%d M=%d body=%x queries=%x", N, P, M, body, qs) }
	var f *gcs.Filter
	var err error
	if i%2 == 0 {
		m.run("gcs.FromBytes", len(body)+13, d, func() { f, err = gcs.FromBytes(N, P, M, body) })
	} else {
		nb := append(refCompact(uint64(N), r), body...)
		m.run("gcs.FromNBytes", len(nb)+9, func() string { return fmt.Sprintf("P=%d M=%d nbytes=%x", P, M, nb) }, func() { f, err = gcs.FromNBytes(P, M, nb) })
	}
	if err != nil || f == nil {
		c.Inc("gcs/rejected")
		return
	}
	c.Inc("gcs/parsed")
	if uint64(N) > uint64(len(body))*8 {
		c.Inc("gcs/parsed-with-N-claim-exceeding-bitstream")
	}
	in := len(body) + 13 + ql
	m.run("gcs.Filter.serialise", in, d, func() {
		_, _ = f.Bytes()
		_, _ = f.NBytes()
		_, _ = f.PBytes()
		_, _ = f.NPBytes()
		_ = f.N()
		_ = f.P()
	})
	one := r.Bytes(r.Intn(20))
	m.run("gcs.Filter.Match", in+len(one), d, func() { _, _ = f.Match(key, one) })
	m.run("gcs.Filter.MatchAny", in, d, func() { _, _ = f.MatchAny(key, qs) })
	m.run("gcs.Filter.ZipMatchAny", in, d, func() { _, _ = f.ZipMatchAny(key, qs) })
	m.run("gcs.Filter.HashMatchAny", in, d, func() { _, _ = f.HashMatchAny(key, qs) })
}

func refCompact(n uint64, r *vf.Rand) []byte {
	// sometimes a non-canonical or oversized CompactSize
	switch r.Intn(6) {
	case 0:
		return []byte{0xff, byte(n), byte(n >> 8), byte(n >> 16), byte(n >> 24), 0, 0, 0, 1}
	case 1:
		return []byte{0xfe, byte(n), byte(n >> 8), byte(n >> 16), byte(n >> 24)}
	}
	switch {
	case n < 0xfd:
		return []byte{byte(n)}
	case n <= 0xffff:
		return []byte{0xfd, byte(n), byte(n >> 8)}
	}
	return []byte{0xfe, byte(n), byte(n >> 8), byte(n >> 16), byte(n >> 24)}
}

// ------------------------------------------------------------ jsonpb

func c08jsonTargets() []func() proto.Message {
	return []func() proto.Message{
		func() proto.Message { return &testpb.GetBlockRequest{} },
		func() proto.Message { return &testpb.Transaction{} },
		func() proto.Message { return &testpb.GetAddressTransactionsRequest{} },
		func() proto.Message { return &testpb.TransactionFilter{} },
		func() proto.Message { return &testpb.Block{} },
		func() proto.Message { return &testpb.GetHeadersRequest{} },
	}
}

func c08jsonCase(c *vf.Ctx, i int) {
	m := newC08mon(c)
	defer m.done()
	s, class := c08json(c.R, i)
	c.Inc("class/" + class)
	c.Nontrivial(vf.HashString(s))
	ts := c08jsonTargets()
	mk := ts[c.R.Intn(len(ts))]
	m.run("jsonpb.Unmarshal", len(s), func() string { return short(s) + " (class " + class + ")" }, func() {
		if err := jsonpb.Unmarshal(strings.NewReader(s), mk()); err == nil {
			c.Inc("accepted/jsonpb.Unmarshal")
		}
	})
	if c.WantSample() {
		c.Sample(map[string]string{"json": short(s), "class": class})
	}
}

// ------------------------------------------------------------ time growth ladders

type c08ladder struct {
	name string
	n0   int
	mk   func(n int) func() // builds the input of size n and returns the call
}

// c08denseBlock builds a block of n transactions listed children first.
// complete=false: transaction k spends outputs 0 and 1 of transaction k+1.
// complete=true: transaction k spends output k of every later transaction,
// and only the last one carries the watched push aa bb cc.
func c08denseBlock(n int, complete bool) *bchutil.Block {
	txs := make([]*wire.MsgTx, n)
	for k := n - 1; k >= 0; k-- { // parents (high k) first, so that ids exist
		m := wire.NewMsgTx(1)
		m.LockTime = uint32(k)
		switch {
		case k == n-1:
			m.AddTxIn(wire.NewTxIn(wire.NewOutPoint(&chainhash.Hash{1}, 0), nil))
		case complete:
			for p := k + 1; p < n; p++ {
				h := txs[p].TxHash()
				m.AddTxIn(wire.NewTxIn(wire.NewOutPoint(&h, uint32(k)), nil))
			}
		default:
			h := txs[k+1].TxHash()
			m.AddTxIn(wire.NewTxIn(wire.NewOutPoint(&h, 0), nil))
			m.AddTxIn(wire.NewTxIn(wire.NewOutPoint(&h, 1), nil))
		}
		nout := 2
		if complete {
			nout = n
		}
		for j := 0; j < nout; j++ {
			script := []byte{0x51}
			if complete && k == n-1 {
				script = []byte{3, 0xaa, 0xbb, 0xcc}
			}
			m.AddTxOut(wire.NewTxOut(int64(j+1), script, wire.TokenData{}))
		}
		txs[k] = m
	}
	blk := wire.NewMsgBlock(&wire.BlockHeader{})
	for k := 0; k < n; k++ {
		blk.AddTransaction(txs[k])
	}
	return bchutil.NewBlock(blk)
}

func c08ladders() []c08ladder {
	rep := strings.Repeat
	net := allNets[0].P
	return []c08ladder{
		{"base58.Decode/all-1", 1500, func(n int) func() { s := rep("1", n); return func() { base58.Decode(s) } }},
		{"base58.Decode/all-z", 1500, func(n int) func() { s := rep("z", n); return func() { base58.Decode(s) } }},
		{"base58.CheckDecode/all-z", 1500, func(n int) func() { s := rep("z", n); return func() { base58.CheckDecode(s) } }},
		{"DecodeWIF/all-z", 1500, func(n int) func() { s := rep("z", n); return func() { bchutil.DecodeWIF(s) } }},
		{"hdkeychain.NewKeyFromString/all-z", 1500, func(n int) func() { s := rep("z", n); return func() { hdkeychain.NewKeyFromString(s) } }},
		{"DecodeCashAddress/long-prefix", 4000, func(n int) func() {
			s := rep("a", n) + ":qqqqqqqqqq"
			return func() { bchutil.DecodeCashAddress(s) }
		}},
		{"DecodeCashAddress/long-payload", 4000, func(n int) func() {
			s := "p:" + rep("q", n)
			return func() { bchutil.DecodeCashAddress(s) }
		}},
		{"DecodeAddress/long-bare", 4000, func(n int) func() { s := rep("q", n); return func() { bchutil.DecodeAddress(s, net) } }},
		{"DecodeAddress/long-base58", 1500, func(n int) func() { s := rep("z", n); return func() { bchutil.DecodeAddress(s, net) } }},
		{"bech32.ConvertBits/8to5", 20000, func(n int) func() {
			d := bytes.Repeat([]byte{0xa5}, n)
			return func() { bech32.ConvertBits(d, 8, 5, true) }
		}},
		{"jsonpb.Unmarshal/wide-array", 2000, func(n int) func() {
			s := `{"a":[` + rep(`"aa",`, n) + `"aa"]}`
			return func() { jsonpb.Unmarshal(strings.NewReader(s), &testpb.GetBlockRequest{}) }
		}},
		{"jsonpb.Unmarshal/deep", 1000, func(n int) func() {
			s := rep(`{"a":`, n) + `"aa"` + rep("}", n)
			return func() { jsonpb.Unmarshal(strings.NewReader(s), &testpb.GetBlockRequest{}) }
		}},
		{"gcs.Match/unary-run", 4000, func(n int) func() {
			body := bytes.Repeat([]byte{0xff}, n)
			var key [16]byte
			return func() {
				if f, err := gcs.FromBytes(1<<32-1, 0, 1, body); err == nil {
					f.Match(key, []byte("x"))
					f.ZipMatchAny(key, [][]byte{[]byte("x"), []byte("y")})
				}
			}
		}},
		{"gcs.Match/many-values", 4000, func(n int) func() {
			body := bytes.Repeat([]byte{0x00}, n)
			var key [16]byte
			return func() {
				if f, err := gcs.FromBytes(uint32(n*8), 0, 784931, body); err == nil {
					f.Match(key, []byte("x"))
					f.ZipMatchAny(key, [][]byte{[]byte("x"), []byte("y")})
				}
			}
		}},
		{"merkleblock.ExtractMatches/many-hashes", 2000, func(n int) func() {
			msg := wire.MsgMerkleBlock{Transactions: uint32(n)}
			for i := 0; i < n; i++ {
				var h chainhash.Hash
				h[0], h[1], h[2] = byte(i), byte(i>>8), byte(i>>16)
				msg.Hashes = append(msg.Hashes, &h)
			}
			msg.Flags = bytes.Repeat([]byte{0xff}, n/2)
			return func() { merkleblock.NewMerkleBlockFromMsg(msg).ExtractMatches() }
		}},
		{"bloom.MatchTxAndUpdate/many-outputs", 500, func(n int) func() {
			tx := wire.NewMsgTx(1)
			for i := 0; i < n; i++ {
				tx.AddTxOut(wire.NewTxOut(1, []byte{0x01, byte(i)}, wire.TokenData{}))
			}
			t := bchutil.NewTx(tx)
			msg := wire.NewMsgFilterLoad(bytes.Repeat([]byte{0xff}, 64), 50, 0, wire.BloomUpdateAll)
			return func() { bloom.LoadFilter(msg).MatchTxAndUpdate(t) }
		}},
		{"bloom.NewMerkleBlock/spend-chain-children-first", 2, func(n int) func() {
			// every transaction spends two outputs of the next one in the block
			// (children listed first); the filter matches everything
			blk := c08denseBlock(n, false)
			return func() {
				bloom.NewMerkleBlock(blk, bloom.LoadFilter(wire.NewMsgFilterLoad([]byte{0xff}, 1, 0, wire.BloomUpdateAll)))
			}
		}},
		{"merkleblock.NewMerkleBlockWithFilter/complete-spend-graph-children-first", 2, func(n int) func() {
			// every transaction spends one output of every later one in the block;
			// only the last one pays to the watched element, everything else
			// becomes relevant through outpoints inserted during the scan
			blk := c08denseBlock(n, true)
			return func() {
				f := bloom.NewFilter(1000, 7, 1e-6, wire.BloomUpdateAll)
				f.Add([]byte{0xaa, 0xbb, 0xcc})
				merkleblock.NewMerkleBlockWithFilter(blk, f)
			}
		}},
		{"NewBlockFromBytes/many-txs", 500, func(n int) func() {
			var hdr wire.BlockHeader
			blk := wire.NewMsgBlock(&hdr)
			for i := 0; i < n; i++ {
				tx := wire.NewMsgTx(1)
				tx.AddTxOut(wire.NewTxOut(int64(i), []byte{0x51}, wire.TokenData{}))
				blk.AddTransaction(tx)
			}
			var buf bytes.Buffer
			blk.Serialize(&buf)
			raw := buf.Bytes()
			return func() {
				if b, err := bchutil.NewBlockFromBytes(raw); err == nil {
					b.Transactions()
					b.TxLoc()
				}
			}
		}},
	}
}

func c08timeOnce(f func()) time.Duration {
	best := time.Duration(1<<62 - 1)
	for k := 0; k < 3; k++ {
		t0 := time.Now()
		f()
		if d := time.Since(t0); d < best {
			best = d
		}
	}
	return best
}

func c08ladderCase(c *vf.Ctx, i int) {
	ls := c08ladders()
	l := ls[i%len(ls)]
	scale := 1
	if c.Tier == vf.Thorough {
		scale = 1 + (i/len(ls))%3
	}
	n0 := l.n0 * scale
	var ts [4]time.Duration
	measure := func() {
		for k := 0; k < 4; k++ {
			f := l.mk(n0 << uint(k))
			ok := c.Call("ladder/"+l.name, func() string { return fmt.Sprintf("size %d", n0<<uint(k)) }, func() { ts[k] = c08timeOnce(f) })
			if !ok {
				return
			}
		}
	}
	measure()
	c.Evals(4)
	c.Nontrivial(vf.Mix(30, uint64(i%len(ls)), uint64(scale)))
	ratio := float64(ts[3]) / float64(ts[0]+1)
	c.SetExtra("ladder/"+l.name, fmt.Sprintf("n=%d..%d t=%v %v %v %v ratio(8n/n)=%.1f", n0, n0*8, ts[0], ts[1], ts[2], ts[3], ratio))
	limit := func() bool { return ts[3] > 256*ts[0]+50*time.Millisecond }
	if limit() {
		// confirm with a second, independent measurement before deciding
		measure()
		if limit() {
			c.Failf("time-growth/"+l.name, "time grows faster than quadratically in the input length: sizes n=%d,2n,4n,8n took %v %v %v %v (t(8n)/t(n) = %.0f; quadratic gives 64, the alarm threshold is 256 plus 50 ms)", n0, ts[0], ts[1], ts[2], ts[3], float64(ts[3])/float64(ts[0]+1))
		} else {
			c.Inconclusive("time-growth-not-confirmed/" + l.name)
		}
	}
	if c.WantSample() {
		c.Sample(map[string]string{"ladder": l.name, "times": fmt.Sprintf("%v", ts)})
	}
}

// c08childInit keeps garbage from accumulating between cases so that one
// case's allocation is not refused because of another case's leftovers.
func c08childInit(t vf.Tier, seed uint64) any {
	debug.SetMemoryLimit(1 << 30)
	return nil
}

func init() {
	const as = 6 << 30
	serial := func(name string, q, t int, run func(*vf.Ctx, int)) *vf.Stream {
		return &vf.Stream{Name: name, Workers: 1, Shards: 8, RlimitAS: as, MaxCaseSec: 30, Run: run, Init: c08childInit, N: func(tt vf.Tier) int { return tt.Sz(q, t) }}
	}
	_ = sort.Ints
	register(&vf.Property{
		ID:    "C08",
		Title: "No parser panics, hangs or over-allocates on untrusted input",
		Rule: "structure-aware hostile inputs per entry point: strings with VALID CashAddr checksums over arbitrary symbol lists (incl. fewer than 8 symbols, prefix solved by GF(2) elimination), mutated addresses, Base58Check with valid checksums over all versions/lengths (WIF- and xkey-shaped), public-key hex, bech32, junk, each fed to every string parser on every net; " +
			"mutated serialised blocks/transactions (truncation, bit flips, maximal varint claims); bloom filter-load messages within the wire limits (incl. empty filter, 0..50 hash functions, every flag byte) with hostile scripts; merkle-block messages built as structs and decoded by wire from hostile bytes; GCS filters with N/P/M claims far beyond the bit stream and all four queries; JSON with heterogeneous arrays / deep nesting for several protobuf messages. " +
			"Every call runs under a panic monitor, a per-call heap-allocation monitor (bound 1 MiB + 64 KiB per input byte, one case goroutine per child process, excess attributed to its allocation site) and the supervisor's process-fatal/hang monitors (RLIMIT_AS 6 GiB); size ladders n..8n check that time grows at most quadratically. distinct_nontrivial counts distinct inputs.",
		Assumptions: []string{
			"'allocates memory proportional to the input' is decided as: bytes allocated during the call <= 1 MiB + 64 KiB x input length (the largest legitimate ratio observed is reported in coverage.observations)",
			"'at most quadratic' is decided on worst-case families as t(8n) <= 256 t(n) + 50 ms, min of 3, confirmed twice; 'never hangs' as: returned within 150 s in the batch and 600 s alone",
			"nil pointers inside hand-built wire structs are not externally supplied data and are not generated",
		},
		Streams: []*vf.Stream{
			serial("strings", 60000, 600000, c08stringCase),
			serial("convertbits", 20000, 400000, c08convertBitsCase),
			serial("blocks-txs", 20000, 150000, c08blockCase),
			serial("bloom", 60000, 400000, c08bloomCase),
			serial("merkle", 80000, 800000, c08merkleCase),
			serial("gcs", 90000, 600000, c08gcsCase),
			serial("jsonpb", 50000, 400000, c08jsonCase),
			{Name: "time-ladders", Workers: 1, Shards: 4, MaxCaseSec: 120, RlimitAS: as, Run: c08ladderCase, Init: c08childInit,
				N: func(t vf.Tier) int { return len(c08ladders()) * t.Sz(1, 3) }},
		},
	})
}
