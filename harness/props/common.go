package props

import (
	"bytes"
	"encoding/hex"
	"fmt"
	"math/big"
	"strings"

	"github.com/gcash/bchd/chaincfg"

	"verif/internal/ref"
	"verif/internal/vf"
)

type netInfo struct {
	Name string
	P    *chaincfg.Params
}

// allNets are the six networks of the quantifier.
var allNets = []netInfo{
	{"mainnet", &chaincfg.MainNetParams},
	{"testnet3", &chaincfg.TestNet3Params},
	{"testnet4", &chaincfg.TestNet4Params},
	{"chipnet", &chaincfg.ChipNetParams},
	{"regtest", &chaincfg.RegressionNetParams},
	{"simnet", &chaincfg.SimNetParams},
}

func hx(b []byte) string { return hex.EncodeToString(b) }

func asciiUpper(s string) string {
	b := []byte(s)
	for i, c := range b {
		if c >= 'a' && c <= 'z' {
			b[i] = c - 32
		}
	}
	return string(b)
}

func asciiLower(s string) string {
	b := []byte(s)
	for i, c := range b {
		if c >= 'A' && c <= 'Z' {
			b[i] = c + 32
		}
	}
	return string(b)
}

// directedHash returns the i-th directed hash of n bytes, or nil when the
// directed list is exhausted (then callers draw random ones).
func directedHash(i, n int) []byte {
	h := make([]byte, n)
	switch {
	case i == 0:
		return h
	case i == 1:
		for j := range h {
			h[j] = 0xff
		}
		return h
	case i >= 2 && i < 2+n-1: // 1..n-1 leading zero bytes then 0xff
		z := i - 1
		for j := z; j < n; j++ {
			h[j] = 0xa5
		}
		return h
	case i >= 1+n && i < 1+n+8*n: // each single bit
		b := i - (1 + n)
		h[b/8] = 0x80 >> uint(b%8)
		return h
	case i >= 1+n+8*n && i < 1+n+16*n: // each single zero bit
		b := i - (1 + n + 8*n)
		for j := range h {
			h[j] = 0xff
		}
		h[b/8] ^= 0x80 >> uint(b%8)
		return h
	}
	return nil
}

func directedHashCount(n int) int { return 1 + n + 16*n }

func randHash(r *vf.Rand, n int) []byte {
	h := r.Bytes(n)
	switch r.Intn(6) {
	case 0: // leading zeros
		z := r.Intn(n)
		for j := 0; j < z; j++ {
			h[j] = 0
		}
	case 1: // trailing bits pattern (they land next to the padding)
		h[n-1] = []byte{0x00, 0x01, 0x03, 0x80, 0xff, 0x7f}[r.Intn(6)]
	}
	return h
}

func eqBytes(a, b []byte) bool { return bytes.Equal(a, b) }

func short(s string) string {
	if len(s) > 300 {
		return s[:300] + fmt.Sprintf("…(%d bytes)", len(s))
	}
	return s
}

func q(s string) string { return fmt.Sprintf("%q", s) }

var _ = strings.ToLower

// b58ZeroRunBody returns a Base58Check body (the bytes before the 4-byte
// checksum) of bodyLen bytes that starts with the fixed bytes `fixed` and whose
// complete encoding Base58(body || sha256d(body)[:4]) contains a run of ten
// '1' characters (zero digits) at digit positions [k1, k1+10) counted from the
// end of the string, k1 >= 7.  A decoder that folds digits in chunks meets an
// all-zero chunk in the MIDDLE of the number there.  lowByte >= 0 additionally
// forces the last body byte (e.g. the WIF compression marker).  Construction:
// N = body*2^32 + checksum must lie in [A*58^(k1+10), A*58^(k1+10) + 58^k1);
// the checksum is below 2^32 and 58^k1 > 2^40, so any body in a window of at
// least 256 consecutive values works, whatever its checksum turns out to be.
func b58ZeroRunBody(r *vf.Rand, fixed []byte, bodyLen, k1, lowByte int) ([]byte, bool) {
	if k1 < 7 || bodyLen <= len(fixed)+8 {
		return nil, false
	}
	body := r.Bytes(bodyLen)
	copy(body, fixed)
	v0 := new(big.Int).SetBytes(body)
	two32 := new(big.Int).Lsh(big.NewInt(1), 32)
	p2 := new(big.Int).Exp(big.NewInt(58), big.NewInt(int64(k1+10)), nil)
	p1 := new(big.Int).Exp(big.NewInt(58), big.NewInt(int64(k1)), nil)
	n0 := new(big.Int).Mul(v0, two32)
	a := new(big.Int).Div(n0, p2)
	lo := new(big.Int).Mul(a, p2) // A*58^k2
	// smallest V with V*2^32 >= lo
	v := new(big.Int).Add(lo, new(big.Int).Sub(two32, big.NewInt(1)))
	v.Div(v, two32)
	if lowByte >= 0 {
		// next value with the required low byte
		cur := int(new(big.Int).And(v, big.NewInt(255)).Int64())
		v.Add(v, big.NewInt(int64((lowByte-cur+256)%256)))
	}
	// check the window: V*2^32 + (2^32-1) < lo + 58^k1
	hi := new(big.Int).Mul(v, two32)
	hi.Add(hi, two32)
	if hi.Cmp(new(big.Int).Add(lo, p1)) > 0 {
		return nil, false
	}
	out := v.Bytes()
	if len(out) > bodyLen {
		return nil, false
	}
	res := make([]byte, bodyLen)
	copy(res[bodyLen-len(out):], out)
	for i := range fixed {
		if res[i] != fixed[i] {
			return nil, false // the rounding carried into the fixed prefix
		}
	}
	return res, true
}

// specialScalar returns a secp256k1 private scalar whose public point is
// structurally unusual: k = 1/2 mod n and its negation have an x coordinate of
// only 166 bits (90 leading zero bits; nothing comparable is reachable by
// random generation: a coordinate below 2^192 has probability 2^-64).
func specialScalar(which int) *big.Int {
	k := new(big.Int).Add(ref.SecN, big.NewInt(1))
	k.Rsh(k, 1) // (n+1)/2 = 1/2 mod n
	if which&1 == 1 {
		k.Sub(ref.SecN, k)
	}
	return k
}
