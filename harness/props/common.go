package props

import (
	"bytes"
	"encoding/hex"
	"fmt"
	"strings"

	"github.com/gcash/bchd/chaincfg"

	"verif/internal/vf"
)

type netInfo struct {
	Name string
	P    *chaincfg.Params
}

// allNets are the six networks of the quantifier.
var allNets = []netInfo{
	{"mainnet", &chaincfg.MainNetParams},
	{"testnet3", &chaincfg.TestNet3Params},
	{"testnet4", &chaincfg.TestNet4Params},
	{"chipnet", &chaincfg.ChipNetParams},
	{"regtest", &chaincfg.RegressionNetParams},
	{"simnet", &chaincfg.SimNetParams},
}

func hx(b []byte) string { return hex.EncodeToString(b) }

func asciiUpper(s string) string {
	b := []byte(s)
	for i, c := range b {
		if c >= 'a' && c <= 'z' {
			b[i] = c - 32
		}
	}
	return string(b)
}

func asciiLower(s string) string {
	b := []byte(s)
	for i, c := range b {
		if c >= 'A' && c <= 'Z' {
			b[i] = c + 32
		}
	}
	return string(b)
}

// directedHash returns the i-th directed hash of n bytes, or nil when the
// directed list is exhausted (then callers draw random ones).
func directedHash(i, n int) []byte {
	h := make([]byte, n)
	switch {
	case i == 0:
		return h
	case i == 1:
		for j := range h {
			h[j] = 0xff
		}
		return h
	case i >= 2 && i < 2+n-1: // 1..n-1 leading zero bytes then 0xff
		z := i - 1
		for j := z; j < n; j++ {
			h[j] = 0xa5
		}
		return h
	case i >= 1+n && i < 1+n+8*n: // each single bit
		b := i - (1 + n)
		h[b/8] = 0x80 >> uint(b%8)
		return h
	case i >= 1+n+8*n && i < 1+n+16*n: // each single zero bit
		b := i - (1 + n + 8*n)
		for j := range h {
			h[j] = 0xff
		}
		h[b/8] ^= 0x80 >> uint(b%8)
		return h
	}
	return nil
}

func directedHashCount(n int) int { return 1 + n + 16*n }

func randHash(r *vf.Rand, n int) []byte {
	h := r.Bytes(n)
	switch r.Intn(6) {
	case 0: // leading zeros
		z := r.Intn(n)
		for j := 0; j < z; j++ {
			h[j] = 0
		}
	case 1: // trailing bits pattern (they land next to the padding)
		h[n-1] = []byte{0x00, 0x01, 0x03, 0x80, 0xff, 0x7f}[r.Intn(6)]
	}
	return h
}

func eqBytes(a, b []byte) bool { return bytes.Equal(a, b) }

func short(s string) string {
	if len(s) > 300 {
		return s[:300] + fmt.Sprintf("…(%d bytes)", len(s))
	}
	return s
}

func q(s string) string { return fmt.Sprintf("%q", s) }

var _ = strings.ToLower
