package props

import (
	"crypto/sha256"
	"fmt"
	"math/big"
	"strings"
	"sync"
	"unsafe"

	"github.com/gcash/bchutil/base58"
	"github.com/gcash/bchutil/bech32"

	"verif/internal/ref"
	"verif/internal/vf"
)

// C07 — Base58 / Base58Check / bech32 are exact, strict, side-effect-free
// inverses.
//
// Oracle: own Base58 / Base58Check / BIP173 references (internal/ref).  For
// ConvertBits the BIP173 convertbits function is the oracle only for 8->5 and
// 5->8; for every other (from,to) in 1..8 x 1..8 only the regrouping rule is
// asserted (no panic; on success the output groups are the input bit string,
// zero padded when pad is set, and without pad the dropped bits are zero).
// Purity is observed twice: by a before/after comparison of the whole backing
// buffer of every argument (canary) and by the race detector on G goroutines
// that call the same function on the same argument memory.

// ---------------------------------------------------------------------------
// wrapped calls into the code under test

func c07b58Encode(c *vf.Ctx, b []byte) (s string, ok bool) {
	ok = c.Call("base58.Encode", func() string { return hx(b) }, func() { s = base58.Encode(b) })
	return
}

func c07b58Decode(c *vf.Ctx, s string) (b []byte, ok bool) {
	ok = c.Call("base58.Decode", func() string { return q(s) }, func() { b = base58.Decode(s) })
	return
}

func c07b58CheckEncode(c *vf.Ctx, b []byte, v byte) (s string, ok bool) {
	ok = c.Call("base58.CheckEncode", func() string { return fmt.Sprintf("version=%#02x payload=%x", v, b) }, func() { s = base58.CheckEncode(b, v) })
	return
}

func c07b58CheckDecode(c *vf.Ctx, s string) (b []byte, v byte, err error, ok bool) {
	ok = c.Call("base58.CheckDecode", func() string { return q(s) }, func() { b, v, err = base58.CheckDecode(s) })
	return
}

func c07bechEncode(c *vf.Ctx, hrp string, data []byte) (s string, err error, ok bool) {
	ok = c.Call("bech32.Encode", func() string { return fmt.Sprintf("hrp=%q data=%x", hrp, data) }, func() { s, err = bech32.Encode(hrp, data) })
	return
}

func c07bechDecode(c *vf.Ctx, s string) (hrp string, data []byte, err error, ok bool) {
	ok = c.Call("bech32.Decode", func() string { return q(s) }, func() { hrp, data, err = bech32.Decode(s) })
	return
}

func c07convert(c *vf.Ctx, data []byte, from, to uint8, pad bool) (out []byte, err error, ok bool) {
	ok = c.Call("bech32.ConvertBits", func() string { return fmt.Sprintf("data=%x from=%d to=%d pad=%v", data, from, to, pad) },
		func() { out, err = bech32.ConvertBits(data, from, to, pad) })
	return
}

// ---------------------------------------------------------------------------
// Base58 / Base58Check oracles

func c07zeroClass(c *vf.Ctx, b []byte) {
	z := 0
	for z < len(b) && b[z] == 0 {
		z++
	}
	switch {
	case len(b) == 0:
		c.Inc("bytes_empty")
	case z == len(b):
		c.Inc("bytes_all_zero")
	case z > 0:
		c.Inc("bytes_with_leading_zeros")
	}
}

// c07checkBytes: Encode(b) is the reference string, Decode of it is b again,
// CheckEncode(b, version) is the reference string and CheckDecode of it
// returns exactly (b, version).
func c07checkBytes(c *vf.Ctx, b []byte, version byte) {
	c07zeroClass(c, b)
	c.Nontrivial(vf.Mix(0x0701, vf.HashBytes(b), uint64(version)))
	want := ref.B58Encode(b)
	if enc, ok := c07b58Encode(c, b); ok {
		c.Evals(1)
		if enc != want {
			c.Failf("base58.Encode/value", "Encode(%x)=%q, reference %q", b, enc, want)
			// the round trip through the library's own string
			if dec, ok := c07b58Decode(c, enc); ok && !eqBytes(dec, b) {
				c.Failf("base58.Decode/roundtrip", "Decode(Encode(%x))=%x (Encode gave %q)", b, dec, enc)
			}
		}
	}
	if dec, ok := c07b58Decode(c, want); ok {
		c.Evals(1)
		if !eqBytes(dec, b) {
			c.Failf("base58.Decode/value", "Decode(%q)=%x, want %x", want, dec, b)
		}
	}
	wantC := ref.B58CheckEncode(version, b)
	if enc, ok := c07b58CheckEncode(c, b, version); ok {
		c.Evals(1)
		if enc != wantC {
			c.Failf("base58.CheckEncode/value", "CheckEncode(%x, %#02x)=%q, reference %q", b, version, enc, wantC)
		}
	}
	c07checkCheckDecode(c, wantC, "valid")
}

// c07checkCheckDecode: CheckDecode(s) accepts iff the reference does and then
// returns the reference's (version, payload).
func c07checkCheckDecode(c *vf.Ctx, s, class string) {
	wv, wp, wok := ref.B58CheckDecode(s)
	got, gv, err, ok := c07b58CheckDecode(c, s)
	if !ok {
		return
	}
	c.Evals(1)
	switch {
	case wok && err != nil:
		c.Failf("base58.CheckDecode/rejected-valid", "class=%s: CheckDecode(%q) failed with %v; reference decodes version=%#02x payload=%x", class, s, err, wv, wp)
	case !wok && err == nil:
		c.Failf("base58.CheckDecode/accepted-invalid", "class=%s: CheckDecode(%q) accepted (version=%#02x payload=%x); the reference rejects it (raw decode %x)", class, s, gv, got, c07rawDecode(s))
	case wok:
		c.Inc("check_accepted/" + class)
		if gv != wv || !eqBytes(got, wp) {
			c.Failf("base58.CheckDecode/value", "class=%s: CheckDecode(%q)=(version %#02x, payload %x), encoded were (version %#02x, payload %x)", class, s, gv, got, wv, wp)
		}
	default:
		c.Inc("check_rejected/" + class)
	}
}

func c07rawDecode(s string) []byte { b, _ := ref.B58Decode(s); return b }

// c07checkString: Decode(s) is the reference value (empty when s contains a
// foreign byte) and, for s over the alphabet, Encode(Decode(s)) == s.
func c07checkString(c *vf.Ctx, s string) {
	want, inAlphabet := ref.B58Decode(s)
	dec, ok := c07b58Decode(c, s)
	if !ok {
		return
	}
	c.Evals(1)
	c.Nontrivial(vf.Mix(0x0702, vf.HashString(s)))
	if !inAlphabet {
		c.Inc("strings_with_foreign_byte")
		if len(dec) != 0 {
			c.Failf("base58.Decode/foreign-not-empty", "Decode(%q)=%x although the string contains a byte outside the alphabet", s, dec)
		}
		return
	}
	c.Inc("strings_over_alphabet")
	if len(s) > 0 && s[0] == '1' {
		c.Inc("strings_with_leading_1")
	}
	if !eqBytes(dec, want) {
		c.Failf("base58.Decode/value", "Decode(%q)=%x, want %x", s, dec, want)
		return
	}
	if enc, ok := c07b58Encode(c, dec); ok {
		c.Evals(1)
		if enc != s {
			c.Failf("base58.Encode/reencode", "Encode(Decode(%q))=%q (decoded %x)", s, enc, dec)
		}
	}
}

// exhaustive: every byte string of length <= 2
const c07bytesExhN = 1 + 256 + 65536

func c07bytesExh(c *vf.Ctx, i int) {
	var b []byte
	switch {
	case i == 0:
		b = []byte{}
	case i <= 256:
		b = []byte{byte(i - 1)}
	default:
		j := i - 257
		b = []byte{byte(j >> 8), byte(j)}
	}
	c07checkBytes(c, b, byte(i*37))
	if c.WantSample() {
		c.Sample(map[string]string{"bytes": hx(b), "reference_string": ref.B58Encode(b)})
	}
}

// exhaustive: every string of length <= 3 over the alphabet plus six foreign
// bytes (the four look-alikes the alphabet omits, a space and a high byte)
const c07symbols = ref.B58Alphabet + "0OIl \xff"
const c07stringsExhN = 1 + 64 + 64*64 + 64*64*64

func c07stringsExh(c *vf.Ctx, i int) {
	var s string
	switch {
	case i == 0:
	case i < 1+64:
		s = string([]byte{c07symbols[i-1]})
	case i < 1+64+4096:
		j := i - 65
		s = string([]byte{c07symbols[j>>6], c07symbols[j&63]})
	default:
		j := i - 65 - 4096
		s = string([]byte{c07symbols[j>>12], c07symbols[(j>>6)&63], c07symbols[j&63]})
	}
	c07checkString(c, s)
	if c.WantSample() {
		c.Sample(map[string]string{"string": fmt.Sprintf("%q", s)})
	}
}

func c07randBytes(r *vf.Rand, n int) []byte {
	b := r.Bytes(n)
	if n == 0 {
		return b
	}
	switch r.Intn(8) {
	case 0: // leading zero bytes
		z := 1 + r.Intn(n)
		for j := 0; j < z; j++ {
			b[j] = 0
		}
	case 1: // all ones
		for j := range b {
			b[j] = 0xff
		}
	case 4: // a run of zero bytes in the middle
		a := r.Intn(n)
		l := 1 + r.Intn(24)
		for j := a; j < n && j < a+l; j++ {
			b[j] = 0
		}
	case 5: // d * 58^k (+ small): digit strings with long runs of zero digits
		v := new(big.Int).Exp(big.NewInt(58), big.NewInt(int64(r.Intn(n*8/6+1))), nil)
		v.Mul(v, big.NewInt(int64(1+r.Intn(3000))))
		if r.Bool() {
			v.Add(v, big.NewInt(int64(r.Intn(58*58*58))))
		}
		vb := v.Bytes()
		if len(vb) <= n {
			for j := range b {
				b[j] = 0
			}
			copy(b[n-len(vb):], vb)
		}
	case 2: // small leading byte (digit-count boundary)
		b[0] = byte(1 + r.Intn(3))
	case 3: // zeros then a power of 58-ish small number
		z := r.Intn(n)
		for j := 0; j < z; j++ {
			b[j] = 0
		}
		if z < n {
			b[z] = []byte{1, 57, 58, 59, 0x80}[r.Intn(5)]
		}
	}
	return b
}

func c07bytesSeeded(c *vf.Ctx, i int) {
	n := i
	if i > 512 {
		n = c.R.SkewLen(512)
	}
	b := c07randBytes(c.R, n)
	c07checkBytes(c, b, byte(c.R.Intn(256)))
	if c.WantSample() {
		c.Sample(map[string]string{"bytes": hx(b), "reference_string": ref.B58Encode(b)})
	}
}

func c07alphaString(r *vf.Rand, n int) []byte {
	s := make([]byte, n)
	for j := range s {
		s[j] = ref.B58Alphabet[r.Intn(58)]
	}
	if n > 0 {
		switch r.Intn(6) {
		case 0:
			z := 1 + r.Intn(n)
			for j := 0; j < z; j++ {
				s[j] = '1'
			}
		case 1:
			for j := range s {
				s[j] = 'z'
			}
		case 2: // a run of one digit somewhere inside (zero digits '1' most of the time)
			ch := byte('1')
			if r.Chance(1, 4) {
				ch = ref.B58Alphabet[r.Intn(58)]
			}
			a := r.Intn(n)
			l := 1 + r.Intn(40)
			for j := a; j < n && j < a+l; j++ {
				s[j] = ch
			}
		}
	}
	return s
}

func c07foreignByte(r *vf.Rand) byte {
	for {
		v := byte(r.Intn(256))
		if strings.IndexByte(ref.B58Alphabet, v) < 0 {
			return v
		}
	}
}

// c07foreignRune returns a valid multi-byte UTF-8 sequence that is foreign to
// every alphabet here but becomes an alphabet character when a decoder
// confuses runes with bytes (low byte of the code point in the alphabet) or
// folds case with Unicode rules (Kelvin sign, long s, dotted I, fullwidth).
func c07foreignRune(r *vf.Rand) string {
	switch r.Intn(4) {
	case 0:
		return []string{"\u212a", "\u017f", "\u0130", "\u0131", "\uff21", "\uff41", "\uff11"}[r.Intn(7)]
	default:
		for {
			cp := rune(1+r.Intn(0x10ff))<<8 | rune(ref.B58Alphabet[r.Intn(58)])
			if cp >= 0xd800 && cp <= 0xdfff {
				continue
			}
			return string(cp)
		}
	}
}

// seeded strings: first every single byte value alone, in front of, behind
// and between alphabet characters (directed, 4*256 cases), then random
// strings up to 700 characters, a third of them with one foreign byte.
func c07stringsSeeded(c *vf.Ctx, i int) {
	if i < 4*256 {
		v := byte(i & 255)
		var s string
		switch i >> 8 {
		case 0:
			s = string([]byte{v})
		case 1:
			s = string([]byte{v, '2', 'z'})
		case 2:
			s = string([]byte{'2', 'z', v})
		default:
			s = string([]byte{'1', '1', v, 'A', '1'})
		}
		c07checkString(c, s)
		return
	}
	s := c07alphaString(c.R, c.R.SkewLen(700))
	if len(s) > 0 && c.R.Intn(3) == 0 {
		k := c.R.Intn(len(s))
		if c.R.Bool() {
			s[k] = c07foreignByte(c.R)
		} else {
			s = append(append(append([]byte{}, s[:k]...), c07foreignRune(c.R)...), s[k+1:]...)
			c.Inc("strings_with_foreign_multibyte_rune")
		}
	}
	c07checkString(c, string(s))
	if c.WantSample() {
		c.Sample(map[string]string{"string": short(fmt.Sprintf("%q", s))})
	}
}

var c07checkClasses = []string{"valid", "substituted-char", "foreign-char", "truncated", "checksum-bit", "payload-bit",
	"short-raw", "leading-1", "random-string", "inserted-char", "wrong-checksum-kind", "empty-payload", "extended-raw"}

func c07checkStream(c *vf.Ctx, i int) {
	r := c.R
	class := c07checkClasses[i%len(c07checkClasses)]
	version := byte(r.Intn(256))
	if r.Intn(4) == 0 {
		version = 0
	}
	payload := c07randBytes(r, r.SkewLen(80))
	raw := append([]byte{version}, payload...)
	ck := ref.Sha256d(raw)
	raw = append(raw, ck[:4]...)
	valid := ref.B58Encode(raw)
	s := valid
	switch class {
	case "valid":
	case "substituted-char":
		b := []byte(valid)
		p := r.Intn(len(b))
		for {
			ch := ref.B58Alphabet[r.Intn(58)]
			if ch != b[p] {
				b[p] = ch
				break
			}
		}
		s = string(b)
	case "foreign-char":
		b := []byte(valid)
		k := r.Intn(len(b))
		if r.Bool() {
			b[k] = c07foreignByte(r)
			s = string(b)
		} else {
			s = string(b[:k]) + c07foreignRune(r) + string(b[k+1:])
		}
	case "truncated":
		k := 1 + r.Intn(6)
		if k > len(valid) {
			k = len(valid)
		}
		if r.Bool() {
			s = valid[:len(valid)-k]
		} else {
			s = valid[k:]
		}
	case "checksum-bit":
		b := append([]byte(nil), raw...)
		b[len(b)-1-r.Intn(4)] ^= 1 << uint(r.Intn(8))
		s = ref.B58Encode(b)
	case "payload-bit":
		b := append([]byte(nil), raw...)
		b[r.Intn(len(b)-4)] ^= 1 << uint(r.Intn(8))
		s = ref.B58Encode(b)
	case "short-raw": // fewer than five bytes, among them exactly the checksum of nothing
		n := r.Intn(5)
		b := r.Bytes(n)
		if n == 4 && r.Bool() {
			e := ref.Sha256d(nil)
			b = e[:4]
		}
		if n > 0 && r.Intn(3) == 0 {
			b[0] = 0
		}
		s = ref.B58Encode(b)
	case "leading-1":
		if r.Bool() || valid[0] != '1' {
			s = strings.Repeat("1", 1+r.Intn(3)) + valid
		} else {
			s = valid[1:]
		}
	case "random-string":
		s = string(c07alphaString(r, r.SkewLen(60)))
	case "inserted-char":
		p := r.Intn(len(valid) + 1)
		s = valid[:p] + string([]byte{ref.B58Alphabet[r.Intn(58)]}) + valid[p:]
	case "wrong-checksum-kind": // plausible confusions about what the four bytes are
		b := append([]byte{version}, payload...)
		var four []byte
		switch r.Intn(4) {
		case 0: // single SHA-256
			h := sha256.Sum256(b)
			four = h[:4]
		case 1: // checksum of the payload without the version byte
			h := ref.Sha256d(payload)
			four = h[:4]
		case 2: // last four bytes of the double hash
			h := ref.Sha256d(b)
			four = h[28:]
		default: // byte-reversed prefix
			h := ref.Sha256d(b)
			four = []byte{h[3], h[2], h[1], h[0]}
		}
		s = ref.B58Encode(append(b, four...))
	case "empty-payload":
		b := []byte{version}
		h := ref.Sha256d(b)
		s = ref.B58Encode(append(b, h[:4]...))
	case "extended-raw": // valid string with extra bytes after the checksum
		s = ref.B58Encode(append(append([]byte(nil), raw...), r.Bytes(1+r.Intn(4))...))
	}
	c.Nontrivial(vf.Mix(0x0703, vf.HashString(s)))
	c07checkCheckDecode(c, s, class)
	if c.WantSample() {
		c.Sample(map[string]string{"class": class, "string": fmt.Sprintf("%q", s)})
	}
}

// ---------------------------------------------------------------------------
// bech32

const c07charset = ref.CashCharset

// c07hrp draws a lower-case human-readable part (bytes 33..126 without A-Z).
func c07hrp(r *vf.Rand, n int) string {
	b := make([]byte, n)
	mode := r.Intn(4)
	for j := range b {
		switch mode {
		case 0:
			b[j] = byte('a' + r.Intn(26))
		case 1:
			b[j] = "abcdefghijklmnopqrstuvwxyz0123456789111"[r.Intn(39)]
		default:
			v := byte(33 + r.Intn(94))
			if v >= 'A' && v <= 'Z' {
				v += 32
			}
			b[j] = v
		}
	}
	return string(b)
}

func c07data5(r *vf.Rand, n int) []byte {
	d := r.Bytes(n)
	mode := r.Intn(8)
	for j := range d {
		switch mode {
		case 0:
			d[j] = 0
		case 1:
			d[j] = 31
		default:
			d[j] &= 31
		}
	}
	return d
}

// c07validBech draws (hrp, data) whose encoding has exactly `total`
// characters when total > 0, else a total in 8..90.
func c07validBech(r *vf.Rand, total int) (string, []byte) {
	if total <= 0 {
		switch r.Intn(6) {
		case 0:
			total = 90
		case 1:
			total = 8 + r.Intn(4)
		default:
			total = 8 + r.Intn(83)
		}
	}
	maxH := total - 7
	if maxH > 83 {
		maxH = 83
	}
	h := 1 + r.SkewLen(maxH-1)
	return c07hrp(r, h), c07data5(r, total-7-h)
}

var c07bechClasses = []string{"valid-lower", "valid-upper", "mixed-case", "foreign-in-data", "foreign-in-hrp", "separator",
	"over-length", "short-checksum", "symbol-corruption", "garbage", "tiny", "length-boundary", "other-checksum-constant", "case-fold-alias"}

// c07bechWithConstant encodes (hrp, data) like BIP173 but with the final xor
// constant k instead of 1 (k = 0x2bc830a3 is BIP350's bech32m).
func c07bechWithConstant(hrp string, data []byte, k uint32) string {
	values := append(ref.Bech32HrpExpand(hrp), data...)
	values = append(values, 0, 0, 0, 0, 0, 0)
	pm := ref.Bech32Polymod(values) ^ k
	var sb strings.Builder
	sb.WriteString(hrp)
	sb.WriteByte('1')
	for _, d := range data {
		sb.WriteByte(ref.CashCharset[d])
	}
	for i := 0; i < 6; i++ {
		sb.WriteByte(ref.CashCharset[(pm>>uint(5*(5-i)))&31])
	}
	return sb.String()
}

func c07bechDecodeStream(c *vf.Ctx, i int) {
	r := c.R
	class := c07bechClasses[i%len(c07bechClasses)]
	hrp, data := c07validBech(r, 0)
	valid := ref.Bech32Encode(hrp, data)
	sep := len(hrp)
	s := valid
	switch class {
	case "valid-lower":
	case "valid-upper":
		s = asciiUpper(valid)
	case "mixed-case":
		b := []byte(valid)
		if r.Bool() {
			b = []byte(asciiUpper(valid))
		}
		k := 1
		if r.Bool() {
			k = 1 + r.Intn(len(b))
		}
		for ; k > 0; k-- {
			p := r.Intn(len(b))
			switch {
			case b[p] >= 'a' && b[p] <= 'z':
				b[p] -= 32
			case b[p] >= 'A' && b[p] <= 'Z':
				b[p] += 32
			}
		}
		s = string(b)
	case "case-fold-alias":
		// a letter replaced by the non-ASCII code point that Unicode case
		// mapping folds onto it (U+212A KELVIN SIGN -> k, U+0130 -> i, U+017F
		// LONG S -> S, U+0131 -> I): after ToLower / ToUpper the string is the
		// valid one again, but it is not a bech32 string
		hrp2 := []byte(hrp)
		if len(hrp2) > 0 && r.Bool() {
			hrp2[r.Intn(len(hrp2))] = "kis"[r.Intn(3)]
		}
		valid2 := ref.Bech32Encode(string(hrp2), data)
		if r.Bool() {
			valid2 = asciiUpper(valid2)
		}
		alias := map[byte][]string{'k': {"\u212a"}, 'K': {"\u212a"}, 'i': {"\u0130", "\u0131"}, 'I': {"\u0130", "\u0131"}, 's': {"\u017f"}, 'S': {"\u017f"}}
		var pos []int
		for j := 0; j < len(valid2); j++ {
			if alias[valid2[j]] != nil {
				pos = append(pos, j)
			}
		}
		if len(pos) == 0 {
			s = "\u212a" + valid2
		} else {
			j := pos[r.Intn(len(pos))]
			a := alias[valid2[j]]
			s = valid2[:j] + a[r.Intn(len(a))] + valid2[j+1:]
		}
	case "foreign-in-data":
		b := []byte(valid)
		p := sep + 1 + r.Intn(len(b)-sep-1)
		switch r.Intn(5) {
		case 0:
			b[p] = "bio1"[r.Intn(4)]
		case 1:
			b[p] = byte(r.Intn(33)) // control characters and space
		case 2:
			b[p] = byte(127 + r.Intn(129)) // DEL and high bytes
		case 3:
			b[p] = "BIO!\"#$%&'()*+,-./:;<=>?@[\\]^_`{|}~"[r.Intn(35)]
		default:
			b[p] = byte(r.Intn(256))
		}
		s = string(b)
		if r.Chance(1, 6) { // multi-byte rune that folds / truncates to a charset character
			s = string(b[:p]) + c07foreignRune(r) + string(b[p+1:])
		}
	case "foreign-in-hrp":
		b := []byte(valid)
		p := r.Intn(sep)
		if r.Bool() {
			b[p] = byte(r.Intn(33))
		} else {
			b[p] = byte(127 + r.Intn(129))
		}
		s = string(b)
		if r.Chance(1, 6) {
			s = string(b[:p]) + c07foreignRune(r) + string(b[p+1:])
		}
	case "separator":
		switch r.Intn(7) {
		case 0: // separator removed
			s = valid[:sep] + valid[sep+1:]
		case 1: // empty human-readable part, valid checksum for it
			s = ref.Bech32Encode("", data)
		case 2: // a '1' inside the last six characters
			b := []byte(valid)
			b[len(b)-1-r.Intn(6)] = '1'
			s = string(b)
		case 3: // several '1' inside the human-readable part (valid)
			h := []byte(hrp)
			for k := 1 + r.Intn(3); k > 0; k-- {
				h[r.Intn(len(h))] = '1'
			}
			s = ref.Bech32Encode(string(h), data)
		case 4: // separator replaced
			b := []byte(valid)
			b[sep] = "q2:0l "[r.Intn(6)]
			s = string(b)
		case 5: // data part only
			s = valid[sep+1:]
		default: // a '1' in the data part ahead of the checksum
			if len(data) > 0 {
				b := []byte(valid)
				b[sep+1+r.Intn(len(data))] = '1'
				s = string(b)
			} else {
				s = valid[:sep]
			}
		}
	case "over-length":
		total := 91 + r.Intn(30)
		if r.Intn(4) == 0 {
			total = 91
		}
		maxH := total - 7
		if maxH > 100 {
			maxH = 100
		}
		h := 1 + r.SkewLen(maxH-1)
		s = ref.Bech32Encode(c07hrp(r, h), c07data5(r, total-7-h))
		if r.Intn(4) == 0 {
			s = asciiUpper(s)
		}
	case "short-checksum":
		switch r.Intn(3) {
		case 0:
			k := 1 + r.Intn(7)
			if k > len(valid) {
				k = len(valid)
			}
			s = valid[:len(valid)-k]
		case 1: // fewer than six symbols after the separator
			n := r.Intn(6)
			b := make([]byte, n)
			for j := range b {
				b[j] = c07charset[r.Intn(32)]
			}
			s = hrp + "1" + string(b)
		default: // the checksum of a shorter payload cut to five symbols
			s = valid[:len(valid)-6] + valid[len(valid)-5:]
		}
	case "other-checksum-constant":
		k := []uint32{0x2bc830a3, 0, 2, 0x3fffffff, r.Uint32() & 0x3fffffff}[r.Intn(5)]
		if k == 1 {
			k = 0x2bc830a3
		}
		s = c07bechWithConstant(hrp, data, k)
		if r.Bool() {
			s = asciiUpper(s)
		}
	case "symbol-corruption":
		b := []byte(valid)
		switch r.Intn(4) {
		case 0, 1: // one data or checksum symbol replaced by another symbol
			p := sep + 1 + r.Intn(len(b)-sep-1)
			for {
				ch := c07charset[r.Intn(32)]
				if ch != b[p] {
					b[p] = ch
					break
				}
			}
		case 2: // one character of the human-readable part replaced
			p := r.Intn(sep)
			for {
				ch := byte('a' + r.Intn(26))
				if ch != b[p] {
					b[p] = ch
					break
				}
			}
		default: // two neighbouring symbols swapped
			p := sep + 1 + r.Intn(len(b)-sep-2)
			b[p], b[p+1] = b[p+1], b[p]
		}
		s = string(b)
	case "garbage":
		n := r.SkewLen(100)
		b := make([]byte, n)
		mode := r.Intn(3)
		for j := range b {
			switch mode {
			case 0:
				b[j] = byte(r.Intn(256))
			case 1:
				b[j] = (c07charset + "1ab")[r.Intn(35)]
			default:
				b[j] = byte(33 + r.Intn(94))
			}
		}
		s = string(b)
	case "tiny":
		n := r.Intn(10)
		b := make([]byte, n)
		for j := range b {
			b[j] = "a1qpzl2A"[r.Intn(8)]
		}
		s = string(b)
	case "length-boundary":
		total := []int{8, 9, 88, 89, 90, 91, 92}[r.Intn(7)]
		maxH := total - 7
		if maxH > 83 {
			maxH = 83
		}
		h := 1 + r.Intn(maxH)
		s = ref.Bech32Encode(c07hrp(r, h), c07data5(r, total-7-h))
	}
	c.Nontrivial(vf.Mix(0x0704, vf.HashString(s)))
	c07checkBechDecode(c, s, class)
	if c.WantSample() {
		c.Sample(map[string]string{"class": class, "string": fmt.Sprintf("%q", s)})
	}
}

// c07checkBechDecode: Decode(s) accepts iff the BIP173 reference decoder
// does, and then returns the same (hrp, data).
func c07checkBechDecode(c *vf.Ctx, s, class string) {
	wh, wd, werr := ref.Bech32Decode(s)
	gh, gd, err, ok := c07bechDecode(c, s)
	if !ok {
		return
	}
	c.Evals(1)
	switch {
	case werr == nil && err != nil:
		c.Failf("bech32.Decode/rejected-valid", "class=%s: Decode(%q) failed with %q; the BIP173 reference decodes hrp=%q data=%x", class, s, err, wh, wd)
	case werr != nil && err == nil:
		c.Failf("bech32.Decode/accepted-invalid", "class=%s: Decode(%q) accepted (hrp=%q data=%x); the BIP173 reference rejects it: %v", class, s, gh, gd, werr)
	case werr == nil:
		c.Inc("bech32_accepted/" + class)
		if gh != wh || !eqBytes(gd, wd) {
			c.Failf("bech32.Decode/value", "class=%s: Decode(%q)=(hrp %q, data %x), BIP173 reference (hrp %q, data %x)", class, s, gh, gd, wh, wd)
		}
	default:
		c.Inc("bech32_rejected/" + class)
	}
}

const c07hrpSingles = 94 - 26 // bytes 33..126 without A-Z

func c07bechEncodeStream(c *vf.Ctx, i int) {
	r := c.R
	var hrp string
	var data []byte
	switch {
	case i < c07hrpSingles: // every admissible single-character hrp
		v := byte(33 + i)
		if v >= 'A' {
			v = byte(33 + i + 26)
		}
		hrp, data = string([]byte{v}), c07data5(r, r.Intn(83))
	case i < c07hrpSingles+84: // every hrp length with the longest payload that fits
		h := 1 + (i-c07hrpSingles)%83
		hrp, data = c07hrp(r, h), c07data5(r, 83-h)
	default:
		hrp, data = c07validBech(r, 0)
	}
	want := ref.Bech32Encode(hrp, data)
	if len(want) > 90 {
		panic("c07: generator left the 90-character domain")
	}
	if len(want) == 90 {
		c.Inc("encode_total_length_90")
	}
	if len(data) == 0 {
		c.Inc("encode_empty_payload")
	}
	if strings.IndexByte(hrp, '1') >= 0 {
		c.Inc("encode_hrp_contains_1")
	}
	c.Nontrivial(vf.Mix(0x0705, vf.HashString(hrp), vf.HashBytes(data)))
	keep := append([]byte(nil), data...)
	enc, err, ok := c07bechEncode(c, hrp, data)
	if !ok {
		return
	}
	c.Evals(1)
	if err != nil {
		c.Failf("bech32.Encode/error", "Encode(%q, %x) failed: %v; BIP173 reference gives %q", hrp, keep, err, want)
	} else if enc != want {
		c.Failf("bech32.Encode/value", "Encode(%q, %x)=%q, BIP173 reference %q", hrp, keep, enc, want)
	}
	// the inverse direction on the specified string, in both cases
	for _, s := range []string{want, asciiUpper(want)} {
		gh, gd, derr, ok := c07bechDecode(c, s)
		if !ok {
			continue
		}
		c.Evals(1)
		if derr != nil {
			c.Failf("bech32.Decode/rejected-valid", "class=encode-roundtrip: Decode(%q) failed with %q; it is the BIP173 encoding of hrp=%q data=%x", s, derr, hrp, keep)
		} else if gh != hrp || !eqBytes(gd, keep) {
			c.Failf("bech32.Decode/value", "class=encode-roundtrip: Decode(%q)=(hrp %q, data %x), encoded were (hrp %q, data %x)", s, gh, gd, hrp, keep)
		}
	}
	if c.WantSample() {
		c.Sample(map[string]string{"hrp": hrp, "data": hx(keep), "reference_string": want, "library_string": enc})
	}
}

// c07groups draws n groups of `from` bits (values < 2^from: the quantifier is
// over valid groups).
func c07groups(r *vf.Rand, n int, from uint8) []byte {
	d := r.Bytes(n)
	mask := byte(0xff >> (8 - from))
	mode := r.Intn(6)
	for j := range d {
		switch mode {
		case 0:
			d[j] = 0
		case 1:
			d[j] = mask
		default:
			d[j] &= mask
		}
	}
	return d
}

// c07checkBIP173Convert compares ConvertBits with BIP173 convertbits (only
// called for 8->5 and 5->8).
func c07checkBIP173Convert(c *vf.Ctx, data []byte, from, to uint8, pad bool, class string) {
	want, werr := ref.Bech32ConvertBits(data, uint(from), uint(to), pad)
	keep := append([]byte(nil), data...)
	got, err, ok := c07convert(c, data, from, to, pad)
	if !ok {
		return
	}
	c.Evals(1)
	tag := fmt.Sprintf("%dto%d/pad=%v", from, to, pad)
	switch {
	case werr == nil && err != nil:
		c.Failf("bech32.ConvertBits/rejected-valid", "class=%s: ConvertBits(%x, %d, %d, %v) failed with %q; BIP173 convertbits gives %x", class, keep, from, to, pad, err, want)
	case werr != nil && err == nil:
		c.Failf("bech32.ConvertBits/accepted-invalid-padding", "class=%s: ConvertBits(%x, %d, %d, %v)=%x; BIP173 convertbits rejects the input: %v", class, keep, from, to, pad, got, werr)
	case werr == nil:
		c.Inc("convert_ok/" + tag)
		if !eqBytes(got, want) {
			c.Failf("bech32.ConvertBits/value", "class=%s: ConvertBits(%x, %d, %d, %v)=%x, BIP173 convertbits %x", class, keep, from, to, pad, got, want)
		}
	default:
		c.Inc("convert_rejected/" + tag + "/" + class)
	}
}

var c07convClasses = []string{"bytes-random", "bytes-zero-tail", "groups-random", "groups-from-bytes", "groups-nonzero-padding", "groups-overlong-padding", "roundtrip"}

func c07convertBIP173Stream(c *vf.Ctx, i int) {
	r := c.R
	class := c07convClasses[i%len(c07convClasses)]
	pad := (i/len(c07convClasses))%2 == 1
	n := r.SkewLen(64)
	if i < 2*len(c07convClasses)*41 { // every length 0..40 in every class and padding mode
		n = i / (2 * len(c07convClasses))
	}
	c.Nontrivial(vf.Mix(0x0706, uint64(i), r.Uint64()))
	switch class {
	case "bytes-random":
		c07checkBIP173Convert(c, c07groups(r, n, 8), 8, 5, pad, class)
	case "bytes-zero-tail": // the 8n mod 5 trailing bits are zero: accepted without padding
		b := c07groups(r, n, 8)
		if rem := uint(8*n) % 5; n > 0 {
			b[n-1] &^= byte(1<<rem - 1)
		}
		c07checkBIP173Convert(c, b, 8, 5, pad, class)
	case "groups-random":
		c07checkBIP173Convert(c, c07groups(r, n, 5), 5, 8, pad, class)
	case "groups-from-bytes", "groups-nonzero-padding", "groups-overlong-padding":
		g, _ := ref.Bech32ConvertBits(r.Bytes(n), 8, 5, true)
		switch class {
		case "groups-nonzero-padding":
			if rem := uint(8*n) % 5; rem != 0 { // 5-rem padding bits in the last group
				g[len(g)-1] |= 1 << uint(r.Intn(int(5-rem)))
			} else {
				g = append(g, byte(1+r.Intn(31))) // a whole non-zero group of padding
			}
		case "groups-overlong-padding":
			for k := 1 + r.Intn(2); k > 0; k-- {
				g = append(g, 0)
			}
		}
		c07checkBIP173Convert(c, g, 5, 8, pad, class)
	case "roundtrip":
		b := r.Bytes(n)
		g, err, ok := c07convert(c, b, 8, 5, true)
		if !ok {
			return
		}
		c.Evals(1)
		if err != nil {
			c.Failf("bech32.ConvertBits/rejected-valid", "class=roundtrip: ConvertBits(%x, 8, 5, true) failed: %v", b, err)
			return
		}
		back, err, ok := c07convert(c, g, 5, 8, false)
		if !ok {
			return
		}
		if err != nil || !eqBytes(back, b) {
			c.Failf("bech32.ConvertBits/roundtrip", "ConvertBits(ConvertBits(%x, 8, 5, true)=%x, 5, 8, false)=%x err=%v", b, g, back, err)
		}
		c.Inc("convert_roundtrip")
	}
}

// c07bits is the bit string of data read as groups of `width` bits.
func c07bits(data []byte, width uint8) []byte {
	out := make([]byte, 0, len(data)*int(width))
	for _, v := range data {
		for k := int(width) - 1; k >= 0; k-- {
			out = append(out, v>>uint(k)&1)
		}
	}
	return out
}

// c07checkGenericConvert asserts only the regrouping rule.
func c07checkGenericConvert(c *vf.Ctx, data []byte, from, to uint8, pad bool) {
	keep := append([]byte(nil), data...)
	got, err, ok := c07convert(c, data, from, to, pad)
	if !ok {
		return
	}
	c.Evals(1)
	in := c07bits(keep, from)
	if err != nil {
		if pad {
			c.Inc("generic_rejected_with_pad")
		} else {
			c.Inc("generic_rejected_without_pad")
		}
		return
	}
	full := len(in) / int(to)
	rest := in[full*int(to):]
	wantBits := in[:full*int(to)]
	restZero := true
	for _, b := range rest {
		if b != 0 {
			restZero = false
		}
	}
	if pad {
		c.Inc("generic_ok_with_pad")
		if len(rest) > 0 {
			wantBits = append(append([]byte(nil), in...), make([]byte, int(to)-len(rest))...)
		}
	} else {
		c.Inc("generic_ok_without_pad")
		if len(rest) > 0 {
			c.Inc("generic_ok_without_pad_dropping_bits")
		}
		if !restZero {
			c.Failf("bech32.ConvertBits/generic-dropped-nonzero", "ConvertBits(%x, %d, %d, false)=%x succeeded although the %d dropped trailing bits %v are not all zero", keep, from, to, got, len(rest), rest)
			return
		}
	}
	// every output byte must be a group of `to` bits and the groups must
	// spell the expected bit string
	want := make([]byte, len(wantBits)/int(to))
	for j := range want {
		var v byte
		for k := 0; k < int(to); k++ {
			v = v<<1 | wantBits[j*int(to)+k]
		}
		want[j] = v
	}
	if !eqBytes(got, want) {
		c.Failf("bech32.ConvertBits/generic-bits", "ConvertBits(%x, %d, %d, %v)=%x; regrouping the input bit string gives %x", keep, from, to, pad, got, want)
	}
}

func c07convertGenericStream(c *vf.Ctx, i int) {
	r := c.R
	from := uint8(1 + i%8)
	to := uint8(1 + (i/8)%8)
	pad := (i/64)%2 == 1
	mode := (i / 128) % 4
	n := r.SkewLen(48)
	var data []byte
	switch mode {
	case 0, 1:
		data = c07groups(r, n, from)
	case 2: // whole output groups followed by zero bits up to a group boundary: accepted without padding when the tail is short
		bits := make([]byte, n*int(to))
		for j := range bits {
			bits[j] = byte(r.Intn(2))
		}
		for len(bits)%int(from) != 0 {
			bits = append(bits, 0)
		}
		data = make([]byte, len(bits)/int(from))
		for j := range data {
			for k := 0; k < int(from); k++ {
				data[j] = data[j]<<1 | bits[j*int(from)+k]
			}
		}
	default: // zero tail of random length
		data = c07groups(r, n, from)
		for z := r.Intn(n + 1); z > 0; z-- {
			data[n-z] = 0
		}
	}
	c.Nontrivial(vf.Mix(0x0707, uint64(from), uint64(to), vf.HashBytes(data)))
	c07checkGenericConvert(c, data, from, to, pad)
	if (from == 8 && to == 5) || (from == 5 && to == 8) {
		c07checkBIP173Convert(c, data, from, to, pad, "generic-stream")
	}
	if c.WantSample() {
		c.Sample(map[string]any{"data": hx(data), "from": from, "to": to, "pad": pad})
	}
}

// ---------------------------------------------------------------------------
// purity (i): canaries

// c07pattern is the fill of everything around the argument bytes.
func c07pattern(j int, inv bool) byte {
	v := byte(0xa5) ^ byte(j*29)
	if inv {
		v = ^v
	}
	return v
}

const c07guard = 8

// c07frame allocates data inside a larger buffer: guard | data | spare | guard,
// everything except data filled with the pattern.  The returned slice has
// len(data) and capacity len(data)+spare.
func c07frame(data []byte, spare int, inv bool) (buf, arg []byte) {
	buf = make([]byte, c07guard+len(data)+spare+c07guard)
	for j := range buf {
		buf[j] = c07pattern(j, inv)
	}
	copy(buf[c07guard:], data)
	arg = buf[c07guard : c07guard+len(data) : c07guard+len(data)+spare]
	return
}

// c07diff describes where buf differs from snap relative to the argument.
func c07diff(buf, snap []byte, n, spare int) string {
	var sb strings.Builder
	for j := range buf {
		if buf[j] == snap[j] {
			continue
		}
		o := j - c07guard
		region := "spare capacity"
		switch {
		case o < 0 || o >= n+spare:
			region = "outside the slice"
		case o < n:
			region = "element"
		}
		fmt.Fprintf(&sb, " [%d](%s) %#02x->%#02x", o, region, snap[j], buf[j])
	}
	return sb.String()
}

// c07canarySlice calls f on data framed with every spare capacity 0..16 and
// both fill patterns and compares the whole backing buffer before and after.
func c07canarySlice(c *vf.Ctx, site string, data []byte, descr func() string, f func(arg []byte)) {
	for spare := 0; spare <= 16; spare++ {
		for _, inv := range []bool{false, true} {
			buf, arg := c07frame(data, spare, inv)
			snap := append([]byte(nil), buf...)
			if !c.Call(site, descr, func() { f(arg) }) {
				return
			}
			c.Evals(1)
			if !eqBytes(buf, snap) {
				c.Failf(site+"/arg-modified", "%s with len=%d cap=%d: memory reachable from the slice argument changed during the call:%s", descr(), len(data), len(data)+spare, c07diff(buf, snap, len(data), spare))
				return
			}
		}
	}
	c.Count("canary_calls/"+site, 34)
}

// c07canaryString does the same for a string argument whose bytes live in a
// buffer we can inspect.
func c07canaryString(c *vf.Ctx, site, s string, f func(arg string)) {
	if len(s) == 0 {
		return
	}
	buf, arg := c07frame([]byte(s), 0, false)
	snap := append([]byte(nil), buf...)
	str := unsafe.String(&arg[0], len(arg))
	if !c.Call(site, func() string { return q(s) }, func() { f(str) }) {
		return
	}
	c.Evals(1)
	if !eqBytes(buf, snap) {
		c.Failf(site+"/arg-modified", "%q: the bytes of the string argument changed during the call:%s", s, c07diff(buf, snap, len(s), 0))
	}
	c.Inc("canary_calls/" + site)
}

func c07canaryStream(c *vf.Ctx, i int) {
	r := c.R
	n := i
	if i > 40 {
		n = r.SkewLen(120)
	}
	c.Nontrivial(vf.Mix(0x0708, uint64(i), r.Uint64()))

	b := c07randBytes(r, n)
	c07canarySlice(c, "base58.Encode", b, func() string { return "Encode(" + hx(b) + ")" }, func(a []byte) { base58.Encode(a) })
	ver := byte(r.Intn(256))
	c07canarySlice(c, "base58.CheckEncode", b, func() string { return fmt.Sprintf("CheckEncode(%x, %#02x)", b, ver) }, func(a []byte) { base58.CheckEncode(a, ver) })

	hrp := c07hrp(r, 1+r.Intn(10))
	nd := n
	if nd > 72 && r.Intn(4) != 0 {
		nd = r.Intn(73)
	}
	d := c07data5(r, nd)
	if r.Intn(8) == 0 && nd > 0 { // a byte that is not a 5-bit group: only purity is observed
		d[r.Intn(nd)] |= 0x20 << uint(r.Intn(3))
		c.Inc("canary_encode_with_invalid_group")
	}
	c07canarySlice(c, "bech32.Encode", d, func() string { return fmt.Sprintf("Encode(%q, %x)", hrp, d) }, func(a []byte) { bech32.Encode(hrp, a) })

	from, to, pad := uint8(1+r.Intn(8)), uint8(1+r.Intn(8)), r.Bool()
	if r.Intn(3) == 0 {
		from, to = 8, 5
	} else if r.Intn(3) == 0 {
		from, to = 5, 8
	}
	g := c07groups(r, n, from)
	c07canarySlice(c, "bech32.ConvertBits", g, func() string { return fmt.Sprintf("ConvertBits(%x, %d, %d, %v)", g, from, to, pad) },
		func(a []byte) { bech32.ConvertBits(a, from, to, pad) })

	// string arguments
	s58 := ref.B58CheckEncode(ver, b)
	if r.Intn(4) == 0 {
		s58 = s58[:len(s58)/2] + "0" + s58[len(s58)/2:]
	}
	c07canaryString(c, "base58.Decode", s58, func(a string) { base58.Decode(a) })
	c07canaryString(c, "base58.CheckDecode", s58, func(a string) { base58.CheckDecode(a) })
	if nd <= 72 {
		sb := ref.Bech32Encode(hrp, c07data5(r, nd))
		if r.Intn(4) == 0 {
			sb = asciiUpper(sb)
		}
		c07canaryString(c, "bech32.Decode", sb, func(a string) { bech32.Decode(a) })
		c07canaryString(c, "bech32.Encode", hrp, func(a string) { bech32.Encode(a, d) })
	}
	if c.WantSample() {
		c.Sample(map[string]string{"bytes": hx(b), "hrp": hrp, "data5": hx(d)})
	}
}

// ---------------------------------------------------------------------------
// purity (ii): race probe.  G goroutines call the same function on the same
// argument memory (slice elements, spare capacity, string bytes).  Nothing
// but the start gate and the final WaitGroup synchronises them, and each
// goroutine writes only to its own result slot.

const (
	c07raceG     = 4
	c07raceCalls = 6
)

var c07raceFns = []string{"base58.Encode", "base58.Decode", "base58.CheckEncode", "base58.CheckDecode", "bech32.Encode", "bech32.Decode", "bech32.ConvertBits"}

type c07raceOut struct {
	s     string
	b     []byte
	v     byte
	err   error
	panic any
}

func (o c07raceOut) String() string {
	return fmt.Sprintf("(string %q, bytes %x, version %#02x, err %v, panic %v)", o.s, o.b, o.v, o.err, o.panic)
}

func c07race(body func() c07raceOut) []c07raceOut {
	outs := make([]c07raceOut, c07raceG)
	start := make(chan struct{})
	var wg sync.WaitGroup
	for g := 0; g < c07raceG; g++ {
		wg.Add(1)
		go func(slot *c07raceOut) {
			defer wg.Done()
			defer func() {
				if p := recover(); p != nil {
					slot.panic = p
				}
			}()
			<-start
			var last c07raceOut
			for k := 0; k < c07raceCalls; k++ {
				last = body()
			}
			*slot = last
		}(&outs[g])
	}
	close(start)
	wg.Wait()
	return outs
}

func c07raceStream(c *vf.Ctx, i int) {
	r := c.R
	fn := c07raceFns[i%len(c07raceFns)]
	spare := []int{0, 1, 5, 6, 7, 8, 12, 16}[r.Intn(8)]
	inv := r.Bool()
	n := r.SkewLen(48)
	c.Nontrivial(vf.Mix(0x0709, uint64(i), r.Uint64()))

	var buf, snap []byte
	var body func() c07raceOut
	var want c07raceOut
	var descr string
	checkValue := true
	argLen, argSpare := 0, 0
	frame := func(data []byte, sp int) []byte {
		var arg []byte
		argLen, argSpare = len(data), sp
		buf, arg = c07frame(data, sp, inv)
		snap = append([]byte(nil), buf...)
		return arg
	}
	switch fn {
	case "base58.Encode":
		data := c07randBytes(r, n)
		arg := frame(data, spare)
		descr = fmt.Sprintf("Encode(%x) cap=%d", data, cap(arg))
		want = c07raceOut{s: ref.B58Encode(data)}
		body = func() c07raceOut { return c07raceOut{s: base58.Encode(arg)} }
	case "base58.CheckEncode":
		data := c07randBytes(r, n)
		ver := byte(r.Intn(256))
		arg := frame(data, spare)
		descr = fmt.Sprintf("CheckEncode(%x, %#02x) cap=%d", data, ver, cap(arg))
		want = c07raceOut{s: ref.B58CheckEncode(ver, data)}
		body = func() c07raceOut { return c07raceOut{s: base58.CheckEncode(arg, ver)} }
	case "base58.Decode", "base58.CheckDecode":
		s := ref.B58CheckEncode(byte(r.Intn(256)), c07randBytes(r, n))
		switch r.Intn(4) {
		case 0:
			s = s[:len(s)/2] + string([]byte{c07foreignByte(r)}) + s[len(s)/2:]
		case 1:
			s = s[:len(s)-1]
		}
		arg := frame([]byte(s), 0)
		str := unsafe.String(&arg[0], len(arg)) // len(s) >= 4: never empty
		descr = fmt.Sprintf("%s(%q)", fn, s)
		if fn == "base58.Decode" {
			wb, _ := ref.B58Decode(s)
			want = c07raceOut{b: wb}
			body = func() c07raceOut { return c07raceOut{b: base58.Decode(str)} }
		} else {
			wv, wp, wok := ref.B58CheckDecode(s)
			want = c07raceOut{b: wp, v: wv}
			if !wok {
				want.err = base58.ErrChecksum // only nil-ness is compared
			}
			body = func() c07raceOut {
				b, v, err := base58.CheckDecode(str)
				return c07raceOut{b: b, v: v, err: err}
			}
		}
	case "bech32.Encode":
		hrp, data := c07validBech(r, 0)
		arg := frame(data, spare)
		hb := append([]byte(nil), hrp...)
		hs := unsafe.String(&hb[0], len(hb))
		descr = fmt.Sprintf("Encode(%q, %x) cap=%d", hrp, data, cap(arg))
		want = c07raceOut{s: ref.Bech32Encode(hrp, data)}
		body = func() c07raceOut {
			s, err := bech32.Encode(hs, arg)
			return c07raceOut{s: s, err: err}
		}
	case "bech32.Decode":
		hrp, data := c07validBech(r, 0)
		s := ref.Bech32Encode(hrp, data)
		switch r.Intn(4) {
		case 0:
			s = asciiUpper(s)
		case 1:
			b := []byte(s)
			b[len(b)-1] = c07charset[(strings.IndexByte(c07charset, b[len(b)-1])+1)%32]
			s = string(b)
		}
		arg := frame([]byte(s), 0)
		str := unsafe.String(&arg[0], len(arg))
		descr = fmt.Sprintf("Decode(%q)", s)
		wh, wd, werr := ref.Bech32Decode(s)
		want = c07raceOut{s: wh, b: wd, err: werr}
		body = func() c07raceOut {
			h, d, err := bech32.Decode(str)
			return c07raceOut{s: h, b: d, err: err}
		}
	case "bech32.ConvertBits":
		from, to, pad := uint8(8), uint8(5), r.Bool()
		switch r.Intn(3) {
		case 0:
			from, to = 5, 8
		case 1:
			from, to = uint8(1+r.Intn(8)), uint8(1+r.Intn(8))
		}
		data := c07groups(r, n, from)
		arg := frame(data, spare)
		descr = fmt.Sprintf("ConvertBits(%x, %d, %d, %v) cap=%d", data, from, to, pad, cap(arg))
		if (from == 8 && to == 5) || (from == 5 && to == 8) {
			wb, werr := ref.Bech32ConvertBits(data, uint(from), uint(to), pad)
			want = c07raceOut{b: wb, err: werr}
		} else {
			checkValue = false // generic pairs: only equality between the goroutines
		}
		body = func() c07raceOut {
			b, err := bech32.ConvertBits(arg, from, to, pad)
			return c07raceOut{b: b, err: err}
		}
	}
	outs := c07race(body)
	c.Inc("race_cases/" + fn)
	c.Count("race_calls/"+fn, c07raceG*c07raceCalls)
	if spare >= 6 {
		c.Inc("race_cases_with_spare_capacity_ge_6")
	}
	c.Evals(1)
	if !eqBytes(buf, snap) {
		c.Failf(fn+"/arg-modified", "%s called by %d goroutines on the same memory: memory reachable from the argument changed:%s", descr, c07raceG, c07diff(buf, snap, argLen, argSpare))
	}
	for g, o := range outs {
		if o.panic != nil {
			c.Failf(fn+"/panic", "%s called by %d goroutines on the same memory: goroutine %d panicked: %v", descr, c07raceG, g, o.panic)
			continue
		}
		ref0 := want
		if !checkValue {
			ref0 = outs[0]
			if ref0.panic != nil {
				continue
			}
		}
		c.Evals(1)
		same := (o.err == nil) == (ref0.err == nil)
		if same && ref0.err == nil {
			same = o.s == ref0.s && eqBytes(o.b, ref0.b) && o.v == ref0.v
		}
		if !same {
			c.Failf(fn+"/concurrent-result", "%s called by %d goroutines on the same memory: goroutine %d returned %v, expected %v", descr, c07raceG, g, o, ref0)
		}
	}
	if c.WantSample() {
		c.Sample(map[string]any{"call": short(descr), "goroutines": c07raceG, "calls_per_goroutine": c07raceCalls})
	}
}

// ---- stream first-use-concurrent ------------------------------------------
// The package's very first calls in a fresh child process, issued by 16
// goroutines at the same instant (Init runs once per child, before anything
// else used base58 / bech32): tables or caches that are built lazily are
// initialised under contention, once per process.  Results are judged by the
// references afterwards.

type c07firstUse struct {
	kind string
	in   []byte
	hrp  string
	out  string
	raw  []byte
	ok   bool
}

func c07firstUseInit(t vf.Tier, seed uint64) any {
	const G = 16
	out := make([][]c07firstUse, G)
	var wg sync.WaitGroup
	start := make(chan struct{})
	for g := 0; g < G; g++ {
		wg.Add(1)
		go func(g int) {
			defer wg.Done()
			defer func() { recover() }()
			r := vf.NewRand(vf.Mix(seed, 0xf07, uint64(g)))
			<-start
			for k := 0; k < 24; k++ {
				b := r.Bytes(r.Intn(40))
				if k%5 == 0 && len(b) > 2 {
					b[0], b[1] = 0, 0
				}
				switch (k + g) % 4 {
				case 0:
					s := base58.Encode(b)
					back := base58.Decode(s)
					out[g] = append(out[g], c07firstUse{kind: "b58", in: b, out: s, raw: back})
				case 1:
					s := base58.CheckEncode(b, byte(k))
					raw, ver, err := base58.CheckDecode(s)
					out[g] = append(out[g], c07firstUse{kind: "b58check", in: append([]byte{byte(k)}, b...), out: s, raw: append([]byte{ver}, raw...), ok: err == nil})
				case 2:
					d5 := c07data5(r, r.Intn(40))
					hrp := c07hrp(r, 1+r.Intn(10))
					s, err := bech32.Encode(hrp, d5)
					h2, d2, err2 := bech32.Decode(s)
					out[g] = append(out[g], c07firstUse{kind: "bech32", in: d5, hrp: hrp, out: s, raw: append([]byte(h2+"|"), d2...), ok: err == nil && err2 == nil})
				default:
					c5, err := bech32.ConvertBits(b, 8, 5, true)
					out[g] = append(out[g], c07firstUse{kind: "convertbits", in: b, raw: c5, ok: err == nil})
				}
			}
		}(g)
	}
	close(start)
	wg.Wait()
	var all []c07firstUse
	for _, o := range out {
		all = append(all, o...)
	}
	return all
}

func c07firstUseCase(c *vf.Ctx, i int) {
	all, _ := c.Shared.([]c07firstUse)
	if len(all) == 0 {
		c.Inconclusive("first-use-results-missing")
		return
	}
	for _, e := range all {
		c.Evals(1)
		switch e.kind {
		case "b58":
			if want := ref.B58Encode(e.in); e.out != want || !eqBytes(e.raw, e.in) {
				c.Failf("base58/first-use", "first calls in a fresh process, 16 goroutines at once: Encode(%x)=%q want %q; Decode of it = %x", e.in, e.out, want, e.raw)
			}
		case "b58check":
			if want := ref.B58CheckEncode(e.in[0], e.in[1:]); e.out != want || !e.ok || !eqBytes(e.raw, e.in) {
				c.Failf("base58check/first-use", "first calls in a fresh process, 16 goroutines at once: CheckEncode(%x, %d)=%q want %q; CheckDecode ok=%v gives %x", e.in[1:], e.in[0], e.out, want, e.ok, e.raw)
			}
		case "bech32":
			want := ref.Bech32Encode(e.hrp, e.in)
			if len(want) > 90 {
				continue // over-long strings are C07's other streams' subject
			}
			if e.out != want || !e.ok || string(e.raw) != e.hrp+"|"+string(e.in) {
				c.Failf("bech32/first-use", "first calls in a fresh process, 16 goroutines at once: Encode(%q, %x)=%q want %q; Decode ok=%v gives %q", e.hrp, e.in, e.out, want, e.ok, e.raw)
			}
		case "convertbits":
			want, err := ref.Bech32ConvertBits(e.in, 8, 5, true)
			if (err == nil) != e.ok || (e.ok && !eqBytes(e.raw, want)) {
				c.Failf("convertbits/first-use", "first calls in a fresh process, 16 goroutines at once: ConvertBits(%x, 8, 5, true)=%x ok=%v want %x", e.in, e.raw, e.ok, want)
			}
		}
	}
	c.Count("first_use_results_judged", int64(len(all)))
	c.Nontrivial(vf.Mix(0xf07, uint64(i), c.Seed))
}

func init() {
	register(&vf.Property{
		ID:    "C07",
		Title: "Base58, Base58Check and bech32 are exact, strict, side-effect-free inverses",
		Rule: "b58-bytes-exh: every byte string of length <= 2 (Encode == reference, Decode back, CheckEncode/CheckDecode); " +
			"b58-strings-exh: every string of length <= 3 over the 58 alphabet characters plus the foreign bytes '0','O','I','l',' ',0xff (Decode == reference, empty iff a foreign byte occurs, Encode(Decode(s)) == s); " +
			"b58-bytes: lengths 0..512 then seeded lengths <= 512 (random, leading zeros, all 0xff); b58-strings: every byte value alone/in front of/behind/between alphabet characters, then seeded strings <= 700 characters, a third with one foreign byte; " +
			"b58check: 13 classes of valid and damaged Base58Check strings, CheckDecode accepts iff the reference does and returns the reference's (version, payload); " +
			"bech32-decode: 12 classes (valid lower/upper, mixed case, foreign characters in data and hrp, missing/misplaced separator, 91+ characters, short checksum, single-symbol corruptions, garbage, tiny strings, length boundary), Decode accepts iff the BIP173 reference decoder does with equal (hrp, data); " +
			"bech32-encode: every single-character lower-case hrp, every hrp length at total length 90, then seeded (hrp, data) within 90 characters, Encode == BIP173 reference, Decode of the lower- and upper-case string returns (hrp, data); " +
			"convertbits-bip173: 8->5 and 5->8 in both padding modes against BIP173 convertbits, including non-zero and over-long padding; " +
			"convertbits-generic: all 64 (from,to) x pad, groups < 2^from, regrouping rule only (on success output groups spell the input bit string, zero-padded when pad, dropped bits zero when !pad); " +
			"purity-canary: every []byte argument framed in a larger patterned buffer for every spare capacity 0..16 and two patterns, whole buffer compared before/after; string arguments likewise; " +
			"purity-race: 4 goroutines x 6 calls of the same function on the same argument memory under the race detector. " +
			"A case is non-trivial and distinct per input.",
		Assumptions: []string{
			"reference Base58 / Base58Check / BIP173 implementations written from the specifications (self-tested on published vectors on every run)",
			"crypto/sha256 and math/big are correct",
			"ConvertBits input groups are < 2^fromBits (bytes with higher bits set are outside the quantifier and are not generated)",
			"for (from,to) other than 8->5 and 5->8 the statement promises regrouping only; whether an input is accepted is not asserted there",
			"the Go race detector reports a write by one goroutine to memory that another goroutine reads or writes without synchronisation",
		},
		SelfTest: func() error {
			for _, f := range []func() error{ref.SelfTestBase58, ref.SelfTestBech32} {
				if err := f(); err != nil {
					return err
				}
			}
			return nil
		},
		Streams: []*vf.Stream{
			{Name: "b58-bytes-exh", Exhaustive: true, N: func(vf.Tier) int { return c07bytesExhN }, Run: c07bytesExh},
			{Name: "b58-strings-exh", Exhaustive: true, N: func(vf.Tier) int { return c07stringsExhN }, Run: c07stringsExh},
			{Name: "b58-bytes", N: func(t vf.Tier) int { return 513 + t.Sz(60000, 600000) }, Run: c07bytesSeeded},
			{Name: "b58-strings", N: func(t vf.Tier) int { return 1024 + t.Sz(60000, 600000) }, Run: c07stringsSeeded},
			{Name: "b58check", N: func(t vf.Tier) int { return t.Sz(390000, 3900000) }, Run: c07checkStream},
			{Name: "bech32-decode", N: func(t vf.Tier) int { return t.Sz(720000, 7200000) }, Run: c07bechDecodeStream},
			{Name: "bech32-encode", N: func(t vf.Tier) int { return c07hrpSingles + 84 + t.Sz(300000, 3000000) }, Run: c07bechEncodeStream},
			{Name: "convertbits-bip173", N: func(t vf.Tier) int { return t.Sz(420000, 4200000) }, Run: c07convertBIP173Stream},
			{Name: "convertbits-generic", N: func(t vf.Tier) int { return t.Sz(1024000, 10240000) }, Run: c07convertGenericStream},
			{Name: "purity-canary", N: func(t vf.Tier) int { return 41 + t.Sz(10000, 100000) }, Run: c07canaryStream},
			{Name: "first-use-concurrent-race", Race: true, Workers: 1, Shards: 8, Init: c07firstUseInit, N: func(t vf.Tier) int { return 8 }, Run: c07firstUseCase},
			{Name: "purity-race", Race: true, Workers: 2, N: func(t vf.Tier) int { return t.Sz(6300, 42000) }, Run: c07raceStream},
		},
	})
}
