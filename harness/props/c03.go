package props

import (
	"fmt"
	"math/bits"
	"sort"
	"strings"

	"github.com/gcash/bchutil"
	"github.com/gcash/bchutil/bech32"

	"verif/internal/ref"
	"verif/internal/vf"
)

// C03 — checksums detect every substitution of weight <= 5 (CashAddr) /
// <= 4 (bech32).
//
// The implementation's own remainder functions are observed through the
// `verif` hooks.  The monitor measures the syndrome of every unit error at
// every position ("syndrome map"), validates at run time that syndromes add
// (affinity) and do not depend on codeword or prefix, and then enumerates the
// whole space of low-weight patterns by meet-in-the-middle on the measured
// map.  The acceptance test itself is exercised black-box through the real
// decoders: exhaustive weight 1-2 patterns, seeded weight 3-5, and the
// patterns the enumeration finds to be closest to acceptance.

var c03prefixes = []string{"bitcoincash", "bchtest", "bchreg", "bchsim", "simpleledger", "slptest", "slpreg"}

// hash sizes in bytes -> total payload symbols incl. the 8 checksum symbols
var c03sizes = []int{20, 24, 28, 32, 40, 48, 56, 64}

func c03symbols(hashBytes int) int { return (8+8*hashBytes+4)/5 + 8 }

const c03maxL = 112

func gf32mul(a, b byte) byte {
	var r byte
	for i := 0; i < 5; i++ {
		if b>>uint(i)&1 == 1 {
			r ^= a
		}
		a <<= 1
		if a&0x20 != 0 {
			a ^= 0x29
		}
	}
	return r & 31
}

// gf32mulSyn multiplies each of the eight 5-bit groups of a 40-bit syndrome
// by c in GF(32).
func gf32mulSyn(s uint64, c byte) uint64 {
	var out uint64
	for g := 0; g < 8; g++ {
		v := byte(s>>(5*uint(g))) & 31
		out |= uint64(gf32mul(v, c)) << (5 * uint(g))
	}
	return out
}

// c03codeword returns prefix-expanded || payload symbols of a valid address.
func c03codeword(r *vf.Rand, prefix string, hashBytes int) (pre []byte, payload []byte) {
	h := r.Bytes(hashBytes)
	typ := r.Intn(2)
	ver := byte(typ<<3 | ref.CashSizeBits(hashBytes))
	sym := ref.Pack8to5(append([]byte{ver}, h...))
	payload = append(sym, ref.CashChecksum(prefix, sym)...)
	return ref.CashPrefixExpand(prefix), payload
}

func c03string(prefix string, payload []byte) string {
	var sb strings.Builder
	sb.WriteString(prefix)
	sb.WriteByte(':')
	for _, s := range payload {
		sb.WriteByte(ref.CashCharset[s])
	}
	return sb.String()
}

// cashSyn measures f(x ^ pattern) ^ f(x) through the hook.
func cashSyn(pre, payload []byte, pos []int, val []byte) uint64 {
	v := append(append([]byte{}, pre...), payload...)
	base := bchutil.VerifPolyMod(v)
	for i, p := range pos {
		v[len(pre)+p] ^= val[i]
	}
	return bchutil.VerifPolyMod(v) ^ base
}

type c03shared struct {
	// T[d][e]: measured syndrome of unit error e at distance d from the end
	T [c03maxL][32]uint64
	// structural validations of the measured map
	gfLinear bool
	// weight<=2 table for meet in the middle (window c03maxL)
	tab     []uint64
	tabMask uint64
	entries int
	dupes   [][2][]int // non-trivial duplicate syndromes found while building: combined (distances, values)
	// near misses: patterns whose syndromes agree on a mask
	near []c03near
}

type c03near struct {
	mask uint64
	name string
	pos  []int // distances from the end
	val  []byte
}

const c03empty = ^uint64(0)

func c03hash(s uint64) uint64 {
	s *= 0x9e3779b97f4a7c15
	return s ^ s>>29
}

// entry layout: low 40 bits syndrome, then d1(7) e1(5) d2(7) e2(5) (d2=127: weight 1; d1=127: weight 0)
func c03entry(s uint64, d1, e1, d2, e2 int) uint64 {
	return s | uint64(d1)<<40 | uint64(e1)<<47 | uint64(d2)<<52 | uint64(e2)<<59
}

func c03unpack(x uint64) (s uint64, d1, e1, d2, e2 int) {
	return x & (1<<40 - 1), int(x >> 40 & 127), int(x >> 47 & 31), int(x >> 52 & 127), int(x >> 59 & 31)
}

func (sh *c03shared) insert(x uint64) {
	s := x & (1<<40 - 1)
	h := c03hash(s) & sh.tabMask
	for {
		cur := sh.tab[h]
		if cur == c03empty {
			sh.tab[h] = x
			sh.entries++
			return
		}
		if cur&(1<<40-1) == s {
			_, a1, b1, a2, b2 := c03unpack(cur)
			_, c1, f1, c2, f2 := c03unpack(x)
			var ds, vs []int
			for _, pr := range [][2]int{{a1, b1}, {a2, b2}, {c1, f1}, {c2, f2}} {
				if pr[0] != 127 {
					ds = append(ds, pr[0])
					vs = append(vs, pr[1])
				}
			}
			sh.dupes = append(sh.dupes, [2][]int{ds, vs})
			return
		}
		h = (h + 1) & sh.tabMask
	}
}

func (sh *c03shared) lookup(s uint64) (uint64, bool) {
	h := c03hash(s) & sh.tabMask
	for {
		cur := sh.tab[h]
		if cur == c03empty {
			return 0, false
		}
		if cur&(1<<40-1) == s {
			return cur, true
		}
		h = (h + 1) & sh.tabMask
	}
}

func c03initMap(t vf.Tier, seed uint64) any  { return c03init(seed, false, false) }
func c03initMitm(t vf.Tier, seed uint64) any { return c03init(seed, true, false) }
func c03initNear(t vf.Tier, seed uint64) any { return c03init(seed, false, true) }

func c03init(seed uint64, wantTable, wantNear bool) any {
	sh := &c03shared{}
	r := vf.NewRand(vf.Mix(seed, 0xc03))
	pre, payload := c03codeword(r, "bitcoincash", 64)
	L := len(payload)
	if L != c03maxL {
		panic("c03: unexpected symbol count")
	}
	for d := 0; d < L; d++ {
		for e := 1; e < 32; e++ {
			sh.T[d][e] = cashSyn(pre, payload, []int{L - 1 - d}, []byte{byte(e)})
		}
	}
	sh.gfLinear = true
	for d := 0; d < L && sh.gfLinear; d++ {
		for e := 2; e < 32; e++ {
			if sh.T[d][e] != gf32mulSyn(sh.T[d][1], byte(e)) {
				sh.gfLinear = false
				break
			}
		}
	}
	if !wantTable && !wantNear {
		return sh
	}
	if wantTable {
		// weight <= 2 table
		sh.tab = make([]uint64, 1<<24)
		sh.tabMask = 1<<24 - 1
		for i := range sh.tab {
			sh.tab[i] = c03empty
		}
		sh.insert(c03entry(0, 127, 0, 127, 0))
		for d1 := 0; d1 < L; d1++ {
			for e1 := 1; e1 < 32; e1++ {
				sh.insert(c03entry(sh.T[d1][e1], d1, e1, 127, 0))
			}
		}
		for d1 := 0; d1 < L; d1++ {
			for d2 := d1 + 1; d2 < L; d2++ {
				for e1 := 1; e1 < 32; e1++ {
					s1 := sh.T[d1][e1]
					for e2 := 1; e2 < 32; e2++ {
						sh.insert(c03entry(s1^sh.T[d2][e2], d1, e1, d2, e2))
					}
				}
			}
		}
	}
	if !wantNear {
		return sh
	}
	// near misses on a 61-symbol window: pairs of weight<=2 patterns whose
	// syndromes agree on a mask (what a weakened comparison would accept)
	type ent struct {
		s      uint64
		d1, d2 int8
		e1, e2 int8
	}
	const W = 61
	var list []ent
	for d1 := 0; d1 < W; d1++ {
		for e1 := 1; e1 < 32; e1++ {
			list = append(list, ent{sh.T[d1][e1], int8(d1), -1, int8(e1), 0})
			for d2 := d1 + 1; d2 < W; d2++ {
				for e2 := 1; e2 < 32; e2++ {
					list = append(list, ent{sh.T[d1][e1] ^ sh.T[d2][e2], int8(d1), int8(d2), int8(e1), int8(e2)})
				}
			}
		}
	}
	masks := []struct {
		m    uint64
		name string
	}{{0xffffffff, "low32"}, {0xffffffff00, "high32"}, {0x3fffffff, "low30"}}
	for g := 0; g < 8; g++ {
		masks = append(masks, struct {
			m    uint64
			name string
		}{(1<<40 - 1) &^ (31 << (5 * uint(g))), fmt.Sprintf("group%d-ignored", g)})
	}
	for _, mk := range masks {
		m := mk.m
		sort.Slice(list, func(i, j int) bool { return list[i].s&m < list[j].s&m })
		found := 0
		for i := 1; i < len(list) && found < 24; i++ {
			a, b := list[i-1], list[i]
			if a.s&m != b.s&m {
				continue
			}
			// combine a ^ b
			pm := map[int]byte{}
			add := func(d, e int8) {
				if d >= 0 && e != 0 {
					pm[int(d)] ^= byte(e)
				}
			}
			add(a.d1, a.e1)
			add(a.d2, a.e2)
			add(b.d1, b.e1)
			add(b.d2, b.e2)
			var nm c03near
			nm.mask, nm.name = m, mk.name
			for d, e := range pm {
				if e != 0 {
					nm.pos = append(nm.pos, d)
					nm.val = append(nm.val, e)
				}
			}
			if len(nm.pos) == 0 {
				continue
			}
			sh.near = append(sh.near, nm)
			found++
		}
	}
	return sh
}

// --- stream: validate the measured syndrome map on every prefix and length

func c03mapCase(c *vf.Ctx, i int) {
	sh := c.Shared.(*c03shared)
	prefix := c03prefixes[i%len(c03prefixes)]
	hb := c03sizes[(i/len(c03prefixes))%len(c03sizes)]
	pre, payload := c03codeword(c.R, prefix, hb)
	L := len(payload)
	// (a) the map does not depend on codeword, prefix or length
	bad := 0
	for p := 0; p < L; p++ {
		for e := 1; e < 32; e++ {
			c.Evals(1)
			if cashSyn(pre, payload, []int{p}, []byte{byte(e)}) != sh.T[L-1-p][e] {
				bad++
			}
		}
	}
	// (b) additivity on random multi-error patterns
	for k := 0; k < 2000; k++ {
		w := 2 + c.R.Intn(6)
		pos := c.R.Perm(L)[:w]
		val := make([]byte, w)
		var pred uint64
		for j := range val {
			val[j] = byte(1 + c.R.Intn(31))
			pred ^= sh.T[L-1-pos[j]][val[j]]
		}
		c.Evals(1)
		if cashSyn(pre, payload, pos, val) != pred {
			bad++
		}
	}
	c.Nontrivial(vf.Mix(3, vf.HashString(prefix), uint64(hb)))
	if bad != 0 {
		// The syndrome argument does not apply to this tree: the
		// enumeration result is not trusted, the black-box streams decide.
		c.Inconclusive("cashaddr-syndrome-map-not-affine")
		c.Count("syndrome_map_mismatches", int64(bad))
	} else {
		c.Inc("syndrome_map_validated_prefix_length_combinations")
	}
	if !sh.gfLinear {
		c.Inc("syndrome_map_not_gf32_linear")
	}
	// the valid codeword itself must be accepted (otherwise nothing below means anything)
	s := c03string(prefix, payload)
	var err error
	c.Call("DecodeCashAddress", func() string { return s }, func() { _, _, err = bchutil.DecodeCashAddress(s) })
	if err != nil {
		c.Inconclusive("valid-codeword-rejected")
	}
	if c.WantSample() {
		c.Sample(map[string]any{"prefix": prefix, "hash_bytes": hb, "symbols": L, "unit_syndrome_last_position_e1": fmt.Sprintf("%#x", sh.T[0][1]), "string": s})
	}
}

// --- stream: meet-in-the-middle enumeration over the measured map

// case i enumerates all weight-3 patterns whose smallest distance is i.
func c03mitmCase(c *vf.Ctx, i int) {
	sh := c.Shared.(*c03shared)
	L := c03maxL
	if i == 0 {
		c.Count("mitm_table_entries_weight_le2", int64(sh.entries))
		if len(sh.dupes) > 0 {
			// two different patterns of weight <= 2 with the same syndrome:
			// their xor is an undetected pattern of weight <= 4
			for _, d := range sh.dupes[:min(len(sh.dupes), 50)] {
				vb := make([]byte, len(d[1]))
				for k, v := range d[1] {
					vb[k] = byte(v)
				}
				c03confirm(c, sh, d[0], vb)
			}
		}
	}
	full := c.Tier == vf.Thorough || !sh.gfLinear
	d1 := i
	var probes int64
	e1lo, e1hi := 1, 1
	if full {
		e1hi = 31
	}
	for e1 := e1lo; e1 <= e1hi; e1++ {
		s1 := sh.T[d1][e1]
		for d2 := d1 + 1; d2 < L; d2++ {
			for e2 := 1; e2 < 32; e2++ {
				s2 := s1 ^ sh.T[d2][e2]
				for d3 := d2 + 1; d3 < L; d3++ {
					row := &sh.T[d3]
					for e3 := 1; e3 < 32; e3++ {
						s := s2 ^ row[e3]
						// inline lookup
						h := c03hash(s) & sh.tabMask
						for {
							cur := sh.tab[h]
							if cur == c03empty {
								break
							}
							if cur&(1<<40-1) == s {
								_, a1, b1, a2, b2 := c03unpack(cur)
								pos := []int{d1, d2, d3}
								val := []byte{byte(e1), byte(e2), byte(e3)}
								if a1 != 127 {
									pos = append(pos, a1)
									val = append(val, byte(b1))
								}
								if a2 != 127 {
									pos = append(pos, a2)
									val = append(val, byte(b2))
								}
								c03confirm(c, sh, pos, val)
								break
							}
							h = (h + 1) & sh.tabMask
						}
					}
				}
				probes += int64(L-d2-1) * 31
			}
		}
	}
	c.Evals(probes)
	c.Count("mitm_probes_weight3_vs_weight_le2", probes)
	if full {
		c.Inc("mitm_slices_full_enumeration")
	} else {
		c.Inc("mitm_slices_normalised_by_gf32_linearity")
	}
	c.Nontrivial(vf.Mix(4, uint64(i)))
}

// c03confirm is called when the enumeration found a candidate pattern with
// zero syndrome.  It merges duplicate positions, and if the pattern is
// non-zero applies it to real codewords of every length that contains it and
// asks the real decoder.
func c03confirm(c *vf.Ctx, sh *c03shared, pos []int, val []byte) {
	pm := map[int]byte{}
	for i, d := range pos {
		pm[d] ^= val[i]
	}
	var dist []int
	var vals []byte
	maxd := 0
	for d, e := range pm {
		if e != 0 {
			dist = append(dist, d)
			vals = append(vals, e)
			if d > maxd {
				maxd = d
			}
		}
	}
	if len(dist) == 0 {
		return
	}
	c.Inc("mitm_zero_syndrome_candidates")
	for _, hb := range c03sizes {
		L := c03symbols(hb)
		if L <= maxd {
			continue
		}
		prefix := c03prefixes[c.R.Intn(len(c03prefixes))]
		_, payload := c03codeword(c.R, prefix, hb)
		orig := c03string(prefix, payload)
		mut := append([]byte{}, payload...)
		for k, d := range dist {
			mut[L-1-d] ^= vals[k]
		}
		s := c03string(prefix, mut)
		var err error
		c.Call("DecodeCashAddress", func() string { return s }, func() { _, _, err = bchutil.DecodeCashAddress(s) })
		if err == nil {
			c.Failf("DecodeCashAddress/undetected-substitution", "weight-%d substitution accepted: valid %q -> corrupted %q is accepted (pattern distances-from-end %v values %v)", len(dist), orig, s, dist, vals)
		} else {
			c.Inconclusive("zero-syndrome-pattern-rejected-by-decoder")
		}
		return
	}
}

// --- stream: black-box exhaustive weight 1 and 2 on one codeword per length

var c03bbOffsets = func() []int {
	off := []int{0}
	for _, hb := range c03sizes {
		off = append(off, off[len(off)-1]+c03symbols(hb))
	}
	return off
}()

func c03bbCase(c *vf.Ctx, i int) {
	k := 0
	for i >= c03bbOffsets[k+1] {
		k++
	}
	hb := c03sizes[k]
	p1 := i - c03bbOffsets[k]
	// the codeword depends on (seed, length) only, so all slices of one
	// length corrupt the same string
	r := vf.NewRand(vf.Mix(c.Seed, 0xbb, uint64(hb)))
	prefix := c03prefixes[r.Intn(len(c03prefixes))]
	_, payload := c03codeword(r, prefix, hb)
	L := len(payload)
	buf := []byte(c03string(prefix, payload))
	off := len(prefix) + 1
	try := func(w int) {
		s := string(buf)
		var err error
		if !c.Call("DecodeCashAddress", func() string { return s }, func() { _, _, err = bchutil.DecodeCashAddress(s) }) {
			return
		}
		if err == nil {
			c.Failf("DecodeCashAddress/undetected-substitution", "weight-%d substitution accepted: valid %q -> corrupted %q", w, c03string(prefix, payload), s)
		}
	}
	var n int64
	for e1 := byte(1); e1 < 32; e1++ {
		buf[off+p1] = ref.CashCharset[payload[p1]^e1]
		try(1)
		n++
		for p2 := p1 + 1; p2 < L; p2++ {
			for e2 := byte(1); e2 < 32; e2++ {
				buf[off+p2] = ref.CashCharset[payload[p2]^e2]
				try(2)
				n++
			}
			buf[off+p2] = ref.CashCharset[payload[p2]]
		}
	}
	buf[off+p1] = ref.CashCharset[payload[p1]]
	c.Evals(n)
	c.Count("blackbox_exhaustive_weight1_2_decodes", n)
	c.Nontrivial(vf.Mix(5, uint64(hb), uint64(p1)))
	if p1 == 0 && c.Replay {
		fmt.Println("codeword:", c03string(prefix, payload))
	}
}

// --- stream: black-box seeded weight 1..5 through DecodeCashAddress and DecodeAddress

func c03randCase(c *vf.Ctx, i int) {
	ni := c.R.Intn(len(allNets))
	net := allNets[ni]
	slp := c.R.Bool() && net.P.SlpAddressPrefix != ""
	prefix := net.P.CashAddressPrefix
	if slp {
		prefix = net.P.SlpAddressPrefix
	}
	hb := c03sizes[c.R.Intn(len(c03sizes))]
	viaDecodeAddress := c.R.Bool()
	if viaDecodeAddress {
		hb = []int{20, 32}[c.R.Intn(2)]
	}
	_, payload := c03codeword(c.R, prefix, hb)
	orig := c03string(prefix, payload)
	L := len(payload)
	for rep := 0; rep < 64; rep++ {
		w := 1 + c.R.Intn(5)
		pos := c.R.Perm(L)[:w]
		mut := append([]byte{}, payload...)
		for _, p := range pos {
			mut[p] ^= byte(1 + c.R.Intn(31))
		}
		s := c03string(prefix, mut)
		if c.R.Bool() {
			s = asciiUpper(s)
		}
		if rep%4 == 3 {
			// substitution by characters OUTSIDE the alphabet (or of the other
			// case): the statement quantifies over every substituted string
			b := []byte(c03string(prefix, payload))
			if c.R.Bool() {
				b = []byte(asciiUpper(string(b)))
			}
			for _, p := range pos {
				b[len(prefix)+1+p] = c03foreignFor(c.R, b[len(prefix)+1+p], false)
			}
			s = string(b)
			c.Inc("blackbox_foreign_character_substitutions")
		}
		c.Evals(1)
		if viaDecodeAddress {
			var err error
			var a bchutil.Address
			c.Call("DecodeAddress", func() string { return s }, func() { a, err = bchutil.DecodeAddress(s, net.P) })
			if err == nil {
				c.Failf("DecodeAddress/undetected-substitution", "weight-%d substitution accepted on %s: valid %q -> corrupted %q decoded to %v", w, net.Name, orig, s, a)
			}
			c.Inc("blackbox_random_DecodeAddress")
		} else {
			var err error
			c.Call("DecodeCashAddress", func() string { return s }, func() { _, _, err = bchutil.DecodeCashAddress(s) })
			if err == nil {
				c.Failf("DecodeCashAddress/undetected-substitution", "weight-%d substitution accepted: valid %q -> corrupted %q", w, orig, s)
			}
			c.Inc("blackbox_random_DecodeCashAddress")
		}
		c.Nontrivial(vf.HashString(s))
	}
}

// c03foreignFor returns a byte different from orig that is not a symbol of
// the same case: a character outside the base32 alphabet, the other case of an
// alphabet letter, a control or high byte.  For bech32 the separator '1' is
// excluded (it would move the separator and make a different, unrelated string).
func c03foreignFor(r *vf.Rand, orig byte, bech32 bool) byte {
	for {
		var b byte
		switch r.Intn(5) {
		case 0:
			b = "bioBIO"[r.Intn(6)]
		case 1: // other case of an alphabet character
			b = ref.CashCharset[r.Intn(32)]
			if orig >= 'a' && orig <= 'z' || orig >= '0' && orig <= '9' {
				b = asciiUpper(string([]byte{b}))[0]
			}
		case 2:
			b = byte(r.Intn(33))
		case 3:
			b = byte(127 + r.Intn(129))
		default:
			const punct = "!\"#$%&'()*+,-./;<=>?@[\\]^_`{|}~ 1"
			b = punct[r.Intn(len(punct))]
		}
		if b == orig || (bech32 && b == '1') || (!bech32 && b == ':') {
			continue
		}
		if strings.IndexByte(ref.CashCharset, b) >= 0 {
			// still an alphabet symbol of the same case: only acceptable as a
			// "foreign" substitute when it changes the case of a letter
			lowerOrig := orig >= 'a' && orig <= 'z'
			if !(b >= 'a' && b <= 'z') || lowerOrig {
				continue
			}
		}
		return b
	}
}

// --- stream: a foreign character and its neighbour.  A decoder that maps a
// character outside the alphabet to a value above 31 (a table entry of -1 read
// as 255, a missing range check) feeds its high bits into the NEXT more
// significant 5-bit slot of the checksum; the string in which the neighbour
// compensates for exactly that is two substitutions away from a valid one and
// must be rejected.  All positions x all 7 overflow patterns x b, i, o, 1.

func c03foreignCompensatedCase(c *vf.Ctx, i int) {
	net := allNets[i%len(allNets)]
	slp := (i/len(allNets))%2 == 1 && net.P.SlpAddressPrefix != ""
	prefix := net.P.CashAddressPrefix
	if slp {
		prefix = net.P.SlpAddressPrefix
	}
	hb := []int{20, 32}[(i/(2*len(allNets)))%2]
	_, payload := c03codeword(c.R, prefix, hb)
	// make sure symbols 31 ('l') and 30 occur: the overflow values 255 / 254 keep them
	for k := 0; k < 3; k++ {
		_, payload = c03codeword(c.R, prefix, hb)
		has := false
		for _, v := range payload {
			if v == 31 {
				has = true
			}
		}
		if has {
			break
		}
	}
	valid := c03string(prefix, payload)
	upper := i%3 == 2
	foreign := "bio1"
	if upper {
		foreign = "BIO1"
	}
	off := len(prefix) + 1
	c.Nontrivial(vf.HashString(valid))
	for j := 1; j < len(payload); j++ {
		for h := byte(1); h <= 7; h++ {
			for f := 0; f < len(foreign); f++ {
				b := []byte(valid)
				b[off+j] = foreign[f]
				b[off+j-1] = ref.CashCharset[payload[j-1]^h]
				s := string(b)
				if upper {
					s = asciiUpper(valid)
					bb := []byte(s)
					bb[off+j] = foreign[f]
					bb[off+j-1] = asciiUpper(string(ref.CashCharset[payload[j-1]^h]))[0]
					s = string(bb)
				}
				c.Evals(2)
				var e1, e2 error
				c.Call("DecodeCashAddress", func() string { return s }, func() { _, _, e1 = bchutil.DecodeCashAddress(s) })
				if e1 == nil {
					c.Failf("DecodeCashAddress/undetected-substitution", "weight-2 substitution accepted: valid %q -> corrupted %q (foreign character %q at payload position %d, its left neighbour changed by %d)", valid, s, foreign[f], j, h)
				}
				var a bchutil.Address
				c.Call("DecodeAddress", func() string { return s }, func() { a, e2 = bchutil.DecodeAddress(s, net.P) })
				if e2 == nil {
					c.Failf("DecodeAddress/undetected-substitution", "weight-2 substitution accepted on %s: valid %q -> corrupted %q decoded to %v", net.Name, valid, s, a)
				}
			}
		}
	}
	c.Inc("addresses_probed_with_foreign_character_and_compensating_neighbour")
}

// --- stream: nested addresses.  A valid 256-bit address whose payload BEGINS
// with a complete valid 160-bit address (payload and checksum) of the same
// prefix and type; two substitutions - the size bits in symbol 1 and ANY byte
// at the position where the short address ends - give a string that a decoder
// accepts if it stops reading at that byte (a URI "?" or "#", a space, NUL, a
// control character ...).  The statement requires every such string to be
// rejected; every byte value is tried.

func c03nestedCase(c *vf.Ctx, i int) {
	net := allNets[i%len(allNets)]
	slp := (i/len(allNets))%2 == 1 && net.P.SlpAddressPrefix != ""
	prefix := net.P.CashAddressPrefix
	if slp {
		prefix = net.P.SlpAddressPrefix
	}
	typ := (i / (2 * len(allNets))) % 2 // 0 P2PKH, 1 P2SH
	short := ref.CashEncode(prefix, typ, c.R.Bytes(20))
	ssym := make([]byte, len(short))
	for j := range ssym {
		ssym[j] = byte(strings.IndexByte(ref.CashCharset, short[j]))
	}
	if len(ssym) != 42 {
		panic("harness: 160-bit CashAddr payload is not 42 symbols")
	}
	long := make([]byte, 53)
	copy(long, ssym)
	long[1] = 3<<2 | ssym[1]&3 // size bits 011: 256-bit hash
	for j := 42; j < 53; j++ {
		long[j] = byte(c.R.Intn(32))
	}
	long[52] &^= 1 // the padding bit
	raw, err := ref.Unpack5to8(long)
	if err != nil || len(raw) != 33 {
		c.Inconclusive("nested-construction-failed")
		return
	}
	valid := ref.CashEncode(prefix, typ, raw[1:])
	if len(valid) != 61 || valid[0] != short[0] || valid[2:42] != short[2:42] {
		panic("harness: nested address construction is inconsistent")
	}
	orig := prefix + ":" + valid
	c.Nontrivial(vf.HashString(orig))
	for cut := 0; cut < 256; cut++ {
		b := byte(cut)
		if b == ':' || strings.IndexByte(ref.CashCharset, b|0x20) >= 0 && (b|0x20 >= 'a' && b|0x20 <= 'z') || strings.IndexByte(ref.CashCharset, b) >= 0 {
			continue // an alphabet symbol (either case) or the separator: other streams
		}
		for _, bare := range []bool{false, true} {
			m := []byte(valid)
			m[1] = short[1]
			m[42] = b
			s := string(m)
			if !bare {
				s = prefix + ":" + s
			}
			c.Evals(2)
			var e1, e2 error
			var a bchutil.Address
			c.Call("DecodeAddress", func() string { return s }, func() { a, e1 = bchutil.DecodeAddress(s, net.P) })
			if e1 == nil {
				c.Failf("DecodeAddress/undetected-substitution", "weight-2 substitution accepted on %s: valid %q -> corrupted %q (symbol 1 and byte %#02x at the end of an embedded shorter address) decoded to %v", net.Name, orig, s, b, a)
			}
			if !bare {
				c.Call("DecodeCashAddress", func() string { return s }, func() { _, _, e2 = bchutil.DecodeCashAddress(s) })
				if e2 == nil {
					c.Failf("DecodeCashAddress/undetected-substitution", "weight-2 substitution accepted: valid %q -> corrupted %q", orig, s)
				}
			}
		}
	}
	c.Inc("nested_addresses_probed_with_every_cut_byte")
}

// --- stream: addresses with at most five letters in the payload, letters
// upper-cased while the prefix stays lower case: a substitution of weight <= 5
// (by characters of the other case) that leaves every symbol VALUE unchanged.

func c03fewLettersCase(c *vf.Ctx, i int) {
	const digits = "023456789"
	net := allNets[i%len(allNets)]
	prefix := net.P.CashAddressPrefix
	if i%2 == 1 && net.P.SlpAddressPrefix != "" {
		prefix = net.P.SlpAddressPrefix
	}
	isLetter := func(ch byte) bool { return ch >= 'a' && ch <= 'z' }
	for try := 0; try < 400; try++ {
		// payload symbols: the version symbol, then digits only
		sym := make([]byte, 34)
		for j := 1; j < 34; j++ {
			sym[j] = byte(strings.IndexByte(ref.CashCharset, digits[c.R.Intn(len(digits))]))
		}
		sym[33] &^= 3 // zero padding bits (168 bits in 34 symbols)
		body := ref.CashEncodeSymbols(prefix, sym)
		var letters []int
		for j := 0; j < len(body); j++ {
			if isLetter(body[j]) {
				letters = append(letters, j)
			}
		}
		if len(letters) == 0 || len(letters) > 5 {
			continue
		}
		valid := prefix + ":" + body
		var err error
		c.Call("DecodeCashAddress", func() string { return valid }, func() { _, _, err = bchutil.DecodeCashAddress(valid) })
		if err != nil {
			c.Inconclusive("few-letter-codeword-rejected")
			return
		}
		c.Inc("few_letter_addresses")
		c.Nontrivial(vf.HashString(valid))
		for mask := 1; mask < 1<<len(letters); mask++ {
			b := []byte(body)
			w := 0
			for k, p := range letters {
				if mask>>k&1 == 1 {
					b[p] -= 32
					w++
				}
			}
			s := prefix + ":" + string(b)
			c.Evals(2)
			c.Call("DecodeCashAddress", func() string { return s }, func() { _, _, err = bchutil.DecodeCashAddress(s) })
			if err == nil {
				c.Failf("DecodeCashAddress/undetected-substitution", "weight-%d substitution (letters replaced by their upper-case form) accepted: valid %q -> %q", w, valid, s)
			}
			c.Call("DecodeAddress", func() string { return s }, func() { _, err = bchutil.DecodeAddress(s, net.P) })
			if err == nil {
				c.Failf("DecodeAddress/undetected-substitution", "weight-%d substitution (letters replaced by their upper-case form) accepted on %s: valid %q -> %q", w, net.Name, valid, s)
			}
		}
		if c.WantSample() {
			c.Sample(map[string]any{"few_letter_address": valid, "letters": len(letters)})
		}
		return
	}
	c.Inconclusive("no-few-letter-address-found")
}

// --- stream: near misses (patterns whose syndrome vanishes on a mask)

func c03nearCase(c *vf.Ctx, i int) {
	sh := c.Shared.(*c03shared)
	if len(sh.near) == 0 {
		c.Inconclusive("no-near-miss-patterns-found")
		return
	}
	nm := sh.near[i%len(sh.near)]
	maxd := 0
	var syn uint64
	for k, d := range nm.pos {
		if d > maxd {
			maxd = d
		}
		syn ^= sh.T[d][nm.val[k]]
	}
	for _, hb := range c03sizes {
		L := c03symbols(hb)
		if L <= maxd {
			continue
		}
		for _, prefix := range c03prefixes {
			_, payload := c03codeword(c.R, prefix, hb)
			orig := c03string(prefix, payload)
			mut := append([]byte{}, payload...)
			for k, d := range nm.pos {
				mut[L-1-d] ^= nm.val[k]
			}
			s := c03string(prefix, mut)
			var err error
			c.Evals(1)
			c.Call("DecodeCashAddress", func() string { return s }, func() { _, _, err = bchutil.DecodeCashAddress(s) })
			if err == nil {
				c.Failf("DecodeCashAddress/undetected-substitution", "weight-%d substitution accepted (its syndrome %#010x vanishes only on mask %s): valid %q -> corrupted %q", len(nm.pos), syn, nm.name, orig, s)
			}
			if hb == 20 || hb == 32 {
				for _, net := range allNets {
					if net.P.CashAddressPrefix == prefix || net.P.SlpAddressPrefix == prefix {
						c.Evals(1)
						c.Call("DecodeAddress", func() string { return s }, func() { _, err = bchutil.DecodeAddress(s, net.P) })
						if err == nil {
							c.Failf("DecodeAddress/undetected-substitution", "weight-%d substitution accepted on %s (syndrome vanishes on mask %s): valid %q -> corrupted %q", len(nm.pos), net.Name, nm.name, orig, s)
						}
					}
				}
			}
		}
		c.Inc("near_miss_patterns_tried_mask_" + nm.name)
	}
	c.Nontrivial(vf.Mix(6, uint64(i%len(sh.near))))
	if c.WantSample() {
		c.Sample(map[string]any{"near_miss_mask": nm.name, "distances_from_end": nm.pos, "values": nm.val, "syndrome": fmt.Sprintf("%#010x", syn)})
	}
}

// ---------------------------------------------------------------- bech32

type c03b32 struct {
	T         [90][32]uint32
	dupes     [][2][]int
	n         int
	cosets    int
	cosetPats [][2][]int
	near      [][2][]int // pairs (positions, values) agreeing on low 25 / dropped groups
}

func b32syn(hrp string, data []byte, pos []int, val []byte) uint32 {
	v := make([]int, 0, 2*len(hrp)+1+len(data))
	for _, b := range ref.Bech32HrpExpand(hrp) {
		v = append(v, int(b))
	}
	o := len(v)
	for _, d := range data {
		v = append(v, int(d))
	}
	base := bech32.VerifPolymod(v)
	for i, p := range pos {
		v[o+p] ^= int(val[i])
	}
	return uint32(bech32.VerifPolymod(v) ^ base)
}

func b32codeword(r *vf.Rand, hrpLen, dataLen int) (string, []byte) {
	hb := make([]byte, hrpLen)
	for i := range hb {
		hb[i] = "abcdefghijklmnopqrstuvwxyz0123456789"[r.Intn(36)]
	}
	hrp := string(hb)
	data := make([]byte, dataLen)
	for i := range data {
		data[i] = byte(r.Intn(32))
	}
	full := ref.Bech32Encode(hrp, data)
	sym := make([]byte, 0, dataLen+6)
	for _, ch := range full[len(hrp)+1:] {
		sym = append(sym, byte(strings.IndexRune(ref.CashCharset, ch)))
	}
	return hrp, sym
}

const b32maxL = 88 // data part incl. checksum when the hrp has one character

func c03b32init(t vf.Tier, seed uint64) any {
	sh := &c03b32{}
	r := vf.NewRand(vf.Mix(seed, 0xb32))
	hrp, sym := b32codeword(r, 1, b32maxL-6)
	L := len(sym)
	for d := 0; d < L; d++ {
		for e := 1; e < 32; e++ {
			sh.T[d][e] = b32syn(hrp, sym, []int{L - 1 - d}, []byte{byte(e)})
		}
	}
	// all patterns of weight <= 2: any duplicate (or zero) syndrome is an
	// undetected pattern of weight <= 4
	type ent struct {
		s      uint32
		d1, d2 int8
		e1, e2 int8
	}
	list := make([]ent, 0, 3700000)
	list = append(list, ent{0, -1, -1, 0, 0})
	for d1 := 0; d1 < L; d1++ {
		for e1 := 1; e1 < 32; e1++ {
			list = append(list, ent{sh.T[d1][e1], int8(d1), -1, int8(e1), 0})
			for d2 := d1 + 1; d2 < L; d2++ {
				for e2 := 1; e2 < 32; e2++ {
					list = append(list, ent{sh.T[d1][e1] ^ sh.T[d2][e2], int8(d1), int8(d2), int8(e1), int8(e2)})
				}
			}
		}
	}
	sh.n = len(list)
	sort.Slice(list, func(i, j int) bool { return list[i].s < list[j].s })
	for i := 1; i < len(list); i++ {
		if list[i].s == list[i-1].s && len(sh.dupes) < 50 {
			a, b := list[i-1], list[i]
			pm := map[int]byte{}
			for _, pr := range [][2]int8{{a.d1, a.e1}, {a.d2, a.e2}, {b.d1, b.e1}, {b.d2, b.e2}} {
				if pr[0] >= 0 && pr[1] != 0 {
					pm[int(pr[0])] ^= byte(pr[1])
				}
			}
			var ds, vs []int
			for d, e := range pm {
				if e != 0 {
					ds = append(ds, d)
					vs = append(vs, int(e))
				}
			}
			if len(ds) > 0 {
				sh.dupes = append(sh.dupes, [2][]int{ds, vs})
			}
		}
	}
	// cosets: patterns of weight <= 4 whose syndrome equals the difference
	// between the bech32 constant and another plausible final constant
	// (BIP350's bech32m 0x2bc830a3, 0): what a decoder that also accepts that
	// constant would let through
	sort.Slice(list, func(i, j int) bool { return list[i].s < list[j].s })
	for _, t := range []uint32{1 ^ 0x2bc830a3, 1 ^ 0} {
		found := 0
		for i := 0; i < len(list) && found < 24; i += 1 + len(list)/200000 {
			a := list[i]
			want := a.s ^ t
			k := sort.Search(len(list), func(x int) bool { return list[x].s >= want })
			if k >= len(list) || list[k].s != want {
				continue
			}
			b := list[k]
			pm := map[int]byte{}
			for _, pr := range [][2]int8{{a.d1, a.e1}, {a.d2, a.e2}, {b.d1, b.e1}, {b.d2, b.e2}} {
				if pr[0] >= 0 && pr[1] != 0 {
					pm[int(pr[0])] ^= byte(pr[1])
				}
			}
			var pos, val []int
			for d, e := range pm {
				if e != 0 {
					pos = append(pos, d)
					val = append(val, int(e))
				}
			}
			if len(pos) == 0 {
				continue
			}
			sh.near = append(sh.near, [2][]int{pos, val})
			sh.cosetPats = append(sh.cosetPats, [2][]int{pos, val})
			sh.cosets++
			found++
		}
	}
	// near misses: agree on the low 25 bits / on all but one 5-bit group
	masks := []uint32{0x1ffffff, 0x3fffffe0, 0x3ffffc1f, 0x3fff83ff, 0x3ff07fff, 0x3e0fffff, 0x01ffffff}
	for _, m := range masks {
		sort.Slice(list, func(i, j int) bool { return list[i].s&m < list[j].s&m })
		found := 0
		for i := 1; i < len(list) && found < 16; i++ {
			a, b := list[i-1], list[i]
			if a.s&m != b.s&m {
				continue
			}
			pm := map[int]byte{}
			add := func(d, e int8) {
				if d >= 0 && e != 0 {
					pm[int(d)] ^= byte(e)
				}
			}
			add(a.d1, a.e1)
			add(a.d2, a.e2)
			add(b.d1, b.e1)
			add(b.d2, b.e2)
			var pos, val []int
			for d, e := range pm {
				if e != 0 {
					pos = append(pos, d)
					val = append(val, int(e))
				}
			}
			if len(pos) == 0 {
				continue
			}
			sh.near = append(sh.near, [2][]int{pos, val})
			found++
		}
	}
	return sh
}

func c03b32mapCase(c *vf.Ctx, i int) {
	sh := c.Shared.(*c03b32)
	if i == 0 {
		c.Count("bech32_weight_le2_patterns_enumerated", int64(sh.n))
		c.Evals(int64(sh.n))
		c.Count("bech32_coset_patterns_for_other_constants", int64(len(sh.cosetPats)))
		for _, d := range sh.cosetPats {
			maxd := 0
			for _, x := range d[0] {
				if x > maxd {
					maxd = x
				}
			}
			L := maxd + 1
			if L < 8 {
				L = 8
			}
			hrp, sym := b32codeword(c.R, 1, L-6)
			orig := b32string(hrp, sym)
			for k, x := range d[0] {
				sym[L-1-x] ^= byte(d[1][k])
			}
			s := b32string(hrp, sym)
			var err error
			c.Evals(1)
			c.Call("bech32.Decode", func() string { return s }, func() { _, _, err = bech32.Decode(s) })
			if err == nil {
				c.Failf("bech32.Decode/undetected-substitution", "weight-%d substitution accepted (its syndrome equals the difference to another checksum constant such as bech32m's): valid %q -> corrupted %q", len(d[0]), orig, s)
			}
		}
		for _, d := range sh.dupes {
			// zero-syndrome pattern of weight <= 4 on the measured map: ask the real decoder
			c.Inc("bech32_zero_syndrome_candidates")
			maxd := 0
			for _, x := range d[0] {
				if x > maxd {
					maxd = x
				}
			}
			L := maxd + 1
			if L < 8 {
				L = 8
			}
			hrp, sym := b32codeword(c.R, 1, L-6)
			orig := b32string(hrp, sym)
			for k, x := range d[0] {
				sym[L-1-x] ^= byte(d[1][k])
			}
			s := b32string(hrp, sym)
			var err error
			c.Call("bech32.Decode", func() string { return s }, func() { _, _, err = bech32.Decode(s) })
			if err == nil {
				c.Failf("bech32.Decode/undetected-substitution", "weight-%d substitution accepted (found by enumerating the measured syndrome map): valid %q -> corrupted %q", len(d[0]), orig, s)
			} else {
				c.Inconclusive("bech32-zero-syndrome-pattern-rejected-by-decoder")
			}
		}
	}
	hrpLen := 1 + c.R.Intn(20)
	maxData := 90 - hrpLen - 1
	dataLen := c.R.Intn(maxData-6+1) + 0
	if i%4 == 0 {
		dataLen = maxData - 6
	}
	hrp, sym := b32codeword(c.R, hrpLen, dataLen)
	L := len(sym)
	bad := 0
	for p := 0; p < L; p++ {
		for e := 1; e < 32; e++ {
			c.Evals(1)
			if b32syn(hrp, sym, []int{p}, []byte{byte(e)}) != sh.T[L-1-p][e] {
				bad++
			}
		}
	}
	for k := 0; k < 500 && L >= 8; k++ {
		w := 2 + c.R.Intn(5)
		pos := c.R.Perm(L)[:w]
		val := make([]byte, w)
		var pred uint32
		for j := range val {
			val[j] = byte(1 + c.R.Intn(31))
			pred ^= sh.T[L-1-pos[j]][val[j]]
		}
		c.Evals(1)
		if b32syn(hrp, sym, pos, val) != pred {
			bad++
		}
	}
	if bad != 0 {
		c.Inconclusive("bech32-syndrome-map-not-affine")
		c.Count("bech32_syndrome_map_mismatches", int64(bad))
	} else {
		c.Inc("bech32_syndrome_map_validated_hrp_length_combinations")
	}
	c.Nontrivial(vf.Mix(7, vf.HashString(hrp), uint64(L)))
}

func b32string(hrp string, sym []byte) string {
	var sb strings.Builder
	sb.WriteString(hrp)
	sb.WriteByte('1')
	for _, s := range sym {
		sb.WriteByte(ref.CashCharset[s])
	}
	return sb.String()
}

// exhaustive weight 1 and 2 on bech32 strings of several lengths
var c03b32lensAll = []int{8, 14, 27, 39, 58, 75, 88} // data part lengths incl. checksum

func c03b32lensFor(t vf.Tier) []int {
	if t == vf.Thorough {
		return c03b32lensAll
	}
	return c03b32lensAll[:5]
}

func c03b32bbCase(c *vf.Ctx, i int) {
	lens := c03b32lensFor(c.Tier)
	k, p1 := 0, i
	for p1 >= lens[k] {
		p1 -= lens[k]
		k++
	}
	L := lens[k]
	r := vf.NewRand(vf.Mix(c.Seed, 0xb3, uint64(L)))
	hrpLen := 1
	if L < 88 {
		hrpLen = 1 + r.Intn(min(10, 90-1-L))
	}
	hrp, sym := b32codeword(r, hrpLen, L-6)
	orig := b32string(hrp, sym)
	buf := []byte(orig)
	off := len(hrp) + 1
	var n int64
	try := func(w int) {
		s := string(buf)
		var err error
		if !c.Call("bech32.Decode", func() string { return s }, func() { _, _, err = bech32.Decode(s) }) {
			return
		}
		n++
		if err == nil {
			c.Failf("bech32.Decode/undetected-substitution", "weight-%d substitution accepted: valid %q -> corrupted %q", w, orig, s)
		}
	}
	for e1 := byte(1); e1 < 32; e1++ {
		buf[off+p1] = ref.CashCharset[sym[p1]^e1]
		try(1)
		for p2 := p1 + 1; p2 < L; p2++ {
			for e2 := byte(1); e2 < 32; e2++ {
				buf[off+p2] = ref.CashCharset[sym[p2]^e2]
				try(2)
			}
			buf[off+p2] = ref.CashCharset[sym[p2]]
		}
	}
	c.Evals(n)
	c.Count("bech32_blackbox_exhaustive_weight1_2_decodes", n)
	c.Nontrivial(vf.Mix(8, uint64(L), uint64(p1)))
}

func c03b32randCase(c *vf.Ctx, i int) {
	sh := c.Shared.(*c03b32)
	hrpLen := 1 + c.R.Intn(30)
	maxData := 90 - hrpLen - 1
	L := 6 + c.R.Intn(maxData-6+1)
	hrp, sym := b32codeword(c.R, hrpLen, L-6)
	orig := b32string(hrp, sym)
	for rep := 0; rep < 64; rep++ {
		mut := append([]byte{}, sym...)
		w := 1 + c.R.Intn(4)
		desc := ""
		if rep < 8 && len(sh.near) > 0 {
			nm := sh.near[c.R.Intn(len(sh.near))]
			ok := true
			for _, d := range nm[0] {
				if d >= L {
					ok = false
				}
			}
			if !ok {
				continue
			}
			for k, d := range nm[0] {
				mut[L-1-d] ^= byte(nm[1][k])
			}
			w = len(nm[0])
			desc = " (near miss: syndrome vanishes on a partial mask)"
			c.Inc("bech32_near_miss_patterns_tried")
		} else {
			if w > L {
				w = L
			}
			for _, p := range c.R.Perm(L)[:w] {
				mut[p] ^= byte(1 + c.R.Intn(31))
			}
		}
		s := b32string(hrp, mut)
		if c.R.Bool() {
			s = asciiUpper(s)
		}
		if rep%4 == 3 && desc == "" {
			b := []byte(b32string(hrp, sym))
			if c.R.Bool() {
				b = []byte(asciiUpper(string(b)))
			}
			w = 1 + c.R.Intn(4)
			if w > L {
				w = L
			}
			for _, p := range c.R.Perm(L)[:w] {
				b[len(hrp)+1+p] = c03foreignFor(c.R, b[len(hrp)+1+p], true)
			}
			s = string(b)
			desc = " (characters outside the alphabet / of the other case)"
			c.Inc("bech32_foreign_character_substitutions")
		}
		var err error
		c.Evals(1)
		c.Call("bech32.Decode", func() string { return s }, func() { _, _, err = bech32.Decode(s) })
		if err == nil {
			c.Failf("bech32.Decode/undetected-substitution", "weight-%d substitution accepted%s: valid %q -> corrupted %q", w, desc, orig, s)
		}
		c.Nontrivial(vf.HashString(s))
	}
}

func init() {
	_ = bits.OnesCount64
	register(&vf.Property{
		ID:    "C03",
		Title: "Address checksums detect every corruption they are specified to detect",
		Rule: "CashAddr: the implementation's syndrome map (31 unit errors x 112 positions) is measured through the verif hook and validated (independence of prefix/length/codeword, additivity) on every prefix x length; " +
			"all weight-3 patterns are then probed against a table of all weight<=2 patterns on a 112-symbol window (meet in the middle; quick normalises the first error value to 1 after checking GF(32)-linearity of the measured map, thorough enumerates all 31^3 value triples), which covers every pattern of weight <= 5 for all eight standard lengths; " +
			"black box: every weight-1 and weight-2 substitution on one codeword per length, seeded weight 1..5 substitutions (within the alphabet, and by characters outside it / of the other case) through DecodeCashAddress and DecodeAddress on all nets, and near-miss patterns whose syndrome vanishes on a partial mask. " +
			"bech32: all weight<=2 patterns on an 88-symbol window are enumerated on the measured map (duplicates = undetected weight<=4), plus the same black-box families through bech32.Decode. " +
			"distinct_nontrivial counts distinct enumeration slices, validated (prefix,length) combinations and distinct corrupted strings of the seeded streams.",
		Assumptions: []string{
			"the remainder functions are affine over GF(2) in the symbols; this is validated at run time on the implementation's own functions (sampled) and every pattern the enumeration flags is re-decided by the real decoder, but additivity is not proven for all inputs",
			"hooks VerifPolyMod / VerifPolymod return exactly polyMod / bech32Polymod (add-only export files)",
		},
		SelfTest: func() error {
			if err := ref.SelfTestCashAddr(); err != nil {
				return err
			}
			return ref.SelfTestBech32()
		},
		Streams: []*vf.Stream{
			{Name: "cashaddr-syndrome-map", N: func(t vf.Tier) int { return len(c03prefixes) * len(c03sizes) * t.Sz(1, 4) }, Run: c03mapCase, Init: c03initMap},
			{Name: "cashaddr-mitm-w5", N: func(t vf.Tier) int { return c03maxL - 2 }, Run: c03mitmCase, Init: c03initMitm, Exhaustive: true, MaxCaseSec: 600},
			{Name: "cashaddr-blackbox-w1-w2", N: func(t vf.Tier) int { return c03bbOffsets[len(c03bbOffsets)-1] }, Run: c03bbCase, Exhaustive: true},
			{Name: "cashaddr-blackbox-seeded", N: func(t vf.Tier) int { return t.Sz(40000, 2000000) }, Run: c03randCase},
			{Name: "cashaddr-few-letters-case", N: func(t vf.Tier) int { return t.Sz(600, 6000) }, Run: c03fewLettersCase},
			{Name: "cashaddr-foreign-compensated", N: func(t vf.Tier) int { return t.Sz(144, 1440) }, Run: c03foreignCompensatedCase},
			{Name: "cashaddr-nested", N: func(t vf.Tier) int { return t.Sz(48, 480) }, Run: c03nestedCase},
			{Name: "cashaddr-near-miss", N: func(t vf.Tier) int { return t.Sz(264, 264*4) }, Run: c03nearCase, Init: c03initNear},
			{Name: "bech32-syndrome-map", N: func(t vf.Tier) int { return t.Sz(200, 2000) }, Run: c03b32mapCase, Init: c03b32init, Exhaustive: false},
			{Name: "bech32-blackbox-w1-w2", N: func(t vf.Tier) int {
				n := 0
				for _, l := range c03b32lensFor(t) {
					n += l
				}
				return n
			}, Run: c03b32bbCase, Exhaustive: true},
			{Name: "bech32-blackbox-seeded", N: func(t vf.Tier) int { return t.Sz(20000, 1000000) }, Run: c03b32randCase, Init: c03b32init},
		},
	})
}
