package vf

import (
	"encoding/json"
	"fmt"
	"runtime/debug"
	"sort"
	"strings"
	"sync/atomic"
)

// Tier selects the size of every stream.
type Tier int

const (
	Quick Tier = iota
	Thorough
)

func (t Tier) String() string {
	if t == Thorough {
		return "thorough"
	}
	return "quick"
}

// Sz picks a size by tier.
func (t Tier) Sz(quick, thorough int) int {
	if t == Thorough {
		return thorough
	}
	return quick
}

// Property is everything the driver needs to decide one property.
type Property struct {
	ID    string
	Title string
	// Rule is evidence text: how cases are generated and what counts as a
	// distinct non-trivial case.
	Rule        string
	Assumptions []string
	// SelfTest validates the reference implementations against published
	// vectors.  A failure is a harness error (exit 2), never a verdict.
	SelfTest func() error
	Streams  []*Stream
}

// Stream is a deterministic, indexable list of cases.
type Stream struct {
	Name string
	// N is the number of cases for the tier.
	N func(t Tier) int
	// Run executes case i.  It must derive all randomness from c.R.
	Run func(c *Ctx, i int)
	// Init, if set, is called once per child before any case and its result
	// is available as c.Shared.
	Init func(t Tier, seed uint64) any
	// Race streams run in the -race build; race reports are collected from
	// the GORACE log by the supervisor.
	Race bool
	// Workers is the number of case goroutines per child (0 = NumCPU).
	Workers int
	// Shards is the number of child processes the index range is split into
	// (0 = 1).
	Shards int
	// Exhaustive marks streams that enumerate a finite space completely.
	Exhaustive bool
	// MaxCaseSec is the per-case budget used by the hang watchdog
	// (0 = 60).  The watchdog only fires after 5x this without progress and
	// its firing alone is inconclusive.
	MaxCaseSec int
	// RlimitAS, if non-zero, is set as the child's address-space limit
	// (ignored in race builds).
	RlimitAS uint64
	// Arch386 runs the stream's children with the GOARCH=386 build of the
	// driver (int and uintptr are 32 bits wide there): the statements do not
	// depend on the platform, the code under test may.
	Arch386 bool
}

// Violation is one refutation of the property, with everything needed to
// replay it.
type Violation struct {
	Property string `json:"property"`
	Key      string `json:"key"`
	Stream   string `json:"stream"`
	Index    int    `json:"index"`
	Seed     uint64 `json:"seed"`
	Tier     string `json:"tier"`
	Msg      string `json:"msg"`
	Stack    string `json:"stack,omitempty"`
	Count    int64  `json:"count"`
}

// Result is what a child reports for its slice of a stream.
type Result struct {
	Stream       string            `json:"stream"`
	Cases        int64             `json:"cases"`
	Evaluations  int64             `json:"evaluations"`
	Counters     map[string]int64  `json:"counters"`
	Inconclusive map[string]int64  `json:"inconclusive"`
	Violations   []*Violation      `json:"violations"`
	Samples      []json.RawMessage `json:"samples"`
	Extra        map[string]any    `json:"extra,omitempty"`
	Done         bool              `json:"done"`
	Next         int               `json:"next,omitempty"` // checkpoint: first index not covered
}

type workerState struct {
	counters     map[string]int64
	inconclusive map[string]int64
	violations   map[string]*Violation
	samples      []json.RawMessage
	evals        int64
	cases        int64
	extra        map[string]any
}

func newWorkerState() *workerState {
	return &workerState{
		counters:     map[string]int64{},
		inconclusive: map[string]int64{},
		violations:   map[string]*Violation{},
		extra:        map[string]any{},
	}
}

// Ctx is handed to every case.
type Ctx struct {
	R      *Rand
	Tier   Tier
	Seed   uint64
	Prop   string
	Stream string
	Index  int
	N      int
	Shared any
	// Replay is true when a single case is re-run from a replay file; cases
	// may print more detail then.
	Replay bool

	w      *workerState
	bitmap *Bitmap
}

// Failf records a violation of the property.  key identifies the failing
// call site and clause (it is what known findings are matched on); the
// message should contain the concrete inputs.
func (c *Ctx) Failf(key, format string, args ...any) {
	full := c.Prop + "/" + key
	v := c.w.violations[full]
	if v == nil {
		msg := fmt.Sprintf(format, args...)
		if len(msg) > 6000 {
			msg = msg[:6000] + "…(truncated)"
		}
		v = &Violation{Property: c.Prop, Key: full, Stream: c.Stream, Index: c.Index,
			Seed: c.Seed, Tier: c.Tier.String(), Msg: msg}
		c.w.violations[full] = v
		if c.Replay {
			fmt.Printf("FAIL %s: %s\n", full, msg)
		}
	}
	v.Count++
}

// Count adds to a named coverage counter.
func (c *Ctx) Count(name string, n int64) { c.w.counters[name] += n }

// Inc adds one to a named coverage counter.
func (c *Ctx) Inc(name string) { c.w.counters[name]++ }

// Evals counts oracle evaluations (one case may evaluate many).
func (c *Ctx) Evals(n int64) { c.w.evals += n }

// Inconclusive counts an observation that could not be decided.
func (c *Ctx) Inconclusive(name string) { c.w.inconclusive[name]++ }

// Nontrivial registers a distinct non-trivial case by hash.
func (c *Ctx) Nontrivial(h uint64) {
	if c.bitmap != nil {
		c.bitmap.Set(h)
	}
}

// WantSample is true for a handful of indices per stream.
func (c *Ctx) WantSample() bool {
	return c.Index == 0 || c.Index == c.N/2 || c.Index == c.N-1
}

// Sample records an actual case for the evidence file.
func (c *Ctx) Sample(v any) {
	if len(c.w.samples) >= 4 {
		return
	}
	b, err := json.Marshal(v)
	if err != nil {
		b, _ = json.Marshal(fmt.Sprintf("%+v", v))
	}
	if len(b) > 1500 {
		b, _ = json.Marshal(string(b[:1500]) + "…")
	}
	c.w.samples = append(c.w.samples, b)
}

// SetExtra stores a stream-level observation (merged by key, last wins).
func (c *Ctx) SetExtra(k string, v any) { c.w.extra[k] = v }

// Call runs f (a call into the code under test) and converts a panic into a
// violation keyed "<site>/panic".  It returns false if f panicked.
func (c *Ctx) Call(site string, input func() string, f func()) (ok bool) {
	defer func() {
		if r := recover(); r != nil {
			ok = false
			in := ""
			if input != nil {
				in = input()
			}
			st := string(debug.Stack())
			c.Failf(site+"/panic", "panic: %v\ninput: %s\nat: %s", r, in, RepoFrame(st))
			if v := c.w.violations[c.Prop+"/"+site+"/panic"]; v != nil && v.Stack == "" {
				v.Stack = trimStack(st)
			}
		}
	}()
	f()
	return true
}

// RepoFrame returns the innermost stack frame that belongs to the code under
// test (gcash/bchutil or one of its dependencies), or "?".
func RepoFrame(stack string) string {
	lines := strings.Split(stack, "\n")
	seenPanic := false
	for _, l := range lines {
		if strings.HasPrefix(l, "panic(") {
			seenPanic = true
			continue
		}
		if !seenPanic {
			continue
		}
		if strings.HasPrefix(l, "\t") || strings.HasPrefix(l, "runtime") {
			continue
		}
		if strings.HasPrefix(l, "verif/") || strings.HasPrefix(l, "main.") || strings.HasPrefix(l, "created by") {
			continue
		}
		if i := strings.LastIndex(l, "("); i > 0 {
			l = l[:i]
		}
		if l != "" {
			return l
		}
	}
	return "harness"
}

func trimStack(s string) string {
	if len(s) > 4000 {
		return s[:4000]
	}
	return s
}

// Bitmap counts distinct hashes conservatively (collisions undercount).
type Bitmap struct {
	words []uint64
	mask  uint64
}

func (b *Bitmap) Set(h uint64) {
	i := h & b.mask
	w := &b.words[i>>6]
	bit := uint64(1) << (i & 63)
	if atomic.LoadUint64(w)&bit == 0 {
		atomic.OrUint64(w, bit)
	}
}

func (b *Bitmap) Popcount() int64 {
	var n int64
	for _, w := range b.words {
		for w != 0 {
			w &= w - 1
			n++
		}
	}
	return n
}

func mergeResult(dst *Result, src *Result) {
	dst.Cases += src.Cases
	dst.Evaluations += src.Evaluations
	for k, v := range src.Counters {
		dst.Counters[k] += v
	}
	for k, v := range src.Inconclusive {
		dst.Inconclusive[k] += v
	}
	for _, v := range src.Violations {
		found := false
		for _, d := range dst.Violations {
			if d.Key == v.Key {
				d.Count += v.Count
				if v.Stream < d.Stream || (v.Stream == d.Stream && v.Index < d.Index) {
					cnt := d.Count
					*d = *v
					d.Count = cnt
				}
				found = true
				break
			}
		}
		if !found {
			cp := *v
			dst.Violations = append(dst.Violations, &cp)
		}
	}
	if len(dst.Samples) < 8 {
		dst.Samples = append(dst.Samples, src.Samples...)
	}
	for k, v := range src.Extra {
		if dst.Extra == nil {
			dst.Extra = map[string]any{}
		}
		dst.Extra[k] = v
	}
}

func newResult(stream string) *Result {
	return &Result{Stream: stream, Counters: map[string]int64{}, Inconclusive: map[string]int64{}}
}

func sortedKeys(m map[string]int64) []string {
	ks := make([]string, 0, len(m))
	for k := range m {
		ks = append(ks, k)
	}
	sort.Strings(ks)
	return ks
}

// SiteOf normalises a Go function name into a finding-key component: a
// function of the code under test is kept as is; a function of one of its
// dependencies is reduced to "dep:<package path>" so that the key does not
// depend on which internal helper of the dependency happened to allocate or
// crash; anything else (standard library, runtime, harness) yields "".
func SiteOf(fn string) string {
	const repo = "github.com/gcash/bchutil"
	if strings.HasPrefix(fn, repo) {
		return fn
	}
	i := strings.Index(fn, "/")
	if i < 0 || !strings.Contains(fn[:i], ".") || strings.HasPrefix(fn, "verif/") {
		return "" // standard library, runtime, harness
	}
	// package path = up to the first '.' after the last '/'
	slash := strings.LastIndex(fn, "/")
	dot := strings.Index(fn[slash+1:], ".")
	if dot < 0 {
		return "dep:" + fn
	}
	return "dep:" + fn[:slash+1+dot]
}
