// Package vf is the runtime-monitoring framework shared by every property:
// deterministic case streams, a supervisor that runs them in crash-isolated
// child processes, coverage accounting, known-finding matching and evidence.
package vf

import (
	"math"
	"math/bits"
)

// Rand is a small deterministic PRNG (xoshiro256** seeded by splitmix64).
// Every case gets its own Rand derived from (seed, property, stream, index),
// so a case can be replayed in isolation.
type Rand struct{ s [4]uint64 }

func splitmix(x *uint64) uint64 {
	*x += 0x9e3779b97f4a7c15
	z := *x
	z = (z ^ (z >> 30)) * 0xbf58476d1ce4e5b9
	z = (z ^ (z >> 27)) * 0x94d049bb133111eb
	return z ^ (z >> 31)
}

// Mix hashes a list of words into one.
func Mix(ws ...uint64) uint64 {
	h := uint64(0x243f6a8885a308d3)
	for _, w := range ws {
		h ^= w
		h = splitmix(&h)
	}
	return h
}

// HashString is FNV-1a 64.
func HashString(s string) uint64 {
	h := uint64(14695981039346656037)
	for i := 0; i < len(s); i++ {
		h ^= uint64(s[i])
		h *= 1099511628211
	}
	return h
}

// HashBytes is FNV-1a 64 over bytes, finalised with splitmix.
func HashBytes(b []byte) uint64 {
	h := uint64(14695981039346656037)
	for _, c := range b {
		h ^= uint64(c)
		h *= 1099511628211
	}
	return splitmix(&h)
}

func NewRand(seed uint64) *Rand {
	r := &Rand{}
	x := seed
	for i := range r.s {
		r.s[i] = splitmix(&x)
	}
	return r
}

func (r *Rand) Uint64() uint64 {
	s := &r.s
	res := bits.RotateLeft64(s[1]*5, 7) * 9
	t := s[1] << 17
	s[2] ^= s[0]
	s[3] ^= s[1]
	s[1] ^= s[2]
	s[0] ^= s[3]
	s[2] ^= t
	s[3] = bits.RotateLeft64(s[3], 45)
	return res
}

func (r *Rand) Uint32() uint32 { return uint32(r.Uint64() >> 32) }

// Intn returns a value in [0,n). n must be > 0.
func (r *Rand) Intn(n int) int {
	if n <= 0 {
		panic("vf: Intn n<=0")
	}
	hi, _ := bits.Mul64(r.Uint64(), uint64(n))
	return int(hi)
}

// Uint64n returns a value in [0,n).
func (r *Rand) Uint64n(n uint64) uint64 {
	if n == 0 {
		panic("vf: Uint64n 0")
	}
	hi, _ := bits.Mul64(r.Uint64(), n)
	return hi
}

// Range returns a value in [lo,hi] inclusive.
func (r *Rand) Range(lo, hi int) int { return lo + r.Intn(hi-lo+1) }

func (r *Rand) Bool() bool { return r.Uint64()&1 == 1 }

// Chance returns true with probability num/den.
func (r *Rand) Chance(num, den int) bool { return r.Intn(den) < num }

func (r *Rand) Float64() float64 { return float64(r.Uint64()>>11) / (1 << 53) }

// Bytes returns n random bytes.
func (r *Rand) Bytes(n int) []byte {
	b := make([]byte, n)
	r.Fill(b)
	return b
}

func (r *Rand) Fill(b []byte) {
	for i := 0; i < len(b); {
		v := r.Uint64()
		for j := 0; j < 8 && i < len(b); j++ {
			b[i] = byte(v)
			v >>= 8
			i++
		}
	}
}

// Perm returns a random permutation of 0..n-1.
func (r *Rand) Perm(n int) []int {
	p := make([]int, n)
	for i := range p {
		p[i] = i
	}
	r.Shuffle(n, func(i, j int) { p[i], p[j] = p[j], p[i] })
	return p
}

func (r *Rand) Shuffle(n int, swap func(i, j int)) {
	for i := n - 1; i > 0; i-- {
		j := r.Intn(i + 1)
		swap(i, j)
	}
}

// AnyFloat64 returns a float with random bit pattern (may be NaN/Inf).
func (r *Rand) AnyFloat64() float64 { return math.Float64frombits(r.Uint64()) }

// SkewLen returns a length in [0,max] biased towards small values and the
// boundaries.
func (r *Rand) SkewLen(max int) int {
	switch r.Intn(8) {
	case 0:
		return 0
	case 1:
		return max
	case 2, 3:
		if max < 8 {
			return r.Intn(max + 1)
		}
		return r.Intn(8)
	default:
		return r.Intn(max + 1)
	}
}
