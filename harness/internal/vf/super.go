package vf

import (
	"bytes"
	"encoding/binary"
	"encoding/json"
	"fmt"
	"os"
	"os/exec"
	"path/filepath"
	"regexp"
	"runtime"
	"sort"
	"strconv"
	"strings"
	"sync"
	"syscall"
	"time"
)

// SupArgs configure one supervised run of a property.
type SupArgs struct {
	Prop    *Property
	Tier    Tier
	Seed    uint64
	Root    string // /verif
	Exe     string // plain child binary
	RaceExe string // -race child binary (may be empty if no race streams)
	Exe386  string // GOARCH=386 child binary (may be empty if no 386 streams)
	Streams string // optional comma list restricting streams (development)
}

// Finding is one entry of known_findings.json.
type Finding struct {
	Property string `json:"property"`
	Key      string `json:"key"`
	Status   string `json:"status"` // "known" | "fixed"
	Commit   string `json:"commit,omitempty"`
	What     string `json:"what"`
	Witness  string `json:"witness,omitempty"`
}

type findingsFile struct {
	Findings []Finding `json:"findings"`
}

func loadFindings(root string) ([]Finding, error) {
	b, err := os.ReadFile(filepath.Join(root, "known_findings.json"))
	if err != nil {
		if os.IsNotExist(err) {
			return nil, nil
		}
		return nil, err
	}
	var f findingsFile
	if err := json.Unmarshal(b, &f); err != nil {
		return nil, err
	}
	return f.Findings, nil
}

type supervisor struct {
	a        SupArgs
	work     string
	mu       sync.Mutex
	total    *Result
	perStrm  map[string]*Result
	harness  []string // harness errors
	raceRpts int
	raceCtl  int
	children int
	crashes  int
}

// Supervise runs every stream of the property and returns the exit code
// (0 held, 1 violation, 2 harness error).
func Supervise(a SupArgs) int {
	start := time.Now()
	p := a.Prop
	if p.SelfTest != nil {
		if err := p.SelfTest(); err != nil {
			fmt.Printf("HARNESS-ERROR property=%s reference self-test failed: %v\n", p.ID, err)
			return 2
		}
	}
	findings, err := loadFindings(a.Root)
	if err != nil {
		fmt.Printf("HARNESS-ERROR property=%s cannot read known_findings.json: %v\n", p.ID, err)
		return 2
	}
	s := &supervisor{a: a, total: newResult("*"), perStrm: map[string]*Result{}}
	s.work = filepath.Join(a.Root, ".work", fmt.Sprintf("%s.%s.%d.%d", p.ID, a.Tier, a.Seed, os.Getpid()))
	os.RemoveAll(s.work)
	if err := os.MkdirAll(s.work, 0o755); err != nil {
		fmt.Printf("HARNESS-ERROR %v\n", err)
		return 2
	}
	only := map[string]bool{}
	if a.Streams != "" {
		for _, n := range strings.Split(a.Streams, ",") {
			only[n] = true
		}
	}
	type streamInfo struct {
		Name       string  `json:"name"`
		N          int     `json:"n"`
		Cases      int64   `json:"cases_run"`
		Evals      int64   `json:"evaluations"`
		Exhaustive bool    `json:"exhaustive,omitempty"`
		Race       bool    `json:"race_build,omitempty"`
		WallS      float64 `json:"wall_s"`
	}
	var infos []streamInfo
	allExhaustive := true
	for _, st := range p.Streams {
		if len(only) > 0 && !only[st.Name] {
			continue
		}
		t0 := time.Now()
		n := st.N(a.Tier)
		if n <= 0 {
			continue
		}
		res := s.runStream(st, n)
		s.perStrm[st.Name] = res
		mergeResult(s.total, res)
		if !st.Exhaustive {
			allExhaustive = false
		}
		infos = append(infos, streamInfo{st.Name, n, res.Cases, res.Evaluations, st.Exhaustive, st.Race, time.Since(t0).Seconds()})
		fmt.Printf("  stream %-28s n=%-9d cases=%-9d evals=%-11d violations=%d  %.1fs\n",
			st.Name, n, res.Cases, res.Evaluations, len(res.Violations), time.Since(t0).Seconds())
	}

	// distinct non-trivial count from the shared bitmap
	var distinct int64
	if bm, err := openBitmap(s.work+"/bitmap", bitmapLogBits); err == nil {
		distinct = bm.Popcount()
	}
	os.Remove(s.work + "/bitmap")

	// classify violations against known findings
	sort.Slice(s.total.Violations, func(i, j int) bool { return s.total.Violations[i].Key < s.total.Violations[j].Key })
	var fresh []*Violation
	var matched []string
	for _, v := range s.total.Violations {
		known := false
		for _, f := range findings {
			if f.Status == "known" && f.Property == p.ID && f.Key == v.Key {
				known = true
				fmt.Printf("KNOWN-FINDING: property=%s %s [%s; seen %d times]\n", p.ID, f.What, f.Key, v.Count)
				matched = append(matched, f.Key)
			}
		}
		if !known {
			fresh = append(fresh, v)
		}
	}
	exit := 0
	os.MkdirAll(filepath.Join(a.Root, "replays"), 0o755)
	for _, v := range fresh {
		name := fmt.Sprintf("%s-%016x.json", p.ID, HashString(v.Key))
		path := filepath.Join(a.Root, "replays", name)
		b, _ := json.MarshalIndent(v, "", " ")
		os.WriteFile(path, b, 0o644)
		fmt.Printf("VIOLATION property=%s replay=%s\n", p.ID, path)
		fmt.Printf("  key=%s count=%d stream=%s index=%d\n  %s\n", v.Key, v.Count, v.Stream, v.Index, indent(v.Msg))
		exit = 1
	}
	if len(s.harness) > 0 {
		for _, h := range s.harness {
			fmt.Printf("HARNESS-ERROR property=%s %s\n", p.ID, h)
		}
		if exit == 0 {
			exit = 2
		}
	}
	if s.total.Evaluations == 0 && exit == 0 {
		fmt.Printf("HARNESS-ERROR property=%s nothing was observed (0 evaluations)\n", p.ID)
		exit = 2
	}
	var inconc int64
	for _, v := range s.total.Inconclusive {
		inconc += v
	}

	// evidence
	cov := map[string]any{
		"evaluations":            s.total.Evaluations,
		"distinct_nontrivial":    distinct,
		"rule":                   p.Rule,
		"samples":                s.total.Samples,
		"cases":                  s.total.Cases,
		"streams":                infos,
		"counters":               s.total.Counters,
		"inconclusive":           inconc,
		"inconclusive_detail":    s.total.Inconclusive,
		"known_findings_matched": matched,
		"child_processes":        s.children,
		"child_crashes":          s.crashes,
		"exhaustive":             allExhaustive && len(infos) > 0,
	}
	if s.total.Extra != nil {
		cov["observations"] = s.total.Extra
	}
	hasRace := false
	for _, st := range p.Streams {
		if st.Race {
			hasRace = true
		}
	}
	if hasRace {
		cov["race_reports_in_code_under_test"] = s.raceRpts
		cov["race_detector_controls_fired"] = s.raceCtl
	}
	if len(s.total.Samples) == 0 {
		cov["samples"] = []string{"(no sample recorded)"}
	}
	assumptions := p.Assumptions
	if assumptions == nil {
		assumptions = []string{}
	}
	ev := map[string]any{
		"property_id": p.ID,
		"tier":        a.Tier.String(),
		"seed":        a.Seed,
		"level":       "exploration",
		"coverage":    cov,
		"assumptions": assumptions,
		"wall_s":      time.Since(start).Seconds(),
		"violations":  len(fresh),
		"verdict":     map[int]string{0: "held on what was observed", 1: "violated", 2: "harness error"}[exit],
	}
	os.MkdirAll(filepath.Join(a.Root, "evidence"), 0o755)
	b, _ := json.MarshalIndent(ev, "", " ")
	evPath := filepath.Join(a.Root, "evidence", p.ID+".json")
	if err := os.WriteFile(evPath, append(b, '\n'), 0o644); err != nil {
		fmt.Printf("HARNESS-ERROR cannot write evidence: %v\n", err)
		return 2
	}
	fmt.Printf("%s %s seed=%d: cases=%d evaluations=%d distinct_nontrivial=%d inconclusive=%d known=%d violations=%d wall=%.1fs -> %s\n",
		p.ID, a.Tier, a.Seed, s.total.Cases, s.total.Evaluations, distinct, inconc, len(matched), len(fresh),
		time.Since(start).Seconds(), ev["verdict"])
	for _, k := range sortedKeys(s.total.Counters) {
		fmt.Printf("    %-48s %d\n", k, s.total.Counters[k])
	}
	if exit == 0 {
		os.RemoveAll(s.work)
	}
	return exit
}

func indent(s string) string { return strings.ReplaceAll(s, "\n", "\n  ") }

func (s *supervisor) runStream(st *Stream, n int) *Result {
	shards := st.Shards
	if shards <= 0 {
		shards = 1
	}
	if shards > n {
		shards = n
	}
	workers := st.Workers
	if workers <= 0 {
		workers = runtime.NumCPU() / shards
		if workers < 1 {
			workers = 1
		}
	}
	par := runtime.NumCPU() / workers
	if par < 1 {
		par = 1
	}
	res := newResult(st.Name)
	sem := make(chan struct{}, par)
	var wg sync.WaitGroup
	for k := 0; k < shards; k++ {
		from := n * k / shards
		to := n * (k + 1) / shards
		wg.Add(1)
		sem <- struct{}{}
		go func(k, from, to int) {
			defer wg.Done()
			defer func() { <-sem }()
			r := s.runShard(st, k, from, to, workers)
			s.mu.Lock()
			mergeResult(res, r)
			s.mu.Unlock()
		}(k, from, to)
	}
	wg.Wait()
	return res
}

type childOutcome struct {
	res      *Result
	exitErr  error
	hung     bool
	busy     []int // indices that were in flight when the child died
	logTail  string
	logPath  string
	racePref string
	ckpt     *Result // partial result of a single-worker child that died
	goCrash  bool    // the log shows a Go-level crash (fatal error, panic, traceback)
}

func (s *supervisor) spawn(st *Stream, shard, from, to, workers, only int, skip []int, budgetSec int) *childOutcome {
	exe := s.a.Exe
	if st.Race {
		exe = s.a.RaceExe
	}
	if st.Arch386 {
		exe = s.a.Exe386
	}
	tag := fmt.Sprintf("%s.%d", st.Name, shard)
	if only >= 0 {
		tag = fmt.Sprintf("%s.only%d", st.Name, only)
		shard = 100000 + only
	}
	args := []string{"-child", "-prop", s.a.Prop.ID, "-tier", s.a.Tier.String(), "-seed", strconv.FormatUint(s.a.Seed, 10),
		"-stream", st.Name, "-from", strconv.Itoa(from), "-to", strconv.Itoa(to), "-workers", strconv.Itoa(workers),
		"-work", s.work, "-shard", strconv.Itoa(shard), "-only", strconv.Itoa(only)}
	if len(skip) > 0 {
		var ss []string
		for _, x := range skip {
			ss = append(ss, strconv.Itoa(x))
		}
		args = append(args, "-skip", strings.Join(ss, ","))
	}
	cmd := exec.Command(exe, args...)
	logPath := filepath.Join(s.work, tag+".log")
	lf, _ := os.Create(logPath)
	cmd.Stdout = lf
	cmd.Stderr = lf
	cmd.Env = append(os.Environ(), "GOTRACEBACK=all")
	out := &childOutcome{logPath: logPath}
	if st.Race {
		out.racePref = filepath.Join(s.work, "race."+tag)
		cmd.Env = append(cmd.Env, "GORACE=halt_on_error=0 history_size=3 log_path="+out.racePref)
	}
	resPath := fmt.Sprintf("%s/%s.%d.result.json", s.work, st.Name, shard)
	slotPath := fmt.Sprintf("%s/%s.%d.slots", s.work, st.Name, shard)
	os.Remove(resPath)
	os.Remove(slotPath)
	ckptPath := fmt.Sprintf("%s/%s.%d.ckpt.json", s.work, st.Name, shard)
	os.Remove(ckptPath)
	s.mu.Lock()
	s.children++
	s.mu.Unlock()
	if err := cmd.Start(); err != nil {
		out.exitErr = err
		lf.Close()
		return out
	}
	done := make(chan error, 1)
	go func() { done <- cmd.Wait() }()
	maxCase := st.MaxCaseSec
	if maxCase <= 0 {
		maxCase = 60
	}
	if budgetSec <= 0 {
		budgetSec = 5 * maxCase
	}
	lastSlots := []byte{}
	lastChange := time.Now()
	tick := time.NewTicker(500 * time.Millisecond)
	defer tick.Stop()
loop:
	for {
		select {
		case err := <-done:
			out.exitErr = err
			break loop
		case <-tick.C:
			cur, _ := os.ReadFile(slotPath)
			if !bytes.Equal(cur, lastSlots) {
				lastSlots = cur
				lastChange = time.Now()
			} else if time.Since(lastChange) > time.Duration(budgetSec)*time.Second {
				out.hung = true
				cmd.Process.Signal(syscall.SIGQUIT)
				select {
				case <-done:
				case <-time.After(10 * time.Second):
					cmd.Process.Kill()
					<-done
				}
				break loop
			}
		}
	}
	lf.Close()
	if b, err := os.ReadFile(resPath); err == nil {
		var r Result
		if json.Unmarshal(b, &r) == nil && r.Done {
			out.res = &r
		}
	}
	if out.res == nil {
		if sl, err := os.ReadFile(slotPath); err == nil {
			for o := 0; o+slotSize <= len(sl); o += slotSize {
				idx := binary.LittleEndian.Uint64(sl[o : o+8])
				busy := binary.LittleEndian.Uint64(sl[o+8 : o+16])
				if idx > 0 && busy == 1 {
					out.busy = append(out.busy, int(idx-1))
				}
			}
		}
		out.logTail = crashSummary(logPath)
		if b, err := os.ReadFile(logPath); err == nil {
			out.goCrash = bytes.Contains(b, []byte("fatal error:")) || bytes.Contains(b, []byte("panic:")) ||
				bytes.Contains(b, []byte("goroutine ")) || bytes.Contains(b, []byte("runtime: "))
		}
		if b, err := os.ReadFile(ckptPath); err == nil {
			var r Result
			if json.Unmarshal(b, &r) == nil && r.Next > 0 {
				out.ckpt = &r
			}
		}
	}
	os.Remove(ckptPath)
	os.Remove(slotPath)
	os.Remove(resPath)
	return out
}

var fatalRe = regexp.MustCompile(`(?m)^(fatal error: .*|panic: .*|runtime: out of memory.*|SIGQUIT.*|signal: .*)$`)

func crashSummary(logPath string) string {
	b, err := os.ReadFile(logPath)
	if err != nil {
		return ""
	}
	var sb strings.Builder
	if m := fatalRe.Find(b); m != nil {
		sb.Write(m)
		sb.WriteString("\n")
		// first frames after the fatal line
		i := bytes.Index(b, m)
		rest := b[i:]
		if len(rest) > 3000 {
			rest = rest[:3000]
		}
		sb.Write(rest)
	} else {
		if len(b) > 2000 {
			b = b[len(b)-2000:]
		}
		sb.Write(b)
	}
	return sb.String()
}

// crashSite extracts a stable key component from a crash log: the fatal
// message class and the innermost non-runtime frame.
func crashSite(summary string) string {
	class := "crash"
	switch {
	case strings.Contains(summary, "out of memory") || strings.Contains(summary, "cannot allocate"):
		class = "oom"
	case strings.Contains(summary, "stack overflow") || strings.Contains(summary, "stack exceeds"):
		class = "stack-overflow"
	case strings.Contains(summary, "concurrent map"):
		class = "concurrent-map"
	case strings.Contains(summary, "panic:"):
		class = "panic"
	}
	frame := "harness"
	// look only at the goroutine that was running when the process died
	body := summary
	if i := strings.Index(body, "[running]:"); i >= 0 {
		body = body[i:]
		if j := strings.Index(body, "\n\n"); j >= 0 {
			body = body[:j]
		}
	}
	for _, l := range strings.Split(body, "\n")[1:] {
		if strings.HasPrefix(l, "\t") || l == "" || strings.HasPrefix(l, "created by") {
			continue
		}
		if i := strings.LastIndex(l, "("); i > 0 {
			if site := SiteOf(l[:i]); site != "" {
				frame = site
				break
			}
		}
	}
	return class + "/" + frame
}

func (s *supervisor) runShard(st *Stream, shard, from, to, workers int) *Result {
	var skip []int
	res := newResult(st.Name)
	maxCase := st.MaxCaseSec
	if maxCase <= 0 {
		maxCase = 60
	}
	extKills := 0
	for attempt := 0; attempt < 60; attempt++ {
		out := s.spawn(st, shard, from, to, workers, -1, skip, 0)
		s.collectRace(st, out)
		if out.res != nil {
			mergeResult(res, out.res)
			return res
		}
		// the child died or hung
		s.mu.Lock()
		s.crashes++
		s.mu.Unlock()
		if out.ckpt != nil && out.ckpt.Next > from {
			// single-worker child: keep what it finished and resume behind it
			mergeResult(res, out.ckpt)
			from = out.ckpt.Next
		}
		if !out.goCrash && !out.hung {
			// killed from outside (e.g. the kernel's OOM killer under memory
			// pressure from other processes): not an observation about the
			// code under test.  Retry; give up as a harness error.
			extKills++
			res.Inconclusive["child-killed-by-external-signal/"+st.Name]++
			if extKills > 4 {
				s.addHarness(fmt.Sprintf("stream %s shard %d: child repeatedly killed by an external signal (%v)", st.Name, shard, out.exitErr))
				return res
			}
			time.Sleep(2 * time.Second)
			continue
		}
		if len(out.busy) == 0 {
			s.addHarness(fmt.Sprintf("child for stream %s shard %d died outside any case: %v\n%s", st.Name, shard, out.exitErr, out.logTail))
			return res
		}
		reproduced := false
		for _, idx := range out.busy {
			iso := s.spawn(st, shard, idx, idx+1, 1, idx, nil, 20*maxCase)
			s.collectRace(st, iso)
			if iso.res != nil {
				mergeResult(res, iso.res) // ran fine alone
				skip = append(skip, idx)
				continue
			}
			if !iso.goCrash && !iso.hung {
				res.Inconclusive["child-killed-by-external-signal/"+st.Name]++
				continue
			}
			reproduced = true
			s.mu.Lock()
			s.crashes++
			s.mu.Unlock()
			key, what := "", ""
			if iso.hung {
				key = "hang/" + st.Name
				what = fmt.Sprintf("case did not return within %d s, twice (in the batch and alone)", 20*maxCase)
			} else {
				key = crashSite(iso.logTail)
				what = "process-fatal error"
			}
			saved := filepath.Join(s.a.Root, "replays", fmt.Sprintf("%s-%s-%d.crash.log", s.a.Prop.ID, st.Name, idx))
			os.MkdirAll(filepath.Dir(saved), 0o755)
			copyFile(iso.logPath, saved)
			v := &Violation{Property: s.a.Prop.ID, Key: s.a.Prop.ID + "/" + key, Stream: st.Name, Index: idx, Seed: s.a.Seed,
				Tier: s.a.Tier.String(), Msg: fmt.Sprintf("%s in case %s[%d] (crash log: %s)\n%s", what, st.Name, idx, saved, firstLines(iso.logTail, 12)), Count: 1}
			mergeResult(res, &Result{Violations: []*Violation{v}, Counters: map[string]int64{}, Inconclusive: map[string]int64{}})
			skip = append(skip, idx)
		}
		if !reproduced {
			if out.hung {
				res.Inconclusive["watchdog-fired-not-reproduced/"+st.Name]++
				continue
			}
			// crash under the concurrent batch that no single case reproduces
			saved := filepath.Join(s.a.Root, "replays", fmt.Sprintf("%s-%s-shard%d.crash.log", s.a.Prop.ID, st.Name, shard))
			os.MkdirAll(filepath.Dir(saved), 0o755)
			copyFile(out.logPath, saved)
			v := &Violation{Property: s.a.Prop.ID, Key: s.a.Prop.ID + "/" + crashSite(out.logTail) + "/batch-only", Stream: st.Name, Index: out.busy[0],
				Seed: s.a.Seed, Tier: s.a.Tier.String(), Msg: fmt.Sprintf("child crashed in batch (cases in flight %v) but no single case reproduces it (crash log: %s)\n%s", out.busy, saved, firstLines(out.logTail, 12)), Count: 1}
			mergeResult(res, &Result{Violations: []*Violation{v}, Counters: map[string]int64{}, Inconclusive: map[string]int64{}})
			skip = append(skip, out.busy...)
		}
	}
	s.addHarness(fmt.Sprintf("stream %s shard %d: too many child crashes, giving up", st.Name, shard))
	return res
}

func firstLines(s string, n int) string {
	ls := strings.Split(s, "\n")
	if len(ls) > n {
		ls = ls[:n]
	}
	return strings.Join(ls, "\n")
}

func copyFile(src, dst string) {
	b, err := os.ReadFile(src)
	if err == nil {
		if len(b) > 1<<20 {
			b = b[:1<<20]
		}
		os.WriteFile(dst, b, 0o644)
	}
}

func (s *supervisor) addHarness(msg string) {
	s.mu.Lock()
	s.harness = append(s.harness, msg)
	s.mu.Unlock()
}

var raceFrameRe = regexp.MustCompile(`(?m)^  (\S+)\(\)$`)

// collectRace parses the GORACE logs of a finished race child.
func (s *supervisor) collectRace(st *Stream, out *childOutcome) {
	if !st.Race || out.racePref == "" {
		return
	}
	files, _ := filepath.Glob(out.racePref + ".*")
	control := 0
	for _, f := range files {
		b, err := os.ReadFile(f)
		if err != nil {
			continue
		}
		blocks := strings.Split(string(b), "WARNING: DATA RACE")
		for _, blk := range blocks[1:] {
			if strings.Contains(blk, "vf.raceControlWrite") {
				control++
				continue
			}
			// split into the two access stacks
			var sites []string
			for _, part := range splitAccesses(blk) {
				site := ""
				for _, m := range raceFrameRe.FindAllStringSubmatch(part, -1) {
					fn := m[1]
					if strings.HasPrefix(fn, "github.com/gcash/bchutil") {
						site = fn
						break
					}
				}
				sites = append(sites, site)
			}
			any := false
			for _, x := range sites {
				if x != "" {
					any = true
				}
			}
			if !any {
				s.addHarness(fmt.Sprintf("race report without a frame of the code under test in stream %s (harness race?):\n%s", st.Name, firstLines(blk, 40)))
				continue
			}
			for len(sites) < 2 {
				sites = append(sites, "")
			}
			pair := []string{shortFn(sites[0]), shortFn(sites[1])}
			sort.Strings(pair)
			key := "race/" + pair[0] + "|" + pair[1]
			saved := filepath.Join(s.a.Root, "replays", fmt.Sprintf("%s-race-%016x.log", s.a.Prop.ID, HashString(key)))
			os.MkdirAll(filepath.Dir(saved), 0o755)
			os.WriteFile(saved, []byte("WARNING: DATA RACE"+blk), 0o644)
			v := &Violation{Property: s.a.Prop.ID, Key: s.a.Prop.ID + "/" + key, Stream: st.Name, Index: -1, Seed: s.a.Seed, Tier: s.a.Tier.String(),
				Msg: fmt.Sprintf("data race reported by the Go race detector (report: %s)\n%s", saved, firstLines(blk, 30)), Count: 1}
			s.mu.Lock()
			s.raceRpts++
			mergeResult(s.total, &Result{Violations: []*Violation{v}, Counters: map[string]int64{}, Inconclusive: map[string]int64{}})
			s.mu.Unlock()
		}
		os.Remove(f)
	}
	s.mu.Lock()
	s.raceCtl += control
	s.mu.Unlock()
	if control == 0 && out.res != nil {
		s.addHarness(fmt.Sprintf("race-detector control did not fire in stream %s (detector not active?)", st.Name))
	}
}

func shortFn(s string) string {
	return strings.TrimPrefix(s, "github.com/gcash/bchutil/")
}

func splitAccesses(blk string) []string {
	// A report has "Write at"/"Read at" ... then "Previous write at"/"Previous read at" ...
	// then optional "Goroutine N created at" sections which we drop.
	end := strings.Index(blk, "\nGoroutine ")
	if end > 0 {
		blk = blk[:end]
	}
	i := strings.Index(blk, "\nPrevious ")
	if i < 0 {
		return []string{blk}
	}
	return []string{blk[:i], blk[i:]}
}
