package vf

import (
	"encoding/binary"
	"encoding/json"
	"fmt"
	"os"
	"runtime"
	"runtime/debug"
	"sync"
	"sync/atomic"
	"syscall"
	"time"
	"unsafe"
)

// ChildArgs are the parameters of one child process.
type ChildArgs struct {
	Prop    string
	Tier    Tier
	Seed    uint64
	Stream  string
	From    int
	To      int
	Only    int // >=0: run just this index (replay / isolation)
	Workers int
	Work    string // work dir
	Shard   int
	Replay  bool
	Skip    map[int]bool
}

const slotSize = 16

var slowLog = os.Getenv("VERIF_SLOW") == "1"

func mmapFile(path string, size int) ([]byte, error) {
	f, err := os.OpenFile(path, os.O_RDWR|os.O_CREATE, 0o644)
	if err != nil {
		return nil, err
	}
	defer f.Close()
	st, err := f.Stat()
	if err != nil {
		return nil, err
	}
	if st.Size() < int64(size) {
		if err := f.Truncate(int64(size)); err != nil {
			return nil, err
		}
	}
	return syscall.Mmap(int(f.Fd()), 0, size, syscall.PROT_READ|syscall.PROT_WRITE, syscall.MAP_SHARED)
}

func openBitmap(path string, logBits uint) (*Bitmap, error) {
	size := 1 << (logBits - 3)
	m, err := mmapFile(path, size)
	if err != nil {
		return nil, err
	}
	words := unsafe.Slice((*uint64)(unsafe.Pointer(&m[0])), size/8)
	return &Bitmap{words: words, mask: (uint64(1) << logBits) - 1}, nil
}

const bitmapLogBits = 28 // 32 MiB, shared by all children of a run

// CaseSeed derives the PRNG seed of one case.
func CaseSeed(seed uint64, prop, stream string, idx int) uint64 {
	return Mix(seed, HashString(prop), HashString(stream), uint64(idx))
}

// RunChild executes a slice of a stream inside the child process and writes
// the result file.  It returns the process exit code.
func RunChild(p *Property, a ChildArgs) int {
	var st *Stream
	for _, s := range p.Streams {
		if s.Name == a.Stream {
			st = s
		}
	}
	if st == nil {
		fmt.Fprintf(os.Stderr, "child: no stream %q in %s\n", a.Stream, p.ID)
		return 2
	}
	if st.RlimitAS != 0 && !RaceEnabled {
		lim := syscall.Rlimit{Cur: st.RlimitAS, Max: st.RlimitAS}
		if err := syscall.Setrlimit(syscall.RLIMIT_AS, &lim); err != nil {
			fmt.Fprintf(os.Stderr, "child: setrlimit: %v\n", err)
			return 2
		}
	}
	debug.SetTraceback("all")
	n := st.N(a.Tier)
	from, to := a.From, a.To
	if to > n {
		to = n
	}
	if a.Only >= 0 {
		from, to = a.Only, a.Only+1
	}
	workers := a.Workers
	if workers <= 0 {
		workers = runtime.NumCPU()
	}
	if a.Only >= 0 {
		workers = 1
	}
	if workers > to-from && to-from > 0 {
		workers = to - from
	}
	if workers < 1 {
		workers = 1
	}

	var bm *Bitmap
	if !a.Replay {
		var err error
		bm, err = openBitmap(a.Work+"/bitmap", bitmapLogBits)
		if err != nil {
			fmt.Fprintf(os.Stderr, "child: bitmap: %v\n", err)
			return 2
		}
	}
	slotPath := fmt.Sprintf("%s/%s.%d.slots", a.Work, a.Stream, a.Shard)
	var slots []byte
	if !a.Replay {
		var err error
		slots, err = mmapFile(slotPath, slotSize*workers)
		if err != nil {
			fmt.Fprintf(os.Stderr, "child: slots: %v\n", err)
			return 2
		}
		for i := range slots {
			slots[i] = 0
		}
	}

	var shared any
	if st.Init != nil {
		shared = st.Init(a.Tier, a.Seed)
	}
	if RaceEnabled && st.Race {
		RaceControl()
	}

	var next int64 = int64(from)
	chunk := int64((to - from) / (workers * 64))
	if chunk < 1 {
		chunk = 1
	}
	if chunk > 4096 {
		chunk = 4096
	}
	states := make([]*workerState, workers)
	// A single-worker child runs its indices in order and checkpoints its
	// partial result, so that after a process-fatal case the supervisor can
	// resume behind it instead of starting the shard again.
	ckptPath := fmt.Sprintf("%s/%s.%d.ckpt.json", a.Work, a.Stream, a.Shard)
	lastCkpt := time.Now()
	checkpoint := func(ws *workerState, nextIdx int) {
		if workers != 1 || a.Replay || a.Only >= 0 || time.Since(lastCkpt) < time.Second {
			return
		}
		lastCkpt = time.Now()
		r := &Result{Stream: a.Stream, Cases: ws.cases, Evaluations: ws.evals, Counters: ws.counters,
			Inconclusive: ws.inconclusive, Samples: ws.samples, Extra: ws.extra, Next: nextIdx}
		for _, v := range ws.violations {
			r.Violations = append(r.Violations, v)
		}
		if b, err := json.Marshal(r); err == nil {
			if os.WriteFile(ckptPath+".tmp", b, 0o644) == nil {
				os.Rename(ckptPath+".tmp", ckptPath)
			}
		}
	}
	var wg sync.WaitGroup
	for w := 0; w < workers; w++ {
		ws := newWorkerState()
		states[w] = ws
		wg.Add(1)
		go func(w int) {
			defer wg.Done()
			var slot []byte
			if slots != nil {
				slot = slots[w*slotSize : (w+1)*slotSize]
			}
			for {
				lo := atomic.AddInt64(&next, chunk) - chunk
				if lo >= int64(to) {
					return
				}
				hi := lo + chunk
				if hi > int64(to) {
					hi = int64(to)
				}
				for i := lo; i < hi; i++ {
					if a.Skip[int(i)] {
						continue
					}
					if slot != nil {
						binary.LittleEndian.PutUint64(slot[0:8], uint64(i)+1)
						binary.LittleEndian.PutUint64(slot[8:16], 1)
					}
					var t0 time.Time
					if slowLog {
						t0 = time.Now()
					}
					runCase(p, st, a, int(i), n, shared, ws, bm)
					if slowLog {
						if d := time.Since(t0); d > 200*time.Millisecond {
							fmt.Fprintf(os.Stderr, "SLOW %s[%d] %v\n", st.Name, i, d)
						}
					}
					if slot != nil {
						binary.LittleEndian.PutUint64(slot[8:16], 0)
					}
					checkpoint(ws, int(i)+1)
				}
			}
		}(w)
	}
	wg.Wait()

	res := newResult(a.Stream)
	for _, ws := range states {
		r := &Result{Cases: ws.cases, Evaluations: ws.evals, Counters: ws.counters,
			Inconclusive: ws.inconclusive, Samples: ws.samples, Extra: ws.extra}
		for _, v := range ws.violations {
			r.Violations = append(r.Violations, v)
		}
		mergeResult(res, r)
	}
	res.Done = true
	if a.Replay {
		if len(res.Violations) == 0 {
			fmt.Printf("replay %s %s[%d]: no violation observed\n", p.ID, a.Stream, a.Only)
			return 0
		}
		return 1
	}
	out := fmt.Sprintf("%s/%s.%d.result.json", a.Work, a.Stream, a.Shard)
	b, _ := json.Marshal(res)
	if err := os.WriteFile(out+".tmp", b, 0o644); err != nil {
		fmt.Fprintf(os.Stderr, "child: write result: %v\n", err)
		return 2
	}
	os.Rename(out+".tmp", out)
	return 0
}

func runCase(p *Property, st *Stream, a ChildArgs, i, n int, shared any, ws *workerState, bm *Bitmap) {
	c := &Ctx{R: NewRand(CaseSeed(a.Seed, p.ID, st.Name, i)), Tier: a.Tier, Seed: a.Seed,
		Prop: p.ID, Stream: st.Name, Index: i, N: n, Shared: shared, Replay: a.Replay, w: ws, bitmap: bm}
	ws.cases++
	defer func() {
		if r := recover(); r != nil {
			stack := string(debug.Stack())
			site := RepoFrame(stack)
			c.Failf("panic/"+site, "panic: %v (stream %s index %d)", r, st.Name, i)
			if v := ws.violations[p.ID+"/panic/"+site]; v != nil && v.Stack == "" {
				v.Stack = trimStack(stack)
			}
		}
	}()
	st.Run(c, i)
}

// racyCell is the target of the deliberate control race.
var racyCell int

// RaceControl performs a deliberate, harmless data race so that the
// supervisor can confirm the race detector is alive in this child.
func RaceControl() {
	var wg sync.WaitGroup
	start := make(chan struct{})
	for g := 0; g < 2; g++ {
		wg.Add(1)
		go func(g int) {
			defer wg.Done()
			<-start
			for i := 0; i < 1000; i++ {
				raceControlWrite(g + i)
			}
		}(g)
	}
	close(start)
	wg.Wait()
}

//go:noinline
func raceControlWrite(v int) { racyCell = v }
