//go:build !race

package vf

// RaceEnabled reports whether this binary was built with -race.
const RaceEnabled = false
