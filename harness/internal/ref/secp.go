package ref

import (
	"errors"
	"math/big"
	"sync"
)

// secp256k1 in affine coordinates on math/big (SEC 2, section 2.4.1).

var (
	SecP, _  = new(big.Int).SetString("FFFFFFFFFFFFFFFFFFFFFFFFFFFFFFFFFFFFFFFFFFFFFFFFFFFFFFFEFFFFFC2F", 16)
	SecN, _  = new(big.Int).SetString("FFFFFFFFFFFFFFFFFFFFFFFFFFFFFFFEBAAEDCE6AF48A03BBFD25E8CD0364141", 16)
	secGx, _ = new(big.Int).SetString("79BE667EF9DCBBAC55A06295CE870B07029BFCDB2DCE28D959F2815B16F81798", 16)
	secGy, _ = new(big.Int).SetString("483ADA7726A3C4655DA4FBFC0E1108A8FD17B448A68554199C47D08FFB10D4B8", 16)
	big7     = big.NewInt(7)
)

// Point is an affine point; Inf marks the point at infinity.
type Point struct {
	X, Y *big.Int
	Inf  bool
}

// SecG returns the generator.
func SecG() Point { return Point{X: new(big.Int).Set(secGx), Y: new(big.Int).Set(secGy)} }

// OnCurve reports y^2 = x^3 + 7 (mod p) with coordinates in range.
func (p Point) OnCurve() bool {
	if p.Inf {
		return false
	}
	if p.X.Sign() < 0 || p.X.Cmp(SecP) >= 0 || p.Y.Sign() < 0 || p.Y.Cmp(SecP) >= 0 {
		return false
	}
	l := new(big.Int).Mul(p.Y, p.Y)
	l.Mod(l, SecP)
	r := new(big.Int).Mul(p.X, p.X)
	r.Mul(r, p.X)
	r.Add(r, big7)
	r.Mod(r, SecP)
	return l.Cmp(r) == 0
}

// Add returns p+q.
func (p Point) Add(q Point) Point {
	if p.Inf {
		return q
	}
	if q.Inf {
		return p
	}
	var lam *big.Int
	if p.X.Cmp(q.X) == 0 {
		s := new(big.Int).Add(p.Y, q.Y)
		s.Mod(s, SecP)
		if s.Sign() == 0 {
			return Point{Inf: true}
		}
		// doubling: lam = 3x^2 / 2y
		num := new(big.Int).Mul(p.X, p.X)
		num.Mul(num, big.NewInt(3))
		den := new(big.Int).Lsh(p.Y, 1)
		den.ModInverse(den, SecP)
		lam = num.Mul(num, den)
	} else {
		num := new(big.Int).Sub(q.Y, p.Y)
		den := new(big.Int).Sub(q.X, p.X)
		den.Mod(den, SecP)
		den.ModInverse(den, SecP)
		lam = num.Mul(num, den)
	}
	lam.Mod(lam, SecP)
	x := new(big.Int).Mul(lam, lam)
	x.Sub(x, p.X)
	x.Sub(x, q.X)
	x.Mod(x, SecP)
	y := new(big.Int).Sub(p.X, x)
	y.Mul(y, lam)
	y.Sub(y, p.Y)
	y.Mod(y, SecP)
	return Point{X: x, Y: y}
}

// Mul returns k*p by double-and-add.
func (p Point) Mul(k *big.Int) Point {
	r := Point{Inf: true}
	q := p
	for i := 0; i < k.BitLen(); i++ {
		if k.Bit(i) == 1 {
			r = r.Add(q)
		}
		q = q.Add(q)
	}
	return r
}

var (
	gTableOnce sync.Once
	gTable     [256]Point
)

// BaseMul returns k*G using a table of 2^i*G.
func BaseMul(k *big.Int) Point {
	gTableOnce.Do(func() {
		q := SecG()
		for i := range gTable {
			gTable[i] = q
			q = q.Add(q)
		}
	})
	kk := new(big.Int).Mod(k, SecN)
	r := Point{Inf: true}
	for i := 0; i < kk.BitLen(); i++ {
		if kk.Bit(i) == 1 {
			r = r.Add(gTable[i])
		}
	}
	return r
}

func pad32(x *big.Int) []byte {
	b := x.Bytes()
	out := make([]byte, 32)
	copy(out[32-len(b):], b)
	return out
}

// Compressed is the 33-byte SEC encoding.
func (p Point) Compressed() []byte {
	return append([]byte{2 + byte(p.Y.Bit(0))}, pad32(p.X)...)
}

// Uncompressed is the 65-byte SEC encoding.
func (p Point) Uncompressed() []byte {
	return append(append([]byte{4}, pad32(p.X)...), pad32(p.Y)...)
}

// Hybrid is the 65-byte hybrid encoding (0x06 | y parity).
func (p Point) Hybrid() []byte {
	return append(append([]byte{6 + byte(p.Y.Bit(0))}, pad32(p.X)...), pad32(p.Y)...)
}

// LiftX returns the point with the given x and y parity, or an error when x
// is not on the curve.  p = 3 mod 4 so sqrt(a) = a^((p+1)/4).
func LiftX(x *big.Int, odd bool) (Point, error) {
	if x.Sign() < 0 || x.Cmp(SecP) >= 0 {
		return Point{}, errors.New("x out of range")
	}
	r := new(big.Int).Mul(x, x)
	r.Mul(r, x)
	r.Add(r, big7)
	r.Mod(r, SecP)
	e := new(big.Int).Add(SecP, big.NewInt(1))
	e.Rsh(e, 2)
	y := new(big.Int).Exp(r, e, SecP)
	chk := new(big.Int).Mul(y, y)
	chk.Mod(chk, SecP)
	if chk.Cmp(r) != 0 {
		return Point{}, errors.New("not on curve")
	}
	if (y.Bit(0) == 1) != odd {
		y.Sub(SecP, y)
	}
	return Point{X: new(big.Int).Set(x), Y: y}, nil
}

// ParseCompressed parses a 33-byte compressed key strictly.
func ParseCompressed(b []byte) (Point, error) {
	if len(b) != 33 || (b[0] != 2 && b[0] != 3) {
		return Point{}, errors.New("format")
	}
	return LiftX(new(big.Int).SetBytes(b[1:]), b[0] == 3)
}
