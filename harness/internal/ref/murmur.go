package ref

import "math/bits"

// Murmur3 is MurmurHash3_x86_32 written from Austin Appleby's public-domain
// description (body blocks little endian, tail, fmix32).
func Murmur3(seed uint32, data []byte) uint32 {
	const c1, c2 = 0xcc9e2d51, 0x1b873593
	h := seed
	n := len(data)
	i := 0
	for ; i+4 <= n; i += 4 {
		k := uint32(data[i]) | uint32(data[i+1])<<8 | uint32(data[i+2])<<16 | uint32(data[i+3])<<24
		k *= c1
		k = bits.RotateLeft32(k, 15)
		k *= c2
		h ^= k
		h = bits.RotateLeft32(h, 13)
		h = h*5 + 0xe6546b64
	}
	var k uint32
	rem := n - i
	if rem == 3 {
		k ^= uint32(data[i+2]) << 16
	}
	if rem >= 2 {
		k ^= uint32(data[i+1]) << 8
	}
	if rem >= 1 {
		k ^= uint32(data[i])
		k *= c1
		k = bits.RotateLeft32(k, 15)
		k *= c2
		h ^= k
	}
	h ^= uint32(n)
	h ^= h >> 16
	h *= 0x85ebca6b
	h ^= h >> 13
	h *= 0xc2b2ae35
	h ^= h >> 16
	return h
}

// BloomModel is the BIP37 filter as a plain bit array.
type BloomModel struct {
	Bits   []byte
	NHash  uint32
	Tweak  uint32
	Loaded bool
}

// BitIndex is BIP37's bit number for hash function i.
func (m *BloomModel) BitIndex(i uint32, item []byte) uint32 {
	return Murmur3(i*0xFBA4C795+m.Tweak, item) % (uint32(len(m.Bits)) * 8)
}

// Add inserts item (no-op when unloaded).
func (m *BloomModel) Add(item []byte) {
	if !m.Loaded || len(m.Bits) == 0 {
		return
	}
	for i := uint32(0); i < m.NHash; i++ {
		b := m.BitIndex(i, item)
		m.Bits[b>>3] |= 1 << (b & 7)
	}
}

// Contains is the BIP37 membership test.
func (m *BloomModel) Contains(item []byte) bool {
	if !m.Loaded {
		return false
	}
	if len(m.Bits) == 0 {
		return true // BIP37 / Bitcoin Core: an empty filter matches everything
	}
	for i := uint32(0); i < m.NHash; i++ {
		b := m.BitIndex(i, item)
		if m.Bits[b>>3]&(1<<(b&7)) == 0 {
			return false
		}
	}
	return true
}

// OutPointBytes is txid || LE32(index).
func OutPointBytes(txid [32]byte, index uint32) []byte {
	out := make([]byte, 36)
	copy(out, txid[:])
	out[32] = byte(index)
	out[33] = byte(index >> 8)
	out[34] = byte(index >> 16)
	out[35] = byte(index >> 24)
	return out
}

// murmur constants' inverses mod 2^32
func inv32(a uint32) uint32 { // a odd
	x := a
	for i := 0; i < 5; i++ {
		x *= 2 - a*x
	}
	return x
}

func unfmix32(h uint32) uint32 {
	h ^= h >> 16
	h *= inv32(0xc2b2ae35)
	h ^= h>>13 ^ h>>26
	h *= inv32(0x85ebca6b)
	h ^= h >> 16
	return h
}

// Murmur3Partner returns an 8-byte string y whose first four bytes are
// `first` and for which Murmur3(seed, y) == target.  MurmurHash3's block
// mixing is invertible, so anyone who knows the seed can construct colliding
// inputs; this is used to build items that collide under one hash function
// of a bloom filter.
func Murmur3Partner(seed uint32, first [4]byte, target uint32) []byte {
	const c1, c2 = 0xcc9e2d51, 0x1b873593
	// state after the first block
	k := uint32(first[0]) | uint32(first[1])<<8 | uint32(first[2])<<16 | uint32(first[3])<<24
	k *= c1
	k = bits.RotateLeft32(k, 15)
	k *= c2
	h := seed ^ k
	h = bits.RotateLeft32(h, 13)
	h = h*5 + 0xe6546b64
	// required state before finalisation (length 8)
	want := unfmix32(target) ^ 8
	// want = rotl(h ^ k2', 13)*5 + 0xe6546b64
	t := (want - 0xe6546b64) * inv32(5)
	t = bits.RotateLeft32(t, -13)
	k2 := t ^ h
	k2 *= inv32(c2)
	k2 = bits.RotateLeft32(k2, -15)
	k2 *= inv32(c1)
	return []byte{first[0], first[1], first[2], first[3], byte(k2), byte(k2 >> 8), byte(k2 >> 16), byte(k2 >> 24)}
}
