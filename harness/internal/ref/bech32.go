package ref

import (
	"errors"
	"strings"
)

// Bech32 reference, transcribed from the BIP173 Python reference.

var bech32Gen = [5]uint32{0x3b6a57b2, 0x26508e6d, 0x1ea119fa, 0x3d4233dd, 0x2a1462b3}

// Bech32Polymod is bech32_polymod from BIP173.
func Bech32Polymod(values []byte) uint32 {
	chk := uint32(1)
	for _, v := range values {
		top := chk >> 25
		chk = (chk&0x1ffffff)<<5 ^ uint32(v)
		for i := 0; i < 5; i++ {
			if (top>>uint(i))&1 == 1 {
				chk ^= bech32Gen[i]
			}
		}
	}
	return chk
}

// Bech32HrpExpand is bech32_hrp_expand.
func Bech32HrpExpand(hrp string) []byte {
	out := make([]byte, 0, 2*len(hrp)+1)
	for i := 0; i < len(hrp); i++ {
		out = append(out, hrp[i]>>5)
	}
	out = append(out, 0)
	for i := 0; i < len(hrp); i++ {
		out = append(out, hrp[i]&31)
	}
	return out
}

// Bech32Encode is bech32_encode (hrp taken verbatim; data values < 32).
func Bech32Encode(hrp string, data []byte) string {
	values := append(Bech32HrpExpand(hrp), data...)
	values = append(values, 0, 0, 0, 0, 0, 0)
	pm := Bech32Polymod(values) ^ 1
	var sb strings.Builder
	sb.WriteString(hrp)
	sb.WriteByte('1')
	for _, d := range data {
		sb.WriteByte(CashCharset[d])
	}
	for i := 0; i < 6; i++ {
		sb.WriteByte(CashCharset[(pm>>uint(5*(5-i)))&31])
	}
	return sb.String()
}

// Bech32Decode is bech32_decode: returns lower-cased hrp and data, or an
// error.
func Bech32Decode(s string) (string, []byte, error) {
	hasL, hasU := false, false
	for i := 0; i < len(s); i++ {
		c := s[i]
		if c < 33 || c > 126 {
			return "", nil, errors.New("character out of range")
		}
		if c >= 'a' && c <= 'z' {
			hasL = true
		}
		if c >= 'A' && c <= 'Z' {
			hasU = true
		}
	}
	if hasL && hasU {
		return "", nil, errors.New("mixed case")
	}
	b := []byte(s)
	for i, c := range b {
		if c >= 'A' && c <= 'Z' {
			b[i] = c + 32
		}
	}
	s = string(b)
	pos := strings.LastIndexByte(s, '1')
	if pos < 1 || pos+7 > len(s) || len(s) > 90 {
		return "", nil, errors.New("separator position / length")
	}
	hrp := s[:pos]
	data := make([]byte, 0, len(s)-pos-1)
	for i := pos + 1; i < len(s); i++ {
		k := strings.IndexByte(CashCharset, s[i])
		if k < 0 {
			return "", nil, errors.New("bad data character")
		}
		data = append(data, byte(k))
	}
	if Bech32Polymod(append(Bech32HrpExpand(hrp), data...)) != 1 {
		return "", nil, errors.New("checksum")
	}
	return hrp, data[:len(data)-6], nil
}

// Bech32ConvertBits is convertbits from the BIP173 reference.
func Bech32ConvertBits(data []byte, from, to uint, pad bool) ([]byte, error) {
	acc, bits := uint32(0), uint(0)
	var out []byte
	maxv := uint32(1)<<to - 1
	maxAcc := uint32(1)<<(from+to-1) - 1
	for _, v := range data {
		if uint32(v)>>from != 0 {
			return nil, errors.New("value out of range")
		}
		acc = (acc<<from | uint32(v)) & maxAcc
		bits += from
		for bits >= to {
			bits -= to
			out = append(out, byte(acc>>bits&maxv))
		}
	}
	if pad {
		if bits > 0 {
			out = append(out, byte(acc<<(to-bits)&maxv))
		}
	} else if bits >= from || acc<<(to-bits)&maxv != 0 {
		return nil, errors.New("bad padding")
	}
	return out, nil
}
