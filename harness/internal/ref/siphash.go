package ref

import (
	"encoding/binary"
	"math/bits"
	"sort"
)

// SipHash24 is SipHash-2-4 with a 128-bit key, from the Aumasson/Bernstein
// paper (key = k0 little endian || k1 little endian).
func SipHash24(key [16]byte, m []byte) uint64 {
	k0 := binary.LittleEndian.Uint64(key[0:8])
	k1 := binary.LittleEndian.Uint64(key[8:16])
	v0 := k0 ^ 0x736f6d6570736575
	v1 := k1 ^ 0x646f72616e646f6d
	v2 := k0 ^ 0x6c7967656e657261
	v3 := k1 ^ 0x7465646279746573
	round := func() {
		v0 += v1
		v1 = bits.RotateLeft64(v1, 13)
		v1 ^= v0
		v0 = bits.RotateLeft64(v0, 32)
		v2 += v3
		v3 = bits.RotateLeft64(v3, 16)
		v3 ^= v2
		v0 += v3
		v3 = bits.RotateLeft64(v3, 21)
		v3 ^= v0
		v2 += v1
		v1 = bits.RotateLeft64(v1, 17)
		v1 ^= v2
		v2 = bits.RotateLeft64(v2, 32)
	}
	n := len(m)
	i := 0
	for ; i+8 <= n; i += 8 {
		w := binary.LittleEndian.Uint64(m[i:])
		v3 ^= w
		round()
		round()
		v0 ^= w
	}
	last := uint64(n&0xff) << 56
	for j := 0; i+j < n; j++ {
		last |= uint64(m[i+j]) << (8 * uint(j))
	}
	v3 ^= last
	round()
	round()
	v0 ^= last
	v2 ^= 0xff
	round()
	round()
	round()
	round()
	return v0 ^ v1 ^ v2 ^ v3
}

// GCSValue maps an item to floor(siphash * (N*M) / 2^64).
func GCSValue(key [16]byte, item []byte, nm uint64) uint64 {
	hi, _ := bits.Mul64(SipHash24(key, item), nm)
	return hi
}

// BitWriter writes bits MSB first.
type BitWriter struct {
	Buf  []byte
	nbit uint
}

func (w *BitWriter) WriteBit(b bool) {
	if w.nbit%8 == 0 {
		w.Buf = append(w.Buf, 0)
	}
	if b {
		w.Buf[len(w.Buf)-1] |= 0x80 >> (w.nbit % 8)
	}
	w.nbit++
}

func (w *BitWriter) WriteBits(v uint64, n uint) {
	for i := int(n) - 1; i >= 0; i-- {
		w.WriteBit(v>>uint(i)&1 == 1)
	}
}

// GCSEncode is the BIP158-style Golomb-Rice encoding of a data set: values
// sorted, delta coded as unary quotient (q ones then a zero) and P-bit
// remainder, MSB first, zero padded to a byte.  N = len(items) (duplicates
// kept, as the library counts them).
func GCSEncode(key [16]byte, p uint8, m uint64, items [][]byte) []byte {
	n := uint64(len(items))
	if n == 0 {
		return nil
	}
	nm := n * m
	vals := make([]uint64, len(items))
	for i, it := range items {
		vals[i] = GCSValue(key, it, nm)
	}
	sort.Slice(vals, func(i, j int) bool { return vals[i] < vals[j] })
	var w BitWriter
	last := uint64(0)
	for _, v := range vals {
		d := v - last
		last = v
		q := d >> p
		for ; q > 0; q-- {
			w.WriteBit(true)
		}
		w.WriteBit(false)
		w.WriteBits(d, uint(p))
	}
	return w.Buf
}

// GCSDecodeValues decodes up to n values from filter bytes (reference
// reader), returning the absolute values.
func GCSDecodeValues(data []byte, p uint8, n uint64) []uint64 {
	var out []uint64
	pos := uint(0)
	total := uint(len(data)) * 8
	bit := func() (bool, bool) {
		if pos >= total {
			return false, false
		}
		b := data[pos/8]&(0x80>>(pos%8)) != 0
		pos++
		return b, true
	}
	last := uint64(0)
	for uint64(len(out)) < n {
		q := uint64(0)
		for {
			b, ok := bit()
			if !ok {
				return out
			}
			if !b {
				break
			}
			q++
		}
		r := uint64(0)
		for i := 0; i < int(p); i++ {
			b, ok := bit()
			if !ok {
				return out
			}
			r <<= 1
			if b {
				r |= 1
			}
		}
		last += q<<p | r
		out = append(out, last)
	}
	return out
}

// CompactSize is Bitcoin's variable-length integer.
func CompactSize(n uint64) []byte {
	switch {
	case n < 0xfd:
		return []byte{byte(n)}
	case n <= 0xffff:
		return []byte{0xfd, byte(n), byte(n >> 8)}
	case n <= 0xffffffff:
		return []byte{0xfe, byte(n), byte(n >> 8), byte(n >> 16), byte(n >> 24)}
	}
	b := make([]byte, 9)
	b[0] = 0xff
	binary.LittleEndian.PutUint64(b[1:], n)
	return b
}
