package ref

import "testing"

func TestSelf(t *testing.T) {
	for name, f := range map[string]func() error{"cashaddr": SelfTestCashAddr, "base58": SelfTestBase58, "bech32": SelfTestBech32,
		"secp": SelfTestSecp, "bip32": SelfTestBIP32, "murmur": SelfTestMurmur, "siphash": SelfTestSipHash, "golomb": SelfTestGolomb} {
		if err := f(); err != nil {
			t.Errorf("%s: %v", name, err)
		}
	}
}
