package ref

import (
	"bytes"
	"math/big"
)

// B58Alphabet is the Bitcoin base-58 alphabet.
const B58Alphabet = "123456789ABCDEFGHJKLMNPQRSTUVWXYZabcdefghijkmnopqrstuvwxyz"

var big58 = big.NewInt(58)

// B58Encode encodes per the Bitcoin convention: the number base-58, most
// significant digit first, one '1' per leading zero byte.
func B58Encode(b []byte) string {
	zeros := 0
	for zeros < len(b) && b[zeros] == 0 {
		zeros++
	}
	n := new(big.Int).SetBytes(b)
	var digits []byte
	m := new(big.Int)
	for n.Sign() > 0 {
		n.QuoRem(n, big58, m)
		digits = append(digits, B58Alphabet[m.Int64()])
	}
	out := bytes.Repeat([]byte{'1'}, zeros)
	for i := len(digits) - 1; i >= 0; i-- {
		out = append(out, digits[i])
	}
	return string(out)
}

// B58Decode decodes s; ok is false when s contains a byte outside the
// alphabet.
func B58Decode(s string) (out []byte, ok bool) {
	n := new(big.Int)
	for i := 0; i < len(s); i++ {
		d := -1
		for j := 0; j < 58; j++ {
			if B58Alphabet[j] == s[i] {
				d = j
				break
			}
		}
		if d < 0 {
			return nil, false
		}
		n.Mul(n, big58)
		n.Add(n, big.NewInt(int64(d)))
	}
	zeros := 0
	for zeros < len(s) && s[zeros] == '1' {
		zeros++
	}
	body := n.Bytes()
	out = make([]byte, zeros+len(body))
	copy(out[zeros:], body)
	return out, true
}

// B58CheckEncode is Base58Check: version || payload || first 4 bytes of
// sha256d(version || payload).
func B58CheckEncode(version byte, payload []byte) string {
	b := append([]byte{version}, payload...)
	c := Sha256d(b)
	return B58Encode(append(b, c[:4]...))
}

// B58CheckDecode returns (version, payload, true) iff s is a valid
// Base58Check string.
func B58CheckDecode(s string) (version byte, payload []byte, ok bool) {
	raw, ok := B58Decode(s)
	if !ok || len(raw) < 5 {
		return 0, nil, false
	}
	c := Sha256d(raw[:len(raw)-4])
	if !bytes.Equal(c[:4], raw[len(raw)-4:]) {
		return 0, nil, false
	}
	return raw[0], raw[1 : len(raw)-4], true
}
