package ref

import (
	"errors"
	"strings"
)

// CashCharset is the CashAddr base32 alphabet.
const CashCharset = "qpzry9x8gf2tvdw0s3jn54khce6mua7l"

// CashPolymod is the CashAddr checksum function from the specification
// (https://github.com/bitcoincashorg/bitcoincash.org/blob/master/spec/cashaddr.md).
func CashPolymod(v []byte) uint64 {
	c := uint64(1)
	for _, d := range v {
		c0 := c >> 35
		c = ((c & 0x07ffffffff) << 5) ^ uint64(d)
		if c0&0x01 != 0 {
			c ^= 0x98f2bc8e61
		}
		if c0&0x02 != 0 {
			c ^= 0x79b76d99e2
		}
		if c0&0x04 != 0 {
			c ^= 0xf33e5fb3c4
		}
		if c0&0x08 != 0 {
			c ^= 0xae2eabe2a8
		}
		if c0&0x10 != 0 {
			c ^= 0x1e4f43e470
		}
	}
	return c ^ 1
}

// CashPrefixExpand is the lower 5 bits of each prefix character followed by
// a zero separator.
func CashPrefixExpand(prefix string) []byte {
	out := make([]byte, len(prefix)+1)
	for i := 0; i < len(prefix); i++ {
		out[i] = prefix[i] & 0x1f
	}
	return out
}

// CashChecksum returns the 8 checksum symbols for (prefix, payload symbols).
func CashChecksum(prefix string, payload []byte) []byte {
	v := append(CashPrefixExpand(prefix), payload...)
	v = append(v, 0, 0, 0, 0, 0, 0, 0, 0)
	m := CashPolymod(v)
	out := make([]byte, 8)
	for i := 0; i < 8; i++ {
		out[i] = byte(m>>uint(5*(7-i))) & 0x1f
	}
	return out
}

// CashEncodeSymbols renders payload symbols plus checksum (without prefix).
func CashEncodeSymbols(prefix string, payload []byte) string {
	all := append(append([]byte{}, payload...), CashChecksum(prefix, payload)...)
	var sb strings.Builder
	for _, s := range all {
		sb.WriteByte(CashCharset[s])
	}
	return sb.String()
}

// Pack8to5 regroups bytes into 5-bit symbols, MSB first, zero padded.
func Pack8to5(data []byte) []byte {
	var out []byte
	acc, bits := uint32(0), 0
	for _, b := range data {
		acc = acc<<8 | uint32(b)
		bits += 8
		for bits >= 5 {
			bits -= 5
			out = append(out, byte(acc>>uint(bits))&31)
		}
	}
	if bits > 0 {
		out = append(out, byte(acc<<uint(5-bits))&31)
	}
	return out
}

// Unpack5to8 is the strict inverse: fails when the padding is 5 or more bits
// or non-zero.
func Unpack5to8(sym []byte) ([]byte, error) {
	var out []byte
	acc, bits := uint32(0), 0
	for _, s := range sym {
		if s > 31 {
			return nil, errors.New("symbol out of range")
		}
		acc = (acc<<5 | uint32(s)) & 0xfff
		bits += 5
		if bits >= 8 {
			bits -= 8
			out = append(out, byte(acc>>uint(bits)))
		}
	}
	if bits >= 5 {
		return nil, errors.New("excess padding")
	}
	if acc&(1<<uint(bits)-1) != 0 {
		return nil, errors.New("non-zero padding")
	}
	return out, nil
}

// CashAddr type bits per the specification.
const (
	CashTypeP2KH = 0
	CashTypeP2SH = 1
)

// CashSizeBits returns the size code for a hash length in bytes, or -1.
func CashSizeBits(n int) int {
	switch n {
	case 20:
		return 0
	case 24:
		return 1
	case 28:
		return 2
	case 32:
		return 3
	case 40:
		return 4
	case 48:
		return 5
	case 56:
		return 6
	case 64:
		return 7
	}
	return -1
}

// CashEncode returns the payload string (no prefix) that the specification
// prescribes for (prefix, type, hash).
func CashEncode(prefix string, typ int, hash []byte) string {
	sz := CashSizeBits(len(hash))
	if sz < 0 {
		panic("ref: bad hash size")
	}
	ver := byte(typ<<3 | sz)
	return CashEncodeSymbols(prefix, Pack8to5(append([]byte{ver}, hash...)))
}

// CashDecoded is the result of a strict reference decode.
type CashDecoded struct {
	Prefix  string
	Version byte
	Hash    []byte
}

// CashDecode strictly decodes "prefix:payload" (single case, valid checksum,
// known size code matching the hash length, reserved bit clear, zero padding
// of fewer than 5 bits).
func CashDecode(s string) (*CashDecoded, error) {
	hasL, hasU := false, false
	for i := 0; i < len(s); i++ {
		if s[i] >= 'a' && s[i] <= 'z' {
			hasL = true
		}
		if s[i] >= 'A' && s[i] <= 'Z' {
			hasU = true
		}
		if s[i] >= 0x80 {
			return nil, errors.New("non-ascii")
		}
	}
	if hasL && hasU {
		return nil, errors.New("mixed case")
	}
	s = strings.ToLower(s)
	i := strings.IndexByte(s, ':')
	if i < 1 || strings.IndexByte(s[i+1:], ':') >= 0 {
		return nil, errors.New("separator")
	}
	prefix, body := s[:i], s[i+1:]
	sym := make([]byte, len(body))
	for j := 0; j < len(body); j++ {
		k := strings.IndexByte(CashCharset, body[j])
		if k < 0 {
			return nil, errors.New("bad character")
		}
		sym[j] = byte(k)
	}
	if len(sym) < 8 {
		return nil, errors.New("too short")
	}
	if CashPolymod(append(CashPrefixExpand(prefix), sym...)) != 0 {
		return nil, errors.New("checksum")
	}
	data, err := Unpack5to8(sym[:len(sym)-8])
	if err != nil {
		return nil, err
	}
	if len(data) < 1 {
		return nil, errors.New("empty")
	}
	ver := data[0]
	if ver&0x80 != 0 {
		return nil, errors.New("reserved bit")
	}
	if CashSizeBits(len(data)-1) != int(ver&7) {
		return nil, errors.New("size mismatch")
	}
	return &CashDecoded{Prefix: prefix, Version: ver, Hash: data[1:]}, nil
}
