package ref

import (
	"crypto/hmac"
	"crypto/sha512"
	"encoding/binary"
	"errors"
	"math/big"
)

// XKey is a reference BIP32 extended key.
type XKey struct {
	Version   [4]byte
	Depth     byte
	ParentFP  [4]byte
	ChildNum  uint32
	ChainCode [32]byte
	Priv      *big.Int // nil for public keys
	Pub       Point
}

// HardenedStart is 2^31.
const HardenedStart = 0x80000000

var (
	ErrHardFromPublic = errors.New("ref: hardened child from public key")
	ErrInvalidChild   = errors.New("ref: invalid child (IL >= n or key = 0)")
)

// NewMasterRef is BIP32 master key generation.
func NewMasterRef(seed []byte, privVersion [4]byte) (*XKey, error) {
	m := hmac.New(sha512.New, []byte("Bitcoin seed"))
	m.Write(seed)
	I := m.Sum(nil)
	k := new(big.Int).SetBytes(I[:32])
	if k.Sign() == 0 || k.Cmp(SecN) >= 0 {
		return nil, errors.New("ref: unusable seed")
	}
	x := &XKey{Version: privVersion, Priv: k, Pub: BaseMul(k)}
	copy(x.ChainCode[:], I[32:])
	return x, nil
}

// IsPrivate reports whether the key holds a private scalar.
func (k *XKey) IsPrivate() bool { return k.Priv != nil }

// Fingerprint is the first 4 bytes of hash160(compressed pubkey).
func (k *XKey) Fingerprint() [4]byte {
	var fp [4]byte
	copy(fp[:], Hash160(k.Pub.Compressed())[:4])
	return fp
}

// Child is CKDpriv / CKDpub.  pubVersion is unused for private parents.
func (k *XKey) Child(i uint32) (*XKey, error) {
	hard := i >= HardenedStart
	if hard && !k.IsPrivate() {
		return nil, ErrHardFromPublic
	}
	var data []byte
	if hard {
		data = append([]byte{0}, pad32(k.Priv)...)
	} else {
		data = k.Pub.Compressed()
	}
	var ib [4]byte
	binary.BigEndian.PutUint32(ib[:], i)
	data = append(data, ib[:]...)
	m := hmac.New(sha512.New, k.ChainCode[:])
	m.Write(data)
	I := m.Sum(nil)
	il := new(big.Int).SetBytes(I[:32])
	if il.Cmp(SecN) >= 0 {
		return nil, ErrInvalidChild
	}
	c := &XKey{Version: k.Version, Depth: k.Depth + 1, ParentFP: k.Fingerprint(), ChildNum: i}
	copy(c.ChainCode[:], I[32:])
	if k.IsPrivate() {
		ck := new(big.Int).Add(il, k.Priv)
		ck.Mod(ck, SecN)
		if ck.Sign() == 0 {
			return nil, ErrInvalidChild
		}
		c.Priv = ck
		c.Pub = BaseMul(ck)
	} else {
		p := BaseMul(il).Add(k.Pub)
		if p.Inf {
			return nil, ErrInvalidChild
		}
		c.Pub = p
	}
	return c, nil
}

// Neuter returns the public counterpart with the given version bytes.
func (k *XKey) Neuter(pubVersion [4]byte) *XKey {
	c := *k
	c.Priv = nil
	c.Version = pubVersion
	return &c
}

// Serialize78 is the 78-byte BIP32 payload.
func (k *XKey) Serialize78() []byte {
	out := make([]byte, 0, 78)
	out = append(out, k.Version[:]...)
	out = append(out, k.Depth)
	out = append(out, k.ParentFP[:]...)
	var cn [4]byte
	binary.BigEndian.PutUint32(cn[:], k.ChildNum)
	out = append(out, cn[:]...)
	out = append(out, k.ChainCode[:]...)
	if k.IsPrivate() {
		out = append(out, 0)
		out = append(out, pad32(k.Priv)...)
	} else {
		out = append(out, k.Pub.Compressed()...)
	}
	return out
}

// String is Base58(payload || sha256d(payload)[:4]).
func (k *XKey) String() string {
	p := k.Serialize78()
	c := Sha256d(p)
	return B58Encode(append(p, c[:4]...))
}

// ParseXKey strictly validates and parses an extended-key string:
// 82 bytes, good checksum, private scalar in [1,n-1] behind a zero byte or a
// compressed point on the curve.
func ParseXKey(s string) (*XKey, error) {
	raw, ok := B58Decode(s)
	if !ok {
		return nil, errors.New("ref: not base58")
	}
	if len(raw) != 82 {
		return nil, errors.New("ref: length")
	}
	c := Sha256d(raw[:78])
	if string(c[:4]) != string(raw[78:]) {
		return nil, errors.New("ref: checksum")
	}
	k := &XKey{Depth: raw[4], ChildNum: binary.BigEndian.Uint32(raw[9:13])}
	copy(k.Version[:], raw[0:4])
	copy(k.ParentFP[:], raw[5:9])
	copy(k.ChainCode[:], raw[13:45])
	kd := raw[45:78]
	switch kd[0] {
	case 0:
		d := new(big.Int).SetBytes(kd[1:])
		if d.Sign() == 0 || d.Cmp(SecN) >= 0 {
			return nil, errors.New("ref: scalar out of range")
		}
		k.Priv = d
		k.Pub = BaseMul(d)
	case 2, 3:
		p, err := ParseCompressed(kd)
		if err != nil {
			return nil, err
		}
		k.Pub = p
	default:
		return nil, errors.New("ref: key prefix")
	}
	return k, nil
}
