package ref

import "testing"

func TestSelfMerkle(t *testing.T) {
	if err := SelfTestMerkle(); err != nil {
		t.Fatal(err)
	}
}
