// Package ref holds reference implementations written from the public
// specifications (CashAddr, Base58Check, BIP173, BIP32, BIP37, MurmurHash3,
// SipHash-2-4, Golomb-Rice/BIP158, BIP69, secp256k1).  They share no code
// with gcash/bchutil or bchd.  Trusted primitives: crypto/sha256,
// crypto/sha512, crypto/hmac, x/crypto/ripemd160, math/big, math/bits.
package ref

import (
	"crypto/sha256"

	"golang.org/x/crypto/ripemd160"
)

// Sha256d is SHA256(SHA256(b)).
func Sha256d(b []byte) [32]byte {
	h := sha256.Sum256(b)
	return sha256.Sum256(h[:])
}

// Hash160 is RIPEMD160(SHA256(b)).
func Hash160(b []byte) []byte {
	h := sha256.Sum256(b)
	r := ripemd160.New()
	r.Write(h[:])
	return r.Sum(nil)
}
