package ref

import (
	"encoding/binary"
	"encoding/hex"
	"fmt"
	"math/big"
	"sort"
)

// BIP69 ("Lexicographical Indexing of Transaction Inputs and Outputs").
//
//   Inputs:  "Previous transaction hashes (in reversed byte-order) are to be
//            sorted in ascending order, lexicographically.  In the event of two
//            matching transaction hashes, the respective previous output
//            indices will be compared by their integer value, in ascending
//            order."
//   Outputs: "Transaction output amounts are to be sorted in ascending order.
//            In the event of two matching output amounts, the respective output
//            scriptPubkeys (as a byte-array) will be compared
//            lexicographically, in ascending order."
//
// The hash passed to BIP69CmpInput is in internal (wire) byte order, i.e. the
// transaction id as displayed is its byte-wise reversal; comparing the
// reversed bytes lexicographically is comparing the 256-bit numbers whose
// least significant byte is hash[0].

// BIP69CmpInput returns -1, 0 or +1 for the BIP69 order of two outpoints.
func BIP69CmpInput(ha *[32]byte, ia uint32, hb *[32]byte, ib uint32) int {
	for k := 31; k >= 0; k-- { // most significant byte of the displayed id first
		if ha[k] != hb[k] {
			if ha[k] < hb[k] {
				return -1
			}
			return 1
		}
	}
	switch {
	case ia < ib:
		return -1
	case ia > ib:
		return 1
	}
	return 0
}

// LexCmp is the lexicographic order on byte strings (a proper prefix sorts
// first).
func LexCmp(a, b []byte) int {
	n := len(a)
	if len(b) < n {
		n = len(b)
	}
	for k := 0; k < n; k++ {
		if a[k] != b[k] {
			if a[k] < b[k] {
				return -1
			}
			return 1
		}
	}
	switch {
	case len(a) < len(b):
		return -1
	case len(a) > len(b):
		return 1
	}
	return 0
}

// BIP69CmpOutput returns -1, 0 or +1 for the BIP69 order of two outputs.
// Amounts are compared as the signed 64-bit integers the wire type holds;
// for the valid range 0..2^63-1 this coincides with the unsigned comparison
// of the BIP text.
func BIP69CmpOutput(va int64, sa []byte, vb int64, sb []byte) int {
	switch {
	case va < vb:
		return -1
	case va > vb:
		return 1
	}
	return LexCmp(sa, sb)
}

// ---- self-test ------------------------------------------------------------

type bip69In struct {
	hash [32]byte
	idx  uint32
	raw  []byte // full serialisation
}
type bip69Out struct {
	val    int64
	script []byte
	raw    []byte
}

func bip69VarInt(b []byte) (uint64, int, error) {
	if len(b) == 0 {
		return 0, 0, fmt.Errorf("short varint")
	}
	switch b[0] {
	case 0xfd:
		if len(b) < 3 {
			return 0, 0, fmt.Errorf("short varint")
		}
		return uint64(binary.LittleEndian.Uint16(b[1:])), 3, nil
	case 0xfe:
		if len(b) < 5 {
			return 0, 0, fmt.Errorf("short varint")
		}
		return uint64(binary.LittleEndian.Uint32(b[1:])), 5, nil
	case 0xff:
		if len(b) < 9 {
			return 0, 0, fmt.Errorf("short varint")
		}
		return binary.LittleEndian.Uint64(b[1:]), 9, nil
	}
	return uint64(b[0]), 1, nil
}

func bip69PutVarInt(dst []byte, v uint64) []byte {
	switch {
	case v < 0xfd:
		return append(dst, byte(v))
	case v <= 0xffff:
		return append(dst, 0xfd, byte(v), byte(v>>8))
	case v <= 0xffffffff:
		return append(dst, 0xfe, byte(v), byte(v>>8), byte(v>>16), byte(v>>24))
	}
	dst = append(dst, 0xff)
	return binary.LittleEndian.AppendUint64(dst, v)
}

// bip69SortRawTx parses a pre-token legacy transaction, sorts it with the
// reference comparators and returns the displayed id of the sorted
// transaction and whether the input was already sorted.
func bip69SortRawTx(raw []byte) (string, bool, error) {
	p := 0
	need := func(n int) error {
		if n < 0 || p+n > len(raw) {
			return fmt.Errorf("truncated transaction at %d", p)
		}
		return nil
	}
	if err := need(4); err != nil {
		return "", false, err
	}
	version := raw[0:4]
	p = 4
	nin, l, err := bip69VarInt(raw[p:])
	if err != nil {
		return "", false, err
	}
	p += l
	ins := make([]bip69In, nin)
	for i := range ins {
		start := p
		if err := need(36); err != nil {
			return "", false, err
		}
		copy(ins[i].hash[:], raw[p:p+32])
		ins[i].idx = binary.LittleEndian.Uint32(raw[p+32:])
		p += 36
		sl, l, err := bip69VarInt(raw[p:])
		if err != nil {
			return "", false, err
		}
		p += l
		if err := need(int(sl) + 4); err != nil {
			return "", false, err
		}
		p += int(sl) + 4
		ins[i].raw = raw[start:p]
	}
	nout, l, err := bip69VarInt(raw[p:])
	if err != nil {
		return "", false, err
	}
	p += l
	outs := make([]bip69Out, nout)
	for i := range outs {
		start := p
		if err := need(8); err != nil {
			return "", false, err
		}
		outs[i].val = int64(binary.LittleEndian.Uint64(raw[p:]))
		p += 8
		sl, l, err := bip69VarInt(raw[p:])
		if err != nil {
			return "", false, err
		}
		p += l
		if err := need(int(sl)); err != nil {
			return "", false, err
		}
		outs[i].script = raw[p : p+int(sl)]
		p += int(sl)
		outs[i].raw = raw[start:p]
	}
	if err := need(4); err != nil {
		return "", false, err
	}
	lock := raw[p : p+4]
	if p+4 != len(raw) {
		return "", false, fmt.Errorf("trailing bytes")
	}
	sorted := true
	for i := 1; i < len(ins); i++ {
		if BIP69CmpInput(&ins[i-1].hash, ins[i-1].idx, &ins[i].hash, ins[i].idx) > 0 {
			sorted = false
		}
	}
	for i := 1; i < len(outs); i++ {
		if BIP69CmpOutput(outs[i-1].val, outs[i-1].script, outs[i].val, outs[i].script) > 0 {
			sorted = false
		}
	}
	sort.SliceStable(ins, func(a, b int) bool {
		return BIP69CmpInput(&ins[a].hash, ins[a].idx, &ins[b].hash, ins[b].idx) < 0
	})
	sort.SliceStable(outs, func(a, b int) bool {
		return BIP69CmpOutput(outs[a].val, outs[a].script, outs[b].val, outs[b].script) < 0
	})
	out := append([]byte{}, version...)
	out = bip69PutVarInt(out, nin)
	for _, in := range ins {
		out = append(out, in.raw...)
	}
	out = bip69PutVarInt(out, nout)
	for _, o := range outs {
		out = append(out, o.raw...)
	}
	out = append(out, lock...)
	h := Sha256d(out)
	for i, j := 0, 31; i < j; i, j = i+1, j-1 {
		h[i], h[j] = h[j], h[i]
	}
	return hex.EncodeToString(h[:]), sorted, nil
}

// Transactions used as examples by BIP69 and the ids of their sorted forms
// (the same vectors the upstream txsort package is tested on).
var bip69Vectors = []struct {
	name, rawHex, unsortedID, sortedID string
	sorted                             bool
}{
	{"block 100001 tx[1] (outputs by amount)",
		"0100000001d992e5a888a86d4c7a6a69167a4728ee69497509740fc5f456a24528c340219a000000008b483045022100f0519bdc9282ff476da1323b8ef7ffe33f495c1a8d52cc522b437022d83f6a230220159b61d197fbae01b4a66622a23bc3f1def65d5fa24efd5c26fa872f3a246b8e014104839f9023296a1fabb133140128ca2709f6818c7d099491690bd8ac0fd55279def6a2ceb6ab7b5e4a71889b6e739f09509565eec789e86886f6f936fa42097adeffffffff02000fe208010000001976a914948c765a6914d43f2a7ac177da2c2f6b52de3d7c88ac00e32321000000001976a9140c34f4e29ab5a615d5ea28d4817f12b137d62ed588ac00000000",
		"fbde5d03b027d2b9ba4cf5d4fecab9a99864df2637b25ea4cbcb1796ff6550ca",
		"0a8c246c55f6b82f094d211f4f57167bf2ea4898741d218b09bdb2536fd8d13f", false},
	{"block 100001 tx[2] (inputs by hash and outputs)",
		"01000000059daf0abe7a92618546a9dbcfd65869b6178c66ec21ccfda878c1175979cfd9ef000000004a493046022100c2f7f25be5de6ce88ac3c1a519514379e91f39b31ddff279a3db0b1a229b708b022100b29efbdbd9837cc6a6c7318aa4900ed7e4d65662c34d1622a2035a3a5534a99a01ffffffffd516330ebdf075948da56db13d22632a4fb941122df2884397dda45d451acefb0000000048473044022051243debe6d4f2b433bee0cee78c5c4073ead0e3bde54296dbed6176e128659c022044417bfe16f44eb7b6eb0cdf077b9ce972a332e15395c09ca5e4f602958d266101ffffffffe1f5aa33961227b3c344e57179417ce01b7ccd421117fe2336289b70489883f900000000484730440220593252bb992ce3c85baf28d6e3aa32065816271d2c822398fe7ee28a856bc943022066d429dd5025d3c86fd8fd8a58e183a844bd94aa312cefe00388f57c85b0ca3201ffffffffe207e83718129505e6a7484831442f668164ae659fddb82e9e5421a081fb90d50000000049483045022067cf27eb733e5bcae412a586b25a74417c237161a084167c2a0b439abfebdcb2022100efcc6baa6824b4c5205aa967e0b76d31abf89e738d4b6b014e788c9a8cccaf0c01ffffffffe23b8d9d80a9e9d977fab3c94dbe37befee63822443c3ec5ae5a713ede66c3940000000049483045022020f2eb35036666b1debe0d1d2e77a36d5d9c4e96c1dba23f5100f193dbf524790221008ce79bc1321fb4357c6daee818038d41544749127751726e46b2b320c8b565a201ffffffff0200ba1dd2050000001976a914366a27645806e817a6cd40bc869bdad92fe5509188ac40420f00000000001976a914ee8bd501094a7d5ca318da2506de35e1cb025ddc88ac00000000",
		"8131ffb0a2c945ecaf9b9063e59558784f9c3a74741ce6ae2a18d0571dac15bb",
		"a3196553b928b0b6154b002fa9a1ce875adabc486fedaaaf4c17430fd4486329", false},
	{"block 100998 tx[6] (outputs by script)",
		"01000000011f636d0003f673b3aeea4971daef16b8eed784cf6e8019a5ae7da4985fbb06e5000000008a47304402205103941e2b11e746dfa817888d422f6e7f4d16dbbfb8ffa61d15ffb924a84b8802202fe861b0f23f17139d15a3374bfc6c7196d371f3d1a324e31cc0aadbba87e53c0141049e7e1b251a7e26cae9ee7553b278ef58ef3c28b4b20134d51b747d9b18b0a19b94b66cef320e2549dec0ea3d725cb4c742f368928b1fb74b4603e24a1e262c80ffffffff0240420f00000000001976a914bcfa0e27218a7c97257b351b03a9eac95c25a23988ac40420f00000000001976a9140c6a68f20bafc678164d171ee4f077adfa9b091688ac00000000",
		"ff85e8fc92e71bbc217e3ea9a3bacb86b435e52b6df0b089d67302c293a2b81d",
		"9a6c24746de024f77cac9b2138694f11101d1c66289261224ca52a25155a7c94", false},
}

// First example of BIP69: the 17 previous outpoints of transaction
// 0a6a357e…c4c3 in the order the BIP lists as sorted (displayed ids).
var bip69Example1 = []struct {
	id  string
	idx uint32
}{
	{"0e53ec5dfb2cb8a71fec32dc9a634a35b7e24799295ddd5278217822e0b31f57", 0},
	{"26aa6e6d8b9e49bb0630aac301db6757c02e3619feb4ee0eea81eb1672947024", 1},
	{"28e0fdd185542f2c6ea19030b0796051e7772b6026dd5ddccd7a2f93b73e6fc2", 0},
	{"381de9b9ae1a94d9c17f6a08ef9d341a5ce29e2e60c36a52d333ff6203e58d5d", 1},
	{"3b8b2f8efceb60ba78ca8bba206a137f14cb5ea4035e761ee204302d46b98de2", 0},
	{"402b2c02411720bf409eff60d05adad684f135838962823f3614cc657dd7bc0a", 1},
	{"54ffff182965ed0957dba1239c27164ace5a73c9b62a660c74b7b7f15ff61e7a", 1},
	{"643e5f4e66373a57251fb173151e838ccd27d279aca882997e005016bb53d5aa", 0},
	{"6c1d56f31b2de4bfc6aaea28396b333102b1f600da9c6d6149e96ca43f1102b1", 1},
	{"7a1de137cbafb5c70405455c49c5104ca3057a1f1243e6563bb9245c9c88c191", 0},
	{"7d037ceb2ee0dc03e82f17be7935d238b35d1deabf953a892a4507bfbeeb3ba4", 1},
	{"a5e899dddb28776ea9ddac0a502316d53a4a3fca607c72f66c470e0412e34086", 0},
	{"b4112b8f900a7ca0c8b0e7c4dfad35c6be5f6be46b3458974988e1cdb2fa61b8", 0},
	{"bafd65e3c7f3f9fdfdc1ddb026131b278c3be1af90a4a6ffa78c4658f9ec0c85", 0},
	{"de0411a1e97484a2804ff1dbde260ac19de841bebad1880c782941aca883b4e9", 1},
	{"f0a130a84912d03c1d284974f563c5949ac13f8342b8112edff52971599e6a45", 0},
	{"f320832a9d2e2452af63154bc687493484a0e7745ebd3aaf9ca19eb80834ad60", 0},
}

func bip69Internal(id string) ([32]byte, error) {
	var h [32]byte
	b, err := hex.DecodeString(id)
	if err != nil || len(b) != 32 {
		return h, fmt.Errorf("bad id %q", id)
	}
	for i := range b {
		h[31-i] = b[i]
	}
	return h, nil
}

// SelfTestBIP69 checks the reference comparators against the BIP's examples
// (sorted ids recomputed end to end with an own parser and sha256d) and
// against hand-computed key relations.
func SelfTestBIP69() error {
	for _, v := range bip69Vectors {
		raw, err := hex.DecodeString(v.rawHex)
		if err != nil {
			return fmt.Errorf("bip69 %s: %v", v.name, err)
		}
		h := Sha256d(raw)
		for i, j := 0, 31; i < j; i, j = i+1, j-1 {
			h[i], h[j] = h[j], h[i]
		}
		if hex.EncodeToString(h[:]) != v.unsortedID {
			return fmt.Errorf("bip69 %s: vector id %x want %s", v.name, h, v.unsortedID)
		}
		id, sorted, err := bip69SortRawTx(raw)
		if err != nil {
			return fmt.Errorf("bip69 %s: %v", v.name, err)
		}
		if id != v.sortedID || sorted != v.sorted {
			return fmt.Errorf("bip69 %s: sorted id %s (already sorted %v), published %s (%v)", v.name, id, sorted, v.sortedID, v.sorted)
		}
	}
	for i := 1; i < len(bip69Example1); i++ {
		a, err := bip69Internal(bip69Example1[i-1].id)
		if err != nil {
			return err
		}
		b, err := bip69Internal(bip69Example1[i].id)
		if err != nil {
			return err
		}
		if BIP69CmpInput(&a, bip69Example1[i-1].idx, &b, bip69Example1[i].idx) >= 0 ||
			BIP69CmpInput(&b, bip69Example1[i].idx, &a, bip69Example1[i-1].idx) <= 0 {
			return fmt.Errorf("bip69 example 1: entries %d,%d not ascending under the reference", i-1, i)
		}
		// cross-check with the literal "big-endian number" reading
		na, _ := new(big.Int).SetString(bip69Example1[i-1].id, 16)
		nb, _ := new(big.Int).SetString(bip69Example1[i].id, 16)
		if na.Cmp(nb) >= 0 {
			return fmt.Errorf("bip69 example 1: vector %d not ascending as numbers", i)
		}
	}
	// every single differing byte position decides with the right weight
	for p := 0; p < 32; p++ {
		for q := p + 1; q < 32; q++ {
			var x, y [32]byte
			x[p], y[q] = 1, 1 // y differs at the more significant position
			if BIP69CmpInput(&x, 9, &y, 0) != -1 || BIP69CmpInput(&y, 0, &x, 9) != 1 {
				return fmt.Errorf("bip69: byte weights wrong at %d,%d", p, q)
			}
			nx := new(big.Int).Lsh(big.NewInt(1), uint(8*p))
			ny := new(big.Int).Lsh(big.NewInt(1), uint(8*q))
			if nx.Cmp(ny) != -1 {
				return fmt.Errorf("bip69: self-test arithmetic")
			}
		}
	}
	var z [32]byte
	type ic struct {
		a, b uint32
		want int
	}
	for _, t := range []ic{{0, 0, 0}, {0, 1, -1}, {1, 0, 1}, {0x7fffffff, 0x80000000, -1}, {0xffffffff, 0, 1}, {255, 256, -1}} {
		if got := BIP69CmpInput(&z, t.a, &z, t.b); got != t.want {
			return fmt.Errorf("bip69: index compare %d,%d = %d want %d", t.a, t.b, got, t.want)
		}
	}
	type oc struct {
		va   int64
		sa   string
		vb   int64
		sb   string
		want int
	}
	for _, t := range []oc{
		{0, "", 0, "", 0}, {0, "b", 1, "", -1}, {1, "", 0, "zz", 1},
		{5, "", 5, "a", -1}, {5, "a", 5, "ab", -1}, {5, "ab", 5, "b", -1}, {5, "b", 5, "a", 1},
		{5, "a\x00", 5, "a", 1}, {5, "\x7f", 5, "\x80", -1}, {5, "\xff", 5, "\x00\xff", 1},
		{1 << 62, "", 1<<63 - 1, "", -1}, {1<<63 - 1, "a", 1<<63 - 1, "a", 0}, {255, "x", 256, "a", -1},
		{1 << 32, "", 1<<32 - 1, "z", 1},
	} {
		if got := BIP69CmpOutput(t.va, []byte(t.sa), t.vb, []byte(t.sb)); got != t.want {
			return fmt.Errorf("bip69: output compare (%d,%q) (%d,%q) = %d want %d", t.va, t.sa, t.vb, t.sb, got, t.want)
		}
	}
	return nil
}
