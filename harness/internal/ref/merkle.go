package ref

import (
	"bytes"
	"crypto/sha256"
	"encoding/binary"
	"errors"
	"fmt"
)

// Merkle trees and BIP37 partial merkle trees, written from the BIP37 text
// ("Partial Merkle branch format", "Constructing a partial merkle tree
// object", "Parsing a partial merkle tree object") and the Bitcoin block
// merkle tree definition:
//
//   - node = SHA256(SHA256(left || right)); a level with an odd number of
//     nodes pairs its last node with itself;
//   - a partial tree is a depth-first traversal: one flag bit per visited
//     node (1 = "an ancestor of, or itself, a matched transaction"), a hash
//     for every visited node that is not descended into (flag 0, or a leaf);
//   - flag bits are packed 8 per byte, least significant bit first, padded
//     with zero bits.

// MerkleParent is sha256d(l || r).
func MerkleParent(l, r [32]byte) [32]byte {
	var b [64]byte
	copy(b[:32], l[:])
	copy(b[32:], r[:])
	h := sha256.Sum256(b[:])
	return sha256.Sum256(h[:])
}

// MerkleLevels returns every level of the full tree over leaves (level 0 =
// leaves, last level = [root]).  len(leaves) must be >= 1.
func MerkleLevels(leaves [][32]byte) [][][32]byte {
	if len(leaves) == 0 {
		panic("ref.MerkleLevels: no leaves")
	}
	levels := [][][32]byte{append([][32]byte(nil), leaves...)}
	cur := levels[0]
	for len(cur) > 1 {
		next := make([][32]byte, 0, (len(cur)+1)/2)
		for i := 0; i < len(cur); i += 2 {
			if i+1 < len(cur) {
				next = append(next, MerkleParent(cur[i], cur[i+1]))
			} else {
				next = append(next, MerkleParent(cur[i], cur[i])) // odd level: last node paired with itself
			}
		}
		levels = append(levels, next)
		cur = next
	}
	return levels
}

// MerkleRoot is the block merkle root of the leaves (>= 1).
func MerkleRoot(leaves [][32]byte) [32]byte {
	lv := MerkleLevels(leaves)
	return lv[len(lv)-1][0]
}

// PartialMerkle is the partial-merkle-tree part of a merkleblock message.
type PartialMerkle struct {
	Count  uint32
	Hashes [][32]byte
	Flags  []byte
}

// PackBitsLSB packs bits 8 per byte, least significant bit first.
func PackBitsLSB(bits []bool) []byte {
	out := make([]byte, (len(bits)+7)/8)
	for i, b := range bits {
		if b {
			out[i>>3] |= 1 << uint(i&7)
		}
	}
	return out
}

// BuildPartialMerkle constructs the canonical BIP37 partial merkle tree for
// the block whose transaction hashes are leaves and the subset matched
// (len(matched) == len(leaves) >= 1).
func BuildPartialMerkle(leaves [][32]byte, matched []bool) PartialMerkle {
	if len(leaves) == 0 || len(leaves) != len(matched) {
		panic("ref.BuildPartialMerkle: bad arguments")
	}
	levels := MerkleLevels(leaves)
	// anc[h][p]: node p of level h is a matched leaf or has one below it
	anc := make([][]bool, len(levels))
	anc[0] = matched
	for h := 1; h < len(levels); h++ {
		anc[h] = make([]bool, len(levels[h]))
		for p := range anc[h] {
			a := anc[h-1][2*p]
			if 2*p+1 < len(anc[h-1]) {
				a = a || anc[h-1][2*p+1]
			}
			anc[h][p] = a
		}
	}
	var bits []bool
	var hashes [][32]byte
	var visit func(h, p int)
	visit = func(h, p int) {
		bits = append(bits, anc[h][p])
		if h == 0 || !anc[h][p] {
			hashes = append(hashes, levels[h][p])
			return
		}
		visit(h-1, 2*p)
		if 2*p+1 < len(levels[h-1]) {
			visit(h-1, 2*p+1)
		}
	}
	visit(len(levels)-1, 0)
	return PartialMerkle{Count: uint32(len(leaves)), Hashes: hashes, Flags: PackBitsLSB(bits)}
}

// Rejection reasons of ExtractPartialMerkle.
var (
	ErrPMNoTx         = errors.New("partial merkle tree: zero transactions")
	ErrPMTooManyTx    = errors.New("partial merkle tree: too many transactions")
	ErrPMHashesGtTx   = errors.New("partial merkle tree: more hashes than transactions")
	ErrPMBitsLtHashes = errors.New("partial merkle tree: fewer flag bits than hashes")
	ErrPMOutOfBits    = errors.New("partial merkle tree: ran out of flag bits")
	ErrPMOutOfHashes  = errors.New("partial merkle tree: ran out of hashes")
	ErrPMUnusedHash   = errors.New("partial merkle tree: unused hash")
	ErrPMUnusedByte   = errors.New("partial merkle tree: unused byte of flag bits")
	ErrPMEqualChild   = errors.New("partial merkle tree: inner node with two equal children")
)

// levelWidth is the number of nodes at height h of a tree over n leaves.
func levelWidth(n uint64, h uint) uint64 { return (n + (uint64(1) << h) - 1) >> h }

// ExtractPartialMerkle evaluates a partial merkle tree.  It returns the root,
// the matched transaction hashes and their positions (in traversal = block
// order), or one of the ErrPM errors.  maxCount is the largest acceptable
// transaction count.
func ExtractPartialMerkle(count uint32, hashes [][32]byte, flags []byte, maxCount uint32) (root [32]byte, matches [][32]byte, positions []uint32, err error) {
	switch {
	case count == 0:
		err = ErrPMNoTx
	case count > maxCount:
		err = ErrPMTooManyTx
	case uint64(len(hashes)) > uint64(count):
		err = ErrPMHashesGtTx
	case uint64(len(flags))*8 < uint64(len(hashes)):
		err = ErrPMBitsLtHashes
	}
	if err != nil {
		return
	}
	n := uint64(count)
	height := uint(0)
	for levelWidth(n, height) > 1 {
		height++
	}
	nbits := uint64(len(flags)) * 8
	var bitPos, hashPos uint64
	var node func(h uint, p uint64) ([32]byte, error)
	node = func(h uint, p uint64) ([32]byte, error) {
		var zero [32]byte
		if bitPos >= nbits {
			return zero, ErrPMOutOfBits
		}
		flag := flags[bitPos>>3]>>(bitPos&7)&1 == 1
		bitPos++
		if h == 0 || !flag {
			if hashPos >= uint64(len(hashes)) {
				return zero, ErrPMOutOfHashes
			}
			v := hashes[hashPos]
			hashPos++
			if h == 0 && flag {
				matches = append(matches, v)
				positions = append(positions, uint32(p))
			}
			return v, nil
		}
		l, e := node(h-1, 2*p)
		if e != nil {
			return zero, e
		}
		if 2*p+1 < levelWidth(n, h-1) {
			r, e := node(h-1, 2*p+1)
			if e != nil {
				return zero, e
			}
			if l == r {
				return zero, ErrPMEqualChild
			}
			return MerkleParent(l, r), nil
		}
		return MerkleParent(l, l), nil
	}
	root, err = node(height, 0)
	if err == nil && hashPos != uint64(len(hashes)) {
		err = ErrPMUnusedHash
	}
	if err == nil && (bitPos+7)/8 != uint64(len(flags)) {
		err = ErrPMUnusedByte
	}
	if err != nil {
		return [32]byte{}, nil, nil, err
	}
	return root, matches, positions, nil
}

// ParseMerkleBlock splits a serialised merkleblock message (80-byte header,
// uint32 LE transaction count, CompactSize hash count, hashes, CompactSize
// flag length, flags).
func ParseMerkleBlock(b []byte) (header []byte, pm PartialMerkle, err error) {
	if len(b) < 84 {
		return nil, pm, errors.New("merkleblock: short")
	}
	header = b[:80]
	pm.Count = binary.LittleEndian.Uint32(b[80:84])
	b = b[84:]
	rd := func() (uint64, error) {
		if len(b) == 0 {
			return 0, errors.New("merkleblock: short varint")
		}
		f := b[0]
		b = b[1:]
		sz := 0
		switch f {
		case 0xfd:
			sz = 2
		case 0xfe:
			sz = 4
		case 0xff:
			sz = 8
		default:
			return uint64(f), nil
		}
		if len(b) < sz {
			return 0, errors.New("merkleblock: short varint")
		}
		var v uint64
		for i := sz - 1; i >= 0; i-- {
			v = v<<8 | uint64(b[i])
		}
		b = b[sz:]
		return v, nil
	}
	nh, err := rd()
	if err != nil || nh > uint64(len(b))/32 {
		return nil, pm, errors.New("merkleblock: bad hash count")
	}
	for i := uint64(0); i < nh; i++ {
		var h [32]byte
		copy(h[:], b[:32])
		b = b[32:]
		pm.Hashes = append(pm.Hashes, h)
	}
	nf, err := rd()
	if err != nil || nf != uint64(len(b)) {
		return nil, pm, errors.New("merkleblock: bad flag length")
	}
	pm.Flags = append([]byte(nil), b...)
	return header, pm, nil
}

// SerializeMerkleBlock is the inverse of ParseMerkleBlock.
func SerializeMerkleBlock(header []byte, pm PartialMerkle) []byte {
	out := append([]byte(nil), header...)
	var c [4]byte
	binary.LittleEndian.PutUint32(c[:], pm.Count)
	out = append(out, c[:]...)
	out = append(out, CompactSize(uint64(len(pm.Hashes)))...)
	for _, h := range pm.Hashes {
		out = append(out, h[:]...)
	}
	out = append(out, CompactSize(uint64(len(pm.Flags)))...)
	return append(out, pm.Flags...)
}

func revHex32(s string) [32]byte {
	b := unhex(s)
	var h [32]byte
	for i := range b {
		h[31-i] = b[i]
	}
	return h
}

// SelfTestMerkle checks the merkle reference on hand-derived small trees, on
// builder -> extractor round trips, on every rejection rule and on two
// `gettxoutproof` outputs of a Bitcoin ABC node (testnet blocks 1267123 and
// 1268246).
func SelfTestMerkle() error {
	t := make([][32]byte, 8)
	for i := range t {
		t[i] = sha256.Sum256([]byte{byte(i), 'l', 'e', 'a', 'f'})
	}
	H := MerkleParent
	// sha256d(l||r) against a direct computation
	{
		cat := append(append([]byte(nil), t[0][:]...), t[1][:]...)
		if H(t[0], t[1]) != Sha256d(cat) {
			return fmt.Errorf("merkle: MerkleParent != sha256d(l||r)")
		}
	}
	h01, h23, h45, h67 := H(t[0], t[1]), H(t[2], t[3]), H(t[4], t[5]), H(t[6], t[7])
	h22, h44, h66 := H(t[2], t[2]), H(t[4], t[4]), H(t[6], t[6])
	roots := map[int][32]byte{
		1: t[0],
		2: h01,
		3: H(h01, h22),
		4: H(h01, h23),
		5: H(H(h01, h23), H(h44, h44)),
		6: H(H(h01, h23), H(h45, h45)),
		7: H(H(h01, h23), H(h45, h66)),
		8: H(H(h01, h23), H(h45, h67)),
	}
	for n, want := range roots {
		if got := MerkleRoot(t[:n]); got != want {
			return fmt.Errorf("merkle: root of %d leaves: got %x want %x", n, got, want)
		}
	}
	type vec struct {
		n       int
		matched []int
		flags   []byte
		hashes  [][32]byte
	}
	vecs := []vec{
		{1, []int{0}, []byte{0x01}, [][32]byte{t[0]}},
		{1, nil, []byte{0x00}, [][32]byte{t[0]}},
		{2, []int{1}, []byte{0x05}, [][32]byte{t[0], t[1]}},
		{2, nil, []byte{0x00}, [][32]byte{h01}},
		{2, []int{0, 1}, []byte{0x07}, [][32]byte{t[0], t[1]}},
		{3, []int{2}, []byte{0x0d}, [][32]byte{h01, t[2]}},
		{3, []int{0}, []byte{0x07}, [][32]byte{t[0], t[1], h22}},
		{5, []int{4}, []byte{0x1d}, [][32]byte{H(h01, h23), t[4]}},
		{5, []int{1, 2}, []byte{0x77, 0x00}, [][32]byte{t[0], t[1], t[2], t[3], H(h44, h44)}},
		{7, []int{0, 6}, []byte{0x4f, 0x03}, [][32]byte{t[0], t[1], h23, h45, t[6]}},
		{7, nil, []byte{0x00}, [][32]byte{roots[7]}},
		// 7 leaves all matched: 4+... nodes visited = 1+2+4+7 = 14 bits, all ones
		{7, []int{0, 1, 2, 3, 4, 5, 6}, []byte{0xff, 0x3f}, [][32]byte{t[0], t[1], t[2], t[3], t[4], t[5], t[6]}},
	}
	const max = 1 << 21
	for _, v := range vecs {
		m := make([]bool, v.n)
		var wantH [][32]byte
		var wantP []uint32
		for _, i := range v.matched {
			m[i] = true
			wantH = append(wantH, t[i])
			wantP = append(wantP, uint32(i))
		}
		pm := BuildPartialMerkle(t[:v.n], m)
		if pm.Count != uint32(v.n) || !bytes.Equal(pm.Flags, v.flags) || !eqHashLists(pm.Hashes, v.hashes) {
			return fmt.Errorf("merkle: build n=%d matched=%v: flags %x hashes %d, want flags %x hashes %d", v.n, v.matched, pm.Flags, len(pm.Hashes), v.flags, len(v.hashes))
		}
		// extract the hand-written message, not the builder's output
		root, mh, mp, err := ExtractPartialMerkle(uint32(v.n), v.hashes, v.flags, max)
		if err != nil || root != roots[v.n] || !eqHashLists(mh, wantH) || !eqU32(mp, wantP) {
			return fmt.Errorf("merkle: extract n=%d matched=%v: err=%v root=%x matches=%d pos=%v", v.n, v.matched, err, root, len(mh), mp)
		}
	}
	// round trip, all subsets for n <= 9 and pseudo-random ones beyond
	x := uint64(0x9e3779b97f4a7c15)
	next := func() uint64 { x ^= x << 13; x ^= x >> 7; x ^= x << 17; return x }
	for n := 1; n <= 200; n++ {
		leaves := make([][32]byte, n)
		for i := range leaves {
			leaves[i] = sha256.Sum256([]byte{byte(n), byte(n >> 8), byte(i), byte(i >> 8)})
		}
		want := MerkleRoot(leaves)
		subsets := 1 << uint(n)
		if n > 9 {
			subsets = 24
		}
		for s := 0; s < subsets; s++ {
			m := make([]bool, n)
			var wantH [][32]byte
			var wantP []uint32
			for i := range m {
				if n <= 9 {
					m[i] = s>>uint(i)&1 == 1
				} else {
					switch s {
					case 0:
					case 1:
						m[i] = true
					case 2:
						m[i] = i == n-1
					default:
						m[i] = next()%uint64(s) == 0
					}
				}
				if m[i] {
					wantH = append(wantH, leaves[i])
					wantP = append(wantP, uint32(i))
				}
			}
			pm := BuildPartialMerkle(leaves, m)
			root, mh, mp, err := ExtractPartialMerkle(pm.Count, pm.Hashes, pm.Flags, max)
			if err != nil || root != want || !eqHashLists(mh, wantH) || !eqU32(mp, wantP) {
				return fmt.Errorf("merkle: round trip n=%d subset %d: err=%v", n, s, err)
			}
			// BIP37: at most one flag bit per tree node, one hash per visited undescended node
			if len(pm.Hashes) > n || len(pm.Flags) > (2*n+7)/8+1 {
				return fmt.Errorf("merkle: builder output too large n=%d", n)
			}
		}
	}
	// rejection rules, each on a message that needs exactly that rule
	rej := []struct {
		name   string
		count  uint32
		hashes [][32]byte
		flags  []byte
		want   error
	}{
		{"zero count", 0, [][32]byte{t[0]}, []byte{0x00}, ErrPMNoTx},
		{"count above maximum", max + 1, [][32]byte{t[0]}, []byte{0x00}, ErrPMTooManyTx},
		{"more hashes than transactions", 1, [][32]byte{t[0], t[1]}, []byte{0x01}, ErrPMHashesGtTx},
		{"fewer bits than hashes", 16, append(append([][32]byte(nil), t...), t[0]), []byte{0xff}, ErrPMBitsLtHashes},
		{"no flags", 1, nil, nil, ErrPMOutOfBits},
		{"out of bits", 7, t[:7], []byte{0xff}, ErrPMOutOfBits},
		{"out of hashes", 2, [][32]byte{t[0]}, []byte{0x05}, ErrPMOutOfHashes},
		{"unused hash", 2, [][32]byte{h01, t[1]}, []byte{0x00}, ErrPMUnusedHash},
		{"unused flag byte", 2, [][32]byte{h01}, []byte{0x00, 0x00}, ErrPMUnusedByte},
		{"equal leaves", 2, [][32]byte{t[0], t[0]}, []byte{0x07}, ErrPMEqualChild},
		{"equal inner hashes", 4, [][32]byte{h01, h01}, []byte{0x01}, ErrPMEqualChild},
		{"CVE-2012-2459: 3 leaves presented as 4", 4, [][32]byte{h01, t[2], t[2]}, []byte{0x1d}, ErrPMEqualChild},
	}
	for _, r := range rej {
		if _, _, _, err := ExtractPartialMerkle(r.count, r.hashes, r.flags, max); err != r.want {
			return fmt.Errorf("merkle: rejection %q: got %v want %v", r.name, err, r.want)
		}
	}
	// accepted at the maximum itself, padding bits are free
	if root, _, _, err := ExtractPartialMerkle(max, [][32]byte{t[0]}, []byte{0xfe}, max); err != nil || root != t[0] {
		return fmt.Errorf("merkle: count == maximum with set padding bits: %v", err)
	}
	// honest counterpart of the CVE message is fine and has the same root
	if root, _, _, err := ExtractPartialMerkle(3, [][32]byte{h01, t[2]}, []byte{0x0d}, max); err != nil || root != roots[3] {
		return fmt.Errorf("merkle: honest 3-leaf proof: %v", err)
	}
	// gettxoutproof vectors
	for _, v := range []struct {
		proof, root string
		txids       []string
		count       uint32
	}{
		{"000000204d8a8dde721f22cc65d112aba0c86823efffd651bbc0fe951f7fdc7300000000e7d6252276842166fbd03c98a3a6624055b9a794feb488aaae2c28a03dc18985eefcf15bffff001d0410040004000000040c8c15b6b2fe8d9cd6dcbed293d76846fb52c4e8d149a7a1db434865d5b758f9c8408341141f00cac4c982698e3261ec109f76b5b47753f9d29394f53c83165df1a42874ce31111c17559ec60aa5bee565829537b6f047adf04fec327b67ae777836959f34be934b81d99ac4510ef2b58120a5aac7ac33169c4177009c92e0ff017f",
			"8589c13da0282caeaa88b4fe94a7b9554062a6a3983cd0fb662184762225d6e7",
			[]string{"f958b7d5654843dba1a749d1e8c452fb4668d793d2bedcd69c8dfeb2b6158c0c", "5d16833cf59493d2f95377b4b5769f10ec61328e6982c9c4ca001f14418340c8",
				"77ae677b32ec4ff0ad47f0b637958265e5bea50ac69e55171c1131ce7428a4f1", "ffe0929c0077419c1633acc7aaa52081b5f20e51c49ad9814b93be349f953678"}, 4},
		{"000000206f6383eb819fb001adbefba13e9adf9f5161267aec45960cfa010000000000008146fcc81f8a7c96027763bca989b2fcd2c4b98bafb0623a4903bdf9bbd27982787ee65bffff001dc6cf78c634000000098507a8580c7705cb3387146e84e89d5bcaa05a63f42de20135da73ad241a44aa2e229189457d4c24be5399abb13f8eeebb84e03737034d5ff34fddec918e984ccb09f770698f9eb555e1a8e49d2454a2bf0932dbe7a9dd00ff7b34d25ab53f7e66d1aeaee6d5c529f8efdb08c8967bb5e645a2445da97e6f4113b19e15e7944503304658ae08ac041aabcdab6f659e8014f6354ed46e2e96d6d52f0613666c8bb1aecf6d0ad5bcc1570d375c40b0136f1435e58927feb1b56700f7817636e729d54d27cd30958f152473db08484317999c51c049bd730663c77eeac101e9561651061a0c49d6b84ce26461811397b07da782fd8558865453392e92618ca59e14592829d43e020c272a11e3ea201d14a5d7d661940884c9444f0dd86da4897b2103fdf002",
			"8279d2bbf9bd03493a62b0af8bb9c4d2fcb289a9bc637702967c8a1fc8fc4681",
			[]string{"4c988e91ecdd4ff35f4d033737e084bbee8e3fb1ab9953be244c7d458991222e", "149ea58c61922e395354865885fd82a77db09713816164e24cb8d6490c1a0651"}, 52},
	} {
		raw := unhex(v.proof)
		hdr, pm, err := ParseMerkleBlock(raw)
		if err != nil {
			return fmt.Errorf("merkle: vector parse: %v", err)
		}
		if !bytes.Equal(SerializeMerkleBlock(hdr, pm), raw) {
			return fmt.Errorf("merkle: vector re-serialisation differs")
		}
		root, mh, mp, err := ExtractPartialMerkle(pm.Count, pm.Hashes, pm.Flags, max)
		if err != nil || pm.Count != v.count || root != revHex32(v.root) || !bytes.Equal(root[:], hdr[36:68]) || len(mh) != len(v.txids) || len(mp) != len(mh) {
			return fmt.Errorf("merkle: vector (count %d): err=%v root=%x matches=%d", v.count, err, root, len(mh))
		}
		for i, s := range v.txids {
			if mh[i] != revHex32(s) {
				return fmt.Errorf("merkle: vector (count %d): match %d = %x", v.count, i, mh[i])
			}
			if i > 0 && mp[i] <= mp[i-1] {
				return fmt.Errorf("merkle: vector positions not increasing: %v", mp)
			}
		}
		if v.count == 4 { // all four transactions proven: the hashes are the block's transactions
			if MerkleRoot(pm.Hashes) != root || !eqU32(mp, []uint32{0, 1, 2, 3}) {
				return fmt.Errorf("merkle: 4-tx vector: full root mismatch")
			}
			m := []bool{true, true, true, true}
			if b := BuildPartialMerkle(pm.Hashes, m); !bytes.Equal(b.Flags, pm.Flags) || !eqHashLists(b.Hashes, pm.Hashes) {
				return fmt.Errorf("merkle: 4-tx vector: builder output %x differs from the node's %x", b.Flags, pm.Flags)
			}
		}
	}
	return nil
}

func eqHashLists(a, b [][32]byte) bool {
	if len(a) != len(b) {
		return false
	}
	for i := range a {
		if a[i] != b[i] {
			return false
		}
	}
	return true
}

func eqU32(a, b []uint32) bool {
	if len(a) != len(b) {
		return false
	}
	for i := range a {
		if a[i] != b[i] {
			return false
		}
	}
	return true
}
