package ref

import (
	"bytes"
	"encoding/hex"
	"fmt"
	"math/big"
	"strings"
)

func unhex(s string) []byte {
	b, err := hex.DecodeString(s)
	if err != nil {
		panic(err)
	}
	return b
}

// gf32Mul multiplies in GF(32) modulo a^5 + a^3 + 1 (the field of the
// CashAddr BCH code).
func gf32Mul(a, b byte) byte {
	var r byte
	for i := 0; i < 5; i++ {
		if b>>uint(i)&1 == 1 {
			r ^= a
		}
		a <<= 1
		if a&0x20 != 0 {
			a ^= 0x29
		}
	}
	return r & 31
}

// SelfTestCashAddr checks the reference CashAddr against the specification's
// vectors and re-derives the five polymod constants from the generator
// polynomial g(x) = x^8 + {19}x^7 + {3}x^6 + {25}x^5 + {11}x^4 + {25}x^3 +
// {3}x^2 + {19}x + {1}.
func SelfTestCashAddr() error {
	g := []byte{19, 3, 25, 11, 25, 3, 19, 1}
	want := []uint64{0x98f2bc8e61, 0x79b76d99e2, 0xf33e5fb3c4, 0xae2eabe2a8, 0x1e4f43e470}
	for n := 0; n < 5; n++ {
		var c uint64
		for _, co := range g {
			c = c<<5 | uint64(gf32Mul(co, 1<<uint(n)))
		}
		if c != want[n] {
			return fmt.Errorf("cashaddr generator constant %d: derived %#x want %#x", n, c, want[n])
		}
	}
	type vec struct {
		s    string
		typ  int
		hash string
	}
	for _, v := range []vec{
		{"bitcoincash:qpm2qsznhks23z7629mms6s4cwef74vcwvy22gdx6a", 0, "76a04053bda0a88bda5177b86a15c3b29f559873"},
		{"bitcoincash:ppm2qsznhks23z7629mms6s4cwef74vcwvn0h829pq", 1, "76a04053bda0a88bda5177b86a15c3b29f559873"},
		{"bitcoincash:qr6m7j9njldwwzlg9v7v53unlr4jkmx6eylep8ekg2", 0, "F5BF48B397DAE70BE82B3CCA4793F8EB2B6CDAC9"},
		{"bchtest:pr6m7j9njldwwzlg9v7v53unlr4jkmx6eyvwc0uz5t", 1, "F5BF48B397DAE70BE82B3CCA4793F8EB2B6CDAC9"},
		{"bitcoincash:qvch8mmxy0rtfrlarg7ucrxxfzds5pamg73h7370aa87d80gyhqxq5nlegake", 0, "3173EF6623C6B48FFD1A3DCC0CC6489B0A07BB47A37F47CFEF4FE69DE825C060"},
	} {
		i := strings.IndexByte(v.s, ':')
		h := unhex(strings.ToLower(v.hash))
		if got := CashEncode(v.s[:i], v.typ, h); got != v.s[i+1:] {
			return fmt.Errorf("cashaddr encode %s: got %s", v.s, got)
		}
		d, err := CashDecode(v.s)
		if err != nil || !bytes.Equal(d.Hash, h) || int(d.Version>>3) != v.typ {
			return fmt.Errorf("cashaddr decode %s: %v %+v", v.s, err, d)
		}
		if _, err := CashDecode(strings.ToUpper(v.s)); err != nil {
			return fmt.Errorf("cashaddr decode upper %s: %v", v.s, err)
		}
	}
	// checksum-only vectors from the Bitcoin ABC test-suite
	for _, s := range []string{"prefix:x64nx6hz", "p:gpf8m4h7", "bitcoincash:qpzry9x8gf2tvdw0s3jn54khce6mua7lcw20ayyn",
		"bchtest:testnetaddress4d6njnut", "bchreg:555555555555555555555555555555555555555555555udxmlmrz"} {
		i := strings.IndexByte(s, ':')
		sym := make([]byte, 0, len(s))
		for _, c := range s[i+1:] {
			sym = append(sym, byte(strings.IndexRune(CashCharset, c)))
		}
		if CashPolymod(append(CashPrefixExpand(s[:i]), sym...)) != 0 {
			return fmt.Errorf("cashaddr checksum vector %s does not verify", s)
		}
	}
	for _, s := range []string{"prefix:x32nx6hz", "bchreg:555555555555555555555555555555551555555555555udxmlmrz"} {
		i := strings.IndexByte(s, ':')
		sym := make([]byte, 0, len(s))
		for _, c := range s[i+1:] {
			sym = append(sym, byte(strings.IndexRune(CashCharset, c)))
		}
		if CashPolymod(append(CashPrefixExpand(s[:i]), sym...)) == 0 {
			return fmt.Errorf("cashaddr invalid vector %s verifies", s)
		}
	}
	return nil
}

// SelfTestBase58 checks the Base58 / Base58Check reference.
func SelfTestBase58() error {
	for _, v := range [][2]string{
		{"", ""}, {"61", "2g"}, {"626262", "a3gV"}, {"636363", "aPEr"},
		{"73696d706c792061206c6f6e6720737472696e67", "2cFupjhnEsSn59qHXstmK2ffpLv2"},
		{"00eb15231dfceb60925886b67d065299925915aeb172c06647", "1NS17iag9jJgTHD1VXjvLCEnZuQ3rJDE9L"},
		{"516b6fcd0f", "ABnLTmg"}, {"bf4f89001e670274dd", "3SEo3LWLoPntC"}, {"572e4794", "3EFU7m"},
		{"ecac89cad93923c02321", "EJDM8drfXA6uyA"}, {"10c8511e", "Rt5zm"}, {"00000000000000000000", "1111111111"},
		{"000000287fb4cd", "111233QC4"},
	} {
		b := unhex(v[0])
		if got := B58Encode(b); got != v[1] {
			return fmt.Errorf("base58 encode %s: got %s want %s", v[0], got, v[1])
		}
		d, ok := B58Decode(v[1])
		if !ok || !bytes.Equal(d, b) {
			return fmt.Errorf("base58 decode %s: got %x", v[1], d)
		}
	}
	if _, ok := B58Decode("0"); ok {
		return fmt.Errorf("base58 accepted '0'")
	}
	ver, pl, ok := B58CheckDecode("1A1zP1eP5QGefi2DMPTfTL5SLmv7DivfNa")
	if !ok || ver != 0 || hex.EncodeToString(pl) != "62e907b15cbf27d5425399ebf6f0fb50ebb88f18" {
		return fmt.Errorf("base58check genesis address: %v %d %x", ok, ver, pl)
	}
	if B58CheckEncode(0, pl) != "1A1zP1eP5QGefi2DMPTfTL5SLmv7DivfNa" {
		return fmt.Errorf("base58check encode genesis address")
	}
	if B58CheckEncode(5, unhex("76a04053bda0a88bda5177b86a15c3b29f559873")) != "3CWFddi6m4ndiGyKqzYvsFYagqDLPVMTzC" {
		return fmt.Errorf("base58check p2sh vector")
	}
	return nil
}

// SelfTestBech32 checks the BIP173 reference against the BIP's vectors.
func SelfTestBech32() error {
	valid := []string{"A12UEL5L", "a12uel5l",
		"an83characterlonghumanreadablepartthatcontainsthenumber1andtheexcludedcharactersbio1tt5tgs",
		"abcdef1qpzry9x8gf2tvdw0s3jn54khce6mua7lmqqqxw",
		"11qqqqqqqqqqqqqqqqqqqqqqqqqqqqqqqqqqqqqqqqqqqqqqqqqqqqqqqqqqqqqqqqqqqqqqqqqqqqqqqqqqc8247j",
		"split1checkupstagehandshakeupstreamerranterredcaperred2y9e3w", "?1ezyfcl"}
	for _, s := range valid {
		hrp, data, err := Bech32Decode(s)
		if err != nil {
			return fmt.Errorf("bech32 valid vector %q rejected: %v", s, err)
		}
		if Bech32Encode(hrp, data) != strings.ToLower(s) {
			return fmt.Errorf("bech32 re-encode %q", s)
		}
	}
	invalid := []string{"\x201nwldj5", "\x7f1axkwrx", "\x801eym55h",
		"an84characterslonghumanreadablepartthatcontainsthenumber1andtheexcludedcharactersbio1569pvx",
		"pzry9x0s0muk", "1pzry9x0s0muk", "x1b4n0q5v", "li1dgmt3", "de1lg7wt\xff", "A1G7SGD8", "10a06t8", "1qzzfhee"}
	for _, s := range invalid {
		if _, _, err := Bech32Decode(s); err == nil {
			return fmt.Errorf("bech32 invalid vector %q accepted", s)
		}
	}
	hrp, data, err := Bech32Decode("BC1QW508D6QEJXTDG4Y5R3ZARVARY0C5XW7KV8F3T4")
	if err != nil || hrp != "bc" || data[0] != 0 {
		return fmt.Errorf("bech32 segwit vector: %v", err)
	}
	prog, err := Bech32ConvertBits(data[1:], 5, 8, false)
	if err != nil || hex.EncodeToString(prog) != "751e76e8199196d454941c45d1b3a323f1433bd6" {
		return fmt.Errorf("bech32 convertbits segwit vector: %x %v", prog, err)
	}
	back, err := Bech32ConvertBits(prog, 8, 5, true)
	if err != nil || !bytes.Equal(back, data[1:]) {
		return fmt.Errorf("bech32 convertbits 8->5")
	}
	return nil
}

// SelfTestSecp checks curve arithmetic on known multiples of G.
func SelfTestSecp() error {
	g := SecG()
	if !g.OnCurve() {
		return fmt.Errorf("G not on curve")
	}
	two := g.Add(g)
	if fmt.Sprintf("%064X", two.X) != "C6047F9441ED7D6D3045406E95C07CD85C778E4B8CEF3CA7ABAC09B95C709EE5" ||
		fmt.Sprintf("%064X", two.Y) != "1AE168FEA63DC339A3C58419466CEAEEF7F632653266D0E1236431A950CFE52A" {
		return fmt.Errorf("2G wrong")
	}
	three := BaseMul(big.NewInt(3))
	if fmt.Sprintf("%064X", three.X) != "F9308A019258C31049344F85F89D5229B531C845836F99B08601F113BCE036F9" {
		return fmt.Errorf("3G wrong")
	}
	if !g.Mul(SecN).Inf {
		return fmt.Errorf("nG != inf")
	}
	nm1 := new(big.Int).Sub(SecN, big.NewInt(1))
	p := BaseMul(nm1)
	if p.X.Cmp(g.X) != 0 || new(big.Int).Add(p.Y, g.Y).Cmp(SecP) != 0 {
		return fmt.Errorf("(n-1)G != -G")
	}
	k, _ := new(big.Int).SetString("AA5E28D6A97A2479A65527F7290311A3624D4CC0FA1578598EE3C2613BF99522", 16)
	q := BaseMul(k)
	if fmt.Sprintf("%064X", q.X) != "34F9460F0E4F08393D192B3C5133A6BA099AA0AD9FD54EBCCFACDFA239FF49C6" ||
		fmt.Sprintf("%064X", q.Y) != "0B71EA9BD730FD8923F6D25A7A91E7DD7728A960686CB5A901BB419E0F2CA232" {
		return fmt.Errorf("kG vector wrong")
	}
	if r := g.Mul(k); r.X.Cmp(q.X) != 0 || r.Y.Cmp(q.Y) != 0 {
		return fmt.Errorf("Mul and BaseMul disagree")
	}
	l, err := LiftX(q.X, q.Y.Bit(0) == 1)
	if err != nil || l.Y.Cmp(q.Y) != 0 {
		return fmt.Errorf("LiftX wrong")
	}
	return nil
}

// SelfTestBIP32 checks the BIP32 reference on the BIP's test vectors 1-3.
func SelfTestBIP32() error {
	xprv := [4]byte{0x04, 0x88, 0xad, 0xe4}
	xpub := [4]byte{0x04, 0x88, 0xb2, 0x1e}
	type step struct {
		idx       uint32
		pub, priv string
	}
	run := func(seed string, masterPub, masterPriv string, steps []step) error {
		k, err := NewMasterRef(unhex(seed), xprv)
		if err != nil {
			return err
		}
		if k.String() != masterPriv || k.Neuter(xpub).String() != masterPub {
			return fmt.Errorf("bip32 master mismatch for seed %s: %s", seed, k.String())
		}
		for _, s := range steps {
			pubParent := k.Neuter(xpub)
			k, err = k.Child(s.idx)
			if err != nil {
				return err
			}
			if k.String() != s.priv || k.Neuter(xpub).String() != s.pub {
				return fmt.Errorf("bip32 child %d mismatch: %s", s.idx, k.String())
			}
			if s.idx < HardenedStart {
				pc, err := pubParent.Child(s.idx)
				if err != nil || pc.String() != s.pub {
					return fmt.Errorf("bip32 public derivation %d mismatch", s.idx)
				}
			}
			r, err := ParseXKey(s.priv)
			if err != nil || r.String() != s.priv {
				return fmt.Errorf("bip32 parse round trip: %v", err)
			}
			r, err = ParseXKey(s.pub)
			if err != nil || r.String() != s.pub {
				return fmt.Errorf("bip32 parse pub round trip: %v", err)
			}
		}
		return nil
	}
	H := uint32(HardenedStart)
	if err := run("000102030405060708090a0b0c0d0e0f",
		"xpub661MyMwAqRbcFtXgS5sYJABqqG9YLmC4Q1Rdap9gSE8NqtwybGhePY2gZ29ESFjqJoCu1Rupje8YtGqsefD265TMg7usUDFdp6W1EGMcet8",
		"xprv9s21ZrQH143K3QTDL4LXw2F7HEK3wJUD2nW2nRk4stbPy6cq3jPPqjiChkVvvNKmPGJxWUtg6LnF5kejMRNNU3TGtRBeJgk33yuGBxrMPHi",
		[]step{
			{H, "xpub68Gmy5EdvgibQVfPdqkBBCHxA5htiqg55crXYuXoQRKfDBFA1WEjWgP6LHhwBZeNK1VTsfTFUHCdrfp1bgwQ9xv5ski8PX9rL2dZXvgGDnw", "xprv9uHRZZhk6KAJC1avXpDAp4MDc3sQKNxDiPvvkX8Br5ngLNv1TxvUxt4cV1rGL5hj6KCesnDYUhd7oWgT11eZG7XnxHrnYeSvkzY7d2bhkJ7"},
			{1, "xpub6ASuArnXKPbfEwhqN6e3mwBcDTgzisQN1wXN9BJcM47sSikHjJf3UFHKkNAWbWMiGj7Wf5uMash7SyYq527Hqck2AxYysAA7xmALppuCkwQ", "xprv9wTYmMFdV23N2TdNG573QoEsfRrWKQgWeibmLntzniatZvR9BmLnvSxqu53Kw1UmYPxLgboyZQaXwTCg8MSY3H2EU4pWcQDnRnrVA1xe8fs"},
			{H + 2, "xpub6D4BDPcP2GT577Vvch3R8wDkScZWzQzMMUm3PWbmWvVJrZwQY4VUNgqFJPMM3No2dFDFGTsxxpG5uJh7n7epu4trkrX7x7DogT5Uv6fcLW5", "xprv9z4pot5VBttmtdRTWfWQmoH1taj2axGVzFqSb8C9xaxKymcFzXBDptWmT7FwuEzG3ryjH4ktypQSAewRiNMjANTtpgP4mLTj34bhnZX7UiM"},
			{2, "xpub6FHa3pjLCk84BayeJxFW2SP4XRrFd1JYnxeLeU8EqN3vDfZmbqBqaGJAyiLjTAwm6ZLRQUMv1ZACTj37sR62cfN7fe5JnJ7dh8zL4fiyLHV", "xprvA2JDeKCSNNZky6uBCviVfJSKyQ1mDYahRjijr5idH2WwLsEd4Hsb2Tyh8RfQMuPh7f7RtyzTtdrbdqqsunu5Mm3wDvUAKRHSC34sJ7in334"},
			{1000000000, "xpub6H1LXWLaKsWFhvm6RVpEL9P4KfRZSW7abD2ttkWP3SSQvnyA8FSVqNTEcYFgJS2UaFcxupHiYkro49S8yGasTvXEYBVPamhGW6cFJodrTHy", "xprvA41z7zogVVwxVSgdKUHDy1SKmdb533PjDz7J6N6mV6uS3ze1ai8FHa8kmHScGpWmj4WggLyQjgPie1rFSruoUihUZREPSL39UNdE3BBDu76"},
		}); err != nil {
		return err
	}
	if err := run("fffcf9f6f3f0edeae7e4e1dedbd8d5d2cfccc9c6c3c0bdbab7b4b1aeaba8a5a29f9c999693908d8a8784817e7b7875726f6c696663605d5a5754514e4b484542",
		"xpub661MyMwAqRbcFW31YEwpkMuc5THy2PSt5bDMsktWQcFF8syAmRUapSCGu8ED9W6oDMSgv6Zz8idoc4a6mr8BDzTJY47LJhkJ8UB7WEGuduB",
		"xprv9s21ZrQH143K31xYSDQpPDxsXRTUcvj2iNHm5NUtrGiGG5e2DtALGdso3pGz6ssrdK4PFmM8NSpSBHNqPqm55Qn3LqFtT2emdEXVYsCzC2U",
		[]step{
			{0, "xpub69H7F5d8KSRgmmdJg2KhpAK8SR3DjMwAdkxj3ZuxV27CprR9LgpeyGmXUbC6wb7ERfvrnKZjXoUmmDznezpbZb7ap6r1D3tgFxHmwMkQTPH", "xprv9vHkqa6EV4sPZHYqZznhT2NPtPCjKuDKGY38FBWLvgaDx45zo9WQRUT3dKYnjwih2yJD9mkrocEZXo1ex8G81dwSM1fwqWpWkeS3v86pgKt"},
			{H + 2147483647, "xpub6ASAVgeehLbnwdqV6UKMHVzgqAG8Gr6riv3Fxxpj8ksbH9ebxaEyBLZ85ySDhKiLDBrQSARLq1uNRts8RuJiHjaDMBU4Zn9h8LZNnBC5y4a", "xprv9wSp6B7kry3Vj9m1zSnLvN3xH8RdsPP1Mh7fAaR7aRLcQMKTR2vidYEeEg2mUCTAwCd6vnxVrcjfy2kRgVsFawNzmjuHc2YmYRmagcEPdU9"},
			{1, "xpub6DF8uhdarytz3FWdA8TvFSvvAh8dP3283MY7p2V4SeE2wyWmG5mg5EwVvmdMVCQcoNJxGoWaU9DCWh89LojfZ537wTfunKau47EL2dhHKon", "xprv9zFnWC6h2cLgpmSA46vutJzBcfJ8yaJGg8cX1e5StJh45BBciYTRXSd25UEPVuesF9yog62tGAQtHjXajPPdbRCHuWS6T8XA2ECKADdw4Ef"},
			{H + 2147483646, "xpub6ERApfZwUNrhLCkDtcHTcxd75RbzS1ed54G1LkBUHQVHQKqhMkhgbmJbZRkrgZw4koxb5JaHWkY4ALHY2grBGRjaDMzQLcgJvLJuZZvRcEL", "xprvA1RpRA33e1JQ7ifknakTFpgNXPmW2YvmhqLQYMmrj4xJXXWYpDPS3xz7iAxn8L39njGVyuoseXzU6rcxFLJ8HFsTjSyQbLYnMpCqE2VbFWc"},
			{2, "xpub6FnCn6nSzZAw5Tw7cgR9bi15UV96gLZhjDstkXXxvCLsUXBGXPdSnLFbdpq8p9HmGsApME5hQTZ3emM2rnY5agb9rXpVGyy3bdW6EEgAtqt", "xprvA2nrNbFZABcdryreWet9Ea4LvTJcGsqrMzxHx98MMrotbir7yrKCEXw7nadnHM8Dq38EGfSh6dqA9QWTyefMLEcBYJUuekgW4BYPJcr9E7j"},
		}); err != nil {
		return err
	}
	// vector 3: leading zeros are retained
	return run("4b381541583be4423346c643850da4b320e46a87ae3d2a4e6da11eba819cd4acba45d239319ac14f863b8d5ab5a0d0c64d2e8a1e7d1457df2e5a3c51c73235be",
		"xpub661MyMwAqRbcEZVB4dScxMAdx6d4nFc9nvyvH3v4gJL378CSRZiYmhRoP7mBy6gSPSCYk6SzXPTf3ND1cZAceL7SfJ1Z3GC8vBgp2epUt13",
		"xprv9s21ZrQH143K25QhxbucbDDuQ4naNntJRi4KUfWT7xo4EKsHt2QJDu7KXp1A3u7Bi1j8ph3EGsZ9Xvz9dGuVrtHHs7pXeTzjuxBrCmmhgC6",
		[]step{{H, "xpub68NZiKmJWnxxS6aaHmn81bvJeTESw724CRDs6HbuccFQN9Ku14VQrADWgqbhhTHBaohPX4CjNLf9fq9MYo6oDaPPLPxSb7gwQN3ih19Zm4Y", "xprv9uPDJpEQgRQfDcW7BkF7eTya6RPxXeJCqCJGHuCJ4GiRVLzkTXBAJMu2qaMWPrS7AANYqdq6vcBcBUdJCVVFceUvJFjaPdGZ2y9WACViL4L"}})
}

// SelfTestMurmur checks MurmurHash3_x86_32 on widely published vectors.
func SelfTestMurmur() error {
	for _, v := range []struct {
		seed uint32
		data string
		want uint32
	}{
		{0, "", 0}, {1, "", 0x514E28B7}, {0xffffffff, "", 0x81F16F39}, {0, "ffffffff", 0x76293B50},
		{0, "21436587", 0xF55B516B}, {0x5082EDEE, "21436587", 0x2362F9DE}, {0, "214365", 0x7E4A8634},
		{0, "2143", 0xA0F7B07A}, {0, "21", 0x72661CF4}, {0, "00000000", 0x2362F9DE}, {0, "000000", 0x85F0B427},
		{0, "0000", 0x30F4C306}, {0, "00", 0x514E28B7},
		// Bitcoin Core hash_tests.cpp
		{0x00000000, "", 0x00000000}, {0xFBA4C795, "", 0x6a396f08}, {0xffffffff, "", 0x81f16f39},
		{0x00000000, "00", 0x514e28b7}, {0xFBA4C795, "00", 0xea3f0b17}, {0x00000000, "ff", 0xfd6cf10d},
		{0x00000000, "0011", 0x16c6b7ab}, {0x00000000, "001122", 0x8eb51c3d}, {0x00000000, "00112233", 0xb4471bf8},
		{0x00000000, "0011223344", 0xe2301fa8}, {0x00000000, "001122334455", 0xfc2e4a15},
		{0x00000000, "00112233445566", 0xb074502c}, {0x00000000, "0011223344556677", 0x8034d2a0},
		{0x00000000, "001122334455667788", 0xb4698def},
	} {
		if got := Murmur3(v.seed, unhex(v.data)); got != v.want {
			return fmt.Errorf("murmur3(%#x,%s) = %#x want %#x", v.seed, v.data, got, v.want)
		}
	}
	return nil
}

// SelfTestSipHash checks SipHash-2-4 on vectors from the reference
// implementation (key 00..0f, message 00..len-1).
func SelfTestSipHash() error {
	var key [16]byte
	for i := range key {
		key[i] = byte(i)
	}
	want := map[int]uint64{0: 0x726fdb47dd0e0e31, 1: 0x74f839c593dc67fd, 2: 0x0d6c8009d9a94f5a, 3: 0x85676696d7fb7e2d,
		4: 0xcf2794e0277187b7, 5: 0x18765564cd99a68d, 6: 0xcbc9466e58fee3ce, 7: 0xab0200f58b01d137,
		8: 0x93f5f5799a932462, 15: 0xa129ca6149be45e5}
	msg := make([]byte, 64)
	for i := range msg {
		msg[i] = byte(i)
	}
	for n, w := range want {
		if got := SipHash24(key, msg[:n]); got != w {
			return fmt.Errorf("siphash len %d = %#x want %#x", n, got, w)
		}
	}
	return nil
}

// SelfTestGolomb checks the bit writer/reader pair on a hand-computed case.
func SelfTestGolomb() error {
	// values 5, 9 with P=2: deltas 5 (q=1,r=1) and 4 (q=1,r=0) -> bits 10 01 10 00 -> 0x98
	var w BitWriter
	for _, d := range []uint64{5, 4} {
		for q := d >> 2; q > 0; q-- {
			w.WriteBit(true)
		}
		w.WriteBit(false)
		w.WriteBits(d, 2)
	}
	if !bytes.Equal(w.Buf, []byte{0x98}) {
		return fmt.Errorf("golomb writer: %x", w.Buf)
	}
	vals := GCSDecodeValues(w.Buf, 2, 2)
	if len(vals) != 2 || vals[0] != 5 || vals[1] != 9 {
		return fmt.Errorf("golomb reader: %v", vals)
	}
	if !bytes.Equal(CompactSize(0xfc), []byte{0xfc}) || !bytes.Equal(CompactSize(0xfd), []byte{0xfd, 0xfd, 0}) ||
		!bytes.Equal(CompactSize(0x10000), []byte{0xfe, 0, 0, 1, 0}) {
		return fmt.Errorf("compactsize")
	}
	return nil
}
