// vcheck is the driver of the runtime-monitoring checks: supervisor and child
// in one binary.
package main

import (
	"encoding/json"
	"flag"
	"fmt"
	"os"
	"os/exec"
	"path/filepath"
	"runtime"
	"strconv"
	"strings"

	"verif/internal/vf"
	"verif/props"
)

func main() {
	var (
		child   = flag.Bool("child", false, "run as child")
		propID  = flag.String("prop", "", "property id")
		tierS   = flag.String("tier", "quick", "quick|thorough")
		seed    = flag.Uint64("seed", 1, "VERIF_SEED")
		stream  = flag.String("stream", "", "stream name (child) / comma list (supervisor)")
		from    = flag.Int("from", 0, "")
		to      = flag.Int("to", 0, "")
		only    = flag.Int("only", -1, "")
		workers = flag.Int("workers", 0, "")
		work    = flag.String("work", "", "")
		shard   = flag.Int("shard", 0, "")
		skip    = flag.String("skip", "", "")
		root    = flag.String("root", "/verif", "")
		exe     = flag.String("exe", "", "plain child binary")
		raceExe = flag.String("race-exe", "", "race child binary")
		exe386  = flag.String("exe386", "", "GOARCH=386 child binary")
		replay  = flag.String("replay", "", "replay file")
		list    = flag.Bool("list", false, "list properties and whether they need the race build")
	)
	flag.Parse()
	if *list {
		for _, p := range props.All() {
			race, a386 := false, false
			for _, s := range p.Streams {
				race = race || s.Race
				a386 = a386 || s.Arch386
			}
			fmt.Printf("%s race=%v streams=%d arch386=%v\n", p.ID, race, len(p.Streams), a386)
		}
		return
	}
	tier := vf.Quick
	if *tierS == "thorough" {
		tier = vf.Thorough
	}
	var p *vf.Property
	find := func(id string) {
		for _, q := range props.All() {
			if q.ID == id {
				p = q
			}
		}
	}
	if *replay != "" {
		b, err := os.ReadFile(*replay)
		if err != nil {
			fmt.Println("cannot read replay file:", err)
			os.Exit(2)
		}
		var v vf.Violation
		if err := json.Unmarshal(b, &v); err != nil {
			fmt.Println("bad replay file:", err)
			os.Exit(2)
		}
		find(v.Property)
		if p == nil {
			fmt.Println("unknown property", v.Property)
			os.Exit(2)
		}
		if v.Index < 0 {
			fmt.Printf("replay: %s is a process-level witness (race report / crash log), see:\n%s\n", v.Key, v.Msg)
			os.Exit(1)
		}
		t := vf.Quick
		if v.Tier == "thorough" {
			t = vf.Thorough
		}
		for _, st := range p.Streams {
			if st.Name == v.Stream && st.Arch386 && runtime.GOARCH != "386" {
				// the witness belongs to a stream that runs in the GOARCH=386 build
				self, _ := os.Executable()
				alt := filepath.Join(filepath.Dir(self), "vcheck-386")
				if _, err := os.Stat(alt); err != nil {
					fmt.Println("replay needs the GOARCH=386 build next to this binary:", alt)
					os.Exit(2)
				}
				cmd := exec.Command(alt, "-replay", *replay)
				cmd.Stdout, cmd.Stderr = os.Stdout, os.Stderr
				if err := cmd.Run(); err != nil {
					if ee, ok := err.(*exec.ExitError); ok {
						os.Exit(ee.ExitCode())
					}
					os.Exit(2)
				}
				os.Exit(0)
			}
		}
		fmt.Printf("replaying %s stream=%s index=%d seed=%d tier=%s\nrecorded: %s\n", v.Key, v.Stream, v.Index, v.Seed, v.Tier, v.Msg)
		os.Exit(vf.RunChild(p, vf.ChildArgs{Prop: p.ID, Tier: t, Seed: v.Seed, Stream: v.Stream, Only: v.Index, Workers: 1, Replay: true}))
	}
	find(*propID)
	if p == nil {
		fmt.Println("unknown property", *propID)
		os.Exit(2)
	}
	if *child {
		sk := map[int]bool{}
		if *skip != "" {
			for _, s := range strings.Split(*skip, ",") {
				n, _ := strconv.Atoi(s)
				sk[n] = true
			}
		}
		os.Exit(vf.RunChild(p, vf.ChildArgs{Prop: p.ID, Tier: tier, Seed: *seed, Stream: *stream, From: *from, To: *to,
			Only: *only, Workers: *workers, Work: *work, Shard: *shard, Skip: sk}))
	}
	os.Exit(vf.Supervise(vf.SupArgs{Prop: p, Tier: tier, Seed: *seed, Root: *root, Exe: *exe, RaceExe: *raceExe, Exe386: *exe386, Streams: *stream}))
}
