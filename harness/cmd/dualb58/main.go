// Command dualb58 is a one-off workload generator for C01/C02: it searches
// 20-byte hashes whose CashAddr payload string (bare, lower case, as the
// specification prescribes it for a given prefix and type) is ALSO a valid
// Base58Check string - a string that is valid under two formats at once.
// The 34 payload symbols are drawn from the characters that are Base58 digits
// as well (everything but '0' and 'l'), the eight checksum symbols must fall
// into that set by themselves (0.6), and then the 32-bit Base58Check checksum
// must match: about 7e9 candidates per witness.  Output:
// props/dualb58_table.go.  Every entry is re-verified by the references
// before it is used.
//
//	go run ./cmd/dualb58 > props/dualb58_table.go
package main

import (
	"crypto/sha256"
	"fmt"
	"math/big"
	"math/bits"
	"os"
	"runtime"
	"strings"
	"sync"
	"sync/atomic"

	"verif/internal/ref"
)

const b58 = "123456789ABCDEFGHJKLMNPQRSTUVWXYZabcdefghijkmnopqrstuvwxyz"

var gen = [5]uint64{0x98f2bc8e61, 0x79b76d99e2, 0xf33e5fb3c4, 0xae2eabe2a8, 0x1e4f43e470}

func step(c uint64, d byte) uint64 {
	c0 := byte(c >> 35)
	c = (c&0x07ffffffff)<<5 ^ uint64(d)
	for i := 0; i < 5; i++ {
		if c0>>uint(i)&1 == 1 {
			c ^= gen[i]
		}
	}
	return c
}

func search(prefix string, typ int) []byte {
	var found atomic.Bool
	var res []byte
	var mu sync.Mutex
	var wg sync.WaitGroup
	var b58idx [32]uint64 // CashAddr symbol -> Base58 digit (0 and 31 are not digits)
	for v := 0; v < 32; v++ {
		b58idx[v] = uint64(strings.IndexByte(b58, ref.CashCharset[v]))
	}
	allowed := []byte{}
	for v := byte(0); v < 32; v++ {
		if v != 15 && v != 31 {
			allowed = append(allowed, v)
		}
	}
	lastAllowed := []byte{0, 4, 8, 12, 16, 20, 24, 28}
	p14 := new(big.Int).Exp(big.NewInt(58), big.NewInt(14), nil)
	for w := 0; w < runtime.NumCPU(); w++ {
		wg.Add(1)
		go func(w int) {
			defer wg.Done()
			seed := uint64(w+1)*0x9e3779b97f4a7c15 ^ uint64(typ)<<40 ^ uint64(len(prefix))<<48
			rnd := func() uint64 {
				seed ^= seed << 13
				seed ^= seed >> 7
				seed ^= seed << 17
				return seed
			}
			sym := make([]byte, 42)
			for !found.Load() {
				// fixed part: symbols 0..27
				sym[0] = byte(typ) // version byte >> 3 = type
				sym[1] = byte(rnd() % 4)
				for j := 2; j < 28; j++ {
					sym[j] = allowed[rnd()%30]
				}
				c := uint64(1)
				for _, d := range ref.CashPrefixExpand(prefix) {
					c = step(c, d)
				}
				for j := 0; j < 28; j++ {
					c = step(c, sym[j])
				}
				// Base58 value of the first 28 characters times 58^14
				hiv := new(big.Int)
				for j := 0; j < 28; j++ {
					hiv.Mul(hiv, big.NewInt(58))
					hiv.Add(hiv, big.NewInt(int64(b58idx[sym[j]])))
				}
				hiv.Mul(hiv, p14)
				var base [32]byte
				hiv.FillBytes(base[:])
				var b0, b1, b2, b3 uint64
				b0 = be64(base[24:])
				b1 = be64(base[16:])
				b2 = be64(base[8:])
				b3 = be64(base[0:])
				var idx [6]int
				for n := 0; n < 30*30*30*30*30*8 && !found.Load(); n++ {
					// odometer over symbols 28..33
					x := n
					for j := 0; j < 5; j++ {
						idx[j] = x % 30
						x /= 30
					}
					idx[5] = x % 8
					cc := c
					for j := 0; j < 5; j++ {
						sym[28+j] = allowed[idx[j]]
						cc = step(cc, sym[28+j])
					}
					sym[33] = lastAllowed[idx[5]]
					cc = step(cc, sym[33])
					for j := 0; j < 8; j++ {
						cc = step(cc, 0)
					}
					cc ^= 1
					ok := true
					for j := 0; j < 8; j++ {
						d := byte(cc >> uint(5*(7-j)) & 31)
						if d == 15 || d == 31 {
							ok = false
							break
						}
						sym[34+j] = d
					}
					if !ok {
						continue
					}
					// low = value of the last 14 characters (fits 128 bits)
					var lo, hi uint64
					for j := 28; j < 42; j++ {
						h1, l1 := bits.Mul64(lo, 58)
						hi = hi*58 + h1
						lo = l1
						var cy uint64
						lo, cy = bits.Add64(lo, b58idx[sym[j]], 0)
						hi += cy
					}
					var r [4]uint64
					var cy uint64
					r[0], cy = bits.Add64(b0, lo, 0)
					r[1], cy = bits.Add64(b1, hi, cy)
					r[2], cy = bits.Add64(b2, 0, cy)
					r[3], _ = bits.Add64(b3, 0, cy)
					var out [32]byte
					put64(out[0:], r[3])
					put64(out[8:], r[2])
					put64(out[16:], r[1])
					put64(out[24:], r[0])
					k := 0
					for k < 32 && out[k] == 0 {
						k++
					}
					b := out[k:]
					if len(b) < 5 {
						continue
					}
					d := sha256.Sum256(b[:len(b)-4])
					d = sha256.Sum256(d[:])
					if d[0] == b[len(b)-4] && d[1] == b[len(b)-3] && d[2] == b[len(b)-2] && d[3] == b[len(b)-1] {
						raw, err := ref.Unpack5to8(sym[:34])
						if err != nil || len(raw) != 21 {
							continue
						}
						if found.CompareAndSwap(false, true) {
							mu.Lock()
							res = append([]byte{}, raw[1:]...)
							mu.Unlock()
						}
					}
				}
			}
		}(w)
	}
	wg.Wait()
	return res
}

func be64(b []byte) uint64 {
	return uint64(b[0])<<56 | uint64(b[1])<<48 | uint64(b[2])<<40 | uint64(b[3])<<32 | uint64(b[4])<<24 | uint64(b[5])<<16 | uint64(b[6])<<8 | uint64(b[7])
}

func put64(b []byte, v uint64) {
	for i := 0; i < 8; i++ {
		b[i] = byte(v >> uint(56-8*i))
	}
}

func main() {
	fmt.Print("// Code generated by cmd/dualb58; DO NOT EDIT.\n\npackage props\n\n")
	fmt.Println("// dualB58 lists hashes whose CashAddr payload string under Prefix and type Typ (0 = P2PKH, 1 = P2SH) is\n// also a valid Base58Check string.")
	fmt.Println("var dualB58 = []struct {\n\tPrefix string\n\tTyp    int\n\tHash   string\n}{")
	for _, e := range []struct {
		p string
		t int
	}{{"bitcoincash", 0}, {"bchtest", 1}, {"bitcoincash", 1}, {"bchreg", 0}} {
		h := search(e.p, e.t)
		// self-check against the reference encoder
		s := ref.CashEncode(e.p, e.t, h)
		if _, _, ok := ref.B58CheckDecode(s); !ok {
			fmt.Fprintf(os.Stderr, "%s/%d: witness does not verify (%s)\n", e.p, e.t, s)
			continue
		}
		fmt.Printf("\t{%q, %d, \"%x\"},\n", e.p, e.t, h)
		fmt.Fprintf(os.Stderr, "%s/%d done: %s\n", e.p, e.t, s)
	}
	fmt.Println("}")
}
