#!/usr/bin/env python3
"""Syntactic mutation campaign: one small mutation of a /repo source file per run, on a scratch copy under /tmp.

usage: mutation_campaign.py <per-file-sample> [seed] [file ...]
For every sampled mutation site: build; run the repository's own suite (a mutant the suite kills is not
"realistic breakage that passes the existing tests" and is only counted); otherwise run the quick checks of the
properties that own the file until one reports a violation.  Results are appended to
/verif/mutation/results.jsonl; survivors need triage (equivalent mutant or gap).  /repo is never touched.
"""
import json, os, random, shutil, subprocess, sys, time, re

ENV = dict(os.environ, GOFLAGS="-mod=mod", GOPROXY="off", GOSUMDB="off", GOTOOLCHAIN="local")
OWNERS = {
    "address.go": ["C01", "C02", "C03", "C08"],
    "base58/base58.go": ["C07", "C01", "C05", "C06"],
    "base58/base58check.go": ["C07", "C02", "C06"],
    "bech32/bech32.go": ["C07", "C03", "C08"],
    "hdkeychain/extendedkey.go": ["C04", "C05", "C15"],
    "wif.go": ["C06"],
    "bloom/filter.go": ["C09", "C10", "C08", "C20"],
    "bloom/merkleblock.go": ["C10", "C11", "C08"],
    "bloom/murmurhash3.go": ["C09"],
    "merkleblock/decode.go": ["C12", "C11"],
    "merkleblock/encode.go": ["C11", "C10", "C08"],
    "gcs/gcs.go": ["C13", "C14", "C08", "C20"],
    "gcs/builder/builder.go": ["C14"],
    "block.go": ["C16", "C08"],
    "tx.go": ["C16"],
    "amount.go": ["C17"],
    "txsort/txsort.go": ["C18"],
    "coinset/coins.go": ["C19"],
}
ROOT = os.path.dirname(os.path.abspath(__file__))
MUT = ROOT + "/.build/mutate"
SCR = "/tmp/mutcamp/repo"
OUT = "/tmp/mutcamp/out"
RES = "/verif/mutation/results.jsonl"

def sh(cmd, cwd=None, timeout=3600, env=None):
    p = subprocess.run(cmd, shell=True, cwd=cwd, env=env or ENV, stdout=subprocess.PIPE, stderr=subprocess.STDOUT, text=True, errors="replace", timeout=timeout)
    return p.returncode, p.stdout

def main():
    per = int(sys.argv[1])
    seed = int(sys.argv[2]) if len(sys.argv) > 2 else 1
    files = sys.argv[3:] or list(OWNERS)
    if not os.path.exists(MUT):
        os.makedirs(ROOT + "/.build", exist_ok=True); sh(f"go build -o {MUT} .", cwd=ROOT + "/mutate")
    shutil.rmtree("/tmp/mutcamp", ignore_errors=True)
    os.makedirs("/tmp/mutcamp")
    sh(f"cp -r /repo {SCR}")
    head = sh("git -C /repo rev-parse --short HEAD")[1].strip()
    done = set()
    if os.path.exists(RES):
        for l in open(RES):
            r = json.loads(l)
            if r.get("repo_head") == head:
                done.add((r["file"], r["index"]))
    rnd = random.Random(seed)
    try:
        for f in files:
            rc, o = sh(f"{MUT} -file /repo/{f} -list")
            sites = [l.split(" ", 1) for l in o.strip().split("\n") if l]
            pick = rnd.sample(range(len(sites)), min(per, len(sites)))
            for idx in sorted(pick):
                if (f, idx) in done:
                    continue
                rec = {"file": f, "index": idx, "site": sites[idx][1], "repo_head": head}
                rc, mutated = sh(f"{MUT} -file /repo/{f} -apply {idx}")
                open(os.path.join(SCR, f), "w").write(mutated)
                t0 = time.time()
                rc, o = sh("go build ./... && go build -tags verif ./...", cwd=SCR)
                if rc != 0:
                    rec["result"] = "does-not-compile"
                else:
                    rc, o = sh("go test -vet=off -count=1 ./...", cwd=SCR, timeout=1800)
                    if rc != 0:
                        rec["result"] = "killed-by-repo-suite"
                    else:
                        rec["result"] = "survived"
                        rec["checks"] = {}
                        for p in OWNERS[f]:
                            env = dict(ENV, VERIF_REPO=SCR, VERIF_OUT=OUT)
                            rc, o = sh(f"{ROOT}/check {p} quick", cwd=ROOT, env=env, timeout=7200)
                            keys = [k for k in re.findall(r"^  key=(\S+)", o, re.M) if re.match(r"^[CT]\d\d/", k)]
                            rec["checks"][p] = {"exit": rc, "keys": keys[:4]}
                            if rc == 1:
                                rec["result"] = "caught"
                                rec["caught_by"] = p
                                break
                            if rc != 0:
                                rec["result"] = "harness-error"
                                rec["output_tail"] = o[-600:]
                                break
                rec["wall_s"] = round(time.time() - t0, 1)
                shutil.copy(f"/repo/{f}", os.path.join(SCR, f))
                shutil.rmtree(OUT, ignore_errors=True)
                with open(RES, "a") as fh:
                    fh.write(json.dumps(rec) + "\n")
                print(f"{f}#{idx} [{rec['site']}] -> {rec['result']} {rec.get('caught_by','')} {rec['wall_s']}s", flush=True)
    finally:
        shutil.rmtree("/tmp/mutcamp", ignore_errors=True)

main()
