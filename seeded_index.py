#!/usr/bin/env python3
"""Regenerate /verif/seeded/INDEX.md from the meta.json files."""
import json, glob, os, re
rows = []
def order(name):
    m = re.match(r"(C\d\d)-(r(\d))?([a-c])", name)
    return (m.group(1), int(m.group(3) or 1), m.group(4))
tot = {}
for d in sorted(glob.glob("/verif/seeded/C*"), key=lambda d: order(os.path.basename(d))):
    name = os.path.basename(d)
    m = json.load(open(d + "/meta.json"))
    prop = m["property"]
    own = m["checks"].get(prop, {})
    keys = ", ".join(re.sub(r"^C\d\d/", "", k) for k in own.get("violation_keys", [])[:3])
    rnd = order(name)[1]
    note = ""
    if m.get("caught"):
        verdict = "caught (exit 1)"
        cls = "strengthened" if m.get("initially_missed") else "at once"
        if m.get("initially_missed"):
            note = "missed at first; " + m.get("check_strengthened", "")
    else:
        verdict = "not caught by " + prop
        others = [p for p, c in m["checks"].items() if p != prop and c.get("exit") == 1]
        cls = "sibling" if others else "not caught"
        if others:
            verdict += "; caught by " + ", ".join(others)
        note = m.get("not_caught_reason", "")
    tot.setdefault(rnd, {}).setdefault(cls, 0)
    tot[rnd][cls] += 1
    rows.append(f"| {name} | {prop} | {verdict} | {keys} | {note} |")
with open("/verif/seeded/INDEX.md", "w") as f:
    f.write("# Seeded changes (confirmed: suite passes with the change, demonstration fails with it and passes without)\n\n")
    f.write("Each directory holds patch.diff, the demonstration, demo_path.txt / demo_cmd.txt, notes.md (the seeding agent's description of what the change needs in order to manifest) and meta.json (what was run and what the quick check reported). Produced by fresh sub-agents that saw only the property text and a scratch worktree. `-r2*` = second round (different agents, after the first round's strengthenings); `-r3*` ... `-r7*` = adversarial rounds (agents were told they face a randomised reference-model checker and asked to evade it); `-r8*` = a last plain round in the continuation session (`-r8a`: agents saw only the property text; `-r8b`: asked for multi-step, memo and aliasing breaks). Patches are against the /repo commit named in meta.json (`repo_head`). Regenerate with `python3 /verif/seeded_index.py`.\n\n")
    f.write("| round | caught at once | caught after strengthening | caught by a sibling property | not caught |\n|---|---|---|---|---|\n")
    for r in sorted(tot):
        t = tot[r]
        f.write(f"| {r} | {t.get('at once',0)} | {t.get('strengthened',0)} | {t.get('sibling',0)} | {t.get('not caught',0)} |\n")
    f.write("\n| change | property | quick check | keys reported | note |\n|---|---|---|---|---|\n")
    f.write("\n".join(rows) + "\n")
print(tot)
